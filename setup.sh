#!/bin/bash
# Builds every check binary once, offline, from files on disk (warms the Go build cache).
set -e
ROOT="$(cd "$(dirname "$0")" && pwd)"
export GOFLAGS=-mod=mod GOPROXY=off GOTOOLCHAIN=auto
unset GOSUMDB
mkdir -p "$ROOT/bin" "$ROOT/evidence"
cd "$ROOT/harness"
[ -f go.sum ] || cp /repo/go.sum go.sum
go build -trimpath -tags verif -o "$ROOT/bin/" ./cmd/...
# overlay builds (scheduler / map-order seams), incl. the -race variant, to warm the build cache
OVL="$ROOT/bin/ovl.setup"
python3 "$ROOT/harness/ovl/gen.py" /repo "$OVL"
go build -trimpath -overlay "$OVL/overlay.json" -tags verif,verifovl -o "$ROOT/bin/conc.ovl" ./cmd/conc
go build -race -trimpath -overlay "$OVL/overlay.json" -tags verif,verifovl -o "$ROOT/bin/conc.ovl.race" ./cmd/conc
rm -rf "$OVL" "$ROOT/bin/conc.ovl" "$ROOT/bin/conc.ovl.race"
ls "$ROOT/bin"

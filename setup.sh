#!/bin/bash
# Builds every check binary once, offline, from files on disk (warms the Go build cache).
set -e
ROOT="$(cd "$(dirname "$0")" && pwd)"
export GOFLAGS=-mod=mod GOPROXY=off GOTOOLCHAIN=auto
unset GOSUMDB
mkdir -p "$ROOT/bin" "$ROOT/evidence"
cd "$ROOT/harness"
cp /repo/go.sum go.sum
go build -trimpath -tags verif -o "$ROOT/bin/" ./cmd/...
ls "$ROOT/bin"

#!/usr/bin/env python3
"""Regenerates the machine-written tables of DESIGN.md (between the AUTOGEN markers) from checks.d, evidence,
known_findings.d, mutants/ and seeded/."""
import json, glob, os, re
root = '/verif'
rows = []
for f in sorted(glob.glob(f'{root}/checks.d/C*.json')):
    c = json.load(open(f)); pid = c['id']
    ev = {}
    try: ev = json.load(open(f'{root}/evidence/{pid}.json'))
    except Exception: pass
    cov = ev.get('coverage', {})
    kf = []
    try: kf = json.load(open(f'{root}/known_findings.d/{pid}.json'))['findings']
    except Exception: pass
    known = sum(1 for e in kf if e['status'] == 'known'); fixed = sum(1 for e in kf if e['status'] == 'fixed')
    muts = [os.path.basename(x)[:-5] for x in sorted(glob.glob(f'{root}/mutants/{pid}/*.diff'))]
    seeded = [os.path.basename(os.path.dirname(x)) for x in sorted(glob.glob(f'{root}/seeded/*/meta.json')) if json.load(open(x)).get('property') == pid]
    rows.append((pid, c['pkg'], cov.get('evaluations', '-'), cov.get('states', '-'), cov.get('distinct_nontrivial', '-'),
                 len(cov.get('outcome_classes', {}) or {}), cov.get('exhaustive', '-'), round(ev.get('wall_s', 0)), known, fixed, len(muts), ', '.join(seeded)))
out = ['| id | family | executions (quick) | states | non-trivial | outcome classes | exhaustive | wall s | known sigs | fixed sigs | own mutants | seeded changes caught |', '|---|---|---|---|---|---|---|---|---|---|---|---|']
for r in rows: out.append('| ' + ' | '.join(str(x) for x in r) + ' |')
table = '\n'.join(out)
p = f'{root}/DESIGN.md'
s = open(p).read()
a, b = '<!-- AUTOGEN:STATUS -->', '<!-- /AUTOGEN:STATUS -->'
if a in s:
    s = s[:s.index(a) + len(a)] + '\n' + table + '\n' + s[s.index(b):]
    open(p, 'w').write(s)
# seeded table
srows = ['| property | seeded change | needs, in order to manifest | result with the registered quick check |', '|---|---|---|---|']
for x in sorted(glob.glob(f'{root}/seeded/*/meta.json')):
    m = json.load(open(x)); v = m.get('coordinator_verification', {})
    clip = lambda t, n: (t[:n] + '…') if len(t) > n else t
    srows.append('| %s | %s | %s | **%s** — %s |' % (m.get('property'), clip(m.get('summary', '').replace('|', '\\|').replace('\n', ' '), 260),
                 clip(m.get('needs_to_manifest', '').replace('|', '\\|').replace('\n', ' '), 220), v.get('verdict', '?'), clip(v.get('result', '').replace('|', '\\|'), 200)))
stable = '\n'.join(srows)
s = open(p).read()
a, b = '<!-- AUTOGEN:SEEDED -->', '<!-- /AUTOGEN:SEEDED -->'
if a in s:
    s = s[:s.index(a) + len(a)] + '\n' + stable + '\n' + s[s.index(b):]
    open(p, 'w').write(s)
print(table)

#!/usr/bin/env python3
"""keep_seeded.py Cxx "<check result line>" [caught|missed-then-strengthened|missed] — copies a verified seeded change from
/tmp/seedout/Cxx to /verif/seeded/Cxx and records what was run."""
import json, os, shutil, sys, glob
pid, result, verdict = sys.argv[1], sys.argv[2], sys.argv[3]
src = sys.argv[4] if len(sys.argv) > 4 else f'/tmp/seedout/{pid}'
dst = f'/verif/seeded/' + (sys.argv[5] if len(sys.argv) > 5 else pid)
os.makedirs(dst, exist_ok=True)
for f in glob.glob(src + '/*'):
    if os.path.getsize(f) < 200000 and not f.endswith('.log') and 'fullsuite' not in f and 'full_suite' not in f:
        shutil.copy(f, dst)
m = json.load(open(dst + '/meta.json'))
m['property'] = pid
m['coordinator_verification'] = {
    'ran': f'tools/verify_seeded.sh {pid}  (scratch worktree of /repo HEAD: demo with patch must fail, without patch must pass; then VERIF_REPO=<worktree> ./run {pid} quick)',
    'result': result, 'verdict': verdict}
json.dump(m, open(dst + '/meta.json', 'w'), indent=1)
print('kept', pid, verdict)

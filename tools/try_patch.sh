#!/bin/bash
# usage: try_patch.sh <Cxx> <patch.diff> [tier]   — applies the patch in a scratch worktree of /repo HEAD, runs the check there,
# prints the verdict lines, removes the worktree. Exit code = the check's exit code (1 = caught).
ID="$1"; PATCH="$(readlink -f "$2")"; TIER="${3:-quick}"
WT="/tmp/trywt.$ID.$$"; OUT="/tmp/tryout.$ID.$$"
git -C /repo worktree add --detach "$WT" HEAD -q || exit 3
trap 'git -C /repo worktree remove --force "$WT" >/dev/null 2>&1; rm -rf "$OUT"' EXIT
if ! git -C "$WT" apply "$PATCH"; then echo "PATCH-DOES-NOT-APPLY"; exit 3; fi
VERIF_REPO="$WT" VERIF_OUT="$OUT" /verif/run "$ID" "$TIER" > "$OUT.log" 2>&1; rc=$?
grep -E "^VIOLATION|^  signature|^KNOWN-FINDING|^HARNESS-ERROR|^BUILD-FAILED|tier=" "$OUT.log" | cut -c1-220 | head -${TRY_LINES:-12}
rm -f "$OUT.log"
echo "exit=$rc"
exit $rc

#!/usr/bin/env python3
"""After REVIEWING the violations a check reports (they must be genuine defects already understood), record every
currently violating signature as a known finding, description = the check's own detail line, optional prefix note.
Also drops `known` entries that are no longer hit in this tier when --prune is given (signature scheme changed).
usage: add_known.py Cxx quick|thorough "note" [--prune]"""
import json, subprocess, sys, re, os
pid, tier, note = sys.argv[1], sys.argv[2], sys.argv[3]
prune = '--prune' in sys.argv
r = subprocess.run(['/verif/run', pid, tier], capture_output=True, text=True)
out = r.stdout
blocks = re.findall(r'^VIOLATION .*\n  signature: (.*)\n  detail: ((?:.*\n)*?)  cases with this signature', out, re.M)
fn = f'/verif/known_findings.d/{pid}.json'
f = json.load(open(fn)) if os.path.exists(fn) else {'findings': []}
have = {e['signature'] for e in f['findings'] if e['property'] == pid}
n = 0
for sig, detail in blocks:
    if sig not in have:
        f['findings'].append({'property': pid, 'signature': sig, 'status': 'known', 'description': (note + ' — e.g. ' + detail.strip())[:900]}); n += 1
if prune:
    hit = set(re.findall(r'^KNOWN-FINDING: property=\S+ (.*) \(\d+ cases\)$', out, re.M)) | {s for s, _ in blocks}
    before = len(f['findings'])
    f['findings'] = [e for e in f['findings'] if not (e['status'] == 'known' and e['signature'] not in hit)]
    print('pruned', before - len(f['findings']))
json.dump(f, open(fn, 'w'), indent=1)
print(pid, tier, 'added', n, 'tail:', out.strip().splitlines()[-1])

#!/usr/bin/env python3
"""After a fix: commit in /repo, re-run the check and turn every `known` entry of the property that is no
longer hit into `fixed` (a fixed entry suppresses nothing). usage: mark_fixed.py Cxx <commit[,commit]>"""
import json, subprocess, sys, os
pid, commits = sys.argv[1], sys.argv[2]
r = subprocess.run(['/verif/run', pid, 'quick'], capture_output=True, text=True)
print(r.stdout[-1500:])
if r.returncode not in (0,):
    print('check exit', r.returncode, '- not editing findings'); sys.exit(1)
ev = json.load(open(f'/verif/evidence/{pid}.json'))
hit = set(ev['coverage'].get('known_findings_hit') or [])
fn = f'/verif/known_findings.d/{pid}.json'
f = json.load(open(fn))
n = 0
for e in f['findings']:
    if e['property'] == pid and e['status'] == 'known' and e['signature'] not in hit:
        e['status'] = 'fixed'; e['commit'] = commits
        if not e['description'].startswith('fixed:'):
            e['description'] = f"fixed: property={pid} {commits} " + e['description']
        n += 1
json.dump(f, open(fn, 'w'), indent=1)
print(f'{pid}: {n} entries marked fixed, {len(hit)} still known')

#!/usr/bin/env python3
"""Run a check; every signature it reports as VIOLATION that is listed as `fixed` becomes `known` again
(used when a fix commit had to be withdrawn). usage: unmark.py Cxx"""
import json, subprocess, sys, re
pid = sys.argv[1]
r = subprocess.run(['/verif/run', pid, 'quick'], capture_output=True, text=True)
sigs = re.findall(r'^  signature: (.*)$', r.stdout, re.M)
print(r.stdout[-600:])
fn = f'/verif/known_findings.d/{pid}.json'
f = json.load(open(fn)); n = 0
for e in f['findings']:
    if e['property'] == pid and e['status'] == 'fixed' and e['signature'] in sigs:
        e['status'] = 'known'; e.pop('commit', None)
        e['description'] = re.sub(r'^fixed: property=\S+ \S+ ', '', e['description']); n += 1
json.dump(f, open(fn, 'w'), indent=1)
print(pid, 'violating signatures:', len(sigs), 'restored to known:', n)

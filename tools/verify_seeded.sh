#!/bin/bash
# usage: verify_seeded.sh <Cxx> [src dir=/tmp/seedout/Cxx]
# 1. demo must FAIL with the patch and PASS without it (in a scratch worktree);  2. builds must succeed;
# 3. runs the check against the patched worktree; prints a JSON-ish summary line. Does not touch /repo.
ID="$1"; SRC="${2:-/tmp/seedout/$ID}"
export GOFLAGS=-mod=mod GOPROXY=off
WT="/tmp/seedwt.$ID.$$"; OUT="/tmp/seedchk.$ID.$$"
[ -f "$SRC/patch.diff" ] && [ -f "$SRC/meta.json" ] || { echo "$ID: incomplete output in $SRC"; exit 3; }
git -C /repo worktree add --detach "$WT" HEAD -q || exit 3
trap 'git -C /repo worktree remove --force "$WT" >/dev/null 2>&1; rm -rf "$OUT" "$OUT.log"' EXIT
CMD=$(jq -r .demo_cmd "$SRC/meta.json" | sed "s#<repo>#$WT#g; s#/repo\b#$WT#g")
RUNDIR="$SRC"; case "$CMD" in *"$WT"*) ;; *) RUNDIR="$WT";; esac
cd "$SRC"
if ! git -C "$WT" apply "$SRC/patch.diff"; then echo "$ID: PATCH-DOES-NOT-APPLY"; exit 3; fi
( cd "$WT" && go build ./... ) >/dev/null 2>&1 || { echo "$ID: patched tree does not build"; exit 3; }
( cd "$RUNDIR" && bash -c "$CMD" ) > "$OUT.demo1" 2>&1; d1=$?
git -C "$WT" apply -R "$SRC/patch.diff"
( cd "$RUNDIR" && bash -c "$CMD" ) > "$OUT.demo2" 2>&1; d2=$?
# remove demo files from the worktree, re-apply the patch, run the check
git -C "$WT" clean -fdq; git -C "$WT" checkout -q -- .; git -C "$WT" apply "$SRC/patch.diff"
VERIF_REPO="$WT" VERIF_OUT="$OUT" /verif/run "$ID" "${TIER:-quick}" > "$OUT.log" 2>&1; rc=$?
nv=$(grep -c "^VIOLATION" "$OUT.log")
echo "$ID: demo_with_patch_rc=$d1 demo_without_patch_rc=$d2 check_exit=$rc violations=$nv"
grep -E "^  signature|^HARNESS-ERROR|^BUILD-FAILED|tier=" "$OUT.log" | cut -c1-200 | head -6
[ $d1 -ne 0 ] && [ $d2 -eq 0 ] || { echo "$ID: DEMO NOT CONFIRMED"; tail -5 "$OUT.demo1" "$OUT.demo2" | cut -c1-200; }
rm -f "$OUT.demo1" "$OUT.demo2"

#!/usr/bin/env python3
"""Regenerates MANIFEST.json from checks.json (one entry per claimed property)."""
import json, subprocess, os
root = os.path.dirname(os.path.abspath(__file__))
checks = json.load(open(os.path.join(root, 'checks.json')))
props = [json.loads(l) for l in open(os.path.join(root, 'properties.jsonl'))]
import glob
checks['checks'] = [json.load(open(f)) for f in sorted(glob.glob(os.path.join(root,'checks.d','C*.json')))]
claimed = {c['id'] for c in checks['checks']}
man = {
 "version": 1,
 "setup_cmd": "cd /verif && ./setup.sh",
 "hooks": {
  "guard": "verif",
  "enable": "./run builds /verif/harness (which replaces github.com/onflow/cadence with /repo's working tree) with -tags verif; there are no hook files in /repo: the only instrumentation (scheduler shims for sync / sync-atomic, map-range order seam; checks C33 and C36) is compiled in by `go build -overlay` generated from the current tree at every run (harness/ovl), build tag verifovl",
  "baseline_off_cmd": "cd /repo && GOFLAGS=-mod=mod go test -json -vet=off -count=1 -timeout 25m ./...",
  "source_commits": checks.get("hook_commits", []),
  "add_only": True
 },
 "engines": checks.get("engines", []),
 "checks": [],
 "notes": checks.get("notes", ""),
 "not_applicable": [],
}
for c in checks['checks']:
    man['checks'].append({
        "property_id": c['id'],
        "quick_cmd": f"./run {c['id']} quick",
        "thorough_cmd": f"./run {c['id']} thorough",
        "evidence_file": f"/verif/evidence/{c['id']}.json",
        "replay_cmd_template": f"./run {c['id']} quick --replay {{path}}",
        "engine": c.get('engine', 'mc'),
        "level_claimed": {"category": "model_checking", "text": c['text'], "design_ref": c.get('design_ref', 'DESIGN.md §3 ' + c['id'])},
        "level_note": c['note'],
        "technique": c['technique'],
    })
na = checks.get('not_applicable', {})
for p in props:
    if p['id'] not in claimed:
        man['not_applicable'].append({"property_id": p['id'], "reason": na.get(p['id'], "check not built yet in this session (planned, see DESIGN.md §3); not claimed until it runs")})
json.dump(man, open(os.path.join(root, 'MANIFEST.json'), 'w'), indent=1)
print(len(man['checks']), 'checks,', len(man['not_applicable']), 'not applicable')

// Command maprange rewrites every `for … range m` over a map in the packages
// under test into a loop over vmaprange.New(m, site) whose key order is decided
// by the harness (C33/C35: Go map iteration order must not be observable).
// It writes rewritten copies and an overlay JSON; the repository is not touched.
//
//	maprange <repo> <outdir>
package main

import (
	"encoding/json"
	"fmt"
	"go/ast"
	"go/token"
	"go/types"
	"os"
	"path/filepath"
	"sort"
	"strings"

	"golang.org/x/tools/go/packages"
)

var patterns = []string{".", "./ast", "./sema", "./interpreter", "./runtime", "./stdlib/...", "./common/...",
	"./bbq/...", "./encoding/...", "./parser/...", "./values", "./errors", "./activations", "./fixedpoint", "./format", "./integer", "./pretty"}

type edit struct {
	start, end int
	text       string
}

func main() {
	repo, _ := filepath.Abs(os.Args[1])
	out, _ := filepath.Abs(os.Args[2])
	os.MkdirAll(out, 0o755)
	cfg := &packages.Config{
		Mode: packages.NeedName | packages.NeedFiles | packages.NeedSyntax | packages.NeedTypes | packages.NeedTypesInfo | packages.NeedImports | packages.NeedDeps,
		Dir:  repo,
		Env:  append(os.Environ(), "GOFLAGS=-mod=mod"),
	}
	pkgs, err := packages.Load(cfg, patterns...)
	if err != nil {
		fmt.Fprintln(os.Stderr, "load:", err)
		os.Exit(1)
	}
	replace := map[string]string{}
	sites := 0
	var siteList []string
	for _, pkg := range pkgs {
		if len(pkg.Errors) > 0 {
			fmt.Fprintln(os.Stderr, "package errors in", pkg.PkgPath, pkg.Errors[0])
			os.Exit(1)
		}
		if strings.Contains(pkg.PkgPath, "/verifshim/") || strings.Contains(pkg.PkgPath, "/test_utils") {
			continue
		}
		for i, f := range pkg.Syntax {
			_ = i
			filename := pkg.Fset.Position(f.Pos()).Filename
			if strings.HasSuffix(filename, "_test.go") || !strings.HasPrefix(filename, repo) {
				continue
			}
			src, err := os.ReadFile(filename)
			if err != nil {
				continue
			}
			var edits []edit
			rel, _ := filepath.Rel(repo, filename)
			ast.Inspect(f, func(n ast.Node) bool {
				rs, ok := n.(*ast.RangeStmt)
				if !ok {
					return true
				}
				tv, ok := pkg.TypesInfo.Types[rs.X]
				if !ok {
					return true
				}
				if _, isMap := tv.Type.Underlying().(*types.Map); !isMap {
					// type parameters constrained to maps are not rewritten
					return true
				}
				pos := pkg.Fset.Position(rs.Pos())
				site := fmt.Sprintf("%s:%d", rel, pos.Line)
				off := func(p token.Pos) int { return pkg.Fset.Position(p).Offset }
				xText := string(src[off(rs.X.Pos()):off(rs.X.End())])
				header := fmt.Sprintf("for __it := vmaprange.New(%s, %q); __it.Next(); ", xText, site)
				var bind string
				isBlank := func(e ast.Expr) bool {
					if e == nil {
						return true
					}
					id, ok := e.(*ast.Ident)
					return ok && id.Name == "_"
				}
				tok := ":="
				if rs.Tok == token.ASSIGN {
					tok = "="
				}
				kT, vT := "", ""
				if !isBlank(rs.Key) {
					kT = string(src[off(rs.Key.Pos()):off(rs.Key.End())])
				}
				if !isBlank(rs.Value) {
					vT = string(src[off(rs.Value.Pos()):off(rs.Value.End())])
				}
				switch {
				case kT != "" && vT != "":
					bind = fmt.Sprintf("%s, %s %s __it.K, __it.V; ", kT, vT, tok)
				case kT != "":
					bind = fmt.Sprintf("%s %s __it.K; ", kT, tok)
				case vT != "":
					bind = fmt.Sprintf("%s %s __it.V; ", vT, tok)
				}
				// replace "for ... range X " up to and including the opening brace of the body
				edits = append(edits, edit{off(rs.Pos()), off(rs.Body.Lbrace) + 1, header + "{ " + bind})
				sites++
				siteList = append(siteList, site)
				return true
			})
			if len(edits) == 0 {
				continue
			}
			sort.Slice(edits, func(a, b int) bool { return edits[a].start > edits[b].start })
			s := string(src)
			for _, e := range edits {
				s = s[:e.start] + e.text + s[e.end:]
			}
			// import right after the package clause
			pkgEnd := pkg.Fset.Position(f.Name.End()).Offset
			s = s[:pkgEnd] + "\n\nimport vmaprange \"github.com/onflow/cadence/verifshim/vmaprange\"\n" + s[pkgEnd:]
			dst := filepath.Join(out, "mr__"+strings.ReplaceAll(rel, string(os.PathSeparator), "__"))
			if err := os.WriteFile(dst, []byte(s), 0o644); err != nil {
				fmt.Fprintln(os.Stderr, err)
				os.Exit(1)
			}
			replace[filename] = dst
		}
	}
	sort.Strings(siteList)
	b, _ := json.MarshalIndent(map[string]any{"Replace": replace, "Sites": siteList}, "", " ")
	os.WriteFile(filepath.Join(out, "maprange.json"), b, 0o644)
	fmt.Fprintf(os.Stderr, "maprange: %d sites rewritten in %d files\n", sites, len(replace))
}

#!/usr/bin/env python3
"""Overlay generator: builds a `go build -overlay` JSON that compiles the repository under test with
 * "sync" / "sync/atomic" imports of the packages under test redirected to scheduler-aware shims
   (virtual packages github.com/onflow/cadence/verifshim/{sched,vsync,vatomic}),
 * optionally (--maprange FILE) map-range loops rewritten by the Go tool ovl/maprange (its output JSON is merged).
The repository itself is not touched. usage: gen.py <repo> <outdir> [--maprange extra.json]"""
import json, os, re, sys

repo = os.path.abspath(sys.argv[1]); out = os.path.abspath(sys.argv[2])
extra = None
if '--maprange' in sys.argv:
    extra = sys.argv[sys.argv.index('--maprange') + 1]
here = os.path.dirname(os.path.abspath(__file__))
SKIP_DIRS = {'tools', 'cmd', 'old_parser', 'compat', 'fuzz', 'npm-packages', 'test_utils', 'docs', 'examples', 'benchmarks', '.git', 'meetings', 'verifshim'}
SKIP_FILES = {'interpreter/debugger.go', 'runtime/coverage.go', 'stdlib/test.go'}
replace = {}
os.makedirs(out, exist_ok=True)
n = 0
for root, dirs, files in os.walk(repo):
    rel = os.path.relpath(root, repo)
    top = rel.split(os.sep)[0]
    if top in SKIP_DIRS:
        dirs[:] = []
        continue
    for f in files:
        if not f.endswith('.go') or f.endswith('_test.go'):
            continue
        p = os.path.join(root, f)
        r = os.path.relpath(p, repo)
        if r in SKIP_FILES:
            continue
        src = open(p, encoding='utf-8').read()
        if '"sync"' not in src and '"sync/atomic"' not in src:
            continue
        new = re.sub(r'(?m)^(\s*)(import\s+)?"sync"\s*$', r'\1\2sync "github.com/onflow/cadence/verifshim/vsync"', src)
        new = re.sub(r'(?m)^(\s*)(import\s+)?"sync/atomic"\s*$', r'\1\2atomic "github.com/onflow/cadence/verifshim/vatomic"', new)
        if new == src:
            continue
        dst = os.path.join(out, r.replace(os.sep, '__'))
        open(dst, 'w', encoding='utf-8').write(new)
        replace[p] = dst
        n += 1
for name in ('sched', 'vsync', 'vatomic', 'vmaprange'):
    src = os.path.join(here, 'files', name + '.go.txt')
    if os.path.exists(src):
        replace[os.path.join(repo, 'verifshim', name, name + '.go')] = src
replace[os.path.join(repo, 'integer', 'verif_getg.go')] = os.path.join(here, 'files', 'getg.go.txt')
replace[os.path.join(repo, 'integer', 'verif_getg_amd64.s')] = os.path.join(here, 'files', 'getg_amd64.s.txt')
if extra:
    e = json.load(open(extra))
    for k, v in e['Replace'].items():
        if k in replace and not k.endswith(('sched.go', 'vsync.go', 'vatomic.go', 'vmaprange.go')):
            # the maprange tool worked on the original file; re-apply the import rewrite to its output
            s = open(v, encoding='utf-8').read()
            s = re.sub(r'(?m)^(\s*)(import\s+)?"sync"\s*$', r'\1\2sync "github.com/onflow/cadence/verifshim/vsync"', s)
            s = re.sub(r'(?m)^(\s*)(import\s+)?"sync/atomic"\s*$', r'\1\2atomic "github.com/onflow/cadence/verifshim/vatomic"', s)
            open(v, 'w', encoding='utf-8').write(s)
        replace[k] = v
json.dump({'Replace': replace}, open(os.path.join(out, 'overlay.json'), 'w'), indent=1)
print(f'overlay: {n} files with sync imports rewritten, {len(replace)} entries', file=sys.stderr)

module verif

go 1.25

require github.com/onflow/cadence v0.0.0

require (
	github.com/bits-and-blooms/bitset v1.24.4 // indirect
	github.com/fxamacker/cbor/v2 v2.9.2-0.20260331174317-a78e92ec038e // indirect
	github.com/fxamacker/circlehash v0.3.0 // indirect
	github.com/klauspost/cpuid/v2 v2.2.0 // indirect
	github.com/logrusorgru/aurora/v4 v4.0.0 // indirect
	github.com/onflow/atree v0.16.1 // indirect
	github.com/onflow/fixed-point v0.1.1 // indirect
	github.com/rivo/uniseg v0.4.7 // indirect
	github.com/texttheater/golang-levenshtein/levenshtein v0.0.0-20200805054039-cae8b0eaed6c // indirect
	github.com/turbolent/prettier v0.0.0-20220320183459-661cc755135d // indirect
	github.com/x448/float16 v0.8.4 // indirect
	github.com/zeebo/blake3 v0.2.4 // indirect
	go.opentelemetry.io/otel v1.38.0 // indirect
	golang.org/x/text v0.31.0 // indirect
	golang.org/x/xerrors v0.0.0-20240903120638-7835f813f4da // indirect
)

replace github.com/onflow/cadence => /repo

// Package mc is the core of the bounded-exhaustive exploration machinery:
// a choice-tree explorer with deviation bounding (E1), helpers for
// explicit-state search (E2, see bfs.go), a parallel driver, and the
// evidence / violation / known-findings reporter shared by every check.
package mc

import (
	"encoding/json"
	"fmt"
	"hash/fnv"
	"os"
	"path/filepath"
	"runtime"
	"runtime/debug"
	"sort"
	"sync"
	"sync/atomic"
	"time"
)

// Check is one registered property check.
type Check struct {
	ID          string
	Rule        string   // how cases are enumerated and what makes one non-trivial
	Assumptions []string // trusted base
	// Run enumerates the bounded space and reports through env.R.
	Run func(env *Env)
	// Replay re-executes one recorded case (as written to a replay file) without
	// the explorer and says whether it still violates the property.
	Replay func(env *Env, c json.RawMessage) (violated bool, detail string)
}

var registry = map[string]*Check{}

func Register(c *Check) {
	if _, ok := registry[c.ID]; ok {
		panic("duplicate check " + c.ID)
	}
	registry[c.ID] = c
}

func Lookup(id string) *Check { return registry[id] }

func IDs() []string {
	var ids []string
	for id := range registry {
		ids = append(ids, id)
	}
	sort.Strings(ids)
	return ids
}

// Env is what a check body sees.
type Env struct {
	Prop     string
	Tier     string // "quick" | "thorough"
	Seed     int64
	Deadline time.Time
	Workers  int
	Root     string // /verif
	R        *Report
	// Sub is an optional sub-selection passed on the command line (worker mode etc).
	Sub string
}

func (e *Env) Thorough() bool { return e.Tier == "thorough" }

// Expired reports whether the internal deadline has passed. A check that stops
// because of it must call R.NotExhaustive.
func (e *Env) Expired() bool { return time.Now().After(e.Deadline) }

// Pick returns q for the quick tier and t for the thorough tier.
func Pick[T any](e *Env, q, t T) T {
	if e.Thorough() {
		return t
	}
	return q
}

// ---------------------------------------------------------------------------
// Report

type violation struct {
	Signature string          `json:"signature"`
	Detail    string          `json:"detail"`
	Case      json.RawMessage `json:"case"`
	Count     int64           `json:"count"`
	NoConfirm bool            `json:"-"`
}

type Report struct {
	prop string

	Evaluations atomic.Int64 // real-code executions
	Transitions atomic.Int64 // real-code transitions (defaults to Evaluations)
	States      atomic.Int64 // distinct states/cases where counted explicitly
	Validated   atomic.Int64 // executions compared against the reference model
	DontCare    atomic.Int64

	mu         sync.Mutex
	nontrivial [64]map[uint64]struct{}
	ntMu       [64]sync.Mutex
	classes    map[string]int64
	samples    []any
	sampleCls  map[string]int
	viol       map[string]*violation
	violOrder  []string
	extra      map[string]any
	exhaustive bool
	capNote    string
	bound      string
	harnessErr []string
	stateSets  [64]map[uint64]struct{}
	stMu       [64]sync.Mutex
}

func NewReport(prop string) *Report {
	r := &Report{prop: prop, classes: map[string]int64{}, sampleCls: map[string]int{},
		viol: map[string]*violation{}, extra: map[string]any{}, exhaustive: true}
	for i := range r.nontrivial {
		r.nontrivial[i] = map[uint64]struct{}{}
		r.stateSets[i] = map[uint64]struct{}{}
	}
	return r
}

func Hash(s string) uint64 {
	h := fnv.New64a()
	h.Write([]byte(s))
	return h.Sum64()
}

// Eval counts one real-code execution that was compared with the oracle.
func (r *Report) Eval() { r.Evaluations.Add(1); r.Validated.Add(1) }

// EvalN counts n executions compared with the oracle.
func (r *Report) EvalN(n int64) { r.Evaluations.Add(n); r.Validated.Add(n) }

// Nontrivial records a distinct case (by key) that exercised the property's mechanism.
func (r *Report) Nontrivial(key string) {
	h := Hash(key)
	i := h & 63
	r.ntMu[i].Lock()
	r.nontrivial[i][h] = struct{}{}
	r.ntMu[i].Unlock()
}

// State records a distinct state/case key; returns true if it was new.
func (r *Report) State(key string) bool {
	h := Hash(key)
	i := h & 63
	r.stMu[i].Lock()
	_, ok := r.stateSets[i][h]
	if !ok {
		r.stateSets[i][h] = struct{}{}
	}
	r.stMu[i].Unlock()
	if !ok {
		r.States.Add(1)
	}
	return !ok
}

// Class counts an observed outcome class (for vacuity detection) and keeps
// up to 3 samples per class, at most 24 in total.
func (r *Report) Class(class string, sample func() any) {
	r.mu.Lock()
	r.classes[class]++
	if sample != nil && r.sampleCls[class] < 2 && len(r.samples) < 24 {
		r.sampleCls[class]++
		r.mu.Unlock()
		s := sample()
		r.mu.Lock()
		r.samples = append(r.samples, map[string]any{"class": class, "case": s})
	}
	r.mu.Unlock()
}

// ClassN adds n observations of class without a sample.
func (r *Report) ClassN(class string, n int64) {
	r.mu.Lock()
	r.classes[class] += n
	r.mu.Unlock()
}

func (r *Report) Sample(s any) {
	r.mu.Lock()
	if len(r.samples) < 24 {
		r.samples = append(r.samples, s)
	}
	r.mu.Unlock()
}

func (r *Report) Set(key string, v any) {
	r.mu.Lock()
	r.extra[key] = v
	r.mu.Unlock()
}

func (r *Report) Add(key string, n int64) {
	r.mu.Lock()
	cur, _ := r.extra[key].(int64)
	r.extra[key] = cur + n
	r.mu.Unlock()
}

// NotExhaustive marks that a cap (deadline, size cap) was hit.
func (r *Report) NotExhaustive(note string) {
	r.mu.Lock()
	r.exhaustive = false
	if r.capNote == "" {
		r.capNote = note
	} else if len(r.capNote) < 400 {
		r.capNote += "; " + note
	}
	r.mu.Unlock()
}

// BoundCompleted records the last fully completed bound.
func (r *Report) BoundCompleted(b string) {
	r.mu.Lock()
	r.bound = b
	r.mu.Unlock()
}

// HarnessError records a defect of the machinery itself (exit 2, never a VIOLATION).
func (r *Report) HarnessError(format string, a ...any) {
	r.mu.Lock()
	if len(r.harnessErr) < 20 {
		r.harnessErr = append(r.harnessErr, fmt.Sprintf(format, a...))
	}
	r.mu.Unlock()
}

// Violation records a property violation. signature names the failing call
// site / operation and structural input class (used for known-findings
// matching and dedup); c is the replayable case.
func (r *Report) Violation(signature string, c any, detail string) {
	r.mu.Lock()
	defer r.mu.Unlock()
	if v, ok := r.viol[signature]; ok {
		v.Count++
		return
	}
	raw, err := json.Marshal(c)
	if err != nil {
		raw, _ = json.Marshal(fmt.Sprintf("%v", c))
	}
	r.viol[signature] = &violation{Signature: signature, Detail: detail, Case: raw, Count: 1}
	r.violOrder = append(r.violOrder, signature)
}

// ViolationNoConfirm is Violation for findings whose report is itself the
// proof and that cannot be re-executed deterministically (a data-race report
// of the race detector in a free-running pass): the 5x replay confirmation is skipped.
func (r *Report) ViolationNoConfirm(signature string, c any, detail string) {
	r.Violation(signature, c, detail)
	r.mu.Lock()
	if v, ok := r.viol[signature]; ok {
		v.NoConfirm = true
	}
	r.mu.Unlock()
}

func (r *Report) ViolationCount() int {
	r.mu.Lock()
	defer r.mu.Unlock()
	return len(r.viol)
}

// ---------------------------------------------------------------------------
// Known findings

type Finding struct {
	Property    string `json:"property"`
	Signature   string `json:"signature"`
	Status      string `json:"status"` // "known" | "fixed"
	Commit      string `json:"commit,omitempty"`
	Description string `json:"description"`
}

type findingsFile struct {
	Findings []Finding `json:"findings"`
}

func loadFindings(root string) []Finding {
	var all []Finding
	files, _ := filepath.Glob(filepath.Join(root, "known_findings.d", "*.json"))
	files = append([]string{filepath.Join(root, "known_findings.json")}, files...)
	for _, fn := range files {
		b, err := os.ReadFile(fn)
		if err != nil {
			continue
		}
		var f findingsFile
		if err := json.Unmarshal(b, &f); err != nil {
			fmt.Fprintf(os.Stderr, "%s: %v\n", fn, err)
			os.Exit(2)
		}
		all = append(all, f.Findings...)
	}
	return all
}

// ---------------------------------------------------------------------------
// Running a check

type replayFile struct {
	Property  string          `json:"property"`
	Signature string          `json:"signature"`
	Detail    string          `json:"detail"`
	Case      json.RawMessage `json:"case"`
}

// RunCheck runs a check and returns the process exit code.
func RunCheck(c *Check, tier string, seed int64, root string, sub string) int {
	start := time.Now()
	budget := 150 * time.Second
	if tier == "thorough" {
		budget = 25 * time.Minute
	}
	if s := os.Getenv("VERIF_BUDGET_S"); s != "" {
		var n int
		fmt.Sscan(s, &n)
		if n > 0 {
			budget = time.Duration(n) * time.Second
		}
	}
	env := &Env{Prop: c.ID, Tier: tier, Seed: seed, Deadline: start.Add(budget),
		Workers: runtime.NumCPU(), Root: root, R: NewReport(c.ID), Sub: sub}
	if s := os.Getenv("VERIF_WORKERS"); s != "" {
		fmt.Sscan(s, &env.Workers)
	}
	func() {
		defer func() {
			if p := recover(); p != nil {
				env.R.HarnessError("check body panicked: %v\n%s", p, debug.Stack())
			}
		}()
		c.Run(env)
	}()
	return Finish(c, env, start)
}

// Finish confirms violations, matches known findings, writes evidence and
// replay files, prints the verdict lines and returns the exit code.
func Finish(c *Check, env *Env, start time.Time) int {
	r := env.R
	known := loadFindings(env.Root)
	exit := 0
	newViol := 0
	var knownHit []string
	r.mu.Lock()
	order := append([]string{}, r.violOrder...)
	r.mu.Unlock()
	sort.Strings(order)
	for _, sig := range order {
		v := r.viol[sig]
		isKnown := false
		for _, f := range known {
			if f.Property == c.ID && f.Status == "known" && f.Signature == sig {
				isKnown = true
			}
		}
		if isKnown {
			knownHit = append(knownHit, sig)
			fmt.Printf("KNOWN-FINDING: property=%s %s (%d cases)\n", c.ID, sig, v.Count)
			continue
		}
		// confirm 5x
		if c.Replay != nil && !v.NoConfirm {
			ok := 0
			var lastDetail string
			for i := 0; i < 5; i++ {
				func() {
					defer func() {
						if p := recover(); p != nil {
							lastDetail = fmt.Sprintf("replay panicked: %v", p)
						}
					}()
					viol, d := c.Replay(env, v.Case)
					lastDetail = d
					if viol {
						ok++
					}
				}()
			}
			if ok != 5 {
				r.HarnessError("violation %q did not reproduce (%d/5): %s | original: %s", sig, ok, lastDetail, v.Detail)
				continue
			}
		}
		newViol++
		if newViol > 25 {
			continue
		}
		dir := filepath.Join(outDir(env.Root), "replays", c.ID)
		os.MkdirAll(dir, 0o755)
		path := filepath.Join(dir, fmt.Sprintf("%016x.json", Hash(sig)))
		b, _ := json.MarshalIndent(replayFile{Property: c.ID, Signature: sig, Detail: v.Detail, Case: v.Case}, "", " ")
		os.WriteFile(path, b, 0o644)
		fmt.Printf("VIOLATION property=%s replay=%s\n", c.ID, path)
		fmt.Printf("  signature: %s\n  detail: %s\n  cases with this signature: %d\n", sig, trunc(v.Detail, 600), v.Count)
		exit = 1
	}
	if len(r.harnessErr) > 0 {
		for _, h := range r.harnessErr {
			fmt.Printf("HARNESS-ERROR property=%s %s\n", c.ID, trunc(h, 2000))
		}
		if exit == 0 {
			exit = 2
		}
	}

	// evidence
	nt := 0
	for i := range r.nontrivial {
		nt += len(r.nontrivial[i])
	}
	states := r.States.Load()
	evals := r.Evaluations.Load()
	trans := r.Transitions.Load()
	if trans == 0 {
		trans = evals
	}
	if states == 0 {
		states = int64(nt)
	}
	cov := map[string]any{
		"evaluations":                   evals,
		"distinct_nontrivial":           nt,
		"rule":                          c.Rule,
		"samples":                       r.samples,
		"states":                        states,
		"transitions":                   trans,
		"traces_validated_against_impl": r.Validated.Load(),
		"exhaustive":                    r.exhaustive,
		"outcome_classes":               r.classes,
		"dont_care_cases":               r.DontCare.Load(),
		"known_findings_hit":            knownHit,
	}
	if r.capNote != "" {
		cov["cap_hit"] = r.capNote
	}
	if r.bound != "" {
		cov["bound_completed"] = r.bound
	}
	for k, v := range r.extra {
		cov[k] = v
	}
	if len(r.samples) == 0 {
		cov["samples"] = []any{"(no sample recorded)"}
	}
	ev := map[string]any{
		"property_id": c.ID,
		"tier":        env.Tier,
		"seed":        env.Seed,
		"level":       "model_checking",
		"coverage":    cov,
		"assumptions": c.Assumptions,
		"wall_s":      time.Since(start).Seconds(),
		"violations":  newViol,
	}
	if env.Sub == "" || os.Getenv("VERIF_WRITE_EVIDENCE") == "1" {
		os.MkdirAll(filepath.Join(outDir(env.Root), "evidence"), 0o755)
		b, _ := json.MarshalIndent(ev, "", " ")
		if err := os.WriteFile(filepath.Join(outDir(env.Root), "evidence", c.ID+".json"), b, 0o644); err != nil {
			fmt.Printf("HARNESS-ERROR cannot write evidence: %v\n", err)
			if exit == 0 {
				exit = 2
			}
		}
	}
	fmt.Printf("%s tier=%s evaluations=%d states=%d nontrivial=%d classes=%d exhaustive=%v violations=%d known=%d wall=%.1fs\n",
		c.ID, env.Tier, evals, states, nt, len(r.classes), r.exhaustive, newViol, len(knownHit), time.Since(start).Seconds())
	return exit
}

// outDir is where evidence and replay files go: VERIF_OUT if set (used when a
// check is pointed at a scratch copy of the repository), else the root.
func outDir(root string) string {
	if d := os.Getenv("VERIF_OUT"); d != "" {
		return d
	}
	return root
}

func trunc(s string, n int) string {
	if len(s) > n {
		return s[:n] + "…"
	}
	return s
}

// RunReplay replays a replay file 5 times and prints the verdict.
func RunReplay(c *Check, path string, root string) int {
	b, err := os.ReadFile(path)
	if err != nil {
		fmt.Println(err)
		return 2
	}
	var rf replayFile
	if err := json.Unmarshal(b, &rf); err != nil {
		fmt.Println(err)
		return 2
	}
	if c.Replay == nil {
		fmt.Println("check has no replay function")
		return 2
	}
	env := &Env{Prop: c.ID, Tier: "quick", Deadline: time.Now().Add(10 * time.Minute), Workers: 1, Root: root, R: NewReport(c.ID)}
	n := 0
	var detail string
	for i := 0; i < 5; i++ {
		v, d := c.Replay(env, rf.Case)
		detail = d
		if v {
			n++
		}
	}
	fmt.Printf("replay %s: violated %d/5\n  %s\n", path, n, detail)
	if n == 5 {
		fmt.Printf("VIOLATION property=%s replay=%s\n", c.ID, path)
		return 1
	}
	if n == 0 {
		return 0
	}
	return 2
}

// ---------------------------------------------------------------------------
// Parallel driver

// ParallelFor runs f(i) for i in [0,n) on env.Workers goroutines. It stops
// handing out work after the deadline (and marks the run not exhaustive).
// A panic in f is a harness error attributed to the index.
func ParallelFor(env *Env, n int, f func(i int)) {
	var next atomic.Int64
	var wg sync.WaitGroup
	w := env.Workers
	if w < 1 {
		w = 1
	}
	if w > n {
		w = n
	}
	var capped atomic.Bool
	for k := 0; k < w; k++ {
		wg.Add(1)
		go func() {
			defer wg.Done()
			for {
				i := int(next.Add(1) - 1)
				if i >= n {
					return
				}
				if env.Expired() {
					capped.Store(true)
					return
				}
				func() {
					defer func() {
						if p := recover(); p != nil {
							env.R.HarnessError("panic in work item %d: %v\n%s", i, p, debug.Stack())
						}
					}()
					f(i)
				}()
			}
		}()
	}
	wg.Wait()
	if capped.Load() {
		env.R.NotExhaustive(fmt.Sprintf("deadline hit after %d of %d work items", next.Load()-1, n))
	}
}

// Guard runs f and converts a Go panic into (panicked=true, value).
func Guard(f func()) (panicked bool, val any, stack string) {
	defer func() {
		if p := recover(); p != nil {
			panicked = true
			val = p
			stack = string(debug.Stack())
		}
	}()
	f()
	return
}

package mc

import (
	"fmt"
	"os"
	"strconv"
)

// Main is the command line of every check binary:
//
//	<binary> <Cxx>|list [--tier quick|thorough] [--replay file] [--sub selector]
func Main() {
	if len(os.Args) < 2 {
		fmt.Println("usage: check <id>|list [--tier quick|thorough] [--replay file]")
		os.Exit(2)
	}
	id := os.Args[1]
	if id == "list" {
		for _, i := range IDs() {
			fmt.Println(i)
		}
		return
	}
	tier := os.Getenv("VERIF_TIER")
	if tier == "" {
		tier = "quick"
	}
	replay := ""
	sub := ""
	for i := 2; i < len(os.Args); i++ {
		switch os.Args[i] {
		case "--tier":
			i++
			tier = os.Args[i]
		case "--replay":
			i++
			replay = os.Args[i]
		case "--sub":
			i++
			sub = os.Args[i]
		}
	}
	if tier != "quick" && tier != "thorough" {
		fmt.Println("bad tier", tier)
		os.Exit(2)
	}
	var seed int64
	if s := os.Getenv("VERIF_SEED"); s != "" {
		seed, _ = strconv.ParseInt(s, 10, 64)
	}
	root := os.Getenv("VERIF_ROOT")
	if root == "" {
		root = "/verif"
	}
	c := Lookup(id)
	if c == nil {
		fmt.Println("unknown check", id)
		os.Exit(2)
	}
	if replay != "" {
		os.Exit(RunReplay(c, replay, root))
	}
	os.Exit(RunCheck(c, tier, seed, root, sub))
}

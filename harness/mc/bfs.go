package mc

import (
	"fmt"
	"sync"
)

// Explicit-state breadth-first search (E2). A state is whatever the check
// says it is (typically a ledger snapshot plus the reference model's state);
// every transition executes the real code. States are deduplicated by a
// canonical key supplied by the check; the path (operation labels from the
// initial state) is kept for replay.

type Node[S any] struct {
	State S
	Path  []string
	Depth int
}

type BFSOpts[S any] struct {
	Init     []Node[S]
	MaxDepth int
	// Ops returns the operation labels enabled in a state.
	Ops func(n *Node[S]) []string
	// Step executes op on (a copy of) n.State with the real code, checks the
	// oracle (reporting violations itself) and returns the successor; ok=false
	// prunes the successor (e.g. after a violation).
	Step func(n *Node[S], op string) (next S, ok bool)
	// Key is the canonical form used for deduplication.
	Key func(s S) string
	// MaxStates caps the number of distinct states (0 = none).
	MaxStates int
}

// BFS explores level by level in parallel and returns states, transitions.
func BFS[S any](env *Env, o BFSOpts[S]) (states int64, transitions int64) {
	seen := map[uint64]struct{}{}
	var mu sync.Mutex
	frontier := o.Init
	for _, n := range frontier {
		seen[Hash(o.Key(n.State))] = struct{}{}
		env.R.States.Add(1)
	}
	states = int64(len(frontier))
	for depth := 0; depth < o.MaxDepth && len(frontier) > 0; depth++ {
		type job struct {
			n  *Node[S]
			op string
		}
		var jobs []job
		for i := range frontier {
			for _, op := range o.Ops(&frontier[i]) {
				jobs = append(jobs, job{&frontier[i], op})
			}
		}
		var next []Node[S]
		done := 0
		capped := false
		// Successors are computed in parallel but merged sequentially in job
		// order, so that the representative kept for a set of equal-key states
		// (and with it the rest of the enumeration) does not depend on scheduling.
		type result struct {
			s    S
			key  uint64
			ok   bool
			done bool
		}
		results := make([]result, len(jobs))
		// best[key] = smallest job index seen so far for a key that is new in
		// this level; larger indices are dropped at once (bounded memory), the
		// survivor is the same whatever the scheduling. `seen` is not written
		// during the parallel phase.
		best := map[uint64]int{}
		ParallelForCount(env, len(jobs), &done, func(i int) {
			j := jobs[i]
			s, ok := o.Step(j.n, j.op)
			env.R.Transitions.Add(1)
			if !ok {
				results[i] = result{done: true}
				return
			}
			k := Hash(o.Key(s))
			mu.Lock()
			defer mu.Unlock()
			results[i] = result{key: k, done: true}
			if _, dup := seen[k]; dup {
				return
			}
			if cur, have := best[k]; have {
				if cur < i {
					return
				}
				var zero S
				results[cur].s, results[cur].ok = zero, false
			}
			best[k] = i
			results[i].s, results[i].ok = s, true
		})
		mu.Lock()
		for i := range results {
			r := &results[i]
			if !r.done || !r.ok {
				continue
			}
			j := jobs[i]
			if _, dup := seen[r.key]; !dup {
				if o.MaxStates > 0 && len(seen) >= o.MaxStates {
					capped = true
				} else {
					seen[r.key] = struct{}{}
					p := make([]string, len(j.n.Path)+1)
					copy(p, j.n.Path)
					p[len(j.n.Path)] = j.op
					next = append(next, Node[S]{State: r.s, Path: p, Depth: depth + 1})
					env.R.States.Add(1)
				}
			}
			var zero S
			r.s = zero
		}
		mu.Unlock()
		results = nil
		transitions += int64(done)
		if capped {
			env.R.NotExhaustive(fmt.Sprintf("state cap %d hit at depth %d", o.MaxStates, depth+1))
		}
		if done < len(jobs) {
			// deadline hit inside the level
			return int64(len(seen)), transitions
		}
		env.R.BoundCompleted(fmt.Sprintf("depth<=%d", depth+1))
		frontier = next
	}
	return int64(len(seen)), transitions
}

// ParallelForCount is ParallelFor that also reports how many items were started.
func ParallelForCount(env *Env, n int, done *int, f func(i int)) {
	var mu sync.Mutex
	cnt := 0
	ParallelFor(env, n, func(i int) {
		mu.Lock()
		cnt++
		mu.Unlock()
		f(i)
	})
	*done = cnt
}

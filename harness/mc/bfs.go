package mc

import (
	"fmt"
	"sync"
)

// Explicit-state breadth-first search (E2). A state is whatever the check
// says it is (typically a ledger snapshot plus the reference model's state);
// every transition executes the real code. States are deduplicated by a
// canonical key supplied by the check; the path (operation labels from the
// initial state) is kept for replay.

type Node[S any] struct {
	State S
	Path  []string
	Depth int
}

type BFSOpts[S any] struct {
	Init     []Node[S]
	MaxDepth int
	// Ops returns the operation labels enabled in a state.
	Ops func(n *Node[S]) []string
	// Step executes op on (a copy of) n.State with the real code, checks the
	// oracle (reporting violations itself) and returns the successor; ok=false
	// prunes the successor (e.g. after a violation).
	Step func(n *Node[S], op string) (next S, ok bool)
	// Key is the canonical form used for deduplication.
	Key func(s S) string
	// MaxStates caps the number of distinct states (0 = none).
	MaxStates int
}

// BFS explores level by level in parallel and returns states, transitions.
func BFS[S any](env *Env, o BFSOpts[S]) (states int64, transitions int64) {
	seen := map[uint64]struct{}{}
	var mu sync.Mutex
	frontier := o.Init
	for _, n := range frontier {
		seen[Hash(o.Key(n.State))] = struct{}{}
		env.R.States.Add(1)
	}
	states = int64(len(frontier))
	for depth := 0; depth < o.MaxDepth && len(frontier) > 0; depth++ {
		type job struct {
			n  *Node[S]
			op string
		}
		var jobs []job
		for i := range frontier {
			for _, op := range o.Ops(&frontier[i]) {
				jobs = append(jobs, job{&frontier[i], op})
			}
		}
		var next []Node[S]
		done := 0
		capped := false
		ParallelForCount(env, len(jobs), &done, func(i int) {
			j := jobs[i]
			s, ok := o.Step(j.n, j.op)
			env.R.Transitions.Add(1)
			if !ok {
				return
			}
			k := Hash(o.Key(s))
			mu.Lock()
			if _, dup := seen[k]; !dup {
				if o.MaxStates > 0 && len(seen) >= o.MaxStates {
					capped = true
				} else {
					seen[k] = struct{}{}
					p := make([]string, len(j.n.Path)+1)
					copy(p, j.n.Path)
					p[len(j.n.Path)] = j.op
					next = append(next, Node[S]{State: s, Path: p, Depth: depth + 1})
					env.R.States.Add(1)
				}
			}
			mu.Unlock()
		})
		transitions += int64(done)
		if capped {
			env.R.NotExhaustive(fmt.Sprintf("state cap %d hit at depth %d", o.MaxStates, depth+1))
		}
		if done < len(jobs) {
			// deadline hit inside the level
			return int64(len(seen)), transitions
		}
		env.R.BoundCompleted(fmt.Sprintf("depth<=%d", depth+1))
		frontier = next
	}
	return int64(len(seen)), transitions
}

// ParallelForCount is ParallelFor that also reports how many items were started.
func ParallelForCount(env *Env, n int, done *int, f func(i int)) {
	var mu sync.Mutex
	cnt := 0
	ParallelFor(env, n, func(i int) {
		mu.Lock()
		cnt++
		mu.Unlock()
		f(i)
	})
	*done = cnt
}

package mc

import (
	"fmt"
	"runtime/debug"
	"sync"
)

// Choice-tree explorer (E1). A body is an ordinary function that calls
// c.Choose(n, label) whenever something is not determined. The explorer
// replays a prefix (an out-of-range or mislabelled choice during replay is a
// hard error: nondeterminism we did not capture), then takes alternative 0 at
// every later point, and extends every point of the recorded run with every
// alternative whose accumulated deviation cost stays within the bound.

type Point struct {
	N     int
	Label string
	Alt   int
	Cost  int // cost of a non-zero alternative at this point
}

type Ctx struct {
	prefix []Point
	Trace  []Point
	diverg string
	// User can attach per-run data.
	Data any
}

// Choose returns an alternative in [0,n). Alternative 0 is the default and
// costs nothing; any other alternative costs 1 deviation.
func (c *Ctx) Choose(n int, label string) int { return c.choose(n, label, 1) }

// ChooseFree is Choose where no alternative counts as a deviation (pure
// input enumeration under a size bound).
func (c *Ctx) ChooseFree(n int, label string) int { return c.choose(n, label, 0) }

// ChooseCost lets the body state the deviation cost of non-default alternatives.
func (c *Ctx) ChooseCost(n int, label string, cost int) int { return c.choose(n, label, cost) }

func (c *Ctx) choose(n int, label string, cost int) int {
	if n <= 0 {
		panic("Choose with n<=0 at " + label)
	}
	i := len(c.Trace)
	alt := 0
	if i < len(c.prefix) {
		p := c.prefix[i]
		if p.N != n || p.Label != label {
			c.diverg = fmt.Sprintf("replay divergence at point %d: recorded (%s,n=%d) now (%s,n=%d)", i, p.Label, p.N, label, n)
			// continue with a safe value so the body can finish
			if p.Alt < n {
				alt = p.Alt
			}
		} else {
			alt = p.Alt
		}
	}
	c.Trace = append(c.Trace, Point{N: n, Label: label, Alt: alt, Cost: cost})
	return alt
}

// Choices renders the taken alternatives (for replay files).
func (c *Ctx) Choices() []int {
	out := make([]int, len(c.Trace))
	for i, p := range c.Trace {
		out[i] = p.Alt
	}
	return out
}

func (c *Ctx) Deviations() int {
	d := 0
	for _, p := range c.Trace {
		if p.Alt != 0 {
			d += p.Cost
		}
	}
	return d
}

// RunChoices executes body once with the given alternatives (replay mode,
// no explorer). N and Label of the prefix are discovered by re-running with a
// growing prefix; an out-of-range choice is an error.
func RunChoices(choices []int, body func(c *Ctx)) (*Ctx, error) {
	return runWithRawChoices(choices, body)
}

func runWithRawChoices(choices []int, body func(c *Ctx)) (*Ctx, error) {
	// Iteratively discover N/Label for the prefix: run with growing prefix.
	var prefix []Point
	for {
		c := &Ctx{prefix: prefix}
		body(c)
		if c.diverg != "" {
			return c, fmt.Errorf("%s", c.diverg)
		}
		if len(prefix) >= len(choices) || len(prefix) >= len(c.Trace) {
			return c, nil
		}
		i := len(prefix)
		p := c.Trace[i]
		if choices[i] >= p.N {
			return c, fmt.Errorf("replay: choice %d out of range at point %d (%s, n=%d)", choices[i], i, p.Label, p.N)
		}
		p.Alt = choices[i]
		prefix = append(append([]Point{}, c.Trace[:i]...), p)
		if choices[i] == 0 {
			// fast-forward over default choices
			for len(prefix) < len(choices) && len(prefix) < len(c.Trace) && choices[len(prefix)] == 0 {
				prefix = append(prefix, c.Trace[len(prefix)])
			}
			if len(prefix) >= len(choices) || len(prefix) >= len(c.Trace) {
				return c, nil
			}
		}
	}
}

// ExploreOpts configures Explore.
type ExploreOpts struct {
	Bound     int // max accumulated deviation cost; <0 = unbounded
	MaxRuns   int64
	OnRun     func(c *Ctx) // called after each complete execution (from worker goroutines)
	Iterative bool         // run bound 0,1,..Bound in order, recording the last completed
}

// Explore enumerates every execution of body within the deviation bound, in
// parallel. It returns the number of executions.
func Explore(env *Env, body func(c *Ctx), opts ExploreOpts) int64 {
	if !opts.Iterative || opts.Bound < 0 {
		n, _ := exploreBound(env, body, opts, opts.Bound, -1)
		return n
	}
	var total int64
	for b := 0; b <= opts.Bound; b++ {
		// executions with exactly cost b are the new ones at this level
		n, complete := exploreBound(env, body, opts, b, b)
		total += n
		if !complete {
			return total
		}
		env.R.BoundCompleted(fmt.Sprintf("deviations<=%d", b))
	}
	return total
}

// exploreBound explores all executions with cost <= bound. If onlyExact >= 0,
// OnRun is only called for executions whose cost == onlyExact (the others were
// reported at a lower bound already) but they still must be re-run to find
// their children.
func exploreBound(env *Env, body func(c *Ctx), opts ExploreOpts, bound int, onlyExact int) (int64, bool) {
	var mu sync.Mutex
	cond := sync.NewCond(&mu)
	stack := [][]Point{nil}
	active := 0
	var runs int64
	complete := true
	w := env.Workers
	if w < 1 {
		w = 1
	}
	var wg sync.WaitGroup
	for k := 0; k < w; k++ {
		wg.Add(1)
		go func() {
			defer wg.Done()
			for {
				mu.Lock()
				for len(stack) == 0 && active > 0 {
					cond.Wait()
				}
				if len(stack) == 0 {
					mu.Unlock()
					cond.Broadcast()
					return
				}
				if env.Expired() || (opts.MaxRuns > 0 && runs >= opts.MaxRuns) {
					if complete {
						complete = false
						env.R.NotExhaustive(fmt.Sprintf("explorer stopped at bound %d after %d runs (deadline or run cap); %d prefixes pending", bound, runs, len(stack)))
					}
					stack = nil
					mu.Unlock()
					cond.Broadcast()
					return
				}
				prefix := stack[len(stack)-1]
				stack = stack[:len(stack)-1]
				active++
				runs++
				mu.Unlock()

				c := &Ctx{prefix: prefix}
				func() {
					defer func() {
						if p := recover(); p != nil {
							env.R.HarnessError("explorer body panicked (choices %v): %v\n%s", c.Choices(), p, debug.Stack())
						}
					}()
					body(c)
				}()
				if c.diverg != "" {
					env.R.HarnessError("%s", c.diverg)
				}
				cost := c.Deviations()
				if opts.OnRun != nil && (onlyExact < 0 || cost == onlyExact) {
					opts.OnRun(c)
				}
				// children
				var kids [][]Point
				acc := 0
				for i := 0; i < len(c.Trace); i++ {
					p := c.Trace[i]
					if i >= len(prefix) {
						for alt := 1; alt < p.N; alt++ {
							if bound >= 0 && acc+p.Cost > bound {
								break
							}
							np := make([]Point, i+1)
							copy(np, c.Trace[:i])
							q := p
							q.Alt = alt
							np[i] = q
							kids = append(kids, np)
						}
					}
					if p.Alt != 0 {
						acc += p.Cost
					}
				}
				mu.Lock()
				// push in reverse so that lower alternatives are explored first
				for i := len(kids) - 1; i >= 0; i-- {
					stack = append(stack, kids[i])
				}
				active--
				mu.Unlock()
				cond.Broadcast()
			}
		}()
	}
	wg.Wait()
	return runs, complete
}

package rtx

import (
	"strings"
	"testing"

	"github.com/onflow/cadence/common"

	"verif/rt"
)

const testContract = `access(all) contract C {
  access(all) resource R { access(all) var xs: [Int]; access(all) var m: {String: Int}; init(){ self.xs = [1,2,3]; self.m = {"b": 2, "a": 1} } }
  access(all) fun mk(): @R { return <- create R() }
  access(all) struct S { access(all) var a: [[Int]]; init(){ self.a = [[1],[2,3]] } }
}`

func TestHealthAndDump(t *testing.T) {
	for _, vm := range []bool{false, true} {
		l := rt.NewLedger()
		rt.Deploy(l, rt.Addr(1), "C", testContract, vm)
		r := rt.Run(l, rt.Tx{Source: `import C from 0x1
		transaction { prepare(a: auth(Storage) &Account, b: auth(Storage) &Account) {
		  a.storage.save(<- C.mk(), to: /storage/r)
		  b.storage.save(C.S(), to: /storage/s)
		  var big: [String] = []
		  var i = 0
		  while i < 500 { big.append("0123456789012345678901234567890123456789".concat(i.toString())); i = i + 1 }
		  b.storage.save(big, to: /storage/big)
		  b.storage.save({1: "x", 2: "y"}, to: /storage/d)
		  b.storage.save(1 as Int?, to: /storage/o)
		} }`, Signers: []common.Address{rt.Addr(1), rt.Addr(2)}, UseVM: vm})
		if !r.OK() {
			t.Fatal(r.ErrString())
		}
		st, err := HealthStats(l)
		if err != nil {
			t.Fatal(err)
		}
		t.Logf("%+v", st)
		d := DumpWith(l, Options{NormalizeUUIDs: true, SlabCounts: true})
		if strings.Contains(d, "!!DUMP-ERROR") {
			t.Fatal(d)
		}
		if len(d) > 1500 {
			t.Log(d[:1500])
		} else {
			t.Log(d)
		}
		if Dump(l) != Dump(l.Clone()) {
			t.Fatal("dump not deterministic")
		}
		// every single missing slab register must be detected
		for i := 0; ; i++ {
			c, ok := Corrupt(l, i)
			if !ok {
				if i < 3 {
					t.Fatal("too few slabs", i)
				}
				break
			}
			if Health(c) == nil {
				t.Fatalf("missing slab %d not detected", i)
			}
		}
		// an orphan: drop the root register of account 2
		c := l.Clone()
		for k := range c.Values {
			if strings.HasSuffix(k, "|stored") && k[7] == 2 {
				delete(c.Values, k)
			}
		}
		err = Health(c)
		if HealthKind(err) != "orphan-root" {
			t.Fatal("orphan not detected:", err)
		}
		// an unknown register
		c = l.Clone()
		a1 := rt.Addr(1)
		c.Values[string(a1[:])+"|storage"] = []byte{1}
		if HealthKind(Health(c)) != "unknown-register" {
			t.Fatal("unknown register not detected")
		}
	}
}

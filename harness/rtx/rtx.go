// Package rtx holds ledger-level helpers shared by the runtime-state checks
// (storage, capabilities, resources):
//
//   - Health: a whole-ledger health check that does not trust
//     runtime.Storage.CheckHealth's cached root list. It opens a fresh
//     runtime.Storage over the ledger, retrieves (decodes) every slab register,
//     runs atree.CheckStorageHealth, demands that the set of non-temporary root
//     slabs equals the set of slabs named by the account root registers, and
//     finally walks and decodes every stored value of every domain of every
//     account.
//   - Dump: a canonical decoded rendering of a ledger (all accounts x all
//     storage domains, keys sorted, leaf values printed with String()), used to
//     deduplicate states of an explicit-state search.
//
// Neither function writes to the ledger it is given.
package rtx

import (
	"bytes"
	"fmt"
	"hash/fnv"
	"runtime/debug"
	"sort"
	"strings"

	"github.com/onflow/atree"

	"github.com/onflow/cadence/common"
	"github.com/onflow/cadence/interpreter"
	"github.com/onflow/cadence/runtime"

	"verif/rt"
)

// ---------------------------------------------------------------------------
// register classification

// Register is one non-empty ledger register, split into owner and key.
type Register struct {
	Owner common.Address
	Key   string
	Value []byte
}

// Kind of a register key.
const (
	RegRoot    = "root"    // account storage root register ("stored")
	RegSlab    = "slab"    // "$" + 8-byte slab index
	RegUnknown = "unknown" // anything else
)

func (r Register) Kind() string {
	switch {
	case r.Key == runtime.AccountStorageKey:
		return RegRoot
	case len(r.Key) == 9 && r.Key[0] == '$':
		return RegSlab
	}
	return RegUnknown
}

// SlabID of a slab register.
func (r Register) SlabID() atree.SlabID {
	var idx atree.SlabIndex
	copy(idx[:], r.Key[1:])
	return atree.NewSlabID(atree.Address(r.Owner), idx)
}

// Registers lists the non-empty registers of l sorted by (owner, key).
// ok=false if some register key does not have the host's "owner|key" form
// with an 8-byte owner.
func Registers(l *rt.Ledger) (regs []Register, ok bool) {
	ok = true
	keys := make([]string, 0, len(l.Values))
	for k, v := range l.Values {
		if len(v) > 0 {
			keys = append(keys, k)
		}
	}
	sort.Strings(keys)
	for _, k := range keys {
		if len(k) < 9 || k[8] != '|' {
			ok = false
			continue
		}
		var a common.Address
		copy(a[:], k[:8])
		regs = append(regs, Register{Owner: a, Key: k[9:], Value: l.Values[k]})
	}
	return
}

// SlabCount is the number of slab registers (a cheap layout class: states
// with equal decoded contents but a different number of slabs are laid out
// differently).
func SlabCount(l *rt.Ledger) int {
	n := 0
	regs, _ := Registers(l)
	for _, r := range regs {
		if r.Kind() == RegSlab {
			n++
		}
	}
	return n
}

// ---------------------------------------------------------------------------
// read-only atree.Ledger over an rt.Ledger

type roLedger struct {
	l      *rt.Ledger
	writes int
}

func (r *roLedger) GetValue(owner, key []byte) ([]byte, error) {
	return r.l.Values[string(owner)+"|"+string(key)], nil
}
func (r *roLedger) SetValue(owner, key, value []byte) error {
	r.writes++
	return fmt.Errorf("rtx: read-only ledger: SetValue(%x, %q)", owner, key)
}
func (r *roLedger) ValueExists(owner, key []byte) (bool, error) {
	return len(r.l.Values[string(owner)+"|"+string(key)]) > 0, nil
}
func (r *roLedger) AllocateSlabIndex(owner []byte) (atree.SlabIndex, error) {
	return atree.SlabIndex{}, fmt.Errorf("rtx: read-only ledger: AllocateSlabIndex(%x)", owner)
}

// view is a fresh decoding context over a ledger.
type view struct {
	ledger  *roLedger
	storage *runtime.Storage
	inter   *interpreter.Interpreter
}

func newView(l *rt.Ledger) *view {
	led := &roLedger{l: l}
	st := runtime.NewStorage(led, nil, nil, runtime.StorageConfig{})
	inter, err := interpreter.NewInterpreter(nil, nil, &interpreter.Config{Storage: st})
	if err != nil {
		panic(err)
	}
	return &view{ledger: led, storage: st, inter: inter}
}

// ---------------------------------------------------------------------------
// Health

// HealthError says which clause of the health property failed.
type HealthError struct {
	// Kind is one of: unknown-register, bad-root-register, root-missing,
	// slab-decode, atree-health, orphan-root, unrooted-account-slab,
	// value-decode, wrote-during-check.
	Kind   string
	Detail string
}

func (e *HealthError) Error() string { return "ledger unhealthy [" + e.Kind + "]: " + e.Detail }

// HealthKind returns the Kind of a Health error ("" for nil).
func HealthKind(err error) string {
	if err == nil {
		return ""
	}
	if h, ok := err.(*HealthError); ok {
		return h.Kind
	}
	return "other"
}

// Health checks the whole ledger. It returns nil or a *HealthError.
func Health(l *rt.Ledger) (err error) {
	_, err = HealthStats(l)
	return err
}

// Stats describes what a health check looked at.
type Stats struct {
	Accounts int // accounts with a root register
	Slabs    int // slab registers
	Roots    int // non-temporary root slabs found by atree
	Values   int // stored values (at any depth) walked and decoded
	MaxDepth int
}

func HealthStats(l *rt.Ledger) (st Stats, err error) {
	defer func() {
		if p := recover(); p != nil {
			// a panic while decoding is a decode failure of the ledger contents
			err = &HealthError{Kind: "value-decode", Detail: fmt.Sprintf("panic: %v\n%s", p, trimStack(debug.Stack()))}
		}
	}()
	regs, ok := Registers(l)
	if !ok {
		return st, &HealthError{Kind: "unknown-register", Detail: "register key without 8-byte owner prefix"}
	}
	v := newView(l)

	// 1. classify registers; account roots
	roots := map[atree.SlabID]common.Address{}
	var rootOrder []atree.SlabID
	var slabIDs []atree.SlabID
	for _, r := range regs {
		switch r.Kind() {
		case RegRoot:
			if len(r.Value) != 8 {
				return st, &HealthError{Kind: "bad-root-register", Detail: fmt.Sprintf("account %s root register has length %d", r.Owner, len(r.Value))}
			}
			var idx atree.SlabIndex
			copy(idx[:], r.Value)
			id := atree.NewSlabID(atree.Address(r.Owner), idx)
			if _, dup := roots[id]; dup {
				return st, &HealthError{Kind: "bad-root-register", Detail: fmt.Sprintf("root slab %s named twice", id)}
			}
			roots[id] = r.Owner
			rootOrder = append(rootOrder, id)
			st.Accounts++
		case RegSlab:
			slabIDs = append(slabIDs, r.SlabID())
			st.Slabs++
		default:
			return st, &HealthError{Kind: "unknown-register", Detail: fmt.Sprintf("account %s key %q (%d bytes)", r.Owner, r.Key, len(r.Value))}
		}
	}

	// 2. every slab register decodes
	for _, id := range slabIDs {
		slab, found, rerr := v.storage.Retrieve(id)
		if rerr != nil {
			return st, &HealthError{Kind: "slab-decode", Detail: fmt.Sprintf("slab %s: %v", id, rerr)}
		}
		if !found || slab == nil {
			return st, &HealthError{Kind: "slab-decode", Detail: fmt.Sprintf("slab %s: register present but not retrievable", id)}
		}
		if slab.SlabID() != id {
			return st, &HealthError{Kind: "slab-decode", Detail: fmt.Sprintf("register %s holds slab %s", id, slab.SlabID())}
		}
	}

	// 3. atree's structural check over everything now loaded
	atreeRoots, herr := atree.CheckStorageHealth(v.storage, -1)
	if herr != nil {
		return st, &HealthError{Kind: "atree-health", Detail: herr.Error()}
	}

	// 4. non-temporary roots == slabs named by account root registers
	var orphan []string
	for id := range atreeRoots {
		if id.HasTempAddress() {
			continue
		}
		st.Roots++
		if _, ok := roots[id]; !ok {
			orphan = append(orphan, id.String())
		}
	}
	if len(orphan) > 0 {
		sort.Strings(orphan)
		return st, &HealthError{Kind: "orphan-root", Detail: fmt.Sprintf("%d root slab(s) not named by any account root register: %s", len(orphan), strings.Join(orphan, " "))}
	}
	for _, id := range rootOrder {
		if _, ok := atreeRoots[id]; !ok {
			// either the slab does not exist or it is somebody's child
			_, found, _ := v.storage.Retrieve(id)
			if !found {
				return st, &HealthError{Kind: "root-missing", Detail: fmt.Sprintf("account root register names missing slab %s", id)}
			}
			return st, &HealthError{Kind: "root-missing", Detail: fmt.Sprintf("account root register names non-root slab %s", id)}
		}
	}

	// 5. walk and decode every stored value
	for _, id := range rootOrder {
		addr := roots[id]
		asm := interpreter.NewAccountStorageMapWithRootID(nil, v.storage, id)
		for _, d := range sortedDomains(asm) {
			dm := asm.GetDomain(nil, nil, v.inter, d, false)
			if dm == nil {
				return st, &HealthError{Kind: "value-decode", Detail: fmt.Sprintf("account %s domain %s listed but not readable", addr, d.Identifier())}
			}
			it := dm.Iterator()
			n := uint64(0)
			for {
				k, val := it.Next(nil)
				if k == nil {
					break
				}
				n++
				var sb strings.Builder
				r := renderer{v: v, sb: &sb, stats: &st}
				r.render(val, 1)
			}
			if n != dm.Count() {
				return st, &HealthError{Kind: "value-decode", Detail: fmt.Sprintf("account %s domain %s: Count()=%d but iteration yields %d", addr, d.Identifier(), dm.Count(), n)}
			}
		}
	}
	if v.ledger.writes > 0 {
		return st, &HealthError{Kind: "wrote-during-check", Detail: "reading the ledger attempted a register write"}
	}
	return st, nil
}

func trimStack(b []byte) string {
	if len(b) > 1500 {
		b = b[:1500]
	}
	return string(b)
}

func sortedDomains(asm *interpreter.AccountStorageMap) []common.StorageDomain {
	var ds []common.StorageDomain
	for d := range asm.Domains(nil) {
		ds = append(ds, d)
	}
	sort.Slice(ds, func(i, j int) bool { return ds[i] < ds[j] })
	return ds
}

// ---------------------------------------------------------------------------
// Dump

// Options of a dump.
type Options struct {
	// NormalizeUUIDs renames the uuid fields of resources to #1, #2, ... in
	// order of first appearance in the (sorted) dump: uuids are names handed
	// out by the host, two ledgers that differ only in them are the same state
	// for a program that does not print uuids.
	NormalizeUUIDs bool
	// SlabCounts appends the number of slab registers per account (a layout
	// class), so that equal contents in a different slab layout are distinct.
	SlabCounts bool
	// OmitCode leaves out the contract-code lines.
	OmitCode bool
}

// Dump is the canonical decoded dump with default options: every account (in
// address order) x every storage domain (in domain order) x every key
// (sorted), values rendered recursively: arrays in order, dictionary entries
// sorted by rendered key, composite fields sorted by name, everything else
// with String(); plus one line per contract-code entry. Slab IDs, slab
// indices, the UUID counter and allocation counters do not appear.
func Dump(l *rt.Ledger) string { return DumpWith(l, Options{}) }

func DumpWith(l *rt.Ledger, o Options) (out string) {
	var sb strings.Builder
	defer func() {
		if p := recover(); p != nil {
			out = sb.String() + fmt.Sprintf("\n!!DUMP-ERROR %v", p)
		}
	}()
	regs, _ := Registers(l)
	v := newView(l)
	r := renderer{v: v, sb: &sb, stats: &Stats{}, normUUID: o.NormalizeUUIDs, uuids: map[string]int{}}
	slabs := map[common.Address]int{}
	for _, reg := range regs {
		if reg.Kind() == RegSlab {
			slabs[reg.Owner]++
		}
	}
	for _, reg := range regs {
		if reg.Kind() != RegRoot || len(reg.Value) != 8 {
			continue
		}
		var idx atree.SlabIndex
		copy(idx[:], reg.Value)
		id := atree.NewSlabID(atree.Address(reg.Owner), idx)
		asm := interpreter.NewAccountStorageMapWithRootID(nil, v.storage, id)
		fmt.Fprintf(&sb, "account %s\n", reg.Owner.Hex())
		for _, d := range sortedDomains(asm) {
			dm := asm.GetDomain(nil, nil, v.inter, d, false)
			if dm == nil {
				continue
			}
			type entry struct{ k, v string }
			var es []entry
			it := dm.Iterator()
			for {
				k, val := it.Next(nil)
				if k == nil {
					break
				}
				es = append(es, entry{k: keyString(k)})
				_ = val
			}
			sort.Slice(es, func(i, j int) bool { return es[i].k < es[j].k })
			// render in sorted key order so that uuid renaming is canonical
			vals := map[string]interpreter.Value{}
			it = dm.Iterator()
			for {
				k, val := it.Next(nil)
				if k == nil {
					break
				}
				vals[keyString(k)] = val
			}
			fmt.Fprintf(&sb, " domain %s (%d)\n", d.Identifier(), len(es))
			for _, e := range es {
				fmt.Fprintf(&sb, "  %s = ", e.k)
				r.render(vals[e.k], 1)
				sb.WriteByte('\n')
			}
		}
		if o.SlabCounts {
			fmt.Fprintf(&sb, " slabs %d\n", slabs[reg.Owner])
		}
	}
	if !o.OmitCode {
		ck := make([]string, 0, len(l.Code))
		for k := range l.Code {
			ck = append(ck, k)
		}
		sort.Strings(ck)
		for _, k := range ck {
			h := fnv.New64a()
			h.Write(l.Code[k])
			fmt.Fprintf(&sb, "code %s len=%d fnv=%016x\n", k, len(l.Code[k]), h.Sum64())
		}
	}
	return sb.String()
}

func keyString(k atree.Value) string {
	switch k := k.(type) {
	case interpreter.StringAtreeValue:
		return string(k)
	case interpreter.Uint64AtreeValue:
		return fmt.Sprintf("#%d", uint64(k))
	}
	return fmt.Sprintf("%v", k)
}

type renderer struct {
	v        *view
	sb       *strings.Builder
	stats    *Stats
	normUUID bool
	uuids    map[string]int
}

// render writes the canonical form of val and thereby decodes all of it.
func (r *renderer) render(val interpreter.Value, depth int) {
	r.stats.Values++
	if depth > r.stats.MaxDepth {
		r.stats.MaxDepth = depth
	}
	if depth > 64 {
		panic("rtx: value nesting deeper than 64")
	}
	sb := r.sb
	switch x := val.(type) {
	case *interpreter.ArrayValue:
		sb.WriteString("(")
		sb.WriteString(x.StaticType(r.v.inter).String())
		sb.WriteString(")[")
		i := 0
		x.Iterate(r.v.inter, func(e interpreter.Value) bool {
			if i > 0 {
				sb.WriteString(", ")
			}
			i++
			r.render(e, depth+1)
			return true
		}, false)
		if i != x.Count() {
			panic(fmt.Sprintf("rtx: array Count()=%d but iteration yields %d", x.Count(), i))
		}
		sb.WriteString("]")
	case *interpreter.DictionaryValue:
		sb.WriteString("(")
		sb.WriteString(x.StaticType(r.v.inter).String())
		sb.WriteString("){")
		type kv struct{ k, v string }
		var es []kv
		x.Iterate(r.v.inter, func(k, e interpreter.Value) bool {
			var ks, vs strings.Builder
			rk := *r
			rk.sb = &ks
			rk.render(k, depth+1)
			rv := *r
			rv.sb = &vs
			rv.render(e, depth+1)
			es = append(es, kv{ks.String(), vs.String()})
			return true
		})
		if len(es) != x.Count() {
			panic(fmt.Sprintf("rtx: dictionary Count()=%d but iteration yields %d", x.Count(), len(es)))
		}
		sort.Slice(es, func(i, j int) bool { return es[i].k < es[j].k })
		for i, e := range es {
			if i > 0 {
				sb.WriteString(", ")
			}
			sb.WriteString(e.k)
			sb.WriteString(": ")
			sb.WriteString(e.v)
		}
		sb.WriteString("}")
	case *interpreter.CompositeValue:
		sb.WriteString(string(x.TypeID()))
		sb.WriteString("(")
		type fv struct {
			name string
			val  interpreter.Value
		}
		var fs []fv
		x.ForEachField(r.v.inter, func(name string, fval interpreter.Value) bool {
			fs = append(fs, fv{name, fval})
			return true
		})
		sort.Slice(fs, func(i, j int) bool { return fs[i].name < fs[j].name })
		for i, f := range fs {
			if i > 0 {
				sb.WriteString(", ")
			}
			sb.WriteString(f.name)
			sb.WriteString(": ")
			if r.normUUID && f.name == "uuid" && x.Kind == common.CompositeKindResource {
				s := f.val.String()
				n, ok := r.uuids[s]
				if !ok {
					n = len(r.uuids) + 1
					r.uuids[s] = n
				}
				fmt.Fprintf(sb, "#%d", n)
				r.stats.Values++
				continue
			}
			r.render(f.val, depth+1)
		}
		sb.WriteString(")")
	case *interpreter.SomeValue:
		sb.WriteString("Some(")
		r.render(x.InnerValue(), depth+1)
		sb.WriteString(")")
	default:
		// leaves (and the few container-like values without slab children):
		// force a full walk, then print with String()
		interpreter.InspectValue(r.v.inter, val, func(interpreter.Value) bool { return true })
		sb.WriteString(val.String())
	}
}

// ---------------------------------------------------------------------------
// helpers for tests and self-tests

// Corrupt returns a copy of l with one slab register removed (which must make
// Health fail); n selects the register. ok=false if l has fewer slab registers.
func Corrupt(l *rt.Ledger, n int) (c *rt.Ledger, ok bool) {
	c = l.Clone()
	keys := make([]string, 0, len(c.Values))
	for k, v := range c.Values {
		if len(v) > 0 && len(k) == 18 && k[9] == '$' {
			keys = append(keys, k)
		}
	}
	sort.Strings(keys)
	if n >= len(keys) {
		return nil, false
	}
	delete(c.Values, keys[n])
	return c, true
}

// EqualBytes reports whether two ledgers hold the same non-empty registers and code.
func EqualBytes(a, b *rt.Ledger) bool {
	return bytes.Equal([]byte(a.Bytes()), []byte(b.Bytes()))
}

// Package rt is the deterministic host used by the runtime-level checks: an
// in-memory ledger that can be cloned (a state of the explicit-state search),
// a recording runtime.Interface, and drivers that run one script or
// transaction with the interpreter or the VM on a fresh runtime.Runtime,
// fresh runtime.Storage and fresh program cache (so "survives commit and
// reload" is exercised on every transition).
package rt

import (
	"encoding/binary"
	"errors"
	"fmt"
	"reflect"
	"sort"
	"strings"

	"github.com/onflow/atree"

	"github.com/onflow/cadence"
	"github.com/onflow/cadence/common"
	jsoncdc "github.com/onflow/cadence/encoding/json"
	cerrors "github.com/onflow/cadence/errors"
	"github.com/onflow/cadence/interpreter"
	"github.com/onflow/cadence/runtime"
	"github.com/onflow/cadence/stdlib"
	ru "github.com/onflow/cadence/test_utils/runtime_utils"
)

// Ledger is the whole host state: registers, slab counters, contract code,
// UUID and account-id counters.
type Ledger struct {
	Values     map[string][]byte
	Indices    map[string]uint64
	Code       map[string][]byte // location ID -> code
	UUID       uint64
	AccountIDs map[common.Address]uint64
}

func NewLedger() *Ledger {
	return &Ledger{Values: map[string][]byte{}, Indices: map[string]uint64{}, Code: map[string][]byte{}, AccountIDs: map[common.Address]uint64{}}
}

func (l *Ledger) Clone() *Ledger {
	n := &Ledger{Values: make(map[string][]byte, len(l.Values)), Indices: make(map[string]uint64, len(l.Indices)),
		Code: make(map[string][]byte, len(l.Code)), UUID: l.UUID, AccountIDs: make(map[common.Address]uint64, len(l.AccountIDs))}
	for k, v := range l.Values {
		n.Values[k] = v // register values are never mutated in place
	}
	for k, v := range l.Indices {
		n.Indices[k] = v
	}
	for k, v := range l.Code {
		n.Code[k] = v
	}
	for k, v := range l.AccountIDs {
		n.AccountIDs[k] = v
	}
	return n
}

// Bytes is a canonical rendering of the raw ledger (exact-bytes state key).
func (l *Ledger) Bytes() string {
	keys := make([]string, 0, len(l.Values))
	for k, v := range l.Values {
		if len(v) > 0 {
			keys = append(keys, k)
		}
	}
	sort.Strings(keys)
	var sb strings.Builder
	for _, k := range keys {
		fmt.Fprintf(&sb, "%q=%x\n", k, l.Values[k])
	}
	ck := make([]string, 0, len(l.Code))
	for k := range l.Code {
		ck = append(ck, k)
	}
	sort.Strings(ck)
	for _, k := range ck {
		fmt.Fprintf(&sb, "code %s=%x\n", k, l.Code[k])
	}
	return sb.String()
}

// NonEmptyRegisters counts registers with a non-empty value.
func (l *Ledger) NonEmptyRegisters() int {
	n := 0
	for _, v := range l.Values {
		if len(v) > 0 {
			n++
		}
	}
	return n
}

func key(owner, k []byte) string { return string(owner) + "|" + string(k) }

// Write is one SetValue call.
type Write struct {
	Owner, Key string
	Value      []byte
}

// MeterCall is one metering call.
type MeterCall struct {
	Mem    bool
	Kind   uint
	Amount uint64
}

// Fault describes a host-failure injection: the n-th (0-based) call of Kind.
type Fault struct {
	Kind  string
	Index int
	Mode  int // 0 = return error, 1 = panic(error), 2 = panic(non-error)
}

var ErrInjected = errors.New("verif: injected host failure")

// Tx is one script or transaction to run.
type Tx struct {
	Source   string
	Args     []cadence.Value
	RawArgs  [][]byte // used instead of Args when non-nil
	Signers  []common.Address
	Script   bool
	UseVM    bool
	CompLimit uint64 // 0 = unlimited (weights: every kind counts Intensity)
	MemLimit  uint64 // 0 = unlimited
	RecordMeter bool
	Fault    *Fault
	// RandomByte, if set, supplies the host's random bytes.
	RandomByte func() byte
	StackDepthLimit uint64
	// Hook lets a check customise the interface before the run.
	Hook func(i *ru.TestRuntimeInterface)
	Location common.Location
	// Extra wires the additional callback kinds of extra.go (block queries,
	// GetOrLoadProgram, RecoverProgram, capability validation hooks, metrics …)
	// and enables the resource-owner-changed callback. Off by default so that
	// the traces seen by other checks are unchanged.
	Extra bool
	// Faults are further fault points (in addition to Fault); each fires at
	// its own (Kind, Index). Result.InjectedAt lists the ones reached, in order.
	Faults []Fault
	// NoAtreeValidation runs with runtime.Config.AtreeValidationEnabled = false
	// (the production setting: no per-mutation atree validation and no
	// Storage.CheckHealth at commit), so that an unhealthy commit is not turned
	// into a failed transaction before an independent health check can see it.
	NoAtreeValidation bool
	// Environment, if set, is passed as runtime.Context.Environment instead of letting the
	// runtime create a fresh one: a host that reuses one environment across transactions
	// (as production hosts do) is modelled by passing the same value to consecutive Runs
	// (see NewTxEnvironment). Only meaningful for transactions; must match UseVM.
	Environment runtime.Environment
}

// Result is everything observable from one run.
type Result struct {
	Value   cadence.Value
	Err     error
	Class   string // "ok" | "user" | "external" | "internal" | "gopanic" | "other"
	Kind    string // Go type of the innermost cause
	Events  []cadence.Event
	Logs    []string
	Writes  []Write
	Trace   []string // unified host-call trace (kinds, in order)
	Calls   map[string]int
	Meter   []MeterCall
	CodeOps []string
	Injected bool // the fault point was reached
	InjectedAt []Fault // every fault point reached, in order (Tx.Fault and Tx.Faults)
	CompUsed uint64
	MemUsed  uint64
	LimitHit bool // a gauge returned an error during the run
	EscapedPanic any
}

func (r *Result) OK() bool { return r.Err == nil && r.EscapedPanic == nil }

// ErrString is a short rendering of the error.
func (r *Result) ErrString() string {
	if r.EscapedPanic != nil {
		return fmt.Sprintf("ESCAPED PANIC: %v", r.EscapedPanic)
	}
	if r.Err == nil {
		return ""
	}
	s := r.Err.Error()
	if len(s) > 400 {
		s = s[:400]
	}
	return s
}

// Classify returns the class and the innermost-cause Go type of an error.
func Classify(err error) (class, kind string) {
	if err == nil {
		return "ok", ""
	}
	kind = InnermostKind(err)
	var goRuntimeErr interface{ RuntimeError() }
	if errors.As(err, &goRuntimeErr) {
		return "gopanic", kind
	}
	switch {
	case cerrors.IsInternalError(err):
		return "internal", kind
	case cerrors.IsUserError(err):
		return "user", kind
	}
	if _, ok := cerrors.GetExternalError(err); ok {
		return "external", kind
	}
	return "other", kind
}

// InnermostKind is the Go type name of the deepest error in the chain that
// is not a bare wrapper.
func InnermostKind(err error) string {
	last := err
	for {
		type unwrapper interface{ Unwrap() error }
		u, ok := last.(unwrapper)
		if !ok {
			break
		}
		next := u.Unwrap()
		if next == nil {
			break
		}
		last = next
	}
	// checker errors: report the first child error type
	type parent interface{ ChildErrors() []error }
	if p, ok := last.(parent); ok {
		ch := p.ChildErrors()
		if len(ch) > 0 {
			return reflect.TypeOf(last).String() + ">" + InnermostKind(ch[0])
		}
	}
	return reflect.TypeOf(last).String()
}

type limitError struct{ what string }

func (e limitError) Error() string  { return e.what + " limit exceeded (harness gauge)" }
func (e limitError) IsUserError()   {}

// Run executes tx against l. On success of a transaction the ledger is
// updated in place (writes were applied); on failure of a transaction, and
// for every script, l is left exactly as it was (the host discards the
// execution's effects, as the real host does) — but Result.Writes still
// records every SetValue the runtime attempted.
func Run(l *Ledger, tx Tx) (res *Result) {
	res = &Result{Calls: map[string]int{}}
	work := l
	// operate on a copy so that a failed execution can be discarded
	work = l.Clone()

	faultHit := func(kind string) bool {
		idx := res.Calls[kind]
		res.Calls[kind] = idx + 1
		res.Trace = append(res.Trace, kind)
		f := tx.Fault
		if f == nil || f.Kind != kind || f.Index != idx {
			f = nil
			for i := range tx.Faults {
				if tx.Faults[i].Kind == kind && tx.Faults[i].Index == idx {
					f = &tx.Faults[i]
					break
				}
			}
		}
		if f != nil {
			res.Injected = true
			res.InjectedAt = append(res.InjectedAt, *f)
			switch f.Mode {
			case 1:
				panic(ErrInjected)
			case 2:
				panic("verif: injected non-error panic")
			}
			return true
		}
		return false
	}

	codeKey := func(loc common.AddressLocation) string { return string(loc.ID()) }

	iface := &ru.TestRuntimeInterface{
		Storage: ru.TestLedger{
			StoredValues:   work.Values,
			StorageIndices: work.Indices,
			OnValueExists: func(owner, k []byte) (bool, error) {
				if faultHit("ValueExists") {
					return false, ErrInjected
				}
				return len(work.Values[key(owner, k)]) > 0, nil
			},
			OnGetValue: func(owner, k []byte) ([]byte, error) {
				if faultHit("GetValue") {
					return nil, ErrInjected
				}
				return work.Values[key(owner, k)], nil
			},
			OnSetValue: func(owner, k, v []byte) error {
				if faultHit("SetValue") {
					return ErrInjected
				}
				cp := append([]byte(nil), v...)
				work.Values[key(owner, k)] = cp
				res.Writes = append(res.Writes, Write{string(owner), string(k), cp})
				return nil
			},
			OnAllocateSlabIndex: func(owner []byte) (r atree.SlabIndex, err error) {
				if faultHit("AllocateSlabIndex") {
					return r, ErrInjected
				}
				idx := work.Indices[string(owner)] + 1
				work.Indices[string(owner)] = idx
				binary.BigEndian.PutUint64(r[:], idx)
				return
			},
		},
		OnGetSigningAccounts: func() ([]runtime.Address, error) {
			if faultHit("GetSigningAccounts") {
				return nil, ErrInjected
			}
			return tx.Signers, nil
		},
		OnProgramLog: func(s string) {
			if faultHit("ProgramLog") {
				panic(ErrInjected)
			}
			res.Logs = append(res.Logs, s)
		},
		OnEmitEvent: func(e cadence.Event) error {
			if faultHit("EmitEvent") {
				return ErrInjected
			}
			res.Events = append(res.Events, e)
			return nil
		},
		OnGenerateUUID: func() (uint64, error) {
			if faultHit("GenerateUUID") {
				return 0, ErrInjected
			}
			work.UUID++
			return work.UUID, nil
		},
		OnGenerateAccountID: func(a common.Address) (uint64, error) {
			if faultHit("GenerateAccountID") {
				return 0, ErrInjected
			}
			work.AccountIDs[a]++
			return work.AccountIDs[a], nil
		},
		OnResolveLocation: func(ids []runtime.Identifier, loc runtime.Location) ([]runtime.ResolvedLocation, error) {
			if faultHit("ResolveLocation") {
				return nil, ErrInjected
			}
			// address location without a name: one resolved location per identifier
			if al, ok := loc.(common.AddressLocation); ok && al.Name == "" {
				var out []runtime.ResolvedLocation
				for _, id := range ids {
					out = append(out, runtime.ResolvedLocation{
						Location:    common.AddressLocation{Address: al.Address, Name: id.Identifier},
						Identifiers: []runtime.Identifier{id},
					})
				}
				return out, nil
			}
			return []runtime.ResolvedLocation{{Location: loc, Identifiers: ids}}, nil
		},
		OnGetCode: func(loc runtime.Location) ([]byte, error) {
			if faultHit("GetCode") {
				return nil, ErrInjected
			}
			return work.Code[string(loc.ID())], nil
		},
		OnGetAccountContractCode: func(loc common.AddressLocation) ([]byte, error) {
			if faultHit("GetAccountContractCode") {
				return nil, ErrInjected
			}
			return work.Code[codeKey(loc)], nil
		},
		OnUpdateAccountContractCode: func(loc common.AddressLocation, code []byte) error {
			if faultHit("UpdateAccountContractCode") {
				return ErrInjected
			}
			work.Code[codeKey(loc)] = append([]byte(nil), code...)
			res.CodeOps = append(res.CodeOps, "update "+codeKey(loc))
			return nil
		},
		OnRemoveAccountContractCode: func(loc common.AddressLocation) error {
			if faultHit("RemoveAccountContractCode") {
				return ErrInjected
			}
			delete(work.Code, codeKey(loc))
			res.CodeOps = append(res.CodeOps, "remove "+codeKey(loc))
			return nil
		},
		OnGetAccountContractNames: func(a runtime.Address) ([]string, error) {
			if faultHit("GetAccountContractNames") {
				return nil, ErrInjected
			}
			var names []string
			for k := range work.Code {
				loc, _, err := common.DecodeTypeID(nil, k)
				if err != nil {
					continue
				}
				if al, ok := loc.(common.AddressLocation); ok && al.Address == a {
					names = append(names, al.Name)
				}
			}
			sort.Strings(names)
			return names, nil
		},
		OnDecodeArgument: func(b []byte, t cadence.Type) (cadence.Value, error) {
			if faultHit("DecodeArgument") {
				return nil, ErrInjected
			}
			return jsoncdc.Decode(nil, b)
		},
		OnReadRandom: func(buf []byte) error {
			if faultHit("ReadRandom") {
				return ErrInjected
			}
			for i := range buf {
				if tx.RandomByte != nil {
					buf[i] = tx.RandomByte()
				} else {
					buf[i] = 0
				}
			}
			return nil
		},
		OnGetAccountBalance: func(runtime.Address) (uint64, error) {
			if faultHit("GetAccountBalance") {
				return 0, ErrInjected
			}
			return 100_00000000, nil
		},
		OnGetAccountAvailableBalance: func(runtime.Address) (uint64, error) {
			if faultHit("GetAccountAvailableBalance") {
				return 0, ErrInjected
			}
			return 90_00000000, nil
		},
		OnGetStorageUsed: func(runtime.Address) (uint64, error) {
			if faultHit("GetStorageUsed") {
				return 0, ErrInjected
			}
			return 1000, nil
		},
		OnGetStorageCapacity: func(runtime.Address) (uint64, error) {
			if faultHit("GetStorageCapacity") {
				return 0, ErrInjected
			}
			return 100000, nil
		},
		OnCreateAccount: func(payer runtime.Address, _ interpreter.InvocationContext) (runtime.Address, error) {
			if faultHit("CreateAccount") {
				return runtime.Address{}, ErrInjected
			}
			work.AccountIDs[common.Address{0xff}]++
			n := work.AccountIDs[common.Address{0xff}]
			return common.Address{0, 0, 0, 0, 0, 0, 1, byte(n)}, nil
		},
		OnValidatePublicKey: func(*stdlib.PublicKey) error {
			if faultHit("ValidatePublicKey") {
				return ErrInjected
			}
			return nil
		},
		OnHash: func(data []byte, tag string, _ runtime.HashAlgorithm) ([]byte, error) {
			if faultHit("Hash") {
				return nil, ErrInjected
			}
			return []byte{1, 2, 3, 4}, nil
		},
		OnVerifySignature: func([]byte, string, []byte, []byte, runtime.SignatureAlgorithm, runtime.HashAlgorithm) (bool, error) {
			if faultHit("VerifySignature") {
				return false, ErrInjected
			}
			return true, nil
		},
		OnBLSVerifyPOP: func(*stdlib.PublicKey, []byte) (bool, error) {
			if faultHit("BLSVerifyPOP") {
				return false, ErrInjected
			}
			return true, nil
		},
		OnBLSAggregateSignatures: func(s [][]byte) ([]byte, error) {
			if faultHit("BLSAggregateSignatures") {
				return nil, ErrInjected
			}
			return []byte{9}, nil
		},
		OnBLSAggregatePublicKeys: func(k []*stdlib.PublicKey) (*stdlib.PublicKey, error) {
			if faultHit("BLSAggregatePublicKeys") {
				return nil, ErrInjected
			}
			return k[0], nil
		},
		OnAddAccountKey: func(a runtime.Address, pk *stdlib.PublicKey, h runtime.HashAlgorithm, w int) (*stdlib.AccountKey, error) {
			if faultHit("AddAccountKey") {
				return nil, ErrInjected
			}
			return &stdlib.AccountKey{KeyIndex: 0, PublicKey: pk, HashAlgo: h, Weight: w}, nil
		},
		OnGetAccountKey: func(a runtime.Address, i uint32) (*stdlib.AccountKey, error) {
			if faultHit("GetAccountKey") {
				return nil, ErrInjected
			}
			return nil, nil
		},
		OnAccountKeysCount: func(runtime.Address) (uint32, error) {
			if faultHit("AccountKeysCount") {
				return 0, ErrInjected
			}
			return 0, nil
		},
		OnRemoveAccountKey: func(a runtime.Address, i uint32) (*stdlib.AccountKey, error) {
			if faultHit("RevokeAccountKey") {
				return nil, ErrInjected
			}
			return nil, nil
		},
	}
	if tx.Hook != nil {
		tx.Hook(iface)
	}

	var memGauge common.MemoryGauge
	var compGauge common.ComputationGauge
	if tx.MemLimit > 0 || tx.RecordMeter {
		memGauge = common.FunctionMemoryGauge(func(u common.MemoryUsage) error {
			if tx.RecordMeter {
				res.Meter = append(res.Meter, MeterCall{true, uint(u.Kind), u.Amount})
			}
			res.MemUsed += u.Amount
			if tx.MemLimit > 0 && res.MemUsed > tx.MemLimit {
				res.LimitHit = true
				return limitError{"memory"}
			}
			return nil
		})
	}
	if tx.CompLimit > 0 || tx.RecordMeter {
		compGauge = common.FunctionComputationGauge(func(u common.ComputationUsage) error {
			if tx.RecordMeter {
				res.Meter = append(res.Meter, MeterCall{false, uint(u.Kind), u.Intensity})
			}
			res.CompUsed += u.Intensity
			if tx.CompLimit > 0 && res.CompUsed > tx.CompLimit {
				res.LimitHit = true
				return limitError{"computation"}
			}
			return nil
		})
	}

	cfg := runtime.Config{AtreeValidationEnabled: !tx.NoAtreeValidation, StackDepthLimit: tx.StackDepthLimit}
	var hostIface runtime.Interface = iface
	if tx.Extra {
		cfg.ResourceOwnerChangeHandlerEnabled = true
		hostIface = wireExtra(iface, faultHit, func(s string) { res.Logs = append(res.Logs, s) })
	}
	r := runtime.NewRuntime(cfg)

	args := tx.RawArgs
	if args == nil {
		for _, a := range tx.Args {
			b, err := jsoncdc.Encode(a)
			if err != nil {
				panic(fmt.Sprintf("rt: cannot encode argument: %v", err))
			}
			args = append(args, b)
		}
	}
	loc := tx.Location
	if loc == nil {
		if tx.Script {
			loc = common.ScriptLocation{0x1}
		} else {
			loc = common.TransactionLocation{0x1}
		}
	}
	ctx := runtime.Context{Interface: hostIface, Location: loc, UseVM: tx.UseVM, MemoryGauge: memGauge, ComputationGauge: compGauge, Environment: tx.Environment}

	func() {
		defer func() {
			if p := recover(); p != nil {
				res.EscapedPanic = p
			}
		}()
		if tx.Script {
			res.Value, res.Err = r.ExecuteScript(runtime.Script{Source: []byte(tx.Source), Arguments: args}, ctx)
		} else {
			res.Err = r.ExecuteTransaction(runtime.Script{Source: []byte(tx.Source), Arguments: args}, ctx)
		}
	}()
	if res.EscapedPanic != nil {
		res.Class, res.Kind = "escaped-panic", fmt.Sprintf("%T", res.EscapedPanic)
	} else {
		res.Class, res.Kind = Classify(res.Err)
	}
	if !tx.Script && res.OK() {
		// commit
		l.Values, l.Indices, l.Code, l.UUID, l.AccountIDs = work.Values, work.Indices, work.Code, work.UUID, work.AccountIDs
	}
	return res
}

// EventStrings renders events canonically.
func EventStrings(evs []cadence.Event) []string {
	out := make([]string, len(evs))
	for i, e := range evs {
		out[i] = e.String()
	}
	return out
}

// Addr returns the address 0x0..0n.
func Addr(n byte) common.Address { return common.Address{0, 0, 0, 0, 0, 0, 0, n} }

// Deploy deploys a contract with a plain transaction and panics on failure
// (harness set-up, not part of any oracle).
func Deploy(l *Ledger, addr common.Address, name, code string, useVM bool) {
	src := fmt.Sprintf(`transaction { prepare(signer: auth(Contracts) &Account) { signer.contracts.add(name: %q, code: "%x".decodeHex()) } }`, name, code)
	r := Run(l, Tx{Source: src, Signers: []common.Address{addr}, UseVM: useVM})
	if !r.OK() {
		panic(fmt.Sprintf("rt.Deploy %s failed: %s", name, r.ErrString()))
	}
}

// NewTxEnvironment creates a transaction environment that can be reused across
// several Runs (Tx.Environment), with the configuration Run uses by default.
func NewTxEnvironment(useVM bool) runtime.Environment {
	cfg := runtime.Config{AtreeValidationEnabled: true}
	if useVM {
		return runtime.NewBaseVMEnvironment(cfg)
	}
	return runtime.NewBaseInterpreterEnvironment(cfg)
}

package rt

import (
	"testing"

	"github.com/onflow/cadence/common"
)

func TestSmoke(t *testing.T) {
	for _, vm := range []bool{false, true} {
		l := NewLedger()
		Deploy(l, Addr(1), "C", `access(all) contract C { access(all) resource R { access(all) let x: Int; init(){ self.x = 1 } } access(all) fun mk(): @R { return <- create R() } }`, vm)
		r := Run(l, Tx{Source: `import C from 0x1
		transaction { prepare(s: auth(Storage) &Account) { s.storage.save(<- C.mk(), to: /storage/r); log("saved") } }`, Signers: []common.Address{Addr(1)}, UseVM: vm})
		if !r.OK() {
			t.Fatal(r.ErrString())
		}
		t.Log(vm, r.Logs, len(r.Writes), r.Trace)
		r = Run(l, Tx{Source: `import C from 0x1
		access(all) fun main(): Int { return getAuthAccount<auth(Storage) &Account>(0x1).storage.borrow<&C.R>(from: /storage/r)!.x }`, Script: true, UseVM: vm})
		if !r.OK() {
			t.Fatal(r.ErrString())
		}
		t.Log(r.Value)
		r = Run(l, Tx{Source: `access(all) fun main(): Int { let a: [Int] = []; return a[1] }`, Script: true, UseVM: vm})
		t.Log(r.Class, r.Kind, r.ErrString())
	}
}

package rt

import (
	"time"

	"go.opentelemetry.io/otel/attribute"

	"github.com/onflow/cadence/ast"
	"github.com/onflow/cadence/common"
	"github.com/onflow/cadence/interpreter"
	"github.com/onflow/cadence/runtime"
	"github.com/onflow/cadence/sema"
	"github.com/onflow/cadence/stdlib"
	ru "github.com/onflow/cadence/test_utils/runtime_utils"
)

// Additional callback kinds, wired only when Tx.Extra is set (so the traces
// of every other check are unchanged). Kinds added:
//
//	GetCurrentBlockHeight, GetBlockAtHeight, GetOrLoadProgram, RecoverProgram,
//	ValidateAccountCapabilitiesGet, ValidateAccountCapabilitiesPublish,
//	MinimumRequiredVersion, ImplementationDebugLog,
//	ResourceOwnerChanged, ProgramParsed, ProgramChecked, ProgramInterpreted, RecordTrace
//	(the last five have no error return: only the panic modes apply, see NoErrorReturn),
//
// and ProgramLog gets a genuine "returns error" mode (the test interface's
// OnProgramLog cannot return one).

// NoErrorReturn lists the callback kinds whose Go signature has no error
// result; Fault.Mode 0 is not applicable to them.
var NoErrorReturn = map[string]bool{
	"ResourceOwnerChanged": true, "ProgramParsed": true, "ProgramChecked": true,
	"ProgramInterpreted": true, "RecordTrace": true,
}

type extraIface struct {
	*ru.TestRuntimeInterface
	hit func(kind string) bool
	log func(string)
}

var _ runtime.Interface = &extraIface{}
var _ runtime.Metrics = &extraIface{}

func (e *extraIface) GetCurrentBlockHeight() (uint64, error) {
	if e.hit("GetCurrentBlockHeight") {
		return 0, ErrInjected
	}
	return e.TestRuntimeInterface.GetCurrentBlockHeight()
}

func (e *extraIface) GetBlockAtHeight(h uint64) (stdlib.Block, bool, error) {
	if e.hit("GetBlockAtHeight") {
		return stdlib.Block{}, false, ErrInjected
	}
	return e.TestRuntimeInterface.GetBlockAtHeight(h)
}

func (e *extraIface) ProgramLog(s string) error {
	if e.hit("ProgramLog") {
		return ErrInjected
	}
	e.log(s)
	return nil
}

// wireExtra installs the additional kinds on iface and returns the interface
// to hand to the runtime.
func wireExtra(iface *ru.TestRuntimeInterface, hit func(string) bool, log func(string)) runtime.Interface {
	loadErrs := map[runtime.Location]error{}
	iface.OnGetOrLoadProgram = func(location runtime.Location, load func() (*runtime.Program, error)) (*runtime.Program, error) {
		if hit("GetOrLoadProgram") {
			return nil, ErrInjected
		}
		// runtime.Interface: "MUST return exactly what was previously returned from load,
		// EVEN IF loading failed (program is nil / error is non-nil)" - so the error is kept too
		// (TestRuntimeInterface's default keeps only the nil program and answers (nil, nil) later).
		if iface.Programs == nil {
			iface.Programs = map[runtime.Location]*runtime.Program{}
		}
		if p, ok := iface.Programs[location]; ok {
			return p, loadErrs[location]
		}
		p, err := load()
		iface.Programs[location] = p
		if err != nil {
			loadErrs[location] = err
		}
		return p, err
	}
	iface.OnRecoverProgram = func(*ast.Program, common.Location) ([]byte, error) {
		if hit("RecoverProgram") {
			return nil, ErrInjected
		}
		return nil, nil
	}
	iface.OnValidateAccountCapabilitiesGet = func(interpreter.AccountCapabilityGetValidationContext, interpreter.AddressValue,
		interpreter.PathValue, *sema.ReferenceType, *sema.ReferenceType) (bool, error) {
		if hit("ValidateAccountCapabilitiesGet") {
			return false, ErrInjected
		}
		return true, nil
	}
	iface.OnValidateAccountCapabilitiesPublish = func(interpreter.AccountCapabilityPublishValidationContext, interpreter.AddressValue,
		interpreter.PathValue, *interpreter.ReferenceStaticType) (bool, error) {
		if hit("ValidateAccountCapabilitiesPublish") {
			return false, ErrInjected
		}
		return true, nil
	}
	iface.OnMinimumRequiredVersion = func() (string, error) {
		if hit("MinimumRequiredVersion") {
			return "", ErrInjected
		}
		return "", nil
	}
	iface.OnImplementationDebugLog = func(string) error {
		if hit("ImplementationDebugLog") {
			return ErrInjected
		}
		return nil
	}
	// callbacks without an error result: a hit can only panic (modes 1, 2);
	// in mode 0 the hit is recorded and the callback returns normally.
	iface.OnResourceOwnerChanged = func(*interpreter.Interpreter, *interpreter.CompositeValue, common.Address, common.Address) {
		hit("ResourceOwnerChanged")
	}
	iface.OnProgramParsed = func(runtime.Location, time.Duration) { hit("ProgramParsed") }
	iface.OnProgramChecked = func(runtime.Location, time.Duration) { hit("ProgramChecked") }
	iface.OnProgramInterpreted = func(runtime.Location, time.Duration) { hit("ProgramInterpreted") }
	iface.OnRecordTrace = func(string, time.Duration, []attribute.KeyValue) { hit("RecordTrace") }
	return &extraIface{TestRuntimeInterface: iface, hit: hit, log: log}
}

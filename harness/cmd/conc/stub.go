//go:build !verifovl

// The conc family (C36, C33) needs the scheduler/map-order overlay: it is
// built by /verif/run with `-overlay … -tags verif,verifovl`.
package main

import "fmt"

func main() { fmt.Println("conc: build with the overlay (use /verif/run)") }

//go:build verifovl

package main

import (
	"os"

	"verif/checks/conc"
	"verif/mc"
)

func main() {
	if len(os.Args) > 1 && os.Args[1] == "--child" {
		conc.ChildMain(os.Args[2:])
		return
	}
	mc.Main()
}

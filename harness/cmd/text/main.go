package main

import (
	_ "verif/checks/text"
	"verif/mc"
)

func main() { mc.Main() }

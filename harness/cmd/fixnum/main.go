package main

import (
	_ "verif/checks/fixnum"
	"verif/mc"
)

func main() { mc.Main() }

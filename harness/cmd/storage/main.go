package main

import (
	_ "verif/checks/storage"
	"verif/mc"
)

func main() { mc.Main() }

package main

import (
	_ "verif/checks/codec"
	"verif/mc"
)

func main() { mc.Main() }

package main

import (
	_ "verif/checks/types_c18"
	"verif/mc"
)

func main() { mc.Main() }

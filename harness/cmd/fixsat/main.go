// Command fixsat is a stand-alone driver for the fixed-point part of C13
// (package verif/checks/fixsat), registered under the id C13 so that known
// findings match. `./run C13` uses package arith; this binary exists so the
// fixed-point part can be run and mutant-tested on its own:
//
//	cd /verif/harness && go build -tags verif -o /tmp/fixsat ./cmd/fixsat && VERIF_OUT=/tmp/out-fixnum /tmp/fixsat C13 --tier quick
package main

import (
	"encoding/json"

	"verif/checks/fixsat"
	"verif/mc"
)

func main() {
	mc.Register(&mc.Check{
		ID:          "C13",
		Rule:        "fixed-point part only: every saturating member declared by the sema type of Fix64/UFix64/Fix128/UFix128 on every ordered pair of the fixed-point lattice, plus a reduced lattice through scripts in both engines; non-trivial = clamped, truncated or division by zero",
		Assumptions: []string{"math/big is the reference arithmetic"},
		Run:         fixsat.RunFixedSaturating,
		Replay: func(env *mc.Env, raw json.RawMessage) (bool, string) {
			v, d, _ := fixsat.ReplayFixedSaturating(env, raw)
			return v, d
		},
	})
	mc.Main()
}

package main

import (
	_ "verif/checks/types"
	"verif/mc"
)

func main() { mc.Main() }

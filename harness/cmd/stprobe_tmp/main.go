package main

import (
	"fmt"

	"github.com/onflow/cadence/common"
	"verif/rt"
)

func main() {
	for _, vm := range []bool{false, true} {
		l := rt.NewLedger()
		r := rt.Run(l, rt.Tx{Source: `transaction { prepare(a: auth(Storage) &Account) { a.storage.save([1], to: /storage/x); a.storage.save(5, to: /storage/i) } }`, Signers: []common.Address{rt.Addr(1)}, UseVM: vm})
		fmt.Println(r.OK(), r.ErrString())
		for _, body := range []string{
			`let r = a.storage.borrow<&AnyStruct>(from: /storage/x)!; log(r.getType().identifier)`,
			`let r = a.storage.borrow<&AnyStruct>(from: /storage/x)!; log(r as? &Int)`,
			`let r = a.storage.borrow<&AnyStruct>(from: /storage/x)!; log(r as? &[Int])`,
			`let r = a.storage.borrow<&AnyStruct>(from: /storage/i)!; log(r as? &[Int])`,
			`let r = a.storage.borrow<&AnyStruct>(from: /storage/i)!; log(r as? &Int)`,
			`let r = a.storage.borrow<&[Int]>(from: /storage/x)!; let q = r as &AnyStruct; log(q as? &String)`,
			`let x = [1]; let r = &x as &AnyStruct; log(r as? &Int)`,
		} {
			res := rt.Run(l, rt.Tx{Source: `access(all) fun main() { let a = getAuthAccount<auth(Storage) &Account>(0x1); ` + body + ` }`, Script: true, UseVM: vm})
			e := res.ErrString()
			if len(e) > 0 {
				e = res.Class + " " + res.Kind
			}
			fmt.Println(vm, body, "=>", res.Logs, e)
		}
	}
}

package main

import (
	_ "verif/checks/resources"
	"verif/mc"
)

func main() { mc.Main() }

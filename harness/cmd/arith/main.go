package main

import (
	_ "verif/checks/arith"
	"verif/mc"
)

func main() { mc.Main() }

package main

import (
	_ "verif/checks/lang"
	"verif/mc"
)

func main() { mc.Main() }

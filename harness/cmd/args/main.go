package main

import (
	_ "verif/checks/args"
	"verif/mc"
)

func main() { mc.Main() }

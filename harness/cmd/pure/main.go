package main

import (
	_ "verif/checks/pure"
	"verif/mc"
)

func main() { mc.Main() }

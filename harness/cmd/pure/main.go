// C51 steers common/intervalst's randomized insertion by re-seeding math/rand's global source;
// since Go 1.24 rand.Seed is a no-op unless this setting is given.
//
//go:debug randseednop=0
package main

import (
	_ "verif/checks/pure"
	"verif/mc"
)

func main() { mc.Main() }

package main

import (
	_ "verif/checks/host"
	"verif/mc"
)

func main() { mc.Main() }

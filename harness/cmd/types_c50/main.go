package main

import (
	_ "verif/checks/types_c50"
	"verif/mc"
)

func main() { mc.Main() }

package main

import (
	_ "verif/checks/front"
	"verif/mc"
)

func main() { mc.Main() }

package main

import (
	_ "verif/checks/caps"
	"verif/mc"
)

func main() { mc.Main() }

// Package num describes Cadence's 27 numeric types for the checks: how to
// build a value from its raw (scaled) integer, how to read it back, the range,
// and the shared boundary lattice B(T).
package num

import (
	"fmt"
	"math/big"
	"sort"

	"github.com/onflow/cadence/interpreter"
	"github.com/onflow/cadence/sema"
)

type Kind int

const (
	Int Kind = iota
	UInt
	Word
	Fix
	UFix
)

type Type struct {
	Name  string
	Kind  Kind
	Bits  int // 0 = unbounded
	Scale int // decimal places (fixed-point only)
	Min   *big.Int // nil = unbounded below
	Max   *big.Int // nil = unbounded above
	Sema  sema.Type
	Make  func(raw *big.Int) interpreter.NumberValue
}

func (t *Type) Signed() bool   { return t.Kind == Int || t.Kind == Fix }
func (t *Type) IsFixed() bool  { return t.Kind == Fix || t.Kind == UFix }
func (t *Type) Integer() bool  { return !t.IsFixed() }
func (t *Type) InRange(x *big.Int) bool {
	return (t.Min == nil || x.Cmp(t.Min) >= 0) && (t.Max == nil || x.Cmp(t.Max) <= 0)
}

func pow2(n int) *big.Int { return new(big.Int).Lsh(big.NewInt(1), uint(n)) }

func B(x int64) *big.Int { return big.NewInt(x) }

// Raw returns the raw (scaled for fixed-point) integer of a numeric value.
func Raw(v interpreter.Value) *big.Int {
	switch v := v.(type) {
	case interpreter.Int8Value:
		return B(int64(v))
	case interpreter.Int16Value:
		return B(int64(v))
	case interpreter.Int32Value:
		return B(int64(v))
	case interpreter.Int64Value:
		return B(int64(v))
	case interpreter.Int128Value:
		return new(big.Int).Set(v.BigInt)
	case interpreter.Int256Value:
		return new(big.Int).Set(v.BigInt)
	case interpreter.IntValue:
		return new(big.Int).Set(v.BigInt)
	case interpreter.UInt8Value:
		return B(int64(v))
	case interpreter.UInt16Value:
		return B(int64(v))
	case interpreter.UInt32Value:
		return B(int64(v))
	case interpreter.UInt64Value:
		return new(big.Int).SetUint64(uint64(v))
	case interpreter.UInt128Value:
		return new(big.Int).Set(v.BigInt)
	case interpreter.UInt256Value:
		return new(big.Int).Set(v.BigInt)
	case interpreter.UIntValue:
		return new(big.Int).Set(v.BigInt)
	case interpreter.Word8Value:
		return B(int64(v))
	case interpreter.Word16Value:
		return B(int64(v))
	case interpreter.Word32Value:
		return B(int64(v))
	case interpreter.Word64Value:
		return new(big.Int).SetUint64(uint64(v))
	case interpreter.Word128Value:
		return new(big.Int).Set(v.BigInt)
	case interpreter.Word256Value:
		return new(big.Int).Set(v.BigInt)
	case interpreter.Fix64Value:
		return B(int64(v))
	case interpreter.UFix64Value:
		return new(big.Int).SetUint64(uint64(v.UFix64Value))
	case interpreter.Fix128Value:
		return v.ToBigInt()
	case interpreter.UFix128Value:
		return v.ToBigInt()
	}
	panic(fmt.Sprintf("num.Raw: not a number: %T", v))
}

var Types []*Type
var ByName = map[string]*Type{}

func add(t *Type) {
	Types = append(Types, t)
	ByName[t.Name] = t
}

func init() {
	sbounds := func(n int) (*big.Int, *big.Int) {
		return new(big.Int).Neg(pow2(n - 1)), new(big.Int).Sub(pow2(n-1), B(1))
	}
	ubounds := func(n int) (*big.Int, *big.Int) {
		return B(0), new(big.Int).Sub(pow2(n), B(1))
	}
	mk := func(name string, k Kind, bits int, st sema.Type, f func(*big.Int) interpreter.NumberValue) {
		t := &Type{Name: name, Kind: k, Bits: bits, Sema: st, Make: f}
		switch {
		case bits == 0 && k == Int:
		case bits == 0 && k == UInt:
			t.Min = B(0)
		case k == Int || k == Fix:
			t.Min, t.Max = sbounds(bits)
		default:
			t.Min, t.Max = ubounds(bits)
		}
		if k == Fix || k == UFix {
			if bits == 64 {
				t.Scale = 8
			} else {
				t.Scale = 24
			}
		}
		add(t)
	}
	mk("Int8", Int, 8, sema.Int8Type, func(r *big.Int) interpreter.NumberValue { return interpreter.Int8Value(r.Int64()) })
	mk("Int16", Int, 16, sema.Int16Type, func(r *big.Int) interpreter.NumberValue { return interpreter.Int16Value(r.Int64()) })
	mk("Int32", Int, 32, sema.Int32Type, func(r *big.Int) interpreter.NumberValue { return interpreter.Int32Value(r.Int64()) })
	mk("Int64", Int, 64, sema.Int64Type, func(r *big.Int) interpreter.NumberValue { return interpreter.Int64Value(r.Int64()) })
	mk("Int128", Int, 128, sema.Int128Type, func(r *big.Int) interpreter.NumberValue {
		return interpreter.NewUnmeteredInt128ValueFromBigInt(new(big.Int).Set(r))
	})
	mk("Int256", Int, 256, sema.Int256Type, func(r *big.Int) interpreter.NumberValue {
		return interpreter.NewUnmeteredInt256ValueFromBigInt(new(big.Int).Set(r))
	})
	mk("Int", Int, 0, sema.IntType, func(r *big.Int) interpreter.NumberValue {
		return interpreter.NewUnmeteredIntValueFromBigInt(new(big.Int).Set(r))
	})
	mk("UInt8", UInt, 8, sema.UInt8Type, func(r *big.Int) interpreter.NumberValue { return interpreter.UInt8Value(r.Uint64()) })
	mk("UInt16", UInt, 16, sema.UInt16Type, func(r *big.Int) interpreter.NumberValue { return interpreter.UInt16Value(r.Uint64()) })
	mk("UInt32", UInt, 32, sema.UInt32Type, func(r *big.Int) interpreter.NumberValue { return interpreter.UInt32Value(r.Uint64()) })
	mk("UInt64", UInt, 64, sema.UInt64Type, func(r *big.Int) interpreter.NumberValue { return interpreter.UInt64Value(r.Uint64()) })
	mk("UInt128", UInt, 128, sema.UInt128Type, func(r *big.Int) interpreter.NumberValue {
		return interpreter.NewUnmeteredUInt128ValueFromBigInt(new(big.Int).Set(r))
	})
	mk("UInt256", UInt, 256, sema.UInt256Type, func(r *big.Int) interpreter.NumberValue {
		return interpreter.NewUnmeteredUInt256ValueFromBigInt(new(big.Int).Set(r))
	})
	mk("UInt", UInt, 0, sema.UIntType, func(r *big.Int) interpreter.NumberValue {
		return interpreter.NewUnmeteredUIntValueFromBigInt(new(big.Int).Set(r))
	})
	mk("Word8", Word, 8, sema.Word8Type, func(r *big.Int) interpreter.NumberValue { return interpreter.Word8Value(r.Uint64()) })
	mk("Word16", Word, 16, sema.Word16Type, func(r *big.Int) interpreter.NumberValue { return interpreter.Word16Value(r.Uint64()) })
	mk("Word32", Word, 32, sema.Word32Type, func(r *big.Int) interpreter.NumberValue { return interpreter.Word32Value(r.Uint64()) })
	mk("Word64", Word, 64, sema.Word64Type, func(r *big.Int) interpreter.NumberValue { return interpreter.Word64Value(r.Uint64()) })
	mk("Word128", Word, 128, sema.Word128Type, func(r *big.Int) interpreter.NumberValue {
		return interpreter.NewUnmeteredWord128ValueFromBigInt(new(big.Int).Set(r))
	})
	mk("Word256", Word, 256, sema.Word256Type, func(r *big.Int) interpreter.NumberValue {
		return interpreter.NewUnmeteredWord256ValueFromBigInt(new(big.Int).Set(r))
	})
	mk("Fix64", Fix, 64, sema.Fix64Type, func(r *big.Int) interpreter.NumberValue { return interpreter.NewUnmeteredFix64Value(r.Int64()) })
	mk("UFix64", UFix, 64, sema.UFix64Type, func(r *big.Int) interpreter.NumberValue { return interpreter.NewUnmeteredUFix64Value(r.Uint64()) })
	mk("Fix128", Fix, 128, sema.Fix128Type, func(r *big.Int) interpreter.NumberValue {
		return interpreter.NewFix128ValueFromBigInt(nil, new(big.Int).Set(r))
	})
	mk("UFix128", UFix, 128, sema.UFix128Type, func(r *big.Int) interpreter.NumberValue {
		return interpreter.NewUFix128ValueFromBigInt(nil, new(big.Int).Set(r))
	})
}

// Integers returns the integer (non fixed-point) types.
func Integers() []*Type {
	var out []*Type
	for _, t := range Types {
		if t.Integer() {
			out = append(out, t)
		}
	}
	return out
}

func FixedPoints() []*Type {
	var out []*Type
	for _, t := range Types {
		if t.IsFixed() {
			out = append(out, t)
		}
	}
	return out
}

var latticeK = []int{1, 4, 7, 8, 15, 16, 31, 32, 63, 64, 127, 128, 255, 256}

// Lattice returns the boundary lattice B(T) (sorted, deduplicated, in range).
// For 8-bit types it is the complete value set. extra widens it (thorough tier).
func Lattice(t *Type, extra bool) []*big.Int {
	set := map[string]*big.Int{}
	put := func(x *big.Int) {
		if t.InRange(x) {
			set[x.String()] = new(big.Int).Set(x)
		}
	}
	if t.Bits == 8 {
		for i := -128; i < 256; i++ {
			put(B(int64(i)))
		}
	} else {
		for i := int64(-3); i <= 3; i++ {
			put(B(i))
		}
		ks := latticeK
		for _, k := range ks {
			p := pow2(k)
			for d := int64(-1); d <= 1; d++ {
				put(new(big.Int).Add(p, B(d)))
				put(new(big.Int).Add(new(big.Int).Neg(p), B(d)))
			}
		}
		if t.Min != nil {
			for d := int64(0); d <= 2; d++ {
				put(new(big.Int).Add(t.Min, B(d)))
			}
		}
		if t.Max != nil {
			for d := int64(0); d <= 2; d++ {
				put(new(big.Int).Sub(t.Max, B(d)))
			}
			s := new(big.Int).Sqrt(t.Max)
			put(s)
			put(new(big.Int).Add(s, B(1)))
			put(new(big.Int).Neg(s))
			put(new(big.Int).Neg(new(big.Int).Add(s, B(1))))
			h := new(big.Int).Rsh(t.Max, 1)
			put(h)
			put(new(big.Int).Add(h, B(1)))
		}
		if t.Bits == 0 {
			for _, j := range []int{1, 2, 3, 4, 39, 40, 41} {
				p := pow2(64 * j)
				for d := int64(-1); d <= 1; d++ {
					put(new(big.Int).Add(p, B(d)))
					put(new(big.Int).Add(new(big.Int).Neg(p), B(d)))
				}
			}
		}
		if t.IsFixed() {
			ten := B(10)
			for e := 0; e <= 40; e++ {
				p := new(big.Int).Exp(ten, B(int64(e)), nil)
				put(p)
				put(new(big.Int).Neg(p))
				put(new(big.Int).Add(p, B(1)))
				put(new(big.Int).Sub(p, B(1)))
			}
			one := new(big.Int).Exp(ten, B(int64(t.Scale)), nil)
			put(new(big.Int).Rsh(one, 1))
			put(new(big.Int).Neg(new(big.Int).Rsh(one, 1)))
			put(new(big.Int).Mul(one, B(3)))
			put(new(big.Int).Div(one, B(3)))
		}
		if extra {
			for k := 2; k < 256; k += 3 {
				p := pow2(k)
				put(p)
				put(new(big.Int).Neg(p))
				put(new(big.Int).Sub(p, B(1)))
				put(new(big.Int).Add(new(big.Int).Neg(p), B(1)))
			}
			for i := int64(4); i <= 17; i++ {
				put(B(i))
				put(B(-i))
			}
			if t.Max != nil {
				for _, d := range []int64{3, 5, 7, 10} {
					put(new(big.Int).Div(t.Max, B(d)))
					if t.Min != nil && t.Min.Sign() < 0 {
						put(new(big.Int).Quo(t.Min, B(d)))
					}
				}
			}
		}
	}
	out := make([]*big.Int, 0, len(set))
	for _, v := range set {
		out = append(out, v)
	}
	sort.Slice(out, func(i, j int) bool { return out[i].Cmp(out[j]) < 0 })
	return out
}

// ErrClass classifies a recovered panic value of an arithmetic method.
func ErrClass(p any) string {
	if p == nil {
		return ""
	}
	if e, ok := p.(error); ok {
		switch e.Error() {
		case "overflow":
			return "overflow"
		case "underflow":
			return "underflow"
		case "division by zero":
			return "divzero"
		case "negative shift":
			return "negshift"
		}
		return fmt.Sprintf("other:%T:%s", p, e.Error())
	}
	return fmt.Sprintf("other:%T:%v", p, p)
}

package tygen

import "verif/rt"

// Deploy deploys the prelude contract `C` to account 0x1 of the ledger.
func Deploy(l *rt.Ledger, useVM bool) {
	rt.Deploy(l, PreludeAddress, PreludeName, Prelude(), useVM)
}

// NewLedger returns a fresh ledger with the prelude deployed.
func NewLedger() *rt.Ledger {
	l := rt.NewLedger()
	Deploy(l, false)
	return l
}

package tygen

import (
	"fmt"
	"strings"
	"sync"

	"github.com/onflow/cadence/ast"
	"github.com/onflow/cadence/common"
	"github.com/onflow/cadence/interpreter"
	"github.com/onflow/cadence/sema"
)

// A second, independent contract `D` (0x1) with interface inheritance chains
// of depth 3 — which the prelude `C` (depth 2) lacks — for checks that want
// them (C08). Universe / Extras are not affected.
const chainPrelude = `access(all) contract D {
    access(all) struct interface J1 {}
    access(all) struct interface J2: J1 {}
    access(all) struct interface J3: J2 {}
    access(all) struct interface K {}
    access(all) struct T1: J1 { init() {} }
    access(all) struct T3: J3 { init() {} }
    access(all) struct T3K: J3, K { init() {} }
    access(all) resource interface RJ1 {}
    access(all) resource interface RJ2: RJ1 {}
    access(all) resource interface RJ3: RJ2 {}
    access(all) resource RR3: RJ3 { init() {} }
    init() {}
}
`

// ChainLocation is the location of contract D.
var ChainLocation = common.AddressLocation{Address: PreludeAddress, Name: "D"}

// ChainPrelude is the source of contract D; ChainImport the import line.
func ChainPrelude() string { return chainPrelude }
func ChainImport() string  { return "import D from 0x1\n" }

var (
	chainOnce    sync.Once
	chainChecker *sema.Checker
	chainTypes   []Ty
)

func chainCheck() *sema.Checker {
	chainOnce.Do(func() {
		ch, err := CheckProgram(chainPrelude, ChainLocation, nil)
		if ch == nil || err != nil {
			panic(fmt.Sprintf("tygen: chain prelude does not check: %v", err))
		}
		chainChecker = ch
	})
	return chainChecker
}

// ChainTypes returns the types over contract D: its interfaces (bare, not
// denotable), composites, every intersection of one or two of its interfaces
// of one kind (both orders), and optional / array / unauthorized reference of
// each of those. Denotable members are confirmed by the real checker.
func ChainTypes() []Ty {
	ch := chainCheck()
	if chainTypes != nil {
		return chainTypes
	}
	id := func(n string) common.TypeID { return ChainLocation.TypeID(nil, "D."+n) }
	var cand []Ty
	structIfaces := []string{"J1", "J2", "J3", "K"}
	resIfaces := []string{"RJ1", "RJ2", "RJ3"}
	iface := map[string]*sema.InterfaceType{}
	for _, n := range append(append([]string{}, structIfaces...), resIfaces...) {
		it := ch.Elaboration.InterfaceType(id(n))
		iface[n] = it
		t := mk(it, "", "nominal", 0)
		t.Name = "<interface D." + n + ">"
		cand = append(cand, t)
	}
	var base []Ty
	for _, n := range []string{"T1", "T3", "T3K", "RR3"} {
		base = append(base, mk(ch.Elaboration.CompositeType(id(n)), "D."+n, "nominal", 0))
	}
	for _, group := range [][]string{structIfaces, resIfaces} {
		for _, a := range group {
			base = append(base, mk(sema.NewIntersectionType(nil, nil, []*sema.InterfaceType{iface[a]}), "{D."+a+"}", "intersection", 0))
			for _, b := range group {
				if a != b {
					base = append(base, mk(sema.NewIntersectionType(nil, nil, []*sema.InterfaceType{iface[a], iface[b]}),
						"{D."+a+", D."+b+"}", "intersection", 0))
				}
			}
		}
	}
	cand = append(cand, base...)
	for _, t := range base {
		b := t.Bare()
		cand = append(cand,
			mk(sema.NewOptionalType(nil, t.Sema), b+"?", "optional", 1),
			mk(sema.NewVariableSizedType(nil, t.Sema), "["+b+"]", "vararray", 1),
			mk(sema.NewReferenceType(nil, sema.UnauthorizedAccess, t.Sema), "&"+b, "reference", 1),
		)
	}
	// confirm the spellings with the checker
	var sb strings.Builder
	sb.WriteString(ChainImport())
	var idx []int
	for i, t := range cand {
		if t.Denotable() {
			fmt.Fprintf(&sb, "access(all) let t%d = Type<%s>()\n", i, t.Source)
			idx = append(idx, i)
		}
	}
	sc, err := CheckProgram(sb.String(), common.ScriptLocation{0x8}, map[string]*sema.Elaboration{ChainLocation.ID(): ch.Elaboration})
	if sc == nil || err != nil {
		panic(fmt.Sprintf("tygen: chain types do not check: %v", err))
	}
	decls := sc.Program.VariableDeclarations()
	for k, i := range idx {
		inv := decls[k].Value.(*ast.InvocationExpression)
		got := sc.Elaboration.InvocationExpressionTypes(inv).TypeArguments.Oldest().Value
		if !got.Equal(cand[i].Sema) || got.ID() != cand[i].Sema.ID() {
			panic("tygen: chain type " + cand[i].Source + " denotes " + got.QualifiedString())
		}
	}
	for i := range cand {
		cand[i].Static = interpreter.ConvertSemaToStaticType(nil, cand[i].Sema)
	}
	chainTypes = cand
	return chainTypes
}

// NewChainConverter is NewConverter that also resolves the types of contract D.
func NewChainConverter() *interpreter.Interpreter {
	ch := PreludeChecker()
	d := chainCheck()
	inter, err := interpreter.NewInterpreter(
		interpreter.ProgramFromChecker(ch),
		PreludeLocation,
		&interpreter.Config{
			Storage: interpreter.NewInMemoryStorage(nil, nil),
			ImportLocationHandler: func(_ *interpreter.Interpreter, location common.Location) interpreter.Import {
				if location.ID() == ChainLocation.ID() {
					return interpreter.VirtualImport{Elaboration: d.Elaboration}
				}
				panic("tygen: unknown import " + location.ID())
			},
		},
	)
	if err != nil {
		panic(err)
	}
	return inter
}

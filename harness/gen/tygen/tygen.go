// Package tygen provides the type universe 𝒯(d) of DESIGN §2.
//
// A fixed prelude contract `C` (address 0x1) is parsed and checked once with
// the real parser and checker; its nominal sema types (structs, resources,
// interfaces, entitlements, mapping, attachment, enum, the contract itself)
// together with every primitive type a program can denote are the atoms.
// Universe(d) closes the atoms under the type constructors, to nesting depth
// d, in a deterministic order. Every element carries
//
//	Sema    the checker's type (constructed with the sema constructors),
//	Source  its Cadence spelling as a *type annotation* (with the `@` of
//	        resource types), valid in any program that starts with Import();
//	        "" for the few members that no program can spell (Any, generic
//	        function types),
//	Static  interpreter.ConvertSemaToStaticType(Sema).
//
// Verify (run once, lazily, by Universe) checks with the real checker that
// every Source denotes a type Equal to Sema, so the two cannot drift apart; a
// candidate the checker refuses (ill-formed: `{C.I, C.RI}`, `&&T`, a
// non-hashable dictionary key, …) is dropped, which makes the checker — not
// this package — the arbiter of well-formedness.
package tygen

import (
	"fmt"
	"sort"
	"strings"
	"sync"

	"github.com/onflow/cadence/ast"
	"github.com/onflow/cadence/common"
	"github.com/onflow/cadence/interpreter"
	"github.com/onflow/cadence/parser"
	"github.com/onflow/cadence/sema"
	"github.com/onflow/cadence/stdlib"
)

// Ty is one member of the universe.
type Ty struct {
	Sema   sema.Type
	Source string // type annotation spelling ("" = not denotable)
	Static interpreter.StaticType
	// Kind is the outermost constructor: "prim", "nominal", "optional",
	// "vararray", "constarray", "dictionary", "reference", "intersection",
	// "capability", "function", "range".
	Kind string
	// Depth is the constructor nesting depth (atoms: 0).
	Depth int
	// Resource says whether the type is resource-kinded (Source then starts with "@").
	Resource bool
	// Name is a stable short key, unique within a universe (the Source, or a
	// bracketed description for non-denotable members).
	Name string
	// RefTarget is the spelling usable after `&` when the type itself cannot
	// be written as an annotation (attachment types: `&C.A` is fine, `C.A` is
	// not); empty otherwise.
	RefTarget string
}

// Bare is Source without the leading resource annotation.
func (t Ty) Bare() string { return strings.TrimPrefix(t.Source, "@") }

// Denotable says whether a program can spell the type.
func (t Ty) Denotable() bool { return t.Source != "" }

// TypeExpr is the Cadence expression `Type<…>()` for the type ("" if not denotable).
func (t Ty) TypeExpr() string {
	if t.Source == "" {
		return ""
	}
	return "Type<" + t.Source + ">()"
}

// PreludeAddress is the account the prelude contract is deployed to.
var PreludeAddress = common.Address{0, 0, 0, 0, 0, 0, 0, 1}

// PreludeName is the name of the prelude contract.
const PreludeName = "C"

// PreludeLocation is the location of the prelude contract.
var PreludeLocation = common.AddressLocation{Address: PreludeAddress, Name: PreludeName}

// Import is the import line a program needs to use Source spellings.
func Import() string { return "import C from 0x1\n" }

// Prelude is the source of the prelude contract.
func Prelude() string { return prelude }

const prelude = `access(all) contract C {

    access(all) entitlement E
    access(all) entitlement F
    access(all) entitlement G

    access(all) entitlement mapping M {
        E -> F
        F -> G
    }

    access(all) struct interface I {
        access(all) fun i(): Int
    }
    access(all) struct interface I2: I {}
    access(all) resource interface RI {}

    access(all) struct Inner {
        access(all) var n: Int
        init() { self.n = 0 }
        access(E) fun e(): Int { return 1 }
        access(F) fun f(): Int { return 2 }
        access(G) fun g(): Int { return 3 }
    }

    access(all) struct S {
        access(all) var x: Int
        access(mapping M) let inner: Inner
        init(_ x: Int) { self.x = x; self.inner = Inner() }
        access(E) fun e(): Int { return 1 }
        access(F) fun f(): Int { return 2 }
    }
    access(all) struct S2: I {
        access(all) let x: Int
        init(_ x: Int) { self.x = x }
        access(all) fun i(): Int { return self.x }
    }
    access(all) struct S3: I2 {
        init() {}
        access(all) fun i(): Int { return 3 }
    }

    access(all) resource R {
        access(all) let x: Int
        init(_ x: Int) { self.x = x }
    }
    access(all) resource R2: RI {
        init() {}
    }

    access(all) attachment A for S {
        access(all) fun a(): Int { return 7 }
    }

    access(all) enum En: UInt8 {
        access(all) case a
        access(all) case b
    }

    access(all) fun mkR(_ x: Int): @R { return <- create R(x) }
    access(all) fun mkR2(): @R2 { return <- create R2() }

    init() {}
}
`

// ---------------------------------------------------------------------------
// prelude: parsed and checked once

var (
	preludeOnce    sync.Once
	preludeChecker *sema.Checker
	preludeErr     error
)

func checkerConfig() *sema.Config { return checkerConfigWith(nil) }

var (
	baseValuesOnce sync.Once
	baseValuesAct  *sema.VariableActivation
)

// the checker's base value activation (script standard library), built once: read-only afterwards
func baseValueActivation() *sema.VariableActivation {
	baseValuesOnce.Do(func() {
		baseValuesAct = sema.NewVariableActivation(sema.BaseValueActivation)
		for _, decl := range stdlib.InterpreterDefaultScriptStandardLibraryValues(nil) {
			baseValuesAct.DeclareValue(decl)
		}
	})
	return baseValuesAct
}

func checkerConfigWith(imports map[string]*sema.Elaboration) *sema.Config {
	baseValues := baseValueActivation()
	return &sema.Config{
		AccessCheckMode: sema.AccessCheckModeStrict,
		BaseValueActivationHandler: func(common.Location) *sema.VariableActivation {
			return baseValues
		},
		ImportHandler: func(_ *sema.Checker, loc common.Location, _ ast.Range) (sema.Import, error) {
			if e, ok := imports[loc.ID()]; ok {
				return sema.ElaborationImport{Elaboration: e}, nil
			}
			if loc.ID() == PreludeLocation.ID() {
				return sema.ElaborationImport{Elaboration: PreludeChecker().Elaboration}, nil
			}
			return nil, fmt.Errorf("tygen: unknown import %s", loc)
		},
		LocationHandler: func(ids []ast.Identifier, loc common.Location) ([]sema.ResolvedLocation, error) {
			if al, ok := loc.(common.AddressLocation); ok && al.Name == "" {
				var out []sema.ResolvedLocation
				for _, id := range ids {
					out = append(out, sema.ResolvedLocation{
						Location:    common.AddressLocation{Address: al.Address, Name: id.Identifier},
						Identifiers: []ast.Identifier{id},
					})
				}
				return out, nil
			}
			return []sema.ResolvedLocation{{Location: loc, Identifiers: ids}}, nil
		},
	}
}

// PreludeChecker returns the checker of the prelude contract (checked once).
func PreludeChecker() *sema.Checker {
	preludeOnce.Do(func() {
		program, err := parser.ParseProgram(nil, []byte(prelude), parser.Config{})
		if err != nil {
			preludeErr = err
			return
		}
		cfg := checkerConfig()
		cfg.ImportHandler = nil
		ch, err := sema.NewChecker(program, PreludeLocation, nil, cfg)
		if err != nil {
			preludeErr = err
			return
		}
		if err := ch.Check(); err != nil {
			preludeErr = err
			return
		}
		preludeChecker = ch
	})
	if preludeErr != nil {
		panic(fmt.Sprintf("tygen: prelude does not check: %v", preludeErr))
	}
	return preludeChecker
}

// Check parses and checks a script/transaction source that may import the
// prelude. It returns the checker even when checking reports errors.
func Check(code string) (*sema.Checker, error) {
	program, err := parser.ParseProgram(nil, []byte(code), parser.Config{})
	if err != nil {
		return nil, err
	}
	ch, err := sema.NewChecker(program, common.ScriptLocation{0x7}, nil, checkerConfig())
	if err != nil {
		return nil, err
	}
	err = ch.Check()
	return ch, err
}

// CheckProgram parses and checks code at the given location with the same
// configuration as Check (strict access mode, script standard library);
// imports maps location IDs (e.g. common.AddressLocation{…}.ID()) to the
// elaborations of already checked programs (the prelude is always importable).
// The checker is returned even when checking reports errors (err is then a
// *sema.CheckerError); a parse error returns a nil checker.
func CheckProgram(code string, location common.Location, imports map[string]*sema.Elaboration) (*sema.Checker, error) {
	program, err := parser.ParseProgram(nil, []byte(code), parser.Config{})
	if err != nil {
		return nil, err
	}
	ch, err := sema.NewChecker(program, location, nil, checkerConfigWith(imports))
	if err != nil {
		return nil, err
	}
	err = ch.Check()
	return ch, err
}

// NewConverter returns a fresh interpreter over the checked prelude; it
// resolves the prelude's nominal static types and is the TypeConverter the
// run-time subtype functions need. Use one per goroutine.
func NewConverter() *interpreter.Interpreter {
	ch := PreludeChecker()
	inter, err := interpreter.NewInterpreter(
		interpreter.ProgramFromChecker(ch),
		PreludeLocation,
		&interpreter.Config{Storage: interpreter.NewInMemoryStorage(nil, nil)},
	)
	if err != nil {
		panic(err)
	}
	return inter
}

// nominal type access -------------------------------------------------------

func qualifiedID(name string) common.TypeID {
	return PreludeLocation.TypeID(nil, PreludeName+"."+name)
}

// Composite returns the prelude composite type C.<name> ("" = the contract itself).
func Composite(name string) *sema.CompositeType {
	e := PreludeChecker().Elaboration
	id := qualifiedID(name)
	if name == "" {
		id = PreludeLocation.TypeID(nil, PreludeName)
	}
	t := e.CompositeType(id)
	if t == nil {
		panic("tygen: no composite " + name)
	}
	return t
}

// Interface returns the prelude interface type C.<name>.
func Interface(name string) *sema.InterfaceType {
	t := PreludeChecker().Elaboration.InterfaceType(qualifiedID(name))
	if t == nil {
		panic("tygen: no interface " + name)
	}
	return t
}

// Entitlement returns the prelude entitlement C.<name>.
func Entitlement(name string) *sema.EntitlementType {
	t := PreludeChecker().Elaboration.EntitlementType(qualifiedID(name))
	if t == nil {
		panic("tygen: no entitlement " + name)
	}
	return t
}

// Mapping returns the prelude entitlement mapping C.<name>.
func Mapping(name string) *sema.EntitlementMapType {
	t := PreludeChecker().Elaboration.EntitlementMapType(qualifiedID(name))
	if t == nil {
		panic("tygen: no mapping " + name)
	}
	return t
}

// ---------------------------------------------------------------------------
// authorizations

// Auth is one reference authorization of the universe.
type Auth struct {
	Access sema.Access
	Source string // "" (unauthorized) or "auth(C.E, C.F) "
	Name   string
}

// Auths returns the authorizations of DESIGN §2 in a fixed order:
// unauthorized, E, F, (E,F), (F,E), E|F.
func Auths() []Auth {
	e, f := Entitlement("E"), Entitlement("F")
	conj := func(es ...*sema.EntitlementType) sema.Access {
		return sema.NewEntitlementSetAccess(es, sema.Conjunction)
	}
	return []Auth{
		{sema.UnauthorizedAccess, "", "unauth"},
		{conj(e), "auth(C.E) ", "E"},
		{conj(f), "auth(C.F) ", "F"},
		{conj(e, f), "auth(C.E, C.F) ", "E,F"},
		{conj(f, e), "auth(C.F, C.E) ", "F,E"},
		{sema.NewEntitlementSetAccess([]*sema.EntitlementType{e, f}, sema.Disjunction), "auth(C.E | C.F) ", "E|F"},
	}
}

// ---------------------------------------------------------------------------
// construction

func mk(t sema.Type, bare string, kind string, depth int) Ty {
	ty := Ty{Sema: t, Kind: kind, Depth: depth, Resource: t.IsResourceType()}
	if bare != "" {
		if ty.Resource {
			ty.Source = "@" + bare
		} else {
			ty.Source = bare
		}
		ty.Name = ty.Source
	}
	return ty
}

// Atoms returns 𝒯(0): every primitive type a program can denote (the members
// of sema.AllBuiltinTypes that are complete types), `Any` (not denotable, but
// the top of the relation), and the prelude's nominal types.
func Atoms() []Ty {
	var out []Ty
	for _, t := range sema.AllBuiltinTypes {
		switch tt := t.(type) {
		case *sema.CapabilityType:
			if tt.BorrowType == nil {
				out = append(out, mk(t, "Capability", "capability", 0))
				continue
			}
		case *sema.InclusiveRangeType:
			if tt.MemberType == nil {
				// the bare `InclusiveRange` is a type constructor, not a type
				continue
			}
		}
		if t == sema.StorableType || t.IsInvalidType() {
			continue
		}
		if _, isInterface := t.(*sema.InterfaceType); isInterface {
			// built-in interface (StructStringer): only usable inside `{…}`
			it := mk(t, "", "nominal", 0)
			it.Name = "<interface " + t.QualifiedString() + ">"
			out = append(out, it)
			continue
		}
		out = append(out, mk(t, t.QualifiedString(), "prim", 0))
	}
	anyTy := mk(sema.AnyType, "", "prim", 0)
	anyTy.Name = "<Any>"
	out = append(out, anyTy)

	for _, n := range []string{"S", "S2", "S3", "Inner", "R", "R2", "En"} {
		out = append(out, mk(Composite(n), "C."+n, "nominal", 0))
	}
	// an attachment type cannot be an annotation by itself, only the target of a reference
	att := mk(Composite("A"), "", "nominal", 0)
	att.Name = "<attachment C.A>"
	att.RefTarget = "C.A"
	out = append(out, att)
	out = append(out, mk(Composite(""), "C", "nominal", 0))
	// bare interface types cannot be written as a type annotation (only inside
	// `{…}`), but they are types of the relation (attachment base types,
	// conformances): kept as non-denotable members.
	for _, n := range []string{"I", "I2", "RI"} {
		it := mk(Interface(n), "", "nominal", 0)
		it.Name = "<interface C." + n + ">"
		out = append(out, it)
	}
	return out
}

func paren(t Ty) string {
	switch t.Kind {
	case "reference", "function":
		return "(" + t.Bare() + ")"
	}
	return t.Bare()
}

// Constructors applies every type constructor once to the inner types and
// returns the candidates (well-formedness is decided later by the checker).
// dictKeys/dictValues bound the dictionary product (see Universe).
func construct(inner []Ty, depth int, all []Ty) []Ty {
	var out []Ty
	add := func(t sema.Type, bare, kind string) {
		out = append(out, mk(t, bare, kind, depth))
	}
	auths := Auths()

	for _, t := range inner {
		if !t.Denotable() {
			if t.RefTarget != "" {
				for _, a := range auths {
					add(sema.NewReferenceType(nil, a.Access, t.Sema), a.Source+"&"+t.RefTarget, "reference")
				}
			}
			continue
		}
		b := t.Bare()
		// optional
		add(sema.NewOptionalType(nil, t.Sema), paren(t)+"?", "optional")
		// arrays
		add(sema.NewVariableSizedType(nil, t.Sema), "["+b+"]", "vararray")
		add(sema.NewConstantSizedType(nil, t.Sema, 2), "["+b+"; 2]", "constarray")
		// references, every authorization
		if t.Kind != "reference" {
			for _, a := range auths {
				add(sema.NewReferenceType(nil, a.Access, t.Sema), a.Source+"&"+parenRef(t), "reference")
			}
		}
		// capability (borrow type must be a reference: over a reference member
		// directly, over anything else through `&T` and `auth(C.E) &T`)
		if t.Kind == "reference" {
			add(sema.NewCapabilityType(nil, t.Sema), "Capability<"+b+">", "capability")
		} else {
			for _, a := range auths[:2] {
				add(sema.NewCapabilityType(nil, sema.NewReferenceType(nil, a.Access, t.Sema)),
					"Capability<"+a.Source+"&"+parenRef(t)+">", "capability")
			}
		}
		// functions
		void := sema.VoidTypeAnnotation
		p := []sema.Parameter{{TypeAnnotation: sema.NewTypeAnnotation(t.Sema)}}
		add(sema.NewSimpleFunctionType(sema.FunctionPurityImpure, p, void), "fun("+t.Source+"): Void", "function")
		add(sema.NewSimpleFunctionType(sema.FunctionPurityImpure, nil, sema.NewTypeAnnotation(t.Sema)), "fun(): "+t.Source, "function")
		add(sema.NewSimpleFunctionType(sema.FunctionPurityView, nil, sema.NewTypeAnnotation(t.Sema)), "view fun(): "+t.Source, "function")
		// inclusive range (the checker drops non-integer members)
		if t.Kind == "prim" {
			add(sema.NewInclusiveRangeType(nil, t.Sema), "InclusiveRange<"+b+">", "range")
		}
	}

	// a constant-sized array differing only in size, a view function with a
	// parameter, and generic functions (not denotable), over a few inner types
	for i, t := range inner {
		if !t.Denotable() || i%7 != 0 {
			continue
		}
		add(sema.NewConstantSizedType(nil, t.Sema, 3), "["+t.Bare()+"; 3]", "constarray")
		p := []sema.Parameter{{TypeAnnotation: sema.NewTypeAnnotation(t.Sema)}}
		add(sema.NewSimpleFunctionType(sema.FunctionPurityView, p, sema.VoidTypeAnnotation), "view fun("+t.Source+"): Void", "function")
		for _, pure := range []sema.FunctionPurity{sema.FunctionPurityImpure, sema.FunctionPurityView} {
			ft := &sema.FunctionType{
				Purity:               pure,
				TypeParameters:       []*sema.TypeParameter{{Name: "T", TypeBound: t.Sema}},
				ReturnTypeAnnotation: sema.VoidTypeAnnotation,
			}
			g := mk(ft, "", "function", depth)
			g.Name = fmt.Sprintf("<generic %v fun<T: %s>(): Void>", pure == sema.FunctionPurityView, t.Name)
			out = append(out, g)
		}
	}

	// dictionaries: (every inner key) × (a few values) and (a few keys) × (every inner value)
	fewValues := pickNames(all, "Int", "AnyStruct", "@C.R", "Never")
	fewKeys := pickNames(all, "String", "Int", "HashableStruct")
	seen := map[string]bool{}
	dict := func(k, v Ty) {
		if !k.Denotable() || !v.Denotable() {
			return
		}
		src := "{" + k.Bare() + ": " + v.Bare() + "}"
		if seen[src] {
			return
		}
		seen[src] = true
		add(sema.NewDictionaryType(nil, k.Sema, v.Sema), src, "dictionary")
	}
	for _, k := range inner {
		for _, v := range fewValues {
			dict(k, v)
		}
	}
	for _, v := range inner {
		for _, k := range fewKeys {
			dict(k, v)
		}
	}
	return out
}

func parenRef(t Ty) string {
	// `&T?` is an optional reference; a reference to an optional needs parentheses
	switch t.Kind {
	case "optional", "function":
		return "(" + t.Bare() + ")"
	}
	return t.Bare()
}

func pickNames(all []Ty, names ...string) []Ty {
	var out []Ty
	for _, n := range names {
		for _, t := range all {
			if t.Name == n {
				out = append(out, t)
				break
			}
		}
	}
	return out
}

// intersections of DESIGN §2 (plus the ill-kinded mix, which the checker drops).
func intersections(depth int) []Ty {
	i, i2, ri := Interface("I"), Interface("I2"), Interface("RI")
	type it struct {
		ts  []*sema.InterfaceType
		src string
	}
	var out []Ty
	for _, x := range []it{
		{[]*sema.InterfaceType{i}, "{C.I}"},
		{[]*sema.InterfaceType{i2}, "{C.I2}"},
		{[]*sema.InterfaceType{i, i2}, "{C.I, C.I2}"},
		{[]*sema.InterfaceType{i2, i}, "{C.I2, C.I}"},
		{[]*sema.InterfaceType{ri}, "{C.RI}"},
		{[]*sema.InterfaceType{i, ri}, "{C.I, C.RI}"},
		{[]*sema.InterfaceType{sema.StructStringerType}, "{StructStringer}"},
	} {
		out = append(out, mk(sema.NewIntersectionType(nil, nil, x.ts), x.src, "intersection", depth))
	}
	return out
}

// ---------------------------------------------------------------------------
// universe

var (
	uniMu    sync.Mutex
	uniCache = map[int][]Ty{}
	// Dropped counts, per depth, the candidates the checker refused as ill-formed.
	Dropped = map[int][]string{}
)

// Universe returns 𝒯(depth) in a deterministic order (atoms first, then by
// depth, then by construction order). 𝒯(0) = atoms + intersections;
// 𝒯(d+1) adds every constructor applied to 𝒯(d)∖𝒯(d-1) — for d ≥ 1 applied to
// Representatives(𝒯(d)) only, which keeps 𝒯(2) near 10⁴ as DESIGN §2 states.
// Every denotable member has been confirmed by the real checker (Verify).
func Universe(depth int) []Ty {
	uniMu.Lock()
	defer uniMu.Unlock()
	return universeLocked(depth)
}

func universeLocked(depth int) []Ty {
	if u, ok := uniCache[depth]; ok {
		return u
	}
	var u []Ty
	if depth <= 0 {
		u = append(Atoms(), intersections(0)...)
	} else {
		prev := universeLocked(depth - 1)
		var layer []Ty
		for _, t := range prev {
			if t.Depth == depth-1 {
				layer = append(layer, t)
			}
		}
		if depth >= 2 {
			layer = Representatives(layer)
		}
		u = append(append([]Ty{}, prev...), construct(layer, depth, prev)...)
	}
	// dedupe by name (keeps differently-ordered but equal types apart)
	seen := map[string]bool{}
	var dd []Ty
	for _, t := range u {
		if seen[t.Name] {
			continue
		}
		seen[t.Name] = true
		dd = append(dd, t)
	}
	kept, dropped, err := Verify(dd)
	if err != nil {
		panic("tygen: " + err.Error())
	}
	Dropped[depth] = dropped
	for i := range kept {
		kept[i].Static = interpreter.ConvertSemaToStaticType(nil, kept[i].Sema)
	}
	uniCache[depth] = kept
	return kept
}

// Representatives picks a deterministic subset with a few members of every
// (kind, resource-ness) class: used as the inner types of the next depth.
func Representatives(ts []Ty) []Ty {
	count := map[string]int{}
	var out []Ty
	for _, t := range ts {
		key := fmt.Sprintf("%s/%v", t.Kind, t.Resource)
		limit := 8
		if t.Kind == "prim" || t.Kind == "nominal" {
			limit = 1 << 30 // atoms handled by name below
		}
		if t.Kind == "prim" || t.Kind == "nominal" {
			switch t.Name {
			case "Int", "UInt8", "String", "AnyStruct", "@AnyResource", "Never", "HashableStruct",
				"C.S", "C.S2", "@C.R", "@C.R2", "C.En", "Integer", "Void", "<attachment C.A>":
				out = append(out, t)
			}
			continue
		}
		if count[key] < limit {
			count[key]++
			out = append(out, t)
		}
	}
	return out
}

// Verify checks every denotable candidate with the real checker: one global
// declaration `let t<i> = Type<Source>()` per candidate in a script that
// imports the prelude. A candidate whose declaration draws a checker error is
// dropped (ill-formed type); for the others the type argument computed by the
// checker must be Equal to the constructed Sema type (and have the same ID),
// else an error is returned (the generator itself would be wrong).
func Verify(ts []Ty) (kept []Ty, dropped []string, err error) {
	var sb strings.Builder
	sb.WriteString(Import())
	lineOf := map[int]int{} // source line -> index
	declOf := map[int]int{} // index -> position among the variable declarations
	line := 2
	n := 0
	for i, t := range ts {
		if !t.Denotable() {
			continue
		}
		fmt.Fprintf(&sb, "access(all) let t%d = Type<%s>()\n", i, t.Source)
		lineOf[line] = i
		declOf[i] = n
		n++
		line++
	}
	ch, cerr := Check(sb.String())
	if ch == nil {
		return nil, nil, fmt.Errorf("universe script does not parse: %v", cerr)
	}
	bad := map[int]string{}
	if cerr != nil {
		ce, ok := cerr.(*sema.CheckerError)
		if !ok {
			return nil, nil, fmt.Errorf("unexpected checker failure: %v", cerr)
		}
		for _, e := range ce.Errors {
			pos, ok := e.(ast.HasPosition)
			if !ok {
				return nil, nil, fmt.Errorf("checker error without position: %v", e)
			}
			idx, ok := lineOf[pos.StartPosition().Line]
			if !ok {
				return nil, nil, fmt.Errorf("checker error outside the declarations: %v", e)
			}
			if bad[idx] == "" {
				bad[idx] = fmt.Sprintf("%T", e)
			}
		}
	}
	decls := ch.Program.VariableDeclarations()
	for i, t := range ts {
		if why, isBad := bad[i]; isBad {
			dropped = append(dropped, t.Name+" ("+why+")")
			continue
		}
		if t.Denotable() {
			inv, ok := decls[declOf[i]].Value.(*ast.InvocationExpression)
			if !ok {
				return nil, nil, fmt.Errorf("t%d is not an invocation", i)
			}
			targs := ch.Elaboration.InvocationExpressionTypes(inv).TypeArguments
			if targs == nil || targs.Len() != 1 {
				return nil, nil, fmt.Errorf("t%d: no type argument recorded", i)
			}
			got := targs.Oldest().Value
			if !got.Equal(t.Sema) || !t.Sema.Equal(got) || got.ID() != t.Sema.ID() {
				return nil, nil, fmt.Errorf("source %q denotes %s (%s), constructed type is %s (%s)",
					t.Source, got.QualifiedString(), got.ID(), t.Sema.QualifiedString(), t.Sema.ID())
			}
		}
		kept = append(kept, t)
	}
	sort.Strings(dropped)
	return kept, dropped, nil
}

// DenotableOnly filters to the members a program can spell.
func DenotableOnly(ts []Ty) []Ty {
	var out []Ty
	for _, t := range ts {
		if t.Denotable() {
			out = append(out, t)
		}
	}
	return out
}

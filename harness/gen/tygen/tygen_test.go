package tygen

import (
	"testing"
	"time"

	"verif/rt"
)

func TestUniverse(t *testing.T) {
	for d := 0; d <= 2; d++ {
		start := time.Now()
		u := Universe(d)
		kinds := map[string]int{}
		den := 0
		for _, x := range u {
			kinds[x.Kind]++
			if x.Denotable() {
				den++
			}
		}
		t.Logf("depth %d: %d types (%d denotable), dropped %d, %v, kinds %v", d, len(u), den, len(Dropped[d]), time.Since(start), kinds)
		if d <= 1 {
			t.Logf("dropped: %v", Dropped[d])
		}
	}
}

func TestDeploy(t *testing.T) {
	for _, vm := range []bool{false, true} {
		l := rt.NewLedger()
		Deploy(l, vm)
		r := rt.Run(l, rt.Tx{Source: Import() + `access(all) fun main(): [Type] { return [Type<C.S>(), Type<@C.R>(), Type<auth(C.E) &C.S>(), Type<{C.I}>()] }`, Script: true, UseVM: vm})
		if !r.OK() {
			t.Fatal(r.ErrString())
		}
		t.Log(r.Value)
	}
}

func TestExtras(t *testing.T) {
	t.Log(len(Extras()), len(UniversePlus(1)), len(UniversePlus(2)))
}

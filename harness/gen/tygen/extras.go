package tygen

import (
	"sync"

	"github.com/onflow/cadence/interpreter"
	"github.com/onflow/cadence/sema"
)

// ExtraAuths are authorizations beyond Auths(): sets that *partially overlap*
// the ones of Auths() (same kind, same size, one shared member), the third
// entitlement alone, and the full set.
func ExtraAuths() []Auth {
	e, f, g := Entitlement("E"), Entitlement("F"), Entitlement("G")
	set := func(k sema.EntitlementSetKind, es ...*sema.EntitlementType) sema.Access {
		return sema.NewEntitlementSetAccess(es, k)
	}
	return []Auth{
		{set(sema.Conjunction, g), "auth(C.G) ", "G"},
		{set(sema.Conjunction, e, g), "auth(C.E, C.G) ", "E,G"},
		{set(sema.Conjunction, g, f), "auth(C.G, C.F) ", "G,F"},
		{set(sema.Conjunction, e, f, g), "auth(C.E, C.F, C.G) ", "E,F,G"},
		{set(sema.Disjunction, e, g), "auth(C.E | C.G) ", "E|G"},
		{set(sema.Disjunction, f, g), "auth(C.F | C.G) ", "F|G"},
		{set(sema.Disjunction, e, f, g), "auth(C.E | C.F | C.G) ", "E|F|G"},
	}
}

var (
	extrasOnce sync.Once
	extras     []Ty
)

// Extras is a small fixed set of types that Universe(1) lacks and that sit
// where implementations special-case: doubly and triply nested optionals of a
// few atoms (Never, Int, String, AnyStruct, a struct, a resource, an
// unauthorized reference), and references carrying *every* authorization of
// Auths() and ExtraAuths() — bare and nested one level inside optional,
// variable/constant array, dictionary and capability — so that partially
// overlapping entitlement sets meet in both the top-level and the nested
// position. Checks that want them use Universe(d) followed by Extras(); the
// members are confirmed by the real checker like those of Universe.
func Extras() []Ty {
	extrasOnce.Do(func() {
		atoms := Atoms()
		var cand []Ty
		add := func(t sema.Type, bare, kind string, depth int) Ty {
			ty := mk(t, bare, kind, depth)
			cand = append(cand, ty)
			return ty
		}
		// nested optionals
		for _, a := range pickNames(atoms, "Never", "Int", "String", "AnyStruct", "C.S", "@C.R", "@AnyResource") {
			o1 := sema.NewOptionalType(nil, a.Sema)
			o2 := sema.NewOptionalType(nil, o1)
			o3 := sema.NewOptionalType(nil, o2)
			add(o2, a.Bare()+"??", "optional", 2)
			add(o3, a.Bare()+"???", "optional", 3)
			add(sema.NewVariableSizedType(nil, o2), "["+a.Bare()+"??]", "vararray", 3)
		}
		refInt := sema.NewReferenceType(nil, sema.UnauthorizedAccess, sema.IntType)
		add(sema.NewOptionalType(nil, sema.NewOptionalType(nil, refInt)), "(&Int)??", "optional", 3)
		// references with every authorization, bare and nested
		auths := append(Auths(), ExtraAuths()...)
		for _, target := range pickNames(atoms, "C.S", "AnyStruct") {
			for _, a := range auths {
				ref := sema.NewReferenceType(nil, a.Access, target.Sema)
				bare := a.Source + "&" + target.Bare()
				inExisting := false
				for _, known := range Auths() {
					if known.Name == a.Name {
						inExisting = true
					}
				}
				if !inExisting {
					add(ref, bare, "reference", 1) // the others are members of Universe(1)
				}
				add(sema.NewOptionalType(nil, ref), "("+bare+")?", "optional", 2)
				add(sema.NewVariableSizedType(nil, ref), "["+bare+"]", "vararray", 2)
				add(sema.NewConstantSizedType(nil, ref, 2), "["+bare+"; 2]", "constarray", 2)
				add(sema.NewDictionaryType(nil, sema.StringType, ref), "{String: "+bare+"}", "dictionary", 2)
				if !inExisting {
					add(sema.NewCapabilityType(nil, ref), "Capability<"+bare+">", "capability", 2)
				}
			}
		}
		kept, _, err := Verify(cand)
		if err != nil {
			panic("tygen extras: " + err.Error())
		}
		if len(kept) != len(cand) {
			panic("tygen extras: the checker refused a member")
		}
		for i := range kept {
			kept[i].Static = interpreter.ConvertSemaToStaticType(nil, kept[i].Sema)
		}
		extras = kept
	})
	return extras
}

// UniversePlus is Universe(depth) followed by the members of Extras() it does not contain.
func UniversePlus(depth int) []Ty {
	u := Universe(depth)
	seen := map[string]bool{}
	for _, t := range u {
		seen[t.Name] = true
	}
	out := append([]Ty{}, u...)
	for _, t := range Extras() {
		if !seen[t.Name] {
			out = append(out, t)
		}
	}
	return out
}

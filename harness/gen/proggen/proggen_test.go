package proggen

import "testing"

func TestFragmentCounts(t *testing.T) {
	for _, o := range []Options{{MaxStmts: 2}, {MaxStmts: 3}, {MaxStmts: 3, Tags: []string{"res"}}, {MaxStmts: 2, Tags: []string{"res"}, TwoAccounts: true}, {MaxStmts: 3, Tags: []string{"ref"}}, {MaxStmts: 3, Tags: []string{"attach"}}} {
		f := New(o)
		t.Logf("%+v: %d programs, %d templates", o, f.Count(), len(f.TemplateNames()))
	}
	f := New(Options{MaxStmts: 2})
	a, b := f.At(1234), f.At(1234)
	if a.Script() != b.Script() {
		t.Fatal("At is not deterministic")
	}
	t.Log(a.Shape, "\n", a.Transaction())
}

package proggen

import (
	"strings"
)

// The *linear fragment* (C03): every statement tree of at most MaxNodes
// nodes over at most two resource variables (names a, b) drawn from
//
//	var x <- mk()                  var x: @R? <- mk()            var y <- x        (mk creates an R)
//	destroy x     consume(<- x)    consumeA(<- [<- x])           consumeO(<- x)   (move into optional)
//	x.f()  /  x?.f()               a <-> b
//	break  continue  return  panic("")
//	if c() {..}   if c() {..} else {..}   while c() {..}   for i in xs {..}
//	if let y <- x {..} else {..}          fun g(y: @R) {..}       (nested function)
//
// The generator tracks which names are in scope and their static type
// (R or R?), so every program type-checks apart from resource linearity; it
// does NOT track validity, so programs with and without linearity violations
// are produced. It never emits dead code (no statement after one that exits
// on every path).
//
// A program is a pre-order token string; compound statements are closed by
// LEnd (and split by LElse).

type LinKind uint8

const (
	LEnd LinKind = iota
	LElse
	LCreate   // var x <- create R()
	LCreateO  // var x: @R? <- create R()
	LMoveVar  // var y <- x
	LDestroy  // destroy x
	LArg      // consume(<- x)   (consumeO for an optional x)
	LArr      // consumeA(<- [<- x])
	LOpt      // consumeO(<- x) with x: R — move into an optional
	LUse      // x.f()  /  x?.f()
	LSwap     // x <-> y
	LBreak    //
	LContinue //
	LReturn   //
	LPanic    //
	LIf       // if c() { }
	LIfElse   // if c() { } else { }
	LWhile    // while c() { }
	LFor      // for i in xs { }
	LIfLet    // if let y <- x { } else { }
	LFun      // fun g(y: @R) { }
)

var linNames = [...]string{"end", "else", "create", "createO", "movevar", "destroy", "arg", "arr", "opt", "use", "swap",
	"break", "continue", "return", "panic", "if", "ifelse", "while", "for", "iflet", "fun"}

func (k LinKind) String() string { return linNames[k] }

// LinTok is one token: kind, source variable X, new variable Y, static type
// T of X (0 = R, 1 = R?).
type LinTok struct {
	K       LinKind
	X, Y, T uint8
}

// LinStmt is the tree form.
type LinStmt struct {
	K          LinKind
	X, Y, T    uint8
	Body, Else []LinStmt
}

type LinOpts struct {
	MaxNodes int
	// NoOptional drops the R? variants (createO, opt, iflet).
	NoOptional bool
	// Reduced keeps one representative per statement class: destroy and the
	// array-literal move as the only invalidations, while as the only loop.
	Reduced bool
	// OneVar restricts programs to a single resource variable name.
	OneVar bool
	// MinNodes skips programs with fewer nodes (0 = none skipped).
	MinNodes int
	// NeedJump keeps only programs containing a break or continue.
	NeedJump bool
	// Filter, if set, keeps only the programs it accepts.
	Filter func(toks []LinTok) bool
}

type linEnv struct {
	decl [2]bool
	typ  [2]uint8
	cst  [2]bool // parameter or optional binding: not a swap target
}

type linGen struct {
	buf   []LinTok
	yield func([]LinTok) bool
	stop  bool
	opts  LinOpts
}

// EnumLinear calls yield for every program of the fragment in a fixed order.
// The slice passed to yield is reused; copy it to keep it. yield returning
// false stops the enumeration.
func EnumLinear(opts LinOpts, yield func(toks []LinTok) bool) {
	g := &linGen{yield: yield, opts: opts}
	g.stmts(opts.MaxNodes, linEnv{}, false, false, func(left int, _ bool) {
		if opts.MaxNodes-left < opts.MinNodes {
			return
		}
		if opts.NeedJump {
			found := false
			for _, t := range g.buf {
				if t.K == LBreak || t.K == LContinue {
					found = true
					break
				}
			}
			if !found {
				return
			}
		}
		if opts.Filter != nil && !opts.Filter(g.buf) {
			return
		}
		if !g.stop && !g.yield(g.buf) {
			g.stop = true
		}
	})
}

func linInvalidates(k LinKind) bool {
	return k == LDestroy || k == LArg || k == LArr || k == LOpt || k == LMoveVar || k == LIfLet
}

func linHasInvalidation(ss []LinStmt) bool {
	for _, s := range ss {
		if linInvalidates(s.K) || linHasInvalidation(s.Body) || linHasInvalidation(s.Else) {
			return true
		}
	}
	return false
}

// BranchExitVsPartial accepts programs containing an if/else (or if-let) in
// which one branch invalidates a resource and then ends in return / break /
// continue / panic, while the other branch contains a nested conditional or
// loop with an invalidation inside (an invalidation on only some paths) - in
// either order. These are the smallest programs (6 nodes) in which the merge
// of an exiting branch with a partially invalidating branch matters.
func BranchExitVsPartial(toks []LinTok) bool {
	// cheap pre-check before building the tree
	two, exit := false, false
	for _, t := range toks {
		switch t.K {
		case LIfElse, LIfLet:
			two = true
		case LReturn, LBreak, LContinue, LPanic:
			exit = true
		}
	}
	if !two || !exit {
		return false
	}
	exitsAfterInvalidation := func(b []LinStmt) bool {
		if len(b) < 2 {
			return false
		}
		switch b[len(b)-1].K {
		case LReturn, LBreak, LContinue, LPanic:
		default:
			return false
		}
		return linHasInvalidation(b[:len(b)-1])
	}
	partial := func(b []LinStmt) bool {
		for _, s := range b {
			switch s.K {
			case LIf, LIfElse, LWhile, LFor, LIfLet:
				if linHasInvalidation(s.Body) || linHasInvalidation(s.Else) {
					return true
				}
			}
		}
		return false
	}
	var walk func(ss []LinStmt) bool
	walk = func(ss []LinStmt) bool {
		for _, s := range ss {
			if s.K == LIfElse || s.K == LIfLet {
				if (exitsAfterInvalidation(s.Body) && partial(s.Else)) || (exitsAfterInvalidation(s.Else) && partial(s.Body)) {
					return true
				}
			}
			if walk(s.Body) || walk(s.Else) {
				return true
			}
		}
		return false
	}
	return walk(ParseLin(toks))
}

// stmts appends zero or more statements; cont is called once for every way of
// doing so with the remaining budget and whether the list exits on every path.
func (g *linGen) stmts(budget int, e linEnv, inLoop bool, exited bool, cont func(budget int, exited bool)) {
	if g.stop {
		return
	}
	cont(budget, exited) // stop here
	if budget == 0 || exited {
		return
	}
	mark := len(g.buf)
	leaf := func(t LinTok, e2 linEnv, exits bool) {
		g.buf = append(g.buf[:mark], t)
		g.stmts(budget-1, e2, inLoop, exits, cont)
		g.buf = g.buf[:mark]
	}
	free := -1
	nv := 2
	if g.opts.OneVar {
		nv = 1
	}
	for v := 0; v < nv; v++ {
		if !e.decl[v] {
			free = v
			break
		}
	}
	// declarations
	if free >= 0 {
		e2 := e
		e2.decl[free] = true
		e2.typ[free] = 0
		e2.cst[free] = false
		leaf(LinTok{K: LCreate, Y: uint8(free)}, e2, false)
		if !g.opts.NoOptional {
			e2.typ[free] = 1
			leaf(LinTok{K: LCreateO, Y: uint8(free), T: 1}, e2, false)
		}
		for x := 0; x < 2; x++ {
			if e.decl[x] {
				e2.typ[free] = e.typ[x]
				leaf(LinTok{K: LMoveVar, X: uint8(x), Y: uint8(free), T: e.typ[x]}, e2, false)
			}
		}
	}
	for x := 0; x < 2; x++ {
		if !e.decl[x] {
			continue
		}
		t := e.typ[x]
		for _, k := range []LinKind{LDestroy, LArg, LArr, LOpt, LUse} {
			if k == LOpt && (t == 1 || g.opts.NoOptional) {
				continue
			}
			if g.opts.Reduced && (k == LArg || k == LOpt) {
				continue
			}
			leaf(LinTok{K: k, X: uint8(x), T: t}, e, false)
		}
	}
	if e.decl[0] && e.decl[1] && e.typ[0] == e.typ[1] && !e.cst[0] && !e.cst[1] {
		leaf(LinTok{K: LSwap, X: 0, Y: 1, T: e.typ[0]}, e, false)
	}
	if inLoop {
		leaf(LinTok{K: LBreak}, e, true)
		leaf(LinTok{K: LContinue}, e, true)
	}
	leaf(LinTok{K: LReturn}, e, true)
	leaf(LinTok{K: LPanic}, e, true)

	// compound statements
	one := func(open LinTok, bodyEnv linEnv, bodyLoop bool) {
		g.buf = append(g.buf[:mark], open)
		g.stmts(budget-1, bodyEnv, bodyLoop, false, func(b int, _ bool) {
			m := len(g.buf)
			g.buf = append(g.buf, LinTok{K: LEnd})
			g.stmts(b, e, inLoop, false, cont)
			g.buf = g.buf[:m]
		})
		g.buf = g.buf[:mark]
	}
	two := func(open LinTok, thenEnv linEnv) {
		g.buf = append(g.buf[:mark], open)
		g.stmts(budget-1, thenEnv, inLoop, false, func(b int, ex1 bool) {
			m := len(g.buf)
			g.buf = append(g.buf, LinTok{K: LElse})
			g.stmts(b, e, inLoop, false, func(b2 int, ex2 bool) {
				m2 := len(g.buf)
				g.buf = append(g.buf, LinTok{K: LEnd})
				g.stmts(b2, e, inLoop, ex1 && ex2, cont)
				g.buf = g.buf[:m2]
			})
			g.buf = g.buf[:m]
		})
		g.buf = g.buf[:mark]
	}
	one(LinTok{K: LIf}, e, inLoop)
	two(LinTok{K: LIfElse}, e)
	one(LinTok{K: LWhile}, e, true)
	if !g.opts.Reduced {
		one(LinTok{K: LFor}, e, true)
	}
	if free >= 0 {
		if !g.opts.NoOptional {
			for x := 0; x < 2; x++ {
				if e.decl[x] && e.typ[x] == 1 {
					te := e
					te.decl[free] = true
					te.typ[free] = 0
					te.cst[free] = true
					two(LinTok{K: LIfLet, X: uint8(x), Y: uint8(free), T: 1}, te)
				}
			}
		}
		// nested function: its body sees only its own parameter
		var fe linEnv
		fe.decl[free] = true
		fe.cst[free] = true
		one(LinTok{K: LFun, Y: uint8(free)}, fe, false)
	}
}

// ParseLin converts a token string into a statement tree.
func ParseLin(toks []LinTok) []LinStmt {
	pos := 0
	var block func() []LinStmt
	block = func() []LinStmt {
		var out []LinStmt
		for pos < len(toks) {
			t := toks[pos]
			if t.K == LEnd || t.K == LElse {
				return out
			}
			pos++
			s := LinStmt{K: t.K, X: t.X, Y: t.Y, T: t.T}
			switch t.K {
			case LIf, LWhile, LFor, LFun:
				s.Body = block()
				pos++ // LEnd
			case LIfElse, LIfLet:
				s.Body = block()
				pos++ // LElse
				s.Else = block()
				pos++ // LEnd
			}
			out = append(out, s)
		}
		return out
	}
	return block()
}

// LinearPrelude is the fixed environment of every linear-fragment program.
const LinearPrelude = `access(all) resource R { access(all) fun f() {} }
access(all) fun c(): Bool { return true }
access(all) fun mk(): @R { return <- create R() }
access(all) fun consume(_ r: @R) { destroy r }
access(all) fun consumeO(_ r: @R?) { destroy r }
access(all) fun consumeA(_ r: @[R]) { destroy r }
access(all) fun consumeAO(_ r: @[R?]) { destroy r }
`

var linVar = [2]string{"a", "b"}

// RenderLin renders the program: prelude + `fun test(xs: [Int]) { body }`.
func RenderLin(toks []LinTok) string {
	var sb strings.Builder
	sb.Grow(len(LinearPrelude) + 64 + 40*len(toks))
	sb.WriteString(LinearPrelude)
	sb.WriteString("access(all) fun test(xs: [Int]) {\n")
	RenderLinBody(&sb, toks)
	sb.WriteString("}\n")
	return sb.String()
}

// RenderLinBody renders only the statements.
func RenderLinBody(sb *strings.Builder, toks []LinTok) {
	depth := 1
	ind := func() {
		for i := 0; i < depth; i++ {
			sb.WriteString("  ")
		}
	}
	nfun := 0
	for _, t := range toks {
		x, y := linVar[t.X], linVar[t.Y]
		switch t.K {
		case LEnd:
			depth--
			ind()
			sb.WriteString("}\n")
			continue
		case LElse:
			depth--
			ind()
			sb.WriteString("} else {\n")
			depth++
			continue
		}
		ind()
		switch t.K {
		case LCreate:
			sb.WriteString("var " + y + " <- mk()\n")
		case LCreateO:
			sb.WriteString("var " + y + ": @R? <- mk()\n")
		case LMoveVar:
			sb.WriteString("var " + y + " <- " + x + "\n")
		case LDestroy:
			sb.WriteString("destroy " + x + "\n")
		case LArg:
			if t.T == 1 {
				sb.WriteString("consumeO(<- " + x + ")\n")
			} else {
				sb.WriteString("consume(<- " + x + ")\n")
			}
		case LArr:
			if t.T == 1 {
				sb.WriteString("consumeAO(<- [<- " + x + "])\n")
			} else {
				sb.WriteString("consumeA(<- [<- " + x + "])\n")
			}
		case LOpt:
			sb.WriteString("consumeO(<- " + x + ")\n")
		case LUse:
			if t.T == 1 {
				sb.WriteString(x + "?.f()\n")
			} else {
				sb.WriteString(x + ".f()\n")
			}
		case LSwap:
			sb.WriteString(x + " <-> " + y + "\n")
		case LBreak:
			sb.WriteString("break\n")
		case LContinue:
			sb.WriteString("continue\n")
		case LReturn:
			sb.WriteString("return\n")
		case LPanic:
			sb.WriteString("panic(\"\")\n")
		case LIf, LIfElse:
			sb.WriteString("if c() {\n")
			depth++
		case LWhile:
			sb.WriteString("while c() {\n")
			depth++
		case LFor:
			sb.WriteString("for i" + string(rune('0'+depth)) + " in xs {\n")
			depth++
		case LIfLet:
			sb.WriteString("if let " + y + " <- " + x + " {\n")
			depth++
		case LFun:
			nfun++
			sb.WriteString("fun g" + string(rune('0'+nfun%10)) + "(" + y + ": @R) {\n")
			depth++
		}
	}
}

// LinSkeleton is the control skeleton of a program with names erased: leaves
// are abstracted to D (declaration by create), M (declaration by move), I
// (invalidation: destroy / argument / array / optional), U (use), S (swap);
// jumps and compound statements keep their kind. Variables are numbered by
// first occurrence.
func LinSkeleton(toks []LinTok) string {
	var sb strings.Builder
	ren := [2]int{-1, -1}
	next := 0
	v := func(i uint8) string {
		if ren[i] < 0 {
			ren[i] = next
			next++
		}
		return string(rune('0' + ren[i]))
	}
	for _, t := range toks {
		switch t.K {
		case LEnd:
			sb.WriteString("}")
		case LElse:
			sb.WriteString("}else{")
		case LCreate, LCreateO:
			sb.WriteString("D" + v(t.Y) + ";")
		case LMoveVar:
			x := v(t.X)
			sb.WriteString("M" + v(t.Y) + "<" + x + ";")
		case LDestroy, LArg, LArr, LOpt:
			sb.WriteString("I" + v(t.X) + ";")
		case LUse:
			sb.WriteString("U" + v(t.X) + ";")
		case LSwap:
			sb.WriteString("S;")
		case LBreak:
			sb.WriteString("break;")
		case LContinue:
			sb.WriteString("continue;")
		case LReturn:
			sb.WriteString("return;")
		case LPanic:
			sb.WriteString("panic;")
		case LIf, LIfElse:
			sb.WriteString("if{")
		case LWhile, LFor:
			sb.WriteString("loop{")
		case LIfLet:
			x := v(t.X)
			sb.WriteString("iflet" + v(t.Y) + "<" + x + "{")
		case LFun:
			sb.WriteString("fun" + v(t.Y) + "{")
		}
	}
	return sb.String()
}

// RenderLinImported renders the program with the prelude imported from the
// location "p" instead of inlined (cheaper to check many programs).
func RenderLinImported(toks []LinTok) string {
	var sb strings.Builder
	sb.Grow(96 + 40*len(toks))
	sb.WriteString("import \"p\"\naccess(all) fun test(xs: [Int]) {\n")
	RenderLinBody(&sb, toks)
	sb.WriteString("}\n")
	return sb.String()
}

// FlattenLin is the inverse of ParseLin.
func FlattenLin(stmts []LinStmt) []LinTok {
	var out []LinTok
	var walk func(ss []LinStmt)
	walk = func(ss []LinStmt) {
		for _, s := range ss {
			out = append(out, LinTok{K: s.K, X: s.X, Y: s.Y, T: s.T})
			switch s.K {
			case LIf, LWhile, LFor, LFun:
				walk(s.Body)
				out = append(out, LinTok{K: LEnd})
			case LIfElse, LIfLet:
				walk(s.Body)
				out = append(out, LinTok{K: LElse})
				walk(s.Else)
				out = append(out, LinTok{K: LEnd})
			}
		}
	}
	walk(stmts)
	return out
}

// LinValid says whether a statement tree is a member of the fragment: names
// declared before use and not redeclared while in scope, static types
// consistent, swap only between non-constant variables of equal type,
// break/continue only in loops, no statement after one that exits on every
// path. It restates the generator's rules on the tree (used to validate
// reduced programs, and as a cross-check of the generator).
func LinValid(stmts []LinStmt) bool {
	ok := true
	var block func(ss []LinStmt, e linEnv, inLoop bool) (exits bool)
	block = func(ss []LinStmt, e linEnv, inLoop bool) bool {
		exited := false
		for _, s := range ss {
			if exited {
				ok = false
				return true
			}
			if s.X > 1 || s.Y > 1 {
				ok = false
				return false
			}
			declY := func(t uint8, cst bool) {
				if e.decl[s.Y] {
					ok = false
				}
				e.decl[s.Y], e.typ[s.Y], e.cst[s.Y] = true, t, cst
			}
			needX := func() {
				if !e.decl[s.X] || e.typ[s.X] != s.T {
					ok = false
				}
			}
			switch s.K {
			case LCreate:
				declY(0, false)
			case LCreateO:
				declY(1, false)
			case LMoveVar:
				needX()
				if s.X == s.Y {
					ok = false
				}
				declY(s.T, false)
			case LDestroy, LArg, LArr, LUse:
				needX()
			case LOpt:
				needX()
				if s.T != 0 {
					ok = false
				}
			case LSwap:
				if s.X == s.Y || !e.decl[s.X] || !e.decl[s.Y] || e.typ[s.X] != e.typ[s.Y] || e.cst[s.X] || e.cst[s.Y] || e.typ[s.X] != s.T {
					ok = false
				}
			case LBreak, LContinue:
				if !inLoop {
					ok = false
				}
				exited = true
			case LReturn, LPanic:
				exited = true
			case LIf:
				block(s.Body, e, inLoop)
			case LIfElse:
				a := block(s.Body, e, inLoop)
				b := block(s.Else, e, inLoop)
				exited = a && b
			case LWhile, LFor:
				block(s.Body, e, true)
			case LIfLet:
				needX()
				if s.T != 1 || s.X == s.Y || e.decl[s.Y] {
					ok = false
				}
				te := e
				te.decl[s.Y], te.typ[s.Y], te.cst[s.Y] = true, 0, true
				a := block(s.Body, te, inLoop)
				b := block(s.Else, e, inLoop)
				exited = a && b
			case LFun:
				if e.decl[s.Y] {
					ok = false
				}
				var fe linEnv
				fe.decl[s.Y], fe.cst[s.Y] = true, true
				block(s.Body, fe, false)
			default:
				ok = false
			}
			if !ok {
				return false
			}
		}
		return exited
	}
	block(stmts, linEnv{}, false)
	return ok
}

// ParseSkeleton reads the notation produced by LinSkeleton (plus O<n> for an
// optional-typed creation, A<n> for the array move and for{ for a for-loop)
// back into a token string, inferring static types. Used for hand-written
// seed programs beyond the exhaustive bound.
func ParseSkeleton(s string) ([]LinTok, bool) {
	var out []LinTok
	typ := [2]uint8{}
	type frame struct{ typ [2]uint8 }
	var stack []frame
	i := 0
	digit := func() (uint8, bool) {
		if i < len(s) && (s[i] == '0' || s[i] == '1') {
			i++
			return s[i-1] - '0', true
		}
		return 0, false
	}
	has := func(p string) bool {
		if strings.HasPrefix(s[i:], p) {
			i += len(p)
			return true
		}
		return false
	}
	for i < len(s) {
		switch {
		case has("}else{"):
			typ = stack[len(stack)-1].typ
			out = append(out, LinTok{K: LElse})
		case has("}"):
			if len(stack) == 0 {
				return nil, false
			}
			typ = stack[len(stack)-1].typ
			stack = stack[:len(stack)-1]
			out = append(out, LinTok{K: LEnd})
		case has("break;"):
			out = append(out, LinTok{K: LBreak})
		case has("continue;"):
			out = append(out, LinTok{K: LContinue})
		case has("return;"):
			out = append(out, LinTok{K: LReturn})
		case has("panic;"):
			out = append(out, LinTok{K: LPanic})
		case has("S;"):
			out = append(out, LinTok{K: LSwap, X: 0, Y: 1, T: typ[0]})
		case has("iflet"):
			y, ok1 := digit()
			if !has("<") {
				return nil, false
			}
			x, ok2 := digit()
			if !ok1 || !ok2 || !has("{") {
				return nil, false
			}
			stack = append(stack, frame{typ})
			out = append(out, LinTok{K: LIfLet, X: x, Y: y, T: 1})
			typ[y] = 0
		case has("if{"):
			stack = append(stack, frame{typ})
			// if vs if-else is decided by looking ahead for the matching }else{
			depth, j, isElse := 0, i, false
			for j < len(s) {
				if strings.HasPrefix(s[j:], "}else{") && depth == 0 {
					isElse = true
					break
				}
				if s[j] == '{' {
					depth++
				} else if s[j] == '}' {
					if depth == 0 {
						break
					}
					depth--
				}
				j++
			}
			if isElse {
				out = append(out, LinTok{K: LIfElse})
			} else {
				out = append(out, LinTok{K: LIf})
			}
		case has("loop{"):
			stack = append(stack, frame{typ})
			out = append(out, LinTok{K: LWhile})
		case has("for{"):
			stack = append(stack, frame{typ})
			out = append(out, LinTok{K: LFor})
		case has("fun"):
			y, ok := digit()
			if !ok || !has("{") {
				return nil, false
			}
			stack = append(stack, frame{typ})
			out = append(out, LinTok{K: LFun, Y: y})
			typ[y] = 0
		default:
			c := s[i]
			i++
			v, ok := digit()
			if !ok {
				return nil, false
			}
			switch c {
			case 'D':
				typ[v] = 0
				out = append(out, LinTok{K: LCreate, Y: v})
			case 'O':
				typ[v] = 1
				out = append(out, LinTok{K: LCreateO, Y: v, T: 1})
			case 'M':
				if !has("<") {
					return nil, false
				}
				x, ok := digit()
				if !ok {
					return nil, false
				}
				typ[v] = typ[x]
				out = append(out, LinTok{K: LMoveVar, X: x, Y: v, T: typ[x]})
			case 'I':
				out = append(out, LinTok{K: LDestroy, X: v, T: typ[v]})
			case 'A':
				out = append(out, LinTok{K: LArr, X: v, T: typ[v]})
			case 'U':
				out = append(out, LinTok{K: LUse, X: v, T: typ[v]})
			default:
				return nil, false
			}
			if !has(";") {
				return nil, false
			}
		}
	}
	if len(stack) != 0 {
		return nil, false
	}
	return out, true
}

package proggen

// PreludeName / PreludeAddress: the fixed contract every fragment program imports.
const PreludeName = "C"

// PreludeContract is deployed at account 0x1 (rt.Deploy(l, rt.Addr(1), "C", proggen.PreludeContract, vm)).
// Every resource logs "created:<uuid>" from its initializer and declares the
// default destruction event with its uuid, so that a conservation oracle
// (C02) can count creations and destructions without looking at the host.
// Attachments have no uuid of their own: A logs "attached:<base uuid>" and its
// destruction event carries only a literal (a `self.x` / `base.x` default
// argument in an attachment's destruction event fails with an internal error
// on the pinned VM when the base type declares entitlements - C01 probe
// "attachment-destroy-event-default"), so attachments are counted per type.
const PreludeContract = `access(all) contract C {
    access(all) entitlement E
    access(all) entitlement F
    access(all) entitlement mapping M { E -> F }

    access(all) struct interface SI {
        access(all) view fun val(): Int
        access(all) fun twice(): Int {
            pre { self.val() > -1000: "val too small" }
            post { result == self.val() * 2: "twice is wrong" }
            return self.val() * 2
        }
    }
    access(all) struct S: SI {
        access(all) var n: Int
        access(all) var tags: [String]
        init(_ n: Int) { self.n = n; self.tags = [] }
        access(all) view fun val(): Int { return self.n }
        access(all) fun setN(_ n: Int) { self.n = n }
        access(all) fun addTag(_ t: String) { self.tags.append(t) }
        access(all) view fun me(): auth(E) &S { return &self as auth(E) &S }
        access(all) fun meImpure(): auth(E) &S { return &self as auth(E) &S }
    }
    access(all) attachment SA for S {
        access(all) fun baseVal(): Int { return base.val() }
    }

    access(all) resource interface RI {
        access(all) view fun id(): Int
        access(all) fun describe(): String {
            post { result.length > 0: "empty description" }
            return "RI#".concat(self.id().toString())
        }
        access(E) fun bump(): Int {
            pre { self.id() < 1000: "id too big" }
            post { result == before(self.id()) + 1: "bump is wrong" }
        }
        // conditions inherited by the implementations in R; resource-kinded parameters
        access(all) fun takeR(_ r: @R): Int {
            pre { self.id() > -100000: "takeR pre" }
            post { result == self.id(): "takeR post" }
        }
        access(all) fun takeOpt(_ r: @R?): Int {
            pre { self.id() > -100000: "takeOpt pre" }
            post { result == self.id(): "takeOpt post" }
        }
        access(all) fun takeArr(_ rs: @[R]): Int {
            pre { self.id() > -100000: "takeArr pre" }
            post { result >= 0: "takeArr post" }
        }
        access(all) fun takeDict(_ d: @{String: R}): Int {
            pre { self.id() > -100000: "takeDict pre" }
            post { result >= 0: "takeDict post" }
        }
        // default functions with conditions and resource-kinded parameters
        access(all) fun eatR(_ r: @R): Int {
            pre { self.id() > -100000: "eatR pre" }
            post { result == 1: "eatR post" }
            destroy r
            return 1
        }
        access(all) fun eatOpt(_ r: @R?): Int {
            pre { self.id() > -100000: "eatOpt pre" }
            post { result == 1: "eatOpt post" }
            destroy r
            return 1
        }
        access(all) fun eatArr(_ rs: @[R]): Int {
            pre { self.id() > -100000: "eatArr pre" }
            post { result >= 0: "eatArr post" }
            let n = rs.length
            destroy rs
            return n
        }
        access(all) fun eatDict(_ d: @{String: R}): Int {
            pre { self.id() > -100000: "eatDict pre" }
            post { result >= 0: "eatDict post" }
            let n = d.length
            destroy d
            return n
        }
    }
    access(all) resource Child {
        access(all) event ResourceDestroyed(uuid: UInt64 = self.uuid)
        access(all) let n: Int
        init(_ n: Int) { self.n = n; log("created:".concat(self.uuid.toString())) }
    }
    access(all) resource R: RI {
        access(all) event ResourceDestroyed(uuid: UInt64 = self.uuid, n: Int = self.n)
        access(all) var n: Int
        access(all) var child: @Child
        access(all) var kids: @[Child]
        access(all) var map: @{String: Child}
        access(all) var opt: @Child?
        access(mapping M) let s: S
        init(_ n: Int) {
            self.n = n
            self.s = S(n)
            self.child <- create Child(n + 1)
            self.kids <- []
            self.map <- {}
            self.opt <- nil
            log("created:".concat(self.uuid.toString()))
        }
        access(all) view fun id(): Int { return self.n }
        access(E) fun bump(): Int { self.n = self.n + 1; return self.n }
        access(all) fun takeR(_ r: @R): Int { destroy r; return self.n }
        access(all) fun takeOpt(_ r: @R?): Int { destroy r; return self.n }
        access(all) fun takeArr(_ rs: @[R]): Int { let n = rs.length; destroy rs; return n }
        access(all) fun takeDict(_ d: @{String: R}): Int { let n = d.length; destroy d; return n }
        access(all) fun swapChild(_ c: @Child): @Child { let old <- self.child <- c; return <- old }
        access(all) fun addKid(_ c: @Child) { self.kids.append(<- c) }
        access(all) fun popKid(): @Child? {
            if self.kids.length == 0 { return nil }
            return <- self.kids.removeFirst()
        }
        access(all) fun putMap(_ k: String, _ c: @Child): @Child? { return <- self.map.insert(key: k, <- c) }
        access(all) fun setOpt(_ c: @Child?): @Child? { let old <- self.opt <- c; return <- old }
    }
    access(all) attachment A for R {
        access(all) event ResourceDestroyed(tag: String = "A")
        access(all) var hits: Int
        init() { self.hits = 0; log("attached:".concat(base.uuid.toString())) }
        access(all) fun baseId(): Int { return base.id() }
        access(all) fun hit(): Int { self.hits = self.hits + 1; return self.hits }
    }

    access(all) var vault: @[R]

    access(all) fun mk(_ n: Int): @R { return <- create R(n) }
    access(all) fun mkChild(_ n: Int): @Child { return <- create Child(n) }
    access(all) fun deposit(_ r: @R) { self.vault.append(<- r) }
    access(all) fun withdraw(): @R? {
        if self.vault.length == 0 { return nil }
        return <- self.vault.removeLast()
    }
    access(all) fun idR(_ r: &R): &R { return r }
    // function values at function types that differ only by a weaker authorization
    access(all) fun callView(_ f: view fun(): &S): Int { return f().n }
    access(all) fun callImpure(_ f: fun(): &S): Int { return f().n }
    access(all) fun weaken(_ f: view fun(): auth(E) &S): view fun(): &S { return f }
    access(all) fun callWithAuth(_ f: fun(auth(E) &S): Int, _ s: auth(E) &S): Int { return f(s) }
    access(all) fun sink(_ r: @AnyResource) { destroy r }

    init() { self.vault <- [] }
}
`

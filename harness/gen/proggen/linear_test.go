package proggen

import (
	"os"
	"testing"
)

func TestLinearCount(t *testing.T) {
	max := 5
	if os.Getenv("LIN6") != "" {
		max = 6
	}
	for n := 1; n <= max; n++ {
		cnt, bad := 0, 0
		EnumLinear(LinOpts{MaxNodes: n}, func(toks []LinTok) bool {
			cnt++
			if n <= 4 && !LinValid(ParseLin(toks)) {
				bad++
			}
			return true
		})
		cnt2 := 0
		EnumLinear(LinOpts{MaxNodes: n, NoOptional: true}, func(toks []LinTok) bool { cnt2++; return true })
		t.Logf("nodes<=%d: %d programs (no optional: %d)", n, cnt, cnt2)
		if bad > 0 {
			t.Errorf("%d generated programs fail LinValid", bad)
		}
	}
}

func TestLinearRoundTrip(t *testing.T) {
	EnumLinear(LinOpts{MaxNodes: 4}, func(toks []LinTok) bool {
		back := FlattenLin(ParseLin(toks))
		if len(back) != len(toks) {
			t.Fatalf("round trip length")
		}
		for i := range back {
			if back[i] != toks[i] {
				t.Fatalf("round trip differs at %d", i)
			}
		}
		return true
	})
}

func TestLinearCountReduced(t *testing.T) {
	for _, o := range []LinOpts{
		{MaxNodes: 6, MinNodes: 6, Reduced: true},
		{MaxNodes: 6, MinNodes: 6, Reduced: true, NoOptional: true},
		{MaxNodes: 6, MinNodes: 6, Reduced: true, OneVar: true},
		{MaxNodes: 6, MinNodes: 6, Reduced: true, OneVar: true, NoOptional: true},
		{MaxNodes: 7, MinNodes: 7, Reduced: true, OneVar: true, NoOptional: true},
	} {
		cnt := 0
		EnumLinear(o, func(toks []LinTok) bool { cnt++; return true })
		t.Logf("%+v: %d", o, cnt)
	}
}

func TestLinearCountJump(t *testing.T) {
	cnt, j := 0, 0
	EnumLinear(LinOpts{MaxNodes: 6, MinNodes: 6, Reduced: true, OneVar: true, NoOptional: true}, func(toks []LinTok) bool {
		cnt++
		for _, k := range toks {
			if k.K == LBreak || k.K == LContinue {
				j++
				break
			}
		}
		return true
	})
	t.Logf("%d with jump of %d", j, cnt)
}

func TestLinearCountBranchExit(t *testing.T) {
	for _, o := range []LinOpts{
		{MaxNodes: 6, MinNodes: 6, Reduced: true, OneVar: true, NoOptional: true, Filter: BranchExitVsPartial},
		{MaxNodes: 6, MinNodes: 6, OneVar: true, Filter: BranchExitVsPartial},
	} {
		cnt := 0
		EnumLinear(o, func(toks []LinTok) bool { cnt++; return true })
		t.Logf("%d", cnt)
	}
}

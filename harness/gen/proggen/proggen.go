// Package proggen enumerates typed program fragments: a fixed prelude
// (contract C, see prelude.go) + a fixed header that declares a small
// variable pool + a body of <= k statements drawn from a template alphabet.
// The generator tracks a static environment (which variables exist, their
// kind, and whether a resource variable is still live) so that most
// derivations type-check and are resource-linear; an epilogue destroys every
// resource that is still live. The checker remains the arbiter: callers skip
// and count the programs it rejects.
//
// The enumeration order is deterministic. A Fragment materialises the list of
// derivations compactly, so a check can iterate programs in parallel by index:
//
//	f := proggen.New(proggen.Options{MaxStmts: 2})
//	mc.ParallelFor(env, f.Count(), func(i int) { p := f.At(i); ... p.Script() ... })
package proggen

import (
	"fmt"
	"sort"
	"strings"
)

// Kind is the kind (static type class) of a pool variable.
type Kind string

const (
	KR    Kind = "R"    // @C.R
	KRO   Kind = "RO"   // @C.R?
	KRA   Kind = "RA"   // @[C.R]
	KRD   Kind = "RD"   // @{String: C.R}
	KAR   Kind = "AR"   // @AnyResource
	KREF  Kind = "REF"  // &C.R
	KAREF Kind = "AREF" // auth(C.E) &C.R
	KCREF Kind = "CREF" // &C.Child
	KOREF Kind = "OREF" // &C.R?
	KIREF Kind = "IREF" // &{C.RI}
	KS    Kind = "S"    // C.S
	KANY  Kind = "ANY"  // AnyStruct
	KFN   Kind = "FN"   // fun(): Int
	KVFN  Kind = "VFN"  // view fun(): &C.S
	KNFN  Kind = "NFN"  // fun(): &C.S
	KVRFN Kind = "VRFN" // view fun(): &C.R
	KPFN  Kind = "PFN"  // fun(auth(C.E) &C.S): Int
)

func (k Kind) resource() bool { return k == KR || k == KRO || k == KRA || k == KRD || k == KAR }

var kindType = map[Kind]string{KR: "@C.R", KRO: "@C.R?", KRA: "@[C.R]", KRD: "@{String: C.R}", KAR: "@AnyResource",
	KREF: "&C.R", KAREF: "auth(C.E) &C.R", KCREF: "&C.Child", KOREF: "&C.R?", KIREF: "&{C.RI}", KS: "C.S", KANY: "AnyStruct", KFN: "fun(): Int",
	KVFN: "view fun(): &C.S", KNFN: "fun(): &C.S", KVRFN: "view fun(): &C.R", KPFN: "fun(auth(C.E) &C.S): Int"}

var kindPrefix = map[Kind]string{KR: "r", KRO: "ro", KRA: "arr", KRD: "dict", KAR: "anyr", KREF: "ref", KAREF: "aref",
	KCREF: "cref", KOREF: "oref", KIREF: "iref", KS: "s", KANY: "any", KFN: "fn",
	KVFN: "vfn", KNFN: "nfn", KVRFN: "vrfn", KPFN: "pfn"}

// Template is one statement template. Text placeholders:
//
//	{a=take K}  a live variable of resource kind K, moved by the statement
//	{a=use K}   a declared (and, for resources, live) variable of kind K
//	{a=new K}   a fresh variable of kind K, rendered as "name: Type"
//	{a}         the variable bound to a earlier in the same template
//	{acct}      the account reference (acct, or acct/acct2 with TwoAccounts)
type Template struct {
	Name string
	Tags string // space separated: res ref cast closure struct attach storage vault control cond nested
	Text string
}

// Header declares the variable pool. refs[0] denotes r0, refs[1] denotes arr[0].
const Header = `var x = arg
var s = C.S(arg)
var r0 <- C.mk(arg)
var arr: @[C.R] <- [<- C.mk(arg + 10)]
var dict: @{String: C.R} <- {}
var ro: @C.R? <- nil
var refs: [&C.R] = [&r0 as &C.R, &arr[0] as &C.R]
`

var headerVars = []Var{{"s", KS, true}, {"r0", KR, true}, {"arr", KRA, true}, {"dict", KRD, true}, {"ro", KRO, true}}

// Templates is the alphabet (order is part of the enumeration order).
var Templates = []Template{
	// --- create / move / destroy
	{"mk", "res", `var {b=new R} <- C.mk(arg + 20)`},
	{"move-var", "res", `var {b=new R} <- {a=take R}`},
	{"destroy", "res", `destroy {a=take R}`},
	{"sink-fn", "res", `C.sink(<- {a=take R})`},
	{"arr-append", "res", `{c=use RA}.append(<- {a=take R})`},
	{"arr-remove", "res", `var {b=new R} <- {c=use RA}.remove(at: 0)`},
	{"arr-move", "res", `var {d=new RA} <- {c=take RA}`},
	{"arr-literal", "res", `var {d=new RA} <- [<- {a=take R}]`},
	{"arr-destroy", "res", `destroy {c=take RA}`},
	{"dict-insert", "res", `destroy {c=use RD}.insert(key: "k", <- {a=take R})`},
	{"dict-force", "res", `{c=use RD}["k"] <-! {a=take R}`},
	{"dict-remove", "res", `var {b=new RO} <- {c=use RD}.remove(key: "k")`},
	{"dict-move", "res", `var {d=new RD} <- {c=take RD}`},
	{"opt-wrap", "res", `var {b=new RO} <- {a=take R}`},
	{"opt-second", "res", `var {o=new RO} <- {p=use RO} <- {a=take R}`},
	{"opt-swap", "res", `{p=use RO} <-> {q=use RO}`},
	{"opt-force", "res", `var {b=new R} <- {p=take RO}!`},
	{"opt-iflet", "res control", `if let u <- {p=take RO} { x = x + u.n; destroy u }`},
	{"opt-destroy", "res", `destroy {p=take RO}`},
	{"swap-vars", "res", `{a=use R} <-> {b=use R}`},
	{"swap-elem", "res", `{c=use RA}[0] <-> {a=use R}`},
	{"cond-destroy", "res control", `if x > 0 { destroy {a=take R} } else { C.sink(<- {a}) }`},
	// --- functions with conditions inherited from an interface (implemented in R) or interface default functions,
	//     taking resource-kinded arguments that are moved in
	{"take-r", "res iface", `x = x + {a=use R}.takeR(<- {b=take R})`},
	{"take-opt", "res iface", `x = x + {a=use R}.takeOpt(<- {p=take RO})`},
	{"take-opt-wrap", "res iface", `x = x + {a=use R}.takeOpt(<- {b=take R})`},
	{"take-arr", "res iface", `x = x + {a=use R}.takeArr(<- {c=take RA})`},
	{"take-dict", "res iface", `x = x + {a=use R}.takeDict(<- {c=take RD})`},
	{"eat-r", "res iface", `x = x + {a=use R}.eatR(<- {b=take R})`},
	{"eat-opt", "res iface", `x = x + {a=use R}.eatOpt(<- {p=take RO})`},
	{"eat-arr", "res iface", `x = x + {a=use R}.eatArr(<- {c=take RA})`},
	{"eat-dict", "res iface", `x = x + {a=use R}.eatDict(<- {c=take RD})`},
	{"ref-take-arr", "ref res iface", `x = x + refs[0].takeArr(<- {c=take RA})`},
	{"ref-eat-opt", "ref res iface", `x = x + refs[1].eatOpt(<- {p=take RO})`},
	// --- nested resources
	{"swap-child", "res nested", `destroy {a=use R}.swapChild(<- C.mkChild(7))`},
	{"add-kid", "res nested", `{a=use R}.addKid(<- C.mkChild(8))`},
	{"pop-kid", "res nested", `destroy {a=use R}.popKid()`},
	{"put-map", "res nested", `destroy {a=use R}.putMap("k", <- C.mkChild(9))`},
	{"set-opt", "res nested", `destroy {a=use R}.setOpt(<- C.mkChild(6))`},
	// --- resource casts
	{"cast-up", "res cast", `var {b=new AR} <- {a=take R}`},
	{"cast-down", "res cast", `var {b=new R} <- {a=take AR} as! @C.R`},
	{"cast-down-opt", "res cast control", `if let u <- {a=take AR} as? @C.R { destroy u } else { destroy {a} }`},
	{"anyr-destroy", "res cast", `destroy {a=take AR}`},
	// --- storage, capabilities, contract vault
	{"save", "res storage", `{acct}.storage.save(<- {a=take R}, to: /storage/r)`},
	{"load", "res storage", `var {b=new R} <- {acct}.storage.load<@C.R>(from: /storage/r)!`},
	{"load-opt", "res storage", `var {b=new RO} <- {acct}.storage.load<@C.R>(from: /storage/r)`},
	{"save-arr", "res storage", `{acct}.storage.save(<- {c=take RA}, to: /storage/arr)`},
	{"load-arr", "res storage", `var {d=new RA} <- {acct}.storage.load<@[C.R]>(from: /storage/arr)!`},
	{"load-mismatch", "res storage", `var {b=new RO} <- {acct}.storage.load<@C.R>(from: /storage/arr)`},
	{"borrow", "ref storage", `var {f=new AREF} = {acct}.storage.borrow<auth(C.E) &C.R>(from: /storage/r)!`},
	{"borrow-elem", "ref storage", `if let b = {acct}.storage.borrow<&[C.R]>(from: /storage/arr) { refs.append(b[0]) }`},
	{"copy-struct", "struct storage", `s = {acct}.storage.copy<C.S>(from: /storage/s) ?? s`},
	{"save-struct", "struct storage", `{acct}.storage.save(s, to: /storage/s)`},
	{"type-at", "storage", `x = x + ({acct}.storage.type(at: /storage/r) == Type<@C.R>() ? 1 : 0)`},
	{"cap-borrow", "ref storage", `var {f=new REF} = {acct}.capabilities.storage.issue<&C.R>(/storage/r).borrow()!`},
	{"deposit", "res vault", `C.deposit(<- {a=take R})`},
	{"withdraw", "res vault", `var {b=new RO} <- C.withdraw()`},
	// --- taking references
	{"ref-take", "ref", `var {f=new REF} = &{a=use R} as &C.R`},
	{"aref-take", "ref", `var {f=new AREF} = &{a=use R} as auth(C.E) &C.R`},
	{"ref-elem", "ref", `var {f=new REF} = &{c=use RA}[0] as &C.R`},
	{"cref-take", "ref nested", `var {f=new CREF} = &{a=use R}.child as &C.Child`},
	{"oref-take", "ref", `var {f=new OREF} = &{p=use RO} as &C.R?`},
	{"refs-append", "ref", `refs.append(&{a=use R} as &C.R)`},
	{"refs-append-id", "ref", `refs.append(C.idR(&{a=use R} as &C.R))`},
	{"refs-append-elem", "ref", `refs.append(&{c=use RA}[0] as &C.R)`},
	{"refs-from-ref", "ref", `refs.append({f=use REF})`},
	// --- using references
	{"ref-read", "ref", `x = x + {f=use REF}.n`},
	{"ref-call", "ref", `x = x + {f=use REF}.id()`},
	{"refs0-read", "ref", `x = x + refs[0].n`},
	{"refs1-call", "ref", `x = x + refs[1].id()`},
	{"refs-last", "ref", `x = x + refs[refs.length - 1].n`},
	{"aref-bump", "ref cond", `x = x + {f=use AREF}.bump()`},
	{"ref-default", "ref cond", `log({f=use REF}.describe())`},
	{"ref-child", "ref nested", `x = x + {f=use REF}.child.n`},
	{"ref-kids", "ref nested", `x = x + {f=use REF}.kids.length`},
	{"cref-read", "ref nested", `x = x + {f=use CREF}.n`},
	{"oref-read", "ref", `x = x + ({f=use OREF}?.n ?? 0)`},
	{"aref-mapped", "ref", `x = x + {f=use AREF}.s.n`},
	{"owned-mapped", "res", `x = x + {a=use R}.s.val()`},
	// --- casts
	{"ref-to-iface", "ref cast", `var {g=new IREF} = {f=use REF} as &{C.RI}`},
	{"iref-take", "ref cast", `var {g=new IREF} = &{a=use R} as &{C.RI}`},
	{"iref-default", "ref cast cond", `log({g=use IREF}.describe())`},
	{"ref-downcast", "ref cast cond", `x = x + (({f=use REF} as? auth(C.E) &C.R)?.bump() ?? 0)`},
	{"aref-to-ref", "ref cast", `var {g=new REF} = {f=use AREF} as &C.R`},
	{"iref-force", "ref cast", `x = x + ({g=use IREF} as! &C.R).n`},
	{"oref-cast", "ref cast", `x = x + (({f=use OREF} as? &C.R)?.n ?? 0)`},
	{"any-struct", "struct cast", `var {y=new ANY} = s`},
	{"any-ref", "ref cast", `var {y=new ANY} = {f=use REF}`},
	{"any-down-struct", "struct cast", `x = x + (({y=use ANY} as? C.S)?.n ?? 0)`},
	{"any-force-struct", "struct cast", `x = x + ({y=use ANY} as! C.S).val()`},
	{"any-down-ref", "ref cast", `x = x + (({y=use ANY} as? &C.R)?.n ?? 0)`},
	// --- closures
	{"fn-capture-ref", "ref closure", `var {h=new FN} = fun(): Int { return {f=use REF}.n }`},
	{"fn-capture-refs", "ref closure", `var {h=new FN} = fun(): Int { return refs[0].n + refs[1].n }`},
	{"fn-capture-struct", "struct closure", `var {h=new FN} = fun(): Int { return s.val() }`},
	{"fn-mutate", "closure", `var {h=new FN} = fun(): Int { x = x + 1; return x }`},
	{"fn-call", "closure", `x = x + {h=use FN}()`},
	// --- function values transferred to function types that differ only by a weaker authorization
	//     (covariant return, contravariant parameter), view and non-view, closures and bound functions
	{"fnv-assign-view", "closure fnval", `var {g=new VFN} = view fun(): auth(C.E) &C.S { return &s as auth(C.E) &C.S }`},
	{"fnv-assign-impure", "closure fnval", `var {g=new NFN} = fun(): auth(C.E) &C.S { return &s as auth(C.E) &C.S }`},
	{"fnv-assign-bound-view", "closure fnval", `var {g=new VFN} = s.me`},
	{"fnv-assign-bound-impure", "closure fnval", `var {g=new NFN} = s.meImpure`},
	{"fnv-view-to-impure", "closure fnval", `var {g=new NFN} = {h=use VFN}`},
	{"fnv-pass-view", "closure fnval", `x = x + C.callView(view fun(): auth(C.E) &C.S { return &s as auth(C.E) &C.S })`},
	{"fnv-pass-bound", "closure fnval", `x = x + C.callView(s.me) + C.callImpure(s.meImpure)`},
	{"fnv-return-view", "closure fnval", `var {g=new VFN} = C.weaken(view fun(): auth(C.E) &C.S { return &s as auth(C.E) &C.S })`},
	{"fnv-nested-view", "closure fnval", `x = x + (view fun(): [auth(C.E) &C.S]? { return [&s as auth(C.E) &C.S] } as view fun(): [&C.S]?)()![0].n`},
	{"fnv-param-contra", "closure fnval", `var {g=new PFN} = fun(r: &C.S): Int { return r.n }`},
	{"fnv-param-call", "closure fnval", `x = x + C.callWithAuth({g=use PFN}, &s as auth(C.E) &C.S)`},
	{"fnv-aref-view", "ref closure fnval", `var {g=new VRFN} = view fun(): auth(C.E) &C.R { return {f=use AREF} }`},
	{"fnv-call-view", "closure fnval", `x = x + {g=use VFN}().n`},
	{"fnv-call-impure", "closure fnval", `x = x + {g=use NFN}().n`},
	{"fnv-call-ref-view", "ref closure fnval", `x = x + {g=use VRFN}().n`},
	// --- structs, default functions, struct attachments
	{"s-set", "struct", `s.setN(x + 1)`},
	{"s-copy", "struct", `var {t=new S} = s`},
	{"s-copy-set", "struct", `{t=use S}.setN(99)`},
	{"s-twice", "struct cond", `x = x + {t=use S}.twice()`},
	{"s-tag", "struct", `{t=use S}.addTag("a")`},
	{"s-iface", "struct cast cond", `x = x + ({t=use S} as {C.SI}).twice()`},
	{"s-attach", "struct attach", `var {t=new S} = attach C.SA() to {u=use S}`},
	{"sa-use", "struct attach", `x = x + ({t=use S}[C.SA]?.baseVal() ?? 0)`},
	{"sa-remove", "struct attach", `remove C.SA from {t=use S}`},
	// --- resource attachments
	{"attach", "res attach", `var {b=new R} <- attach C.A() to <- {a=take R}`},
	{"att-hit", "res attach", `x = x + ({a=use R}[C.A]?.hit() ?? 0)`},
	{"att-base", "res attach", `x = x + ({a=use R}[C.A]?.baseId() ?? 0)`},
	{"att-ref", "ref attach", `x = x + ({f=use REF}[C.A]?.baseId() ?? 0)`},
	{"att-remove", "res attach", `remove C.A from {a=use R}`},
	{"att-foreach", "res attach closure", `{a=use R}.forEachAttachment(fun (att: &AnyResourceAttachment) { x = x + 1 })`},
	// --- one-level control wrappers around uses
	{"if-refs0", "ref control", `if x > 0 { x = x + refs[0].n }`},
	{"while-refs1", "ref control", `while x < 3 { x = x + 1 + refs[1].n }`},
	{"for-refs", "ref control", `for e in refs { x = x + e.n }`},
	{"if-ref-call", "ref control", `if x > 0 { x = x + {f=use REF}.id() } else { x = x - 1 }`},
}

// Var is one pool variable.
type Var struct {
	Name string
	Kind Kind
	Live bool
}

// Options selects the fragment.
type Options struct {
	MaxStmts int
	// Tags: keep only templates having at least one of these tags (empty = all).
	Tags []string
	// Exclude drops templates by name.
	Exclude []string
	// TwoAccounts: storage templates range over acct and acct2.
	TwoAccounts bool
}

type seg struct {
	lit  string
	bind string // binding name ("" for literal)
	op   string // take use new "" (back reference) acct
	kind Kind
}

type compiled struct {
	t    Template
	segs []seg
}

func compile(t Template) compiled {
	c := compiled{t: t}
	s := t.Text
	for {
		i := strings.IndexByte(s, '{')
		// a literal '{' followed by a space or newline belongs to the Cadence text
		for i >= 0 && (i+1 >= len(s) || s[i+1] == ' ' || s[i+1] == '\n' || s[i+1] == '}') {
			j := strings.IndexByte(s[i+1:], '{')
			if j < 0 {
				i = -1
			} else {
				i = i + 1 + j
			}
		}
		if i < 0 {
			c.segs = append(c.segs, seg{lit: s})
			break
		}
		j := strings.IndexByte(s[i:], '}') + i
		inner := s[i+1 : j]
		// placeholders have the form name, name=op K, or acct; anything else is Cadence text
		var sg seg
		ok := true
		if inner == "acct" {
			sg = seg{op: "acct"}
		} else if eq := strings.IndexByte(inner, '='); eq > 0 {
			parts := strings.Fields(inner[eq+1:])
			if len(parts) == 2 && (parts[0] == "take" || parts[0] == "use" || parts[0] == "new") {
				sg = seg{bind: inner[:eq], op: parts[0], kind: Kind(parts[1])}
			} else {
				ok = false
			}
		} else if len(inner) > 0 && len(inner) <= 2 && !strings.ContainsAny(inner, " :.") {
			sg = seg{bind: inner}
		} else {
			ok = false
		}
		if !ok {
			c.segs = append(c.segs, seg{lit: s[:j+1]})
			s = s[j+1:]
			continue
		}
		c.segs = append(c.segs, seg{lit: s[:i]}, sg)
		s = s[j+1:]
	}
	return c
}

// Inst is one instantiation of a template in an environment.
type inst struct {
	tmpl int
	text string
	env  []Var // environment after the statement
}

// Fragment is a materialised enumeration.
type Fragment struct {
	Opts  Options
	tmpls []compiled
	progs [][]uint16 // instantiation index at each step
}

// New enumerates the fragment.
func New(opts Options) *Fragment {
	f := &Fragment{Opts: opts}
	ex := map[string]bool{}
	for _, n := range opts.Exclude {
		ex[n] = true
	}
	for _, t := range Templates {
		if ex[t.Name] {
			continue
		}
		if len(opts.Tags) > 0 {
			keep := false
			for _, tag := range strings.Fields(t.Tags) {
				for _, want := range opts.Tags {
					if tag == want {
						keep = true
					}
				}
			}
			if !keep {
				continue
			}
		}
		f.tmpls = append(f.tmpls, compile(t))
	}
	var path []uint16
	var rec func(env []Var, depth int)
	rec = func(env []Var, depth int) {
		f.progs = append(f.progs, append([]uint16(nil), path...))
		if depth == opts.MaxStmts {
			return
		}
		for i, in := range f.insts(env) {
			path = append(path, uint16(i))
			rec(in.env, depth+1)
			path = path[:len(path)-1]
		}
	}
	rec(append([]Var(nil), headerVars...), 0)
	return f
}

func (f *Fragment) Count() int { return len(f.progs) }

// TemplateNames lists the templates of the fragment.
func (f *Fragment) TemplateNames() []string {
	var out []string
	for _, c := range f.tmpls {
		out = append(out, c.t.Name)
	}
	return out
}

// insts lists every instantiation of every template in env, in order.
func (f *Fragment) insts(env []Var) []inst {
	var out []inst
	accts := []string{"acct"}
	if f.Opts.TwoAccounts {
		accts = []string{"acct", "acct2"}
	}
	for ti, c := range f.tmpls {
		// collect binding sites
		type site struct {
			seg   int
			cands []int // indices into env (take/use)
		}
		var sites []site
		hasAcct := false
		feasible := true
		for si, sg := range c.segs {
			switch sg.op {
			case "take", "use":
				var cands []int
				for vi, v := range env {
					if v.Kind == sg.kind && (v.Live || !v.Kind.resource()) {
						cands = append(cands, vi)
					}
				}
				if len(cands) == 0 {
					feasible = false
				}
				sites = append(sites, site{si, cands})
			case "acct":
				hasAcct = true
			}
		}
		if !feasible {
			continue
		}
		acctChoices := []string{""}
		if hasAcct {
			acctChoices = accts
		}
		choice := make([]int, len(sites))
		var rec func(k int)
		rec = func(k int) {
			if k < len(sites) {
				for _, cand := range sites[k].cands {
					dup := false
					for j := 0; j < k; j++ {
						if choice[j] == cand {
							dup = true
						}
					}
					if dup {
						continue
					}
					choice[k] = cand
					rec(k + 1)
				}
				return
			}
			for _, acct := range acctChoices {
				nenv := append([]Var(nil), env...)
				bound := map[string]string{}
				var sb strings.Builder
				k := 0
				for _, sg := range c.segs {
					sb.WriteString(sg.lit)
					switch sg.op {
					case "take", "use":
						vi := choice[k]
						k++
						bound[sg.bind] = env[vi].Name
						sb.WriteString(env[vi].Name)
						if sg.op == "take" {
							nenv[vi].Live = false
						}
					case "new":
						n := 0
						for _, v := range nenv {
							if v.Kind == sg.kind {
								n++
							}
						}
						name := kindPrefix[sg.kind] + fmt.Sprint(n+1)
						if sg.kind == KS || sg.kind == KRA || sg.kind == KRD || sg.kind == KRO {
							name = kindPrefix[sg.kind] + fmt.Sprint(n) // header holds the first
						}
						bound[sg.bind] = name
						nenv = append(nenv, Var{name, sg.kind, true})
						sb.WriteString(name + ": " + kindType[sg.kind])
					case "acct":
						sb.WriteString(acct)
					case "":
						if sg.bind != "" {
							sb.WriteString(bound[sg.bind])
						}
					}
				}
				out = append(out, inst{tmpl: ti, text: sb.String(), env: nenv})
			}
		}
		rec(0)
	}
	return out
}

// Program is one enumerated program.
type Program struct {
	Index int
	Stmts []string
	// Shape is the sequence of template names (variable names erased).
	Shape string
	Tags  map[string]bool
	// Epilogue destroys the resources that are still live.
	Epilogue []string
	Two      bool
}

// At re-derives program i.
func (f *Fragment) At(i int) Program {
	p := Program{Index: i, Tags: map[string]bool{}, Two: f.Opts.TwoAccounts}
	env := append([]Var(nil), headerVars...)
	var names []string
	for _, c := range f.progs[i] {
		in := f.insts(env)[c]
		p.Stmts = append(p.Stmts, in.text)
		t := f.tmpls[in.tmpl].t
		names = append(names, t.Name)
		for _, tag := range strings.Fields(t.Tags) {
			p.Tags[tag] = true
		}
		env = in.env
	}
	p.Shape = strings.Join(names, ">")
	if p.Shape == "" {
		p.Shape = "(empty)"
	}
	for _, v := range env {
		if v.Kind.resource() && v.Live {
			p.Epilogue = append(p.Epilogue, "destroy "+v.Name)
		}
	}
	return p
}

// TagList renders the tag set.
func (p Program) TagList() string {
	var t []string
	for k := range p.Tags {
		t = append(t, k)
	}
	sort.Strings(t)
	return strings.Join(t, ",")
}

func (p Program) body(indent string) string {
	var sb strings.Builder
	for _, l := range strings.Split(strings.TrimRight(Header, "\n"), "\n") {
		sb.WriteString(indent + l + "\n")
	}
	for _, s := range p.Stmts {
		sb.WriteString(indent + s + "\n")
	}
	for _, s := range p.Epilogue {
		sb.WriteString(indent + s + "\n")
	}
	return sb.String()
}

const acctAuth = "auth(Storage, Capabilities) &Account"

// Script renders the program as a script `main(arg: Int): Int` acting on account 0x1 (and 0x2).
func (p Program) Script() string {
	var sb strings.Builder
	sb.WriteString("import C from 0x1\naccess(all) fun main(arg: Int): Int {\n")
	sb.WriteString("    let acct = getAuthAccount<" + acctAuth + ">(0x1)\n")
	if p.Two {
		sb.WriteString("    let acct2 = getAuthAccount<" + acctAuth + ">(0x2)\n")
	}
	sb.WriteString(p.body("    "))
	sb.WriteString("    return x\n}\n")
	return sb.String()
}

// Transaction renders the program as a transaction with one (or two) signers.
func (p Program) Transaction() string {
	var sb strings.Builder
	sb.WriteString("import C from 0x1\ntransaction(arg: Int) {\n    prepare(acct: " + acctAuth)
	if p.Two {
		sb.WriteString(", acct2: " + acctAuth)
	}
	sb.WriteString(") {\n")
	sb.WriteString(p.body("        "))
	sb.WriteString("        log(\"x:\".concat(x.toString()))\n    }\n}\n")
	return sb.String()
}

package cdcval

import (
	"fmt"
	"math"
	"math/big"

	"github.com/onflow/cadence"
	"github.com/onflow/cadence/common"
)

func must[T any](v T, err error) T {
	if err != nil {
		panic(err)
	}
	return v
}

func bigS(s string) *big.Int {
	x, ok := new(big.Int).SetString(s, 10)
	if !ok {
		panic("bad big int " + s)
	}
	return x
}

func pow2(n uint) *big.Int     { return new(big.Int).Lsh(big.NewInt(1), n) }
func sub1(x *big.Int) *big.Int { return new(big.Int).Sub(x, big.NewInt(1)) }
func neg(x *big.Int) *big.Int  { return new(big.Int).Neg(x) }

// Numbers returns 2-4 boundary atoms of each of the 24 number types, grouped
// by type in a fixed order.
func Numbers() []cadence.Value {
	var out []cadence.Value
	add := func(vs ...cadence.Value) { out = append(out, vs...) }

	add(cadence.NewIntFromBig(neg(new(big.Int).Add(pow2(64), big.NewInt(1)))), cadence.NewInt(0), cadence.NewInt(-1), cadence.NewIntFromBig(pow2(200)))
	add(cadence.Int8(math.MinInt8), cadence.Int8(-1), cadence.Int8(math.MaxInt8))
	add(cadence.Int16(math.MinInt16), cadence.Int16(0), cadence.Int16(math.MaxInt16))
	add(cadence.Int32(math.MinInt32), cadence.Int32(1), cadence.Int32(math.MaxInt32))
	add(cadence.Int64(math.MinInt64), cadence.Int64(-1), cadence.Int64(math.MaxInt64))
	add(must(cadence.NewInt128FromBig(neg(pow2(127)))), cadence.NewInt128(0), must(cadence.NewInt128FromBig(sub1(pow2(127)))))
	add(must(cadence.NewInt256FromBig(neg(pow2(255)))), cadence.NewInt256(-1), must(cadence.NewInt256FromBig(sub1(pow2(255)))))

	add(cadence.NewUInt(0), must(cadence.NewUIntFromBig(new(big.Int).Add(pow2(64), big.NewInt(1)))), must(cadence.NewUIntFromBig(pow2(300))))
	add(cadence.UInt8(0), cadence.UInt8(128), cadence.UInt8(math.MaxUint8))
	add(cadence.UInt16(0), cadence.UInt16(math.MaxUint16))
	add(cadence.UInt32(0), cadence.UInt32(math.MaxUint32))
	add(cadence.UInt64(0), cadence.UInt64(1<<63), cadence.UInt64(math.MaxUint64))
	add(cadence.NewUInt128(0), must(cadence.NewUInt128FromBig(sub1(pow2(128)))))
	add(cadence.NewUInt256(0), must(cadence.NewUInt256FromBig(sub1(pow2(256)))))

	add(cadence.Word8(0), cadence.Word8(math.MaxUint8))
	add(cadence.Word16(1), cadence.Word16(math.MaxUint16))
	add(cadence.Word32(0), cadence.Word32(math.MaxUint32))
	add(cadence.Word64(0), cadence.Word64(math.MaxUint64))
	add(cadence.NewWord128(0), must(cadence.NewWord128FromBig(sub1(pow2(128)))))
	add(cadence.NewWord256(1), must(cadence.NewWord256FromBig(sub1(pow2(256)))))

	add(cadence.Fix64(math.MinInt64), cadence.Fix64(-150000000), cadence.Fix64(-1), cadence.Fix64(0), cadence.Fix64(math.MaxInt64))
	add(cadence.UFix64(0), cadence.UFix64(1), cadence.UFix64(math.MaxUint64))
	add(must(cadence.NewUnmeteredFix128FromString("-170141183460469.231731687303715884105728")),
		must(cadence.NewUnmeteredFix128FromString("-0.000000000000000000000001")),
		must(cadence.NewUnmeteredFix128FromString("0.0")),
		must(cadence.NewUnmeteredFix128FromString("170141183460469.231731687303715884105727")))
	add(must(cadence.NewUnmeteredUFix128FromString("0.0")),
		must(cadence.NewUnmeteredUFix128FromString("1.5")),
		must(cadence.NewUnmeteredUFix128FromString("340282366920938.463463374607431768211455")))
	return out
}

func str(s string) cadence.String { return must(cadence.NewString(s)) }

// leaf values other than numbers
func (un *universe) leaves() []cadence.Value {
	var out []cadence.Value
	add := func(vs ...cadence.Value) { out = append(out, vs...) }
	add(cadence.NewVoid())
	add(cadence.NewBool(true), cadence.NewBool(false))
	add(str(""), str("a"), str("Zoë ✓ \"q\" \\ \n\t</script>  \U0001F1EB\U0001F1F7"))
	add(must(cadence.NewCharacter("a")), must(cadence.NewCharacter("é")), must(cadence.NewCharacter("\U0001F1EB\U0001F1F7")))
	add(cadence.NewAddress([8]byte{}), cadence.NewAddress(Addr1), cadence.NewAddress([8]byte{0xff, 0xff, 0xff, 0xff, 0xff, 0xff, 0xff, 0xff}))
	add(cadence.MustNewPath(common.PathDomainStorage, "a"), cadence.MustNewPath(common.PathDomainPublic, "foo_1"), cadence.MustNewPath(common.PathDomainPrivate, "p"))
	add(cadence.NewOptional(nil))
	return out
}

// --- composite constructors

func (p *Prelude) NewS(x int, y string) cadence.Struct {
	return cadence.NewStruct([]cadence.Value{cadence.NewInt(x), str(y)}).WithType(p.S)
}

func (p *Prelude) NewNode(next cadence.Value, v int) cadence.Struct {
	if next == nil {
		next = cadence.NewOptional(nil)
	} else {
		next = cadence.NewOptional(next)
	}
	return cadence.NewStruct([]cadence.Value{next, cadence.NewInt(v)}).WithType(p.Node)
}

func (p *Prelude) NewBox(v cadence.Value) cadence.Struct {
	return cadence.NewStruct([]cadence.Value{v}).WithType(p.Box)
}

func (p *Prelude) NewS2(ab []cadence.Value, b cadence.Value, aa cadence.Value) cadence.Struct {
	arr := cadence.NewArray(ab).WithType(cadence.NewVariableSizedArrayType(cadence.IntType))
	var o cadence.Value = cadence.NewOptional(nil)
	if aa != nil {
		o = cadence.NewOptional(aa)
	}
	return cadence.NewStruct([]cadence.Value{arr, b, o}).WithType(p.S2)
}

func (p *Prelude) NewR(uuid uint64, s cadence.Struct) cadence.Resource {
	return cadence.NewResource([]cadence.Value{cadence.UInt64(uuid), s}).WithType(p.R)
}

func (p *Prelude) NewRBox(uuid uint64, r cadence.Value) cadence.Resource {
	var o cadence.Value = cadence.NewOptional(nil)
	if r != nil {
		o = some(r)
	}
	return cadence.NewResource([]cadence.Value{cadence.UInt64(uuid), o}).WithType(p.RBox)
}

func (p *Prelude) NewEv(a int, who *cadence.Address) cadence.Event {
	var w cadence.Value = cadence.NewOptional(nil)
	if who != nil {
		w = cadence.NewOptional(*who)
	}
	return cadence.NewEvent([]cadence.Value{cadence.NewInt(a), w}).WithType(p.Ev)
}

func (p *Prelude) NewEvA(v cadence.Value) cadence.Event {
	return cadence.NewEvent([]cadence.Value{v}).WithType(p.EvA)
}

func (p *Prelude) NewEn(raw uint8) cadence.Enum {
	return cadence.NewEnum([]cadence.Value{cadence.UInt8(raw)}).WithType(p.En)
}

func (p *Prelude) NewA(x int) cadence.Attachment {
	return cadence.NewAttachment([]cadence.Value{cadence.NewInt(x)}).WithType(p.A)
}

// IsResourceKinded reports whether a value of type t is (or contains only) resources.
func IsResourceKinded(t cadence.Type) bool {
	switch t := t.(type) {
	case *cadence.ResourceType:
		return true
	case *cadence.ResourceInterfaceType:
		return true
	case cadence.PrimitiveType:
		return t == cadence.AnyResourceType || t == cadence.AnyResourceAttachmentType
	case *cadence.OptionalType:
		return IsResourceKinded(t.Type)
	case *cadence.VariableSizedArrayType:
		return IsResourceKinded(t.ElementType)
	case *cadence.ConstantSizedArrayType:
		return IsResourceKinded(t.ElementType)
	case *cadence.DictionaryType:
		return IsResourceKinded(t.ElementType)
	case *cadence.IntersectionType:
		for _, m := range t.Types {
			if IsResourceKinded(m) {
				return true
			}
		}
	}
	return false
}

func arr(t cadence.ArrayType, vs ...cadence.Value) cadence.Array {
	return cadence.NewArray(vs).WithType(t)
}

func dict(k, v cadence.Type, kv ...cadence.Value) cadence.Dictionary {
	var pairs []cadence.KeyValuePair
	for i := 0; i+1 < len(kv); i += 2 {
		pairs = append(pairs, cadence.KeyValuePair{Key: kv[i], Value: kv[i+1]})
	}
	if pairs == nil {
		pairs = []cadence.KeyValuePair{}
	}
	return cadence.NewDictionary(pairs).WithType(cadence.NewDictionaryType(k, v))
}

func (un *universe) composites() []cadence.Value {
	p := un.p
	a1 := cadence.NewAddress(Addr1)
	s := p.NewS(1, "a")
	sAtt := cadence.NewStruct([]cadence.Value{cadence.NewInt(2), str("att"), p.NewA(7)}).WithType(p.S)
	out := []cadence.Value{
		s,
		p.NewS(-5, ""),
		cadence.NewStruct([]cadence.Value{}).WithType(p.Emp),
		p.NewNode(nil, 1),
		p.NewNode(p.NewNode(nil, 1), 2),
		p.NewBox(cadence.NewInt(1)),
		p.NewBox(s),
		p.NewBox(cadence.NewOptional(nil)),
		p.NewBox(cadence.NewOptional(cadence.NewOptional(cadence.NewInt(1)))),
		p.NewS2([]cadence.Value{cadence.NewInt(1), cadence.NewInt(2)}, str("b"), cadence.NewInt(3)),
		p.NewS2([]cadence.Value{}, p.NewNode(nil, 3), nil),
		p.NewR(1, s),
		p.NewRBox(2, nil),
		p.NewRBox(3, p.NewR(4, s)),
		p.NewEv(1, nil),
		p.NewEv(-1, &a1),
		p.NewEvA(cadence.UInt8(255)),
		p.NewEvA(s),
		cadence.NewContract([]cadence.Value{cadence.NewInt(3)}).WithType(p.Ct),
		p.NewEn(0),
		p.NewEn(255),
		p.NewA(1),
		sAtt,
		p.NewBox(sAtt),
		cadence.NewStruct([]cadence.Value{cadence.NewOptional(nil)}).WithType(p.W),
		cadence.NewStruct([]cadence.Value{cadence.NewOptional(cadence.NewCapability(9, a1, Fields(p.W)[0].Type.(*cadence.OptionalType).Type.(*cadence.CapabilityType).BorrowType))}).WithType(p.W),
		// interface- and intersection-typed containers
		arr(cadence.NewVariableSizedArrayType(p.I), s),
		arr(cadence.NewVariableSizedArrayType(un.inter[1]), s, p.NewS(2, "b")),
		arr(cadence.NewVariableSizedArrayType(un.inter[2]), s),
		arr(cadence.NewVariableSizedArrayType(un.inter[6]), p.NewR(9, s)),
		arr(cadence.NewVariableSizedArrayType(cadence.NewOptionalType(un.inter[3])), cadence.NewOptional(s), cadence.NewOptional(nil)),
		dict(p.En, un.inter[5], p.NewEn(2), s, p.NewEn(1), s),
		// reference-typed containers: the exported elements are the referenced values
		arr(cadence.NewVariableSizedArrayType(cadence.NewReferenceType(un.auths[0], cadence.IntType)), cadence.NewInt(1), cadence.NewInt(2)),
		arr(cadence.NewVariableSizedArrayType(cadence.NewReferenceType(un.auths[5], p.S)), s),
		arr(cadence.NewVariableSizedArrayType(cadence.NewOptionalType(cadence.NewReferenceType(un.auths[0], p.S))), cadence.NewOptional(s), cadence.NewOptional(nil)),
		arr(cadence.NewVariableSizedArrayType(cadence.NewReferenceType(un.auths[0], cadence.AnyStructType)), s, cadence.NewInt(3)),
	}
	return out
}

// attachmentsAndMixes: composites carrying 0-3 attachments (struct and resource
// bases, attachments with and without fields) and the Mix structs with nil and
// non-nil optional fields.
func (un *universe) attachmentsAndMixes() []cadence.Value {
	p := un.p
	att := func(t *cadence.AttachmentType, fs ...cadence.Value) cadence.Attachment {
		if fs == nil {
			fs = []cadence.Value{}
		}
		return cadence.NewAttachment(fs).WithType(t)
	}
	a, a0, a2 := att(p.A, cadence.NewInt(7)), att(p.A0), att(p.A2, str("z"))
	ar, ar0 := att(p.AR, cadence.NewInt(8)), att(p.AR0)
	sWith := func(as ...cadence.Value) cadence.Struct {
		return cadence.NewStruct(append([]cadence.Value{cadence.NewInt(2), str("att")}, as...)).WithType(p.S)
	}
	rWith := func(as ...cadence.Value) cadence.Resource {
		return cadence.NewResource(append([]cadence.Value{cadence.UInt64(5), p.NewS(1, "a")}, as...)).WithType(p.R)
	}
	out := []cadence.Value{
		a0, a2, ar, ar0,
		sWith(a0), sWith(a2), sWith(a, a0), sWith(a0, a), sWith(a, a2), sWith(a, a0, a2), sWith(a2, a0, a),
		rWith(ar), rWith(ar0), rWith(ar, ar0), rWith(ar0, ar),
		p.NewBox(sWith(a, a0)),
		arr(cadence.NewVariableSizedArrayType(p.S), sWith(), sWith(a), sWith(a, a0, a2)),
	}
	leaf := cadence.NewStruct([]cadence.Value{cadence.NewInt(1)}).WithType(p.Leaf)
	out = append(out, leaf)
	for i, t := range p.Mix {
		abstracts := []cadence.Value{p.NewS(1, "a")}
		if i < len(MixOrders) { // M family: AnyStruct
			abstracts = append(abstracts, cadence.NewInt(1), cadence.NewOptional(nil))
		}
		for _, av := range abstracts {
			for _, ov := range []cadence.Value{cadence.NewOptional(nil), cadence.NewOptional(leaf)} {
				var vs []cadence.Value
				for _, f := range Fields(t) {
					switch f.Identifier {
					case "a":
						vs = append(vs, av)
					case "c":
						vs = append(vs, cadence.NewInt(7))
					case "o":
						vs = append(vs, ov)
					}
				}
				out = append(out, cadence.NewStruct(vs).WithType(t))
			}
		}
	}
	return out
}

func (un *universe) rangesV() []cadence.Value {
	r := func(t cadence.Type, a, b, c cadence.Value) cadence.Value {
		return cadence.NewInclusiveRange(a, b, c).WithType(cadence.NewInclusiveRangeType(t))
	}
	vals := []cadence.Value{
		r(cadence.IntType, cadence.NewInt(1), cadence.NewInt(10), cadence.NewInt(2)),
		r(cadence.IntType, cadence.NewInt(10), cadence.NewInt(-10), cadence.NewInt(-3)),
		r(cadence.UInt8Type, cadence.UInt8(0), cadence.UInt8(255), cadence.UInt8(1)),
		r(cadence.Int128Type, must(cadence.NewInt128FromBig(neg(pow2(127)))), must(cadence.NewInt128FromBig(sub1(pow2(127)))), cadence.NewInt128(1)),
		r(cadence.Word64Type, cadence.Word64(5), cadence.Word64(5), cadence.Word64(1)),
	}
	for _, v := range vals {
		_ = v.String() // pre-warm the lazily built field list
	}
	return vals
}

func (un *universe) capabilities() []cadence.Value {
	p := un.p
	a1 := cadence.NewAddress(Addr1)
	amax := cadence.NewAddress([8]byte{0xff, 0xff, 0xff, 0xff, 0xff, 0xff, 0xff, 0xff})
	ref := func(a cadence.Authorization, t cadence.Type) cadence.Type { return cadence.NewReferenceType(a, t) }
	return []cadence.Value{
		cadence.NewCapability(0, a1, ref(un.auths[0], cadence.IntType)),
		cadence.NewCapability(math.MaxUint64, amax, ref(un.auths[0], p.S)),
		cadence.NewCapability(1, a1, ref(un.auths[5], p.R)),
		cadence.NewCapability(2, a1, ref(un.auths[7], un.inter[4])),
		cadence.NewCapability(3, a1, ref(un.auths[1], p.Node)),
		cadence.NewCapability(4, a1, ref(un.auths[0], cadence.NewVariableSizedArrayType(p.I))),
		cadence.NewCapability(5, a1, cadence.IntType),
		cadence.NewCapability(6, a1, ref(un.auths[8], p.S)),
		cadence.NewCapability(7, a1, ref(un.auths[2], p.S)),
	}
}

// reduced value atoms for nesting
func (un *universe) atomsV() []cadence.Value {
	p := un.p
	s := p.NewS(1, "a")
	return []cadence.Value{
		cadence.NewInt(1),
		str("a"),
		cadence.NewBool(true),
		cadence.UInt8(255),
		cadence.NewAddress(Addr1),
		cadence.MustNewPath(common.PathDomainStorage, "a"),
		cadence.NewOptional(nil),
		cadence.Fix64(-150000000),
		s,
		p.NewNode(p.NewNode(nil, 1), 2),
		p.NewR(1, s),
		p.NewEn(1),
		cadence.NewTypeValue(cadence.NewReferenceType(un.auths[5], p.S)),
		cadence.NewCapability(7, cadence.NewAddress(Addr1), cadence.NewReferenceType(un.auths[0], p.S)),
	}
}

// some wraps x in an optional the way the language does: nil stays nil
// (interpreter.BoxOptional never produces some(nil), and neither codec can
// tell some(nil) from nil), so Optional(Optional(nil)) is not a well-formed
// exported value and is never generated.
func some(x cadence.Value) cadence.Value {
	if o, ok := x.(cadence.Optional); ok && o.Value == nil {
		return x
	}
	return cadence.NewOptional(x)
}

func optT(t cadence.Type) cadence.Type {
	if o, ok := t.(*cadence.OptionalType); ok && o.Type == cadence.NeverType {
		return t
	}
	return cadence.NewOptionalType(t)
}

func anyOf(t cadence.Type) cadence.Type {
	if IsResourceKinded(t) {
		return cadence.AnyResourceType
	}
	return cadence.AnyStructType
}

func (un *universe) reducedConsV(x cadence.Value) []cadence.Value {
	p := un.p
	t := x.Type()
	res := IsResourceKinded(t)
	out := []cadence.Value{
		some(x),
		arr(cadence.NewVariableSizedArrayType(t), x),
		dict(cadence.StringType, t, str("a"), x),
	}
	if res {
		out = append(out,
			arr(cadence.NewVariableSizedArrayType(cadence.AnyResourceType), x),
			p.NewRBox(8, x))
	} else {
		out = append(out,
			arr(cadence.NewVariableSizedArrayType(cadence.AnyStructType), x, cadence.NewInt(1)),
			p.NewBox(x),
			p.NewEvA(x))
	}
	return out
}

func (un *universe) fullConsV(x cadence.Value) []cadence.Value {
	p := un.p
	t := x.Type()
	res := IsResourceKinded(t)
	any := anyOf(t)
	out := un.reducedConsV(x)
	out = append(out,
		some(some(x)),
		arr(cadence.NewVariableSizedArrayType(t)),
		arr(cadence.NewConstantSizedArrayType(2, t), x, x),
		arr(cadence.NewVariableSizedArrayType(optT(t)), some(x), cadence.NewOptional(nil)),
		dict(cadence.StringType, t),
		// string keys: insertion order, bytewise order and length-first order all differ
		dict(cadence.StringType, t, str("b"), x, str("ab"), x, str("aa"), x),
		dict(cadence.IntType, t, cadence.NewInt(256), x, cadence.NewInt(-1), x, cadence.NewInt(1), x),
		dict(cadence.AddressType, any, cadence.NewAddress(Addr1), x, cadence.NewAddress([8]byte{}), x),
		dict(p.En, optT(t), p.NewEn(2), some(x), p.NewEn(1), cadence.NewOptional(nil)),
		dict(cadence.HashableStructType, any, str("k"), x, cadence.NewInt(1), x, cadence.NewBool(false), x),
	)
	if !res {
		out = append(out,
			p.NewS2([]cadence.Value{cadence.NewInt(1)}, x, nil),
			p.NewBox(some(x)),
		)
	}
	return out
}

func (un *universe) reducedV(k int) []cadence.Value {
	for len(un.redV) <= k {
		n := len(un.redV)
		if n == 0 {
			un.redV = append(un.redV, un.atomsV())
			continue
		}
		var lvl []cadence.Value
		for _, x := range un.redV[n-1] {
			lvl = append(lvl, un.reducedConsV(x)...)
		}
		un.redV = append(un.redV, lvl)
	}
	return un.redV[k]
}

// Values returns the value universe of the given depth. Every value carries
// complete static type information. The result is shared: do not modify.
func Values(depth int) []cadence.Value {
	un := u()
	un.mu.Lock()
	defer un.mu.Unlock()
	if vs, ok := un.vals[depth]; ok {
		return vs
	}
	var out []cadence.Value
	out = append(out, Numbers()...)
	out = append(out, un.leaves()...)
	out = append(out, un.rangesV()...)
	out = append(out, un.composites()...)
	out = append(out, un.capabilities()...)
	out = append(out, un.attachmentsAndMixes()...)
	types := un.typesLocked(depth)
	for _, t := range types {
		out = append(out, cadence.NewTypeValue(t))
		if ft, ok := t.(*cadence.FunctionType); ok {
			out = append(out, cadence.NewFunction(ft))
		}
	}
	for k := 1; k <= depth; k++ {
		for _, x := range un.reducedV(k - 1) {
			out = append(out, un.fullConsV(x)...)
		}
	}
	for _, v := range out {
		warmValue(v)
	}
	un.vals[depth] = out
	return out
}

func warmValue(v cadence.Value) {
	if v == nil {
		return
	}
	seen := map[cadence.Type]bool{}
	var walk func(v cadence.Value)
	walk = func(v cadence.Value) {
		if v == nil {
			return
		}
		switch v := v.(type) {
		case cadence.Optional:
			walk(v.Value)
		case cadence.Array:
			warmType(v.ArrayType, seen)
			for _, e := range v.Values {
				walk(e)
			}
		case cadence.Dictionary:
			warmType(v.DictionaryType, seen)
			for _, pr := range v.Pairs {
				walk(pr.Key)
				walk(pr.Value)
			}
		case *cadence.InclusiveRange:
			warmType(v.InclusiveRangeType, seen)
			_ = v.String()
		case cadence.TypeValue:
			warmType(v.StaticType, seen)
		case cadence.Capability:
			warmType(v.BorrowType, seen)
		case cadence.Function:
			warmType(v.FunctionType, seen)
		case cadence.Composite:
			warmType(v.Type(), seen)
			for _, f := range getCompositeFieldValues(v) {
				walk(f)
			}
		}
	}
	walk(v)
}

// Kind is the structural kind of a value (used in violation signatures).
func Kind(v cadence.Value) string {
	switch v := v.(type) {
	case nil:
		return "nil"
	case cadence.Optional:
		return "Optional"
	case cadence.Array:
		return "Array"
	case cadence.Dictionary:
		return "Dictionary"
	case *cadence.InclusiveRange:
		return "InclusiveRange"
	case cadence.TypeValue:
		return "Type"
	case cadence.Capability:
		return "Capability"
	case cadence.Function:
		return "Function"
	case cadence.Struct:
		return "Struct"
	case cadence.Resource:
		return "Resource"
	case cadence.Event:
		return "Event"
	case cadence.Contract:
		return "Contract"
	case cadence.Enum:
		return "Enum"
	case cadence.Attachment:
		return "Attachment"
	case cadence.Path:
		return "Path"
	default:
		return fmt.Sprintf("%T", v)[len("cadence."):]
	}
}

// Shape is the nesting of value kinds, e.g. "Struct(Int,Attachment(Int))",
// with number/leaf kinds kept and repeated siblings collapsed. For type-carrying
// values the embedded type's shape is included. Used in signatures.
func Shape(v cadence.Value) string { return shape(v, 0) }

func shape(v cadence.Value, d int) string {
	if d > 3 {
		return "…"
	}
	k := Kind(v)
	join := func(vs []cadence.Value) string {
		s := ""
		last := ""
		for _, e := range vs {
			es := shape(e, d+1)
			if es == last {
				continue
			}
			if s != "" {
				s += ","
			}
			s += es
			last = es
		}
		return s
	}
	switch v := v.(type) {
	case cadence.Optional:
		if v.Value == nil {
			return "Optional(nil)"
		}
		return "Optional(" + shape(v.Value, d+1) + ")"
	case cadence.Array:
		return k + "<" + TypeShape(v.ArrayType) + ">(" + join(v.Values) + ")"
	case cadence.Dictionary:
		var ks, vs []cadence.Value
		for _, p := range v.Pairs {
			ks = append(ks, p.Key)
			vs = append(vs, p.Value)
		}
		return k + "<" + TypeShape(v.DictionaryType) + ">(" + join(ks) + ":" + join(vs) + ")"
	case cadence.TypeValue:
		return k + "<" + TypeShape(v.StaticType) + ">"
	case cadence.Capability:
		return k + "<" + TypeShape(v.BorrowType) + ">"
	case cadence.Composite:
		return k + "(" + join(getCompositeFieldValues(v)) + ")"
	}
	return k
}

package cdcval

import (
	"github.com/onflow/cadence"
	"github.com/onflow/cadence/common"
)

// A permutable site is a place in a value where the order of members has no
// meaning: the entries of a dictionary, the member types of an intersection
// type, the entitlements of an entitlement set. Sites are numbered in a fixed
// traversal order (value first, then the types it carries; a type object
// reached twice is one site).

type cloner struct {
	target  int   // site to permute; -1 = none; -2 = every site
	perm    []int // permutation for the target site (nil with -2: reverse)
	n       int   // sites seen so far
	sizes   []int
	kinds   []string
	memo    map[cadence.Type]cadence.Type
	authMem map[*cadence.EntitlementSetAuthorization]*cadence.EntitlementSetAuthorization
}

// Sites returns the sizes (number of members, always >= 2) of the permutable
// sites of v in traversal order.
func Sites(v cadence.Value) []int {
	c := &cloner{target: -1, memo: map[cadence.Type]cadence.Type{}, authMem: map[*cadence.EntitlementSetAuthorization]*cadence.EntitlementSetAuthorization{}}
	c.value(v)
	return c.sizes
}

// SiteKinds returns, for every permutable site of v in traversal order, what
// it is: "dictionary", "intersection" or "entitlements".
func SiteKinds(v cadence.Value) []string {
	c := &cloner{target: -1, memo: map[cadence.Type]cadence.Type{}, authMem: map[*cadence.EntitlementSetAuthorization]*cadence.EntitlementSetAuthorization{}}
	c.value(v)
	return c.kinds
}

// Permute returns a deep copy of v in which the members of site number `site`
// are reordered by perm (new[i] = old[perm[i]]). site == -2 reverses every site.
func Permute(v cadence.Value, site int, perm []int) cadence.Value {
	c := &cloner{target: site, perm: perm, memo: map[cadence.Type]cadence.Type{}, authMem: map[*cadence.EntitlementSetAuthorization]*cadence.EntitlementSetAuthorization{}}
	return c.value(v)
}

// CloneType returns a deep structural copy of t (fresh pointers throughout).
func CloneType(t cadence.Type) cadence.Type {
	c := &cloner{target: -1, memo: map[cadence.Type]cadence.Type{}, authMem: map[*cadence.EntitlementSetAuthorization]*cadence.EntitlementSetAuthorization{}}
	return c.typ(t)
}

// Perms returns every non-identity permutation of n elements for n <= 3, and
// for larger n the reversal and every rotation.
func Perms(n int) [][]int {
	switch n {
	case 0, 1:
		return nil
	case 2:
		return [][]int{{1, 0}}
	case 3:
		return [][]int{{0, 2, 1}, {1, 0, 2}, {1, 2, 0}, {2, 0, 1}, {2, 1, 0}}
	}
	var out [][]int
	rev := make([]int, n)
	for i := range rev {
		rev[i] = n - 1 - i
	}
	out = append(out, rev)
	for r := 1; r < n; r++ {
		p := make([]int, n)
		for i := range p {
			p[i] = (i + r) % n
		}
		out = append(out, p)
	}
	return out
}

// order returns the order to use for the site that is being visited now.
func (c *cloner) order(n int, kind string) []int {
	idx := c.n
	c.n++
	c.sizes = append(c.sizes, n)
	c.kinds = append(c.kinds, kind)
	id := make([]int, n)
	for i := range id {
		id[i] = i
	}
	switch {
	case c.target == -2:
		for i := range id {
			id[i] = n - 1 - i
		}
	case c.target == idx && len(c.perm) == n:
		copy(id, c.perm)
	}
	return id
}

func (c *cloner) auth(a cadence.Authorization) cadence.Authorization {
	set, ok := a.(*cadence.EntitlementSetAuthorization)
	if !ok || set == nil {
		return a
	}
	if m, ok := c.authMem[set]; ok {
		return m
	}
	ids := append([]common.TypeID(nil), set.Entitlements...)
	if len(ids) >= 2 {
		ord := c.order(len(ids), "entitlements")
		for i, j := range ord {
			ids[i] = set.Entitlements[j]
		}
	}
	n := cadence.NewEntitlementSetAuthorization(nil, ids, set.Kind)
	c.authMem[set] = n
	return n
}

func (c *cloner) params(ps []cadence.Parameter) []cadence.Parameter {
	if ps == nil {
		return nil
	}
	out := make([]cadence.Parameter, len(ps))
	for i, p := range ps {
		out[i] = cadence.Parameter{Label: p.Label, Identifier: p.Identifier, Type: c.typ(p.Type)}
	}
	return out
}

func (c *cloner) inits(in [][]cadence.Parameter) [][]cadence.Parameter {
	if in == nil {
		return nil
	}
	out := make([][]cadence.Parameter, len(in))
	for i, ps := range in {
		out[i] = c.params(ps)
	}
	return out
}

func (c *cloner) fields(fs []cadence.Field) []cadence.Field {
	if fs == nil {
		return nil
	}
	out := make([]cadence.Field, len(fs))
	for i, f := range fs {
		out[i] = cadence.Field{Identifier: f.Identifier, Type: c.typ(f.Type)}
	}
	return out
}

func (c *cloner) typ(t cadence.Type) cadence.Type {
	if t == nil {
		return nil
	}
	switch t.(type) {
	case cadence.PrimitiveType, cadence.BytesType, cadence.TypeID:
		return t
	}
	if m, ok := c.memo[t]; ok {
		return m
	}
	switch t := t.(type) {
	case *cadence.OptionalType:
		n := &cadence.OptionalType{}
		c.memo[t] = n
		n.Type = c.typ(t.Type)
		return n
	case *cadence.VariableSizedArrayType:
		n := &cadence.VariableSizedArrayType{}
		c.memo[t] = n
		n.ElementType = c.typ(t.ElementType)
		return n
	case *cadence.ConstantSizedArrayType:
		n := &cadence.ConstantSizedArrayType{Size: t.Size}
		c.memo[t] = n
		n.ElementType = c.typ(t.ElementType)
		return n
	case *cadence.DictionaryType:
		n := &cadence.DictionaryType{}
		c.memo[t] = n
		n.KeyType = c.typ(t.KeyType)
		n.ElementType = c.typ(t.ElementType)
		return n
	case *cadence.InclusiveRangeType:
		n := cadence.NewInclusiveRangeType(c.typ(t.ElementType))
		c.memo[t] = n
		return n
	case *cadence.ReferenceType:
		n := &cadence.ReferenceType{}
		c.memo[t] = n
		n.Authorization = c.auth(t.Authorization)
		n.Type = c.typ(t.Type)
		return n
	case *cadence.IntersectionType:
		n := &cadence.IntersectionType{}
		c.memo[t] = n
		ord := []int{0}
		if len(t.Types) >= 2 {
			ord = c.order(len(t.Types), "intersection")
		} else if len(t.Types) == 0 {
			ord = nil
		}
		ts := make([]cadence.Type, len(t.Types))
		for i, j := range ord {
			ts[i] = t.Types[j]
		}
		for i := range ts {
			ts[i] = c.typ(ts[i])
		}
		n.Types = ts
		return n
	case *cadence.CapabilityType:
		n := &cadence.CapabilityType{}
		c.memo[t] = n
		n.BorrowType = c.typ(t.BorrowType)
		return n
	case *cadence.FunctionType:
		n := &cadence.FunctionType{Purity: t.Purity}
		c.memo[t] = n
		if t.TypeParameters != nil {
			n.TypeParameters = make([]cadence.TypeParameter, len(t.TypeParameters))
			for i, tp := range t.TypeParameters {
				n.TypeParameters[i] = cadence.TypeParameter{Name: tp.Name, TypeBound: c.typ(tp.TypeBound)}
			}
		}
		n.Parameters = c.params(t.Parameters)
		n.ReturnType = c.typ(t.ReturnType)
		return n
	case *cadence.StructType:
		n := cadence.NewStructType(t.Location, t.QualifiedIdentifier, nil, nil)
		c.memo[t] = n
		setCompositeTypeFields(n, c.fields(getCompositeTypeFields(t)))
		n.Initializers = c.inits(t.Initializers)
		return n
	case *cadence.ResourceType:
		n := cadence.NewResourceType(t.Location, t.QualifiedIdentifier, nil, nil)
		c.memo[t] = n
		setCompositeTypeFields(n, c.fields(getCompositeTypeFields(t)))
		n.Initializers = c.inits(t.Initializers)
		return n
	case *cadence.EventType:
		n := cadence.NewEventType(t.Location, t.QualifiedIdentifier, nil, nil)
		c.memo[t] = n
		setCompositeTypeFields(n, c.fields(getCompositeTypeFields(t)))
		n.Initializer = c.params(t.Initializer)
		return n
	case *cadence.ContractType:
		n := cadence.NewContractType(t.Location, t.QualifiedIdentifier, nil, nil)
		c.memo[t] = n
		setCompositeTypeFields(n, c.fields(getCompositeTypeFields(t)))
		n.Initializers = c.inits(t.Initializers)
		return n
	case *cadence.EnumType:
		n := cadence.NewEnumType(t.Location, t.QualifiedIdentifier, nil, nil, nil)
		c.memo[t] = n
		n.RawType = c.typ(t.RawType)
		setCompositeTypeFields(n, c.fields(getCompositeTypeFields(t)))
		n.Initializers = c.inits(t.Initializers)
		return n
	case *cadence.AttachmentType:
		n := cadence.NewAttachmentType(t.Location, t.QualifiedIdentifier, nil, nil, nil)
		c.memo[t] = n
		n.BaseType = c.typ(t.BaseType)
		setCompositeTypeFields(n, c.fields(getCompositeTypeFields(t)))
		n.Initializers = c.inits(t.Initializers)
		return n
	case *cadence.StructInterfaceType:
		n := cadence.NewStructInterfaceType(t.Location, t.QualifiedIdentifier, nil, nil)
		c.memo[t] = n
		setInterfaceTypeFields(n, c.fields(getInterfaceTypeFields(t)))
		n.Initializers = c.inits(t.Initializers)
		return n
	case *cadence.ResourceInterfaceType:
		n := cadence.NewResourceInterfaceType(t.Location, t.QualifiedIdentifier, nil, nil)
		c.memo[t] = n
		setInterfaceTypeFields(n, c.fields(getInterfaceTypeFields(t)))
		n.Initializers = c.inits(t.Initializers)
		return n
	case *cadence.ContractInterfaceType:
		n := cadence.NewContractInterfaceType(t.Location, t.QualifiedIdentifier, nil, nil)
		c.memo[t] = n
		setInterfaceTypeFields(n, c.fields(getInterfaceTypeFields(t)))
		n.Initializers = c.inits(t.Initializers)
		return n
	}
	return t
}

func (c *cloner) values(vs []cadence.Value) []cadence.Value {
	if vs == nil {
		return nil
	}
	out := make([]cadence.Value, len(vs))
	for i, v := range vs {
		out[i] = c.value(v)
	}
	return out
}

func (c *cloner) value(v cadence.Value) cadence.Value {
	switch v := v.(type) {
	case nil:
		return nil
	case cadence.Optional:
		return cadence.NewOptional(c.value(v.Value))
	case cadence.Array:
		var at cadence.ArrayType
		if !isNilType(v.ArrayType) {
			at = c.typ(v.ArrayType).(cadence.ArrayType)
		}
		return cadence.NewArray(c.values(v.Values)).WithType(at)
	case cadence.Dictionary:
		pairs := make([]cadence.KeyValuePair, len(v.Pairs))
		ord := make([]int, len(v.Pairs))
		for i := range ord {
			ord[i] = i
		}
		if len(v.Pairs) >= 2 {
			ord = c.order(len(v.Pairs), "dictionary")
		}
		for i, j := range ord {
			pairs[i] = cadence.KeyValuePair{Key: c.value(v.Pairs[j].Key), Value: c.value(v.Pairs[j].Value)}
		}
		var dt *cadence.DictionaryType
		if v.DictionaryType != nil {
			dt = c.typ(v.DictionaryType).(*cadence.DictionaryType)
		}
		return cadence.NewDictionary(pairs).WithType(dt)
	case *cadence.InclusiveRange:
		var rt *cadence.InclusiveRangeType
		if v.InclusiveRangeType != nil {
			rt = c.typ(v.InclusiveRangeType).(*cadence.InclusiveRangeType)
		}
		return cadence.NewInclusiveRange(c.value(v.Start), c.value(v.End), c.value(v.Step)).WithType(rt)
	case cadence.TypeValue:
		return cadence.NewTypeValue(c.typ(v.StaticType))
	case cadence.Capability:
		n := v
		n.BorrowType = c.typ(v.BorrowType)
		return n
	case cadence.Function:
		if v.FunctionType == nil {
			return v
		}
		return cadence.NewFunction(c.typ(v.FunctionType).(*cadence.FunctionType))
	case cadence.Struct:
		return cadence.NewStruct(c.values(getCompositeFieldValues(v))).WithType(c.typ(v.StructType).(*cadence.StructType))
	case cadence.Resource:
		return cadence.NewResource(c.values(getCompositeFieldValues(v))).WithType(c.typ(v.ResourceType).(*cadence.ResourceType))
	case cadence.Event:
		return cadence.NewEvent(c.values(getCompositeFieldValues(v))).WithType(c.typ(v.EventType).(*cadence.EventType))
	case cadence.Contract:
		return cadence.NewContract(c.values(getCompositeFieldValues(v))).WithType(c.typ(v.ContractType).(*cadence.ContractType))
	case cadence.Enum:
		return cadence.NewEnum(c.values(getCompositeFieldValues(v))).WithType(c.typ(v.EnumType).(*cadence.EnumType))
	case cadence.Attachment:
		return cadence.NewAttachment(c.values(getCompositeFieldValues(v))).WithType(c.typ(v.AttachmentType).(*cadence.AttachmentType))
	}
	return v
}

// Package cdcval enumerates a finite, deterministic universe of cadence.Type
// and cadence.Value (the external, exported representation) for the codec
// checks (C41-C43) and for any check that needs "every kind of argument /
// result value" (C29).
//
// Design
//
//   - A fixed set of nominal types (the "prelude": structs, resources, events,
//     a contract, an enum, an attachment, interfaces, entitlement and mapping
//     IDs). Every nominal type is a singleton: one definition per type ID, so a
//     value never carries two different definitions of one ID.
//   - Types(d): every simple type + every nominal type + a few intersections
//     and ranges, plus every *full* constructor variant (optional, arrays,
//     dictionaries, references with every authorization kind, capabilities,
//     functions) applied to the reduced universe of depth d-1. The reduced
//     universe R_k uses one variant per constructor kind over R_{k-1};
//     R_0 = 9 leaf atoms. Sizes: Types(1) ~ 370, Types(2) ~ 2 000, Types(3) ~ 15 000.
//   - Values(d): 2-4 atoms per leaf kind (all 24 number types at min / mid /
//     max), composites of every kind, capabilities, functions, a TypeValue for
//     every type of Types(d), and container/composite nesting to depth d with
//     the same full/reduced scheme.
//
// Enumeration order is deterministic (no map iteration). Everything returned
// is shared and must be treated as immutable; lazily cached fields inside
// cadence types are pre-warmed so concurrent readers are safe.
package cdcval

import (
	"fmt"
	"sync"
	_ "unsafe"

	"github.com/onflow/cadence"
	"github.com/onflow/cadence/common"
	"github.com/onflow/cadence/interpreter"
	"github.com/onflow/cadence/sema"
)

//go:linkname getCompositeFieldValues github.com/onflow/cadence.getCompositeFieldValues
func getCompositeFieldValues(cadence.Composite) []cadence.Value

//go:linkname getCompositeTypeFields github.com/onflow/cadence.getCompositeTypeFields
func getCompositeTypeFields(cadence.CompositeType) []cadence.Field

//go:linkname getInterfaceTypeFields github.com/onflow/cadence.getInterfaceTypeFields
func getInterfaceTypeFields(cadence.InterfaceType) []cadence.Field

// FieldValues returns the field values of a composite value (including attachment values after the declared fields).
func FieldValues(c cadence.Composite) []cadence.Value { return getCompositeFieldValues(c) }

// Fields returns the declared fields of a composite type.
func Fields(t cadence.CompositeType) []cadence.Field { return getCompositeTypeFields(t) }

// InterfaceFields returns the declared fields of an interface type.
func InterfaceFields(t cadence.InterfaceType) []cadence.Field { return getInterfaceTypeFields(t) }

// ---------------------------------------------------------------------------
// Prelude

var (
	Addr1  = common.Address{0, 0, 0, 0, 0, 0, 0, 1}
	LocC   = common.AddressLocation{Address: Addr1, Name: "C"}
	LocStr = common.StringLocation("test")
)

const idPrefix = "A.0000000000000001.C."

// Entitlement and mapping type IDs. "H" vs "Gg": bytewise-lexical order
// (Gg < H) differs from CCF's length-first order (H < Gg).
var (
	EntE  = common.TypeID(idPrefix + "E")
	EntH  = common.TypeID(idPrefix + "H")
	EntGg = common.TypeID(idPrefix + "Gg")
	MapM  = common.TypeID(idPrefix + "M")
)

// Prelude holds the nominal types.
type Prelude struct {
	S, S2, Node, Box, Emp, W *cadence.StructType
	R, RBox                  *cadence.ResourceType
	Ev, EvA                  *cadence.EventType
	Ct                       *cadence.ContractType
	En                       *cadence.EnumType
	A                        *cadence.AttachmentType
	I, I2, J                 *cadence.StructInterfaceType
	RI                       *cadence.ResourceInterfaceType
	CI                       *cadence.ContractInterfaceType

	// further attachments: A0 (no fields) and A2 for S; AR (one field) and AR0 (no fields) for R
	A0, A2, AR, AR0 *cadence.AttachmentType
	// Leaf is a composite that occurs only as the optional field type of the Mix structs
	Leaf *cadence.StructType
	// Mix: structs with three fields – a (abstract: AnyStruct in the M family, {I} in the N
	// family), c (concrete: Int), o (optional composite: Leaf?) – declared in every order
	Mix []*cadence.StructType
}

// MixOrders are the field orders of the Mix structs (a = abstract, c = concrete, o = optional composite).
var MixOrders = []string{"aco", "aoc", "cao", "coa", "oac", "oca"}

func newPrelude() *Prelude {
	p := &Prelude{}
	par := func(label, id string, t cadence.Type) cadence.Parameter {
		return cadence.Parameter{Label: label, Identifier: id, Type: t}
	}
	f := func(id string, t cadence.Type) cadence.Field { return cadence.Field{Identifier: id, Type: t} }

	p.S = cadence.NewStructType(LocC, "C.S",
		[]cadence.Field{f("x", cadence.IntType), f("y", cadence.StringType)},
		[][]cadence.Parameter{{par("", "x", cadence.IntType), par("y", "yy", cadence.StringType)}})
	// field names chosen so that declaration order, bytewise order (aa, ab, b)
	// and length-first order (b, aa, ab) are three different orders
	p.S2 = cadence.NewStructType(LocC, "C.S2",
		[]cadence.Field{
			f("ab", cadence.NewVariableSizedArrayType(cadence.IntType)),
			f("b", cadence.AnyStructType),
			f("aa", cadence.NewOptionalType(cadence.IntType)),
		},
		[][]cadence.Parameter{{}})
	p.Node = cadence.NewStructType(LocC, "C.Node", nil, [][]cadence.Parameter{{par("", "v", cadence.IntType)}})
	// recursive: Node.next: Node?
	setFields(p.Node, []cadence.Field{f("next", cadence.NewOptionalType(p.Node)), f("v", cadence.IntType)})
	p.Box = cadence.NewStructType(LocC, "C.Box", []cadence.Field{f("v", cadence.AnyStructType)}, nil)
	p.Emp = cadence.NewStructType(LocStr, "Emp", []cadence.Field{}, [][]cadence.Parameter{})

	p.R = cadence.NewResourceType(LocC, "C.R",
		[]cadence.Field{f("uuid", cadence.UInt64Type), f("s", p.S)},
		[][]cadence.Parameter{{par("s", "s", p.S)}})
	p.RBox = cadence.NewResourceType(LocC, "C.RBox",
		[]cadence.Field{f("uuid", cadence.UInt64Type), f("r", cadence.NewOptionalType(cadence.AnyResourceType))}, nil)

	p.Ev = cadence.NewEventType(LocC, "C.Ev",
		[]cadence.Field{f("a", cadence.IntType), f("who", cadence.NewOptionalType(cadence.AddressType))},
		[]cadence.Parameter{par("", "a", cadence.IntType), par("who", "who", cadence.NewOptionalType(cadence.AddressType))})
	p.EvA = cadence.NewEventType(LocC, "C.EvA",
		[]cadence.Field{f("v", cadence.AnyStructType)},
		[]cadence.Parameter{par("v", "v", cadence.AnyStructType)})

	p.Ct = cadence.NewContractType(LocC, "C", []cadence.Field{f("n", cadence.IntType)}, [][]cadence.Parameter{{}})
	p.En = cadence.NewEnumType(LocC, "C.En", cadence.UInt8Type, []cadence.Field{f("rawValue", cadence.UInt8Type)}, nil)
	p.A = cadence.NewAttachmentType(LocC, "C.A", p.S, []cadence.Field{f("x", cadence.IntType)}, [][]cadence.Parameter{{}})

	p.I = cadence.NewStructInterfaceType(LocC, "C.I", []cadence.Field{f("x", cadence.IntType)}, nil)
	p.I2 = cadence.NewStructInterfaceType(LocC, "C.I2", []cadence.Field{}, [][]cadence.Parameter{})
	p.J = cadence.NewStructInterfaceType(LocC, "C.J", nil, nil)
	p.RI = cadence.NewResourceInterfaceType(LocC, "C.RI", []cadence.Field{f("uuid", cadence.UInt64Type)}, nil)
	p.CI = cadence.NewContractInterfaceType(LocC, "C.CI", nil, nil)
	// W carries set-like types (unsorted entitlement set, unsorted intersection) inside a field type
	p.W = cadence.NewStructType(LocC, "C.W",
		[]cadence.Field{f("c", cadence.NewOptionalType(cadence.NewCapabilityType(
			cadence.NewReferenceType(
				cadence.NewEntitlementSetAuthorization(nil, []common.TypeID{EntGg, EntH, EntE}, cadence.Conjunction),
				cadence.NewIntersectionType([]cadence.Type{p.I2, p.J, p.I})))))},
		nil)
	p.A0 = cadence.NewAttachmentType(LocC, "C.A0", p.S, []cadence.Field{}, nil)
	p.A2 = cadence.NewAttachmentType(LocC, "C.A2", p.S, []cadence.Field{f("y", cadence.StringType)}, nil)
	p.AR = cadence.NewAttachmentType(LocC, "C.AR", p.R, []cadence.Field{f("x", cadence.IntType)}, nil)
	p.AR0 = cadence.NewAttachmentType(LocC, "C.AR0", p.R, []cadence.Field{}, nil)
	p.Leaf = cadence.NewStructType(LocC, "C.Leaf", []cadence.Field{f("v", cadence.IntType)}, nil)
	for _, fam := range []string{"M", "N"} {
		var abstract cadence.Type = cadence.AnyStructType
		if fam == "N" {
			abstract = cadence.NewIntersectionType([]cadence.Type{p.I})
		}
		for _, ord := range MixOrders {
			var fs []cadence.Field
			for _, k := range ord {
				switch k {
				case 'a':
					fs = append(fs, f("a", abstract))
				case 'c':
					fs = append(fs, f("c", cadence.IntType))
				case 'o':
					fs = append(fs, f("o", cadence.NewOptionalType(p.Leaf)))
				}
			}
			p.Mix = append(p.Mix, cadence.NewStructType(LocC, "C."+fam+ord, fs, nil))
		}
	}
	return p
}

//go:linkname setCompositeTypeFields github.com/onflow/cadence.setCompositeTypeFields
func setCompositeTypeFields(cadence.CompositeType, []cadence.Field)

//go:linkname setInterfaceTypeFields github.com/onflow/cadence.setInterfaceTypeFields
func setInterfaceTypeFields(cadence.InterfaceType, []cadence.Field)

func setFields(t cadence.CompositeType, fs []cadence.Field) { setCompositeTypeFields(t, fs) }

// Nominal lists the nominal types in a fixed order.
func (p *Prelude) Nominal() []cadence.Type {
	out := []cadence.Type{p.S, p.S2, p.Node, p.Box, p.Emp, p.W, p.R, p.RBox, p.Ev, p.EvA, p.Ct, p.En, p.A, p.I, p.I2, p.J, p.RI, p.CI,
		p.A0, p.A2, p.AR, p.AR0, p.Leaf}
	for _, m := range p.Mix {
		out = append(out, m)
	}
	return out
}

// ---------------------------------------------------------------------------
// Universe

type universe struct {
	p      *Prelude
	simple []cadence.Type
	inter  []cadence.Type // intersection atoms
	ranges []cadence.Type
	auths  []cadence.Authorization

	mu    sync.Mutex
	red   [][]cadence.Type // R_k
	types map[int][]cadence.Type
	vals  map[int][]cadence.Value
	redV  [][]cadence.Value
}

var (
	uniOnce sync.Once
	uni     *universe
)

func u() *universe {
	uniOnce.Do(func() {
		p := newPrelude()
		un := &universe{p: p, types: map[int][]cadence.Type{}, vals: map[int][]cadence.Value{}}
		un.simple = SimpleTypes()
		it := func(ts ...cadence.Type) cadence.Type { return cadence.NewIntersectionType(ts) }
		un.inter = []cadence.Type{
			it(p.I), it(p.I, p.I2), it(p.I2, p.I), it(p.J, p.I2), it(p.I2, p.J), it(p.I2, p.J, p.I), it(p.RI), it(p.CI),
		}
		un.ranges = []cadence.Type{
			cadence.NewInclusiveRangeType(cadence.IntType),
			cadence.NewInclusiveRangeType(cadence.UInt8Type),
			cadence.NewInclusiveRangeType(cadence.Int128Type),
			cadence.NewInclusiveRangeType(cadence.Word64Type),
		}
		set := func(k cadence.EntitlementSetKind, ids ...common.TypeID) cadence.Authorization {
			return cadence.NewEntitlementSetAuthorization(nil, ids, k)
		}
		un.auths = []cadence.Authorization{
			cadence.UnauthorizedAccess,
			cadence.NewEntitlementMapAuthorization(nil, MapM),
			set(cadence.Conjunction, EntE),
			set(cadence.Conjunction, EntE, EntH),
			set(cadence.Conjunction, EntH, EntGg),
			set(cadence.Conjunction, EntGg, EntH),
			set(cadence.Disjunction, EntE, EntH),
			set(cadence.Disjunction, EntGg, EntH, EntE),
			// single-member sets of both kinds have the same ID ("…C.E"); only the kind tells them apart
			set(cadence.Disjunction, EntE),
			set(cadence.Disjunction, EntGg),
		}
		uni = un
	})
	return uni
}

// ThePrelude returns the nominal types.
func ThePrelude() *Prelude { return u().p }

// Authorizations returns every authorization kind used by the generator.
func Authorizations() []cadence.Authorization { return u().auths }

// SimpleTypes returns every defined, non-deprecated primitive type (except the
// bare Capability primitive, which is represented by *cadence.CapabilityType)
// followed by Bytes.
func SimpleTypes() []cadence.Type {
	var out []cadence.Type
	for ty := interpreter.PrimitiveStaticType(1); ty < interpreter.PrimitiveStaticType_Count; ty++ {
		if !ty.IsDefined() || ty.IsDeprecated() { //nolint:staticcheck
			continue
		}
		if ty == interpreter.PrimitiveStaticTypeCapability { //nolint:staticcheck
			continue
		}
		if ty.SemaType() == sema.InvalidType {
			// <<invalid>> is the checker's error type, never the type of an exported value
			continue
		}
		out = append(out, cadence.PrimitiveType(ty))
	}
	out = append(out, cadence.TheBytesType)
	return out
}

func (un *universe) atoms() []cadence.Type {
	p := un.p
	return []cadence.Type{
		cadence.IntType, cadence.StringType, cadence.AnyStructType, cadence.AddressType,
		p.S, p.Node, p.R, p.I, un.inter[1],
	}
}

// fn builds a function type.
func fn(purity cadence.FunctionPurity, tps []cadence.TypeParameter, ps []cadence.Parameter, ret cadence.Type) cadence.Type {
	return cadence.NewFunctionType(purity, tps, ps, ret)
}

func (un *universe) fullCons(t cadence.Type) []cadence.Type {
	p := un.p
	out := []cadence.Type{
		cadence.NewOptionalType(t),
		cadence.NewVariableSizedArrayType(t),
		cadence.NewConstantSizedArrayType(0, t),
		cadence.NewConstantSizedArrayType(3, t),
		cadence.NewDictionaryType(cadence.StringType, t),
		cadence.NewDictionaryType(cadence.IntType, t),
		cadence.NewDictionaryType(p.En, t),
		cadence.NewDictionaryType(cadence.HashableStructType, t),
	}
	for _, a := range un.auths {
		out = append(out, cadence.NewReferenceType(a, t))
	}
	out = append(out,
		cadence.NewCapabilityType(t),
		cadence.NewCapabilityType(cadence.NewReferenceType(cadence.UnauthorizedAccess, t)),
		fn(cadence.FunctionPurityImpure, nil, nil, t),
		fn(cadence.FunctionPurityView, nil, []cadence.Parameter{{Label: "", Identifier: "a", Type: t}}, cadence.VoidType),
		fn(cadence.FunctionPurityImpure, nil, []cadence.Parameter{{Label: "a", Identifier: "a", Type: t}, {Label: "_", Identifier: "b", Type: cadence.IntType}}, t),
		fn(cadence.FunctionPurityImpure, []cadence.TypeParameter{{Name: "X"}}, nil, t),
		fn(cadence.FunctionPurityView, []cadence.TypeParameter{{Name: "X", TypeBound: t}, {Name: "Y"}}, []cadence.Parameter{{Label: "x", Identifier: "x", Type: cadence.NewOptionalType(t)}}, cadence.VoidType),
	)
	return out
}

func (un *universe) reducedCons(t cadence.Type) []cadence.Type {
	return []cadence.Type{
		cadence.NewOptionalType(t),
		cadence.NewVariableSizedArrayType(t),
		cadence.NewConstantSizedArrayType(2, t),
		cadence.NewDictionaryType(cadence.StringType, t),
		cadence.NewReferenceType(un.auths[5], t), // auth(Gg, H) – unsorted in both orders
		cadence.NewCapabilityType(t),
		fn(cadence.FunctionPurityImpure, nil, []cadence.Parameter{{Label: "", Identifier: "a", Type: t}}, t),
		fn(cadence.FunctionPurityView, []cadence.TypeParameter{{Name: "X", TypeBound: t}}, nil, cadence.VoidType),
	}
}

func (un *universe) reduced(k int) []cadence.Type {
	for len(un.red) <= k {
		n := len(un.red)
		if n == 0 {
			un.red = append(un.red, un.atoms())
			continue
		}
		var lvl []cadence.Type
		for _, t := range un.red[n-1] {
			lvl = append(lvl, un.reducedCons(t)...)
		}
		un.red = append(un.red, lvl)
	}
	return un.red[k]
}

// Types returns the type universe of the given depth (0 = simple and nominal
// types, intersections, ranges). The result is shared: do not modify.
func Types(depth int) []cadence.Type {
	un := u()
	un.mu.Lock()
	defer un.mu.Unlock()
	return un.typesLocked(depth)
}

func (un *universe) typesLocked(depth int) []cadence.Type {
	if ts, ok := un.types[depth]; ok {
		return ts
	}
	var out []cadence.Type
	out = append(out, un.simple...)
	out = append(out, un.p.Nominal()...)
	out = append(out, un.inter...)
	out = append(out, un.ranges...)
	if depth >= 1 {
		out = append(out, cadence.NewCapabilityType(nil))
	}
	for k := 1; k <= depth; k++ {
		for _, t := range un.reduced(k - 1) {
			out = append(out, un.fullCons(t)...)
		}
	}
	for _, t := range out {
		warmType(t, map[cadence.Type]bool{})
	}
	un.types[depth] = out
	return out
}

// warmType forces every lazily cached field (type IDs, member sets) so that the
// shared universe can be read concurrently.
func warmType(t cadence.Type, seen map[cadence.Type]bool) {
	if t == nil || seen[t] {
		return
	}
	seen[t] = true
	_ = t.ID()
	switch t := t.(type) {
	case *cadence.OptionalType:
		warmType(t.Type, seen)
	case *cadence.VariableSizedArrayType:
		warmType(t.ElementType, seen)
	case *cadence.ConstantSizedArrayType:
		warmType(t.ElementType, seen)
	case *cadence.DictionaryType:
		warmType(t.KeyType, seen)
		warmType(t.ElementType, seen)
	case *cadence.InclusiveRangeType:
		warmType(t.ElementType, seen)
	case *cadence.ReferenceType:
		warmType(t.Type, seen)
		if a, ok := t.Authorization.(*cadence.EntitlementSetAuthorization); ok {
			a.Equal(a)
		}
	case *cadence.IntersectionType:
		t.IntersectionSet()
		for _, m := range t.Types {
			warmType(m, seen)
		}
	case *cadence.CapabilityType:
		warmType(t.BorrowType, seen)
	case *cadence.FunctionType:
		for _, tp := range t.TypeParameters {
			warmType(tp.TypeBound, seen)
		}
		for _, p := range t.Parameters {
			warmType(p.Type, seen)
		}
		warmType(t.ReturnType, seen)
	case cadence.CompositeType:
		for _, f := range getCompositeTypeFields(t) {
			warmType(f.Type, seen)
		}
	case cadence.InterfaceType:
		for _, f := range getInterfaceTypeFields(t) {
			warmType(f.Type, seen)
		}
	}
}

// TypeKind is a short structural name of a type's outermost constructor
// (used in violation signatures).
func TypeKind(t cadence.Type) string {
	switch t := t.(type) {
	case nil:
		return "nil"
	case cadence.PrimitiveType:
		return "Primitive"
	case cadence.BytesType:
		return "Bytes"
	case cadence.TypeID:
		return "TypeID"
	case *cadence.OptionalType:
		return "Optional"
	case *cadence.VariableSizedArrayType:
		return "VariableSizedArray"
	case *cadence.ConstantSizedArrayType:
		return "ConstantSizedArray"
	case *cadence.DictionaryType:
		return "Dictionary"
	case *cadence.InclusiveRangeType:
		return "InclusiveRange"
	case *cadence.ReferenceType:
		switch a := t.Authorization.(type) {
		case cadence.Unauthorized:
			return "Reference"
		case cadence.EntitlementMapAuthorization:
			return "Reference[map]"
		case *cadence.EntitlementSetAuthorization:
			if a.Kind == cadence.Conjunction {
				return "Reference[conj]"
			}
			return "Reference[disj]"
		}
		return "Reference[?]"
	case *cadence.IntersectionType:
		return "Intersection"
	case *cadence.CapabilityType:
		return "Capability"
	case *cadence.FunctionType:
		return "Function"
	case *cadence.StructType:
		return "Struct"
	case *cadence.ResourceType:
		return "Resource"
	case *cadence.EventType:
		return "Event"
	case *cadence.ContractType:
		return "Contract"
	case *cadence.EnumType:
		return "Enum"
	case *cadence.AttachmentType:
		return "Attachment"
	case *cadence.StructInterfaceType:
		return "StructInterface"
	case *cadence.ResourceInterfaceType:
		return "ResourceInterface"
	case *cadence.ContractInterfaceType:
		return "ContractInterface"
	}
	return fmt.Sprintf("%T", t)
}

// TypeShape is the nesting of type constructors down to (and excluding) the
// leaves, e.g. "Capability<Reference[conj]<Struct>>" – coarser than the type
// itself, finer than TypeKind. Used in signatures.
func TypeShape(t cadence.Type) string {
	return typeShape(t, 0)
}

func typeShape(t cadence.Type, d int) string {
	if d > 3 {
		return "…"
	}
	k := TypeKind(t)
	switch t := t.(type) {
	case *cadence.OptionalType:
		return k + "<" + typeShape(t.Type, d+1) + ">"
	case *cadence.VariableSizedArrayType:
		return k + "<" + typeShape(t.ElementType, d+1) + ">"
	case *cadence.ConstantSizedArrayType:
		return k + "<" + typeShape(t.ElementType, d+1) + ">"
	case *cadence.DictionaryType:
		return k + "<" + typeShape(t.KeyType, d+1) + "," + typeShape(t.ElementType, d+1) + ">"
	case *cadence.ReferenceType:
		return k + "<" + typeShape(t.Type, d+1) + ">"
	case *cadence.CapabilityType:
		return k + "<" + typeShape(t.BorrowType, d+1) + ">"
	case *cadence.InclusiveRangeType:
		return k
	}
	return k
}

package cdcval

import (
	"fmt"
	"strings"
	"sync"

	"github.com/onflow/cadence/interpreter"
	"github.com/onflow/cadence/parser"
	"github.com/onflow/cadence/sema"
)

// PreludeContract is Cadence source that declares, at address 0x1 under the
// name C, the nominal types of the prelude (same type IDs, same fields in the
// same order as the cadence.Type definitions in types.go). It is used wherever
// a check needs the real declarations: the C45 checks derive sema types from
// it and compare its exported types with types.go; C44 gives it to the
// interpreter so that typed containers can check their elements; C29 can
// deploy it. (Not part of it: the contract interface C.CI and the struct S.test.Emp, which
// live at other locations, and the event C.EvA, whose AnyStruct parameter the
// checker does not allow for events – it exists for the codecs only.)
var PreludeContract = preludeHead + mixDeclarations() + preludeTail

const preludeHead = `
access(all) contract C {

    access(all) entitlement E
    access(all) entitlement H
    access(all) entitlement Gg
    access(all) entitlement mapping M {
        E -> H
    }

    access(all) struct interface I {
        access(all) let x: Int
    }
    access(all) struct interface I2 {}
    access(all) struct interface J {}
    access(all) resource interface RI {}

    access(all) struct S: I, I2, J {
        access(all) let x: Int
        access(all) let y: String
        init(_ x: Int, y yy: String) {
            self.x = x
            self.y = yy
        }
    }

    access(all) struct S2 {
        access(all) let ab: [Int]
        access(all) let b: AnyStruct
        access(all) let aa: Int?
        init() {
            self.ab = []
            self.b = 1
            self.aa = nil
        }
    }

    access(all) struct Node {
        access(all) let next: Node?
        access(all) let v: Int
        init(_ v: Int) {
            self.next = nil
            self.v = v
        }
    }

    access(all) struct Box {
        access(all) let v: AnyStruct
        init(v: AnyStruct) {
            self.v = v
        }
    }

    access(all) struct Emp {}

    access(all) struct W {
        access(all) let c: Capability<auth(Gg, H, E) &{I2, J, I}>?
        init() {
            self.c = nil
        }
    }

    access(all) resource R: RI {
        access(all) let s: S
        init(s: S) {
            self.s = s
        }
    }

    access(all) resource RBox {
        access(all) var r: @AnyResource?
        init() {
            self.r <- nil
        }
    }

    access(all) event Ev(_ a: Int, who: Address?)

    access(all) enum En: UInt8 {
        access(all) case a
        access(all) case b
        access(all) case c
    }

    access(all) attachment A for S {
        access(all) let x: Int
        init() {
            self.x = 7
        }
    }

    access(all) attachment A0 for S {}

    access(all) attachment A2 for S {
        access(all) let y: String
        init() {
            self.y = "z"
        }
    }

    access(all) attachment AR for R {
        access(all) let x: Int
        init() {
            self.x = 8
        }
    }

    access(all) attachment AR0 for R {}

    access(all) struct Leaf {
        access(all) let v: Int
        init(v: Int) {
            self.v = v
        }
    }
`

const preludeTail = `
    access(all) let n: Int

    access(all) fun mkR(): @R {
        return <- create R(s: S(1, y: "a"))
    }

    init() {
        self.n = 3
    }
}
`

// mixDeclarations declares the Mix structs (see Prelude.Mix) in every field order.
func mixDeclarations() string {
	var sb strings.Builder
	decl := map[byte][2]string{
		'c': {"c", "Int"},
		'o': {"o", "Leaf?"},
	}
	for _, fam := range []string{"M", "N"} {
		abstract := "AnyStruct"
		if fam == "N" {
			abstract = "{I}"
		}
		for _, ord := range MixOrders {
			fmt.Fprintf(&sb, "\n    access(all) struct %s%s {\n", fam, ord)
			var params, inits []string
			for i := 0; i < len(ord); i++ {
				name, typ := "a", abstract
				if d, ok := decl[ord[i]]; ok {
					name, typ = d[0], d[1]
				}
				fmt.Fprintf(&sb, "        access(all) let %s: %s\n", name, typ)
				params = append(params, name+": "+typ)
				inits = append(inits, "            self."+name+" = "+name)
			}
			fmt.Fprintf(&sb, "        init(%s) {\n%s\n        }\n    }\n", strings.Join(params, ", "), strings.Join(inits, "\n"))
		}
	}
	return sb.String()
}

var (
	preludeOnce    sync.Once
	preludeChecker *sema.Checker
	preludeErr     error
)

// PreludeChecker parses and checks PreludeContract at LocC. The checker and
// its elaboration are shared: read only.
func PreludeChecker() (*sema.Checker, error) {
	preludeOnce.Do(func() {
		program, err := parser.ParseProgram(nil, []byte(PreludeContract), parser.Config{})
		if err != nil {
			preludeErr = fmt.Errorf("prelude does not parse: %w", err)
			return
		}
		checker, err := sema.NewChecker(program, LocC, nil, &sema.Config{
			AccessCheckMode: sema.AccessCheckModeStrict,
		})
		if err != nil {
			preludeErr = err
			return
		}
		if err := checker.Check(); err != nil {
			preludeErr = fmt.Errorf("prelude does not check: %w", err)
			return
		}
		preludeChecker = checker
	})
	return preludeChecker, preludeErr
}

// PreludeProgram is the checked prelude as an interpreter program.
func PreludeProgram() (*interpreter.Program, error) {
	c, err := PreludeChecker()
	if err != nil {
		return nil, err
	}
	return interpreter.ProgramFromChecker(c), nil
}

package cdcval

import (
	"testing"

	"github.com/onflow/cadence"
)

func TestSizesAndDeterminism(t *testing.T) {
	for d := 0; d <= 3; d++ {
		ts := Types(d)
		t.Logf("Types(%d) = %d", d, len(ts))
	}
	for d := 0; d <= 2; d++ {
		vs := Values(d)
		kinds := map[string]int{}
		for _, v := range vs {
			kinds[Kind(v)]++
			if id, ok := SafeTypeID(v); !ok || id == "" {
				t.Errorf("value without type: %s", Dump(v, Exact))
			}
		}
		t.Logf("Values(%d) = %d kinds=%d %v", d, len(vs), len(kinds), kinds)
	}
	// dumps are unique enough and stable
	a := Values(1)
	seen := map[string]int{}
	for i, v := range a {
		d := Dump(v, Exact)
		if j, ok := seen[d]; ok {
			t.Logf("duplicate value %d and %d: %s", j, i, d)
		}
		seen[d] = i
	}
}

func TestPermute(t *testing.T) {
	n := 0
	for _, v := range Values(1) {
		sites := Sites(v)
		base := Dump(v, Mode{Static: TFull, Borrow: TFull, Canon: true})
		if Dump(Permute(v, -1, nil), Exact) != Dump(v, Exact) {
			t.Fatalf("clone differs: %s", Dump(v, Exact))
		}
		for s, sz := range sites {
			for _, p := range Perms(sz) {
				w := Permute(v, s, p)
				n++
				if Dump(w, Mode{Static: TFull, Borrow: TFull, Canon: true}) != base {
					t.Fatalf("canonical dump changed under permutation")
				}
				if Dump(w, Exact) == Dump(v, Exact) {
					t.Fatalf("permutation had no effect: site %d %v of %s", s, p, Dump(v, Exact))
				}
			}
		}
	}
	t.Logf("%d permuted variants", n)
	var _ cadence.Value
}

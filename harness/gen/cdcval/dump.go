package cdcval

import (
	"fmt"
	"sort"
	"strconv"
	"strings"

	"github.com/onflow/cadence"
)

// TypeMode selects how much of a type is rendered.
type TypeMode int

const (
	// TNone renders nominal types by ID only and omits the static types of
	// containers altogether (what JSON-Cadence carries for values).
	TNone TypeMode = iota
	// TInline renders what a CCF inline type / type definition carries:
	// composite types with ID and fields, interface types with ID only;
	// no initializers, no enum raw type, no attachment base type.
	TInline
	// TFull renders everything (what a type *value* carries in both codecs).
	TFull
)

// Mode configures Dump.
type Mode struct {
	Static TypeMode // static types attached to values (containers, composites, ranges)
	Borrow TypeMode // capability borrow types
	// Canon renders order-insensitively everything that is a set or a
	// name-indexed collection: composite fields by name, dictionary entries by
	// key, intersection members and entitlement sets sorted.
	Canon bool
	// DictSet renders only dictionary entries order-insensitively.
	DictSet bool
	// NilFlat renders some(…some(nil)) as nil (the language flattens optionals:
	// a nil at any optional depth is the same value).
	NilFlat bool
	// SetTypes renders intersection members and entitlement sets sorted
	// (they are sets by cadence.Type.Equal) but keeps field order.
	SetTypes bool
}

var (
	// Exact: everything, in order.
	Exact = Mode{Static: TFull, Borrow: TFull}
	// Erased: "the static type information JSON-Cadence does not carry is erased".
	Erased = Mode{Static: TNone, Borrow: TFull}
)

type dumper struct {
	m        Mode
	b        strings.Builder
	visiting map[string]bool
}

// Dump renders a value canonically under the mode. Two values are equal
// under the mode iff their dumps are equal.
func Dump(v cadence.Value, m Mode) string {
	d := &dumper{m: m, visiting: map[string]bool{}}
	d.value(v)
	return d.b.String()
}

// DumpType renders a type canonically.
func DumpType(t cadence.Type, tm TypeMode, canon bool) string {
	d := &dumper{m: Mode{Canon: canon}, visiting: map[string]bool{}}
	d.typ(t, tm)
	return d.b.String()
}

func (d *dumper) w(s string) { d.b.WriteString(s) }

func (d *dumper) sub(f func(d *dumper)) string {
	n := &dumper{m: d.m, visiting: d.visiting}
	f(n)
	return n.b.String()
}

func (d *dumper) auth(a cadence.Authorization) {
	switch a := a.(type) {
	case nil:
		d.w("nilauth")
	case cadence.Unauthorized:
		d.w("unauth")
	case cadence.EntitlementMapAuthorization:
		d.w("map(" + string(a.TypeID) + ")")
	case *cadence.EntitlementSetAuthorization:
		if a == nil {
			d.w("nilset")
			return
		}
		ids := make([]string, len(a.Entitlements))
		for i, e := range a.Entitlements {
			ids[i] = string(e)
		}
		if d.m.Canon || d.m.SetTypes {
			sort.Strings(ids)
		}
		if a.Kind == cadence.Conjunction {
			d.w("conj[")
		} else {
			d.w("disj[")
		}
		d.w(strings.Join(ids, ","))
		d.w("]")
	default:
		d.w(fmt.Sprintf("auth?%T", a))
	}
}

func (d *dumper) params(ps []cadence.Parameter, tm TypeMode) {
	d.w("(")
	for i, p := range ps {
		if i > 0 {
			d.w(",")
		}
		d.w(strconv.Quote(p.Label) + " " + strconv.Quote(p.Identifier) + ":")
		d.typ(p.Type, tm)
	}
	d.w(")")
}

func (d *dumper) fields(fs []cadence.Field, tm TypeMode) {
	ent := make([]string, len(fs))
	for i, f := range fs {
		f := f
		ent[i] = d.sub(func(d *dumper) {
			d.w(strconv.Quote(f.Identifier) + ":")
			d.typ(f.Type, tm)
		})
	}
	if d.m.Canon {
		sort.Strings(ent)
	}
	d.w("{" + strings.Join(ent, ",") + "}")
}

func (d *dumper) nominal(kind, id string, fs []cadence.Field, inits [][]cadence.Parameter, extra cadence.Type, hasExtra bool, isInterface bool, tm TypeMode) {
	d.w(kind + " " + id)
	if tm == TNone {
		return
	}
	if d.visiting[id] {
		d.w("^")
		return
	}
	if tm == TInline && isInterface {
		return
	}
	d.visiting[id] = true
	defer delete(d.visiting, id)
	d.fields(fs, tm)
	if tm == TFull {
		d.w("inits[")
		for i, in := range inits {
			if i > 0 {
				d.w(";")
			}
			d.params(in, tm)
		}
		d.w("]")
		if hasExtra {
			d.w("of ")
			d.typ(extra, tm)
		}
	}
}

func (d *dumper) typ(t cadence.Type, tm TypeMode) {
	switch t := t.(type) {
	case nil:
		d.w("niltype")
	case cadence.PrimitiveType:
		d.w(t.ID())
	case cadence.BytesType:
		d.w("Bytes")
	case cadence.TypeID:
		d.w("TypeID(" + string(t) + ")")
	case *cadence.OptionalType:
		d.w("Opt(")
		d.typ(t.Type, tm)
		d.w(")")
	case *cadence.VariableSizedArrayType:
		d.w("VArr(")
		d.typ(t.ElementType, tm)
		d.w(")")
	case *cadence.ConstantSizedArrayType:
		d.w("CArr(")
		d.typ(t.ElementType, tm)
		d.w(";" + strconv.FormatUint(uint64(t.Size), 10) + ")")
	case *cadence.DictionaryType:
		d.w("Dict(")
		d.typ(t.KeyType, tm)
		d.w(":")
		d.typ(t.ElementType, tm)
		d.w(")")
	case *cadence.InclusiveRangeType:
		d.w("Range(")
		d.typ(t.ElementType, tm)
		d.w(")")
	case *cadence.ReferenceType:
		d.w("Ref(")
		d.auth(t.Authorization)
		d.w(";")
		d.typ(t.Type, tm)
		d.w(")")
	case *cadence.IntersectionType:
		ms := make([]string, len(t.Types))
		for i, m := range t.Types {
			m := m
			ms[i] = d.sub(func(d *dumper) { d.typ(m, tm) })
		}
		if d.m.Canon || d.m.SetTypes {
			sort.Strings(ms)
		}
		d.w("Inter[" + strings.Join(ms, ",") + "]")
	case *cadence.CapabilityType:
		d.w("Cap(")
		d.typ(t.BorrowType, tm)
		d.w(")")
	case *cadence.FunctionType:
		d.w("Fun(")
		if t.Purity == cadence.FunctionPurityView {
			d.w("view")
		}
		d.w(";<")
		for i, tp := range t.TypeParameters {
			if i > 0 {
				d.w(",")
			}
			d.w(strconv.Quote(tp.Name) + ":")
			d.typ(tp.TypeBound, tm)
		}
		d.w(">")
		d.params(t.Parameters, tm)
		d.w(":")
		d.typ(t.ReturnType, tm)
		d.w(")")
	case *cadence.StructType:
		d.nominal("Struct", t.ID(), getCompositeTypeFields(t), t.Initializers, nil, false, false, tm)
	case *cadence.ResourceType:
		d.nominal("Resource", t.ID(), getCompositeTypeFields(t), t.Initializers, nil, false, false, tm)
	case *cadence.EventType:
		d.nominal("Event", t.ID(), getCompositeTypeFields(t), [][]cadence.Parameter{t.Initializer}, nil, false, false, tm)
	case *cadence.ContractType:
		d.nominal("Contract", t.ID(), getCompositeTypeFields(t), t.Initializers, nil, false, false, tm)
	case *cadence.EnumType:
		d.nominal("Enum", t.ID(), getCompositeTypeFields(t), t.Initializers, t.RawType, true, false, tm)
	case *cadence.AttachmentType:
		d.nominal("Attachment", t.ID(), getCompositeTypeFields(t), t.Initializers, t.BaseType, true, false, tm)
	case *cadence.StructInterfaceType:
		d.nominal("StructInterface", t.ID(), getInterfaceTypeFields(t), t.Initializers, nil, false, true, tm)
	case *cadence.ResourceInterfaceType:
		d.nominal("ResourceInterface", t.ID(), getInterfaceTypeFields(t), t.Initializers, nil, false, true, tm)
	case *cadence.ContractInterfaceType:
		d.nominal("ContractInterface", t.ID(), getInterfaceTypeFields(t), t.Initializers, nil, false, true, tm)
	default:
		d.w(fmt.Sprintf("type?%T", t))
	}
}

func isNilType(t cadence.Type) bool {
	if t == nil {
		return true
	}
	switch t := t.(type) {
	case *cadence.VariableSizedArrayType:
		return t == nil
	case *cadence.ConstantSizedArrayType:
		return t == nil
	case *cadence.DictionaryType:
		return t == nil
	case *cadence.InclusiveRangeType:
		return t == nil
	case *cadence.StructType:
		return t == nil
	case *cadence.ResourceType:
		return t == nil
	case *cadence.EventType:
		return t == nil
	case *cadence.ContractType:
		return t == nil
	case *cadence.EnumType:
		return t == nil
	case *cadence.AttachmentType:
		return t == nil
	case *cadence.FunctionType:
		return t == nil
	}
	return false
}

func (d *dumper) static(t cadence.Type) {
	if d.m.Static == TNone {
		return
	}
	d.w("<")
	if isNilType(t) {
		d.w("niltype")
	} else {
		d.typ(t, d.m.Static)
	}
	d.w(">")
}

func (d *dumper) composite(kind string, t cadence.CompositeType, vals []cadence.Value) {
	d.w(kind)
	var fs []cadence.Field
	if isNilType(t) {
		d.w("<niltype>")
	} else {
		fs = getCompositeTypeFields(t)
		if d.m.Static == TNone {
			// the ID and the number of declared fields (attachments are values
			// beyond the declared fields; the field names are printed with the values)
			d.w("<" + t.ID() + "/" + strconv.Itoa(len(fs)) + ">")
		} else {
			d.static(t)
		}
	}
	ent := make([]string, len(vals))
	for i, v := range vals {
		name := ""
		if i < len(fs) {
			name = fs[i].Identifier
		}
		v := v
		ent[i] = strconv.Quote(name) + "=" + d.sub(func(d *dumper) { d.value(v) })
	}
	if d.m.Canon {
		sort.Strings(ent)
	}
	d.w("(" + strings.Join(ent, ",") + ")")
}

func (d *dumper) value(v cadence.Value) {
	switch v := v.(type) {
	case nil:
		d.w("nilvalue")
	case cadence.Void:
		d.w("Void")
	case cadence.Bool:
		d.w("Bool(" + strconv.FormatBool(bool(v)) + ")")
	case cadence.String:
		d.w("String(" + strconv.Quote(string(v)) + ")")
	case cadence.Character:
		d.w("Character(" + strconv.Quote(string(v)) + ")")
	case cadence.Address:
		d.w(fmt.Sprintf("Address(%x)", [8]byte(v)))
	case cadence.Path:
		d.w(fmt.Sprintf("Path(%d,%q)", v.Domain, v.Identifier))
	case cadence.Optional:
		if d.m.NilFlat {
			inner := v
			for {
				next, ok := inner.Value.(cadence.Optional)
				if !ok {
					break
				}
				inner = next
			}
			if inner.Value == nil {
				d.w("Nil")
				return
			}
		}
		if v.Value == nil {
			d.w("Nil")
		} else {
			d.w("Some(")
			d.value(v.Value)
			d.w(")")
		}
	case cadence.Array:
		d.w("Array")
		d.static(v.ArrayType)
		d.w("[")
		for i, e := range v.Values {
			if i > 0 {
				d.w(",")
			}
			d.value(e)
		}
		d.w("]")
	case cadence.Dictionary:
		d.w("Dict")
		d.static(v.DictionaryType)
		ent := make([]string, len(v.Pairs))
		for i, p := range v.Pairs {
			p := p
			ent[i] = d.sub(func(d *dumper) {
				d.value(p.Key)
				d.w("=>")
				d.value(p.Value)
			})
		}
		if d.m.Canon || d.m.DictSet {
			sort.Strings(ent)
		}
		d.w("{" + strings.Join(ent, ",") + "}")
	case *cadence.InclusiveRange:
		d.w("Range")
		if v == nil {
			d.w("(nilrange)")
			return
		}
		d.static(v.InclusiveRangeType)
		d.w("(")
		d.value(v.Start)
		d.w(",")
		d.value(v.End)
		d.w(",")
		d.value(v.Step)
		d.w(")")
	case cadence.TypeValue:
		d.w("Type<")
		d.typ(v.StaticType, TFull)
		d.w(">")
	case cadence.Capability:
		d.w(fmt.Sprintf("Cap(%x,%d,", [8]byte(v.Address), uint64(v.ID)))
		if d.m.Borrow == TNone {
			if v.BorrowType == nil {
				d.w("niltype")
			} else {
				d.w(v.BorrowType.ID())
			}
		} else {
			d.typ(v.BorrowType, d.m.Borrow)
		}
		if v.DeprecatedPath != nil {
			d.w(fmt.Sprintf(",path(%d,%q)", v.DeprecatedPath.Domain, v.DeprecatedPath.Identifier))
		}
		d.w(")")
	case cadence.Function:
		d.w("Fun<")
		if v.FunctionType == nil {
			d.w("niltype")
		} else {
			d.typ(v.FunctionType, TFull)
		}
		d.w(">")
	case cadence.Struct:
		d.composite("Struct", v.StructType, getCompositeFieldValues(v))
	case cadence.Resource:
		d.composite("Resource", v.ResourceType, getCompositeFieldValues(v))
	case cadence.Event:
		d.composite("Event", v.EventType, getCompositeFieldValues(v))
	case cadence.Contract:
		d.composite("Contract", v.ContractType, getCompositeFieldValues(v))
	case cadence.Enum:
		d.composite("Enum", v.EnumType, getCompositeFieldValues(v))
	case cadence.Attachment:
		d.composite("Attachment", v.AttachmentType, getCompositeFieldValues(v))
	case cadence.Bytes:
		d.w(fmt.Sprintf("Bytes(%x)", []byte(v)))
	default:
		// numbers
		if s, ok := v.(fmt.Stringer); ok {
			d.w(fmt.Sprintf("%T(%s)", v, s.String()))
		} else {
			d.w(fmt.Sprintf("%T", v))
		}
	}
}

// SafeTypeID returns v.Type().ID() or ok=false when the value has no
// complete type (nil static types after JSON decoding).
func SafeTypeID(v cadence.Value) (id string, ok bool) {
	defer func() {
		if r := recover(); r != nil {
			id, ok = "", false
		}
	}()
	if v == nil {
		return "", false
	}
	t := v.Type()
	if isNilType(t) {
		return "", false
	}
	return t.ID(), true
}

// Children returns the direct sub-values of a value (elements, keys and
// values, fields, optional payload, range bounds).
func Children(v cadence.Value) []cadence.Value {
	switch v := v.(type) {
	case cadence.Optional:
		if v.Value != nil {
			return []cadence.Value{v.Value}
		}
	case cadence.Array:
		return v.Values
	case cadence.Dictionary:
		var out []cadence.Value
		for _, p := range v.Pairs {
			out = append(out, p.Key, p.Value)
		}
		return out
	case *cadence.InclusiveRange:
		return []cadence.Value{v.Start, v.End, v.Step}
	case cadence.Composite:
		return getCompositeFieldValues(v)
	}
	return nil
}

// TypeChildren returns the direct component types of a type.
func TypeChildren(t cadence.Type) []cadence.Type {
	var out []cadence.Type
	add := func(ts ...cadence.Type) {
		for _, x := range ts {
			if x != nil {
				out = append(out, x)
			}
		}
	}
	switch t := t.(type) {
	case *cadence.OptionalType:
		add(t.Type)
	case *cadence.VariableSizedArrayType:
		add(t.ElementType)
	case *cadence.ConstantSizedArrayType:
		add(t.ElementType)
	case *cadence.DictionaryType:
		add(t.KeyType, t.ElementType)
	case *cadence.InclusiveRangeType:
		add(t.ElementType)
	case *cadence.ReferenceType:
		add(t.Type)
	case *cadence.IntersectionType:
		add(t.Types...)
	case *cadence.CapabilityType:
		add(t.BorrowType)
	case *cadence.FunctionType:
		for _, tp := range t.TypeParameters {
			add(tp.TypeBound)
		}
		for _, p := range t.Parameters {
			add(p.Type)
		}
		add(t.ReturnType)
	case *cadence.EnumType:
		add(t.RawType)
	case *cadence.AttachmentType:
		add(t.BaseType)
	}
	return out
}

package srcgen

import (
	"fmt"
	"strings"
)

// Typed corpus: type-correct programs for checks that need *checked* programs
// (C35 compiler determinism; C34-style engine comparisons can reuse it).
//
// Every program is TypedPrelude + one test declaration. The generator tracks
// a static environment (a fixed pool of typed variables, declared at the top
// of every function body) so that most derivations type-check; the checker
// stays the arbiter: callers skip and count rejected programs.

// TypedPrelude declares the nominal types every typed program may use.
const TypedPrelude = `
access(all) entitlement E
access(all) entitlement F
access(all) entitlement mapping M { E -> F }

access(all) event Ev(x: Int, s: String)

access(all) struct interface I {
    access(all) fun foo(_ x: Int): Int {
        pre { x >= 0: "negative" }
        post { result >= 0: "negative result" }
    }
    access(all) view fun bar(): String
    access(all) fun dflt(): Int { return 1 }
}

access(all) struct interface J: I {
    access(all) fun foo(_ x: Int): Int {
        pre { x < 1000: "too large" }
    }
    access(all) fun baz(): Bool { return true }
    access(all) fun dflt2(): Int { return 2 }
}

access(all) struct interface K {
    access(all) fun kk(): Int { return 3 }
}

access(all) struct S: J, K {
    access(all) var n: Int
    access(all) let s: String
    access(all) var opt: Int?
    init(n: Int) {
        self.n = n
        self.s = "s"
        self.opt = nil
    }
    access(all) fun foo(_ x: Int): Int { return x + self.n }
    access(all) view fun bar(): String { return self.s }
    access(E) fun inc() { self.n = self.n + 1 }
    access(all) fun getN(): Int { return self.n }
}

access(all) resource interface RI {
    access(all) fun id(): Int { return 7 }
}

access(all) resource R: RI {
    access(all) var v: Int
    access(all) event ResourceDestroyed(v: Int = self.v)
    init(v: Int) { self.v = v }
    access(all) fun bump(): Int {
        self.v = self.v + 1
        return self.v
    }
}

access(all) resource Box {
    access(all) var inner: @R?
    access(all) var many: @[R]
    access(all) var byKey: @{String: R}
    init() {
        self.inner <- nil
        self.many <- []
        self.byKey <- {}
    }
    access(all) fun put(_ r: @R) {
        let old <- self.inner <- r
        destroy old
    }
    access(all) fun add(_ r: @R) {
        self.many.append(<- r)
    }
}

access(all) enum Color: UInt8 {
    access(all) case red
    access(all) case green
    access(all) case blue
}

access(all) attachment A for S {
    access(all) let tag: Int
    init(tag: Int) { self.tag = tag }
    access(all) fun hello(): Int { return base.n + self.tag }
}

access(all) fun helper(_ a: Int, b: Int): Int { return a + b }
access(all) view fun pureHelper(_ a: Int): Int { return a * 2 }
access(all) fun makeR(_ v: Int): @R { return <- create R(v: v) }
`

// TypedVars is the variable pool declared at the top of every generated body.
const TypedVars = `
    var i: Int = 1
    var j: Int = 2
    var b: Bool = true
    var c: Bool = false
    var o: Int? = 3
    var n: Int? = nil
    var s: String = "x"
    var t: String = "y"
    var arr: [Int] = [1, 2, 3]
    var d: {String: Int} = {"a": 1}
    var st: S = S(n: 1)
    var fx: UFix64 = 1.5
    var u: UInt8 = 200
    var w: Word8 = 250
    var any: AnyStruct = 1
`

// TypedExprs returns depth-1 expressions by result type over the variable pool.
func TypedExprs() map[string][]string {
	return map[string][]string{
		"Int": {
			"i", "1", "-1", "0x10", "i + j", "i - j", "i * j", "i / j", "i % j", "-i", "i << 1", "i >> 1", "i | j", "i ^ j", "i & j",
			"o ?? i", "o!", "b ? i : j", "arr[0]", "arr.length", "d[\"a\"] ?? 0", "st.n", "st.getN()", "helper(i, b: j)", "pureHelper(i)",
			"st.foo(i)", "s.length", "(any as? Int) ?? 0", "any as! Int", "Int(u)", "st.dflt()", "st.dflt2()", "st.kk()",
			"fun (x: Int): Int { return x + i }(j)", "st.opt ?? 0", "arr[i % 3]",
		},
		"Bool": {
			"b", "true", "false", "b && c", "b || c", "!b", "i < j", "i <= j", "i > j", "i >= j", "i == j", "i != j", "s == t", "o == nil", "o != nil",
			"arr.contains(i)", "st.baz()", "(any as? Int) != nil", "any.isInstance(Type<Int>())", "d.containsKey(s)", "fx > 1.0", "u < 255", "n == nil",
			"b == c", "Color.red == Color.green", "s != \"\"",
		},
		"String": {
			"s", "\"lit\"", "s.concat(t)", "\"a\\(i)b\"", "i.toString()", "st.bar()", "\"\\(s)\\(t)\"", "b ? s : t", "st.s", "\"\\(i + j) and \\(s.concat(t))\"",
			"\"\\n\\t\\u{1F600}\"", "s.slice(from: 0, upTo: 1)", "fx.toString()",
		},
		"Int?": {
			"o", "n", "nil", "d[\"k\"]", "any as? Int", "st.opt", "b ? o : nil", "arr.firstIndex(of: i)", "o ?? n",
		},
		"[Int]": {
			"arr", "[i, j]", "[]", "arr.concat([i])", "arr.slice(from: 0, upTo: 1)", "[i + j, i * j, 3]", "d.values", "b ? arr : [i]",
		},
		"{String: Int}": {
			"d", "{\"a\": i}", "{}", "{s: i, t: j}", "b ? d : {s: 1}",
		},
		"S": {
			"st", "S(n: i)", "b ? st : S(n: 2)",
		},
		"UFix64": {"fx", "1.0", "fx + 2.5", "fx * fx", "fx / 2.0", "UFix64(i)", "fx.saturatingSubtract(9.0)"},
		"UInt8":  {"u", "UInt8(1)", "u / 2", "u & 15", "u.saturatingAdd(100)", "u >> 1"},
		"Word8":  {"w", "w + 10", "w * w", "w << 1", "w - 255"},
	}
}

// typedContexts: one-hole contexts holeType -> resultType.
var typedContexts = []struct{ hole, result, pre, post string }{
	{"Int", "Int", "", " + j"}, {"Int", "Int", "i - ", ""}, {"Int", "Int", "", " * 2"}, {"Int", "Int", "-", ""},
	{"Int", "Int", "helper(", ", b: 1)"}, {"Int", "Int", "b ? ", " : j"}, {"Int", "Int", "arr[", " % 3]"},
	{"Int", "Bool", "", " < j"}, {"Int", "Bool", "i == ", ""}, {"Int", "String", "", ".toString()"}, {"Int", "String", "\"v=\\(", ")\""},
	{"Int", "Int?", "b ? ", " : nil"}, {"Int", "[Int]", "[", ", j]"}, {"Int", "{String: Int}", "{s: ", "}"}, {"Int", "S", "S(n: ", ")"},
	{"Bool", "Bool", "!", ""}, {"Bool", "Bool", "", " && c"}, {"Bool", "Bool", "c || ", ""}, {"Bool", "Int", "", " ? i : j"},
	{"Bool", "Bool", "", " == c"}, {"Bool", "String", "\"\\(", ")\""},
	{"String", "String", "", ".concat(t)"}, {"String", "Int", "", ".length"}, {"String", "Bool", "", " == t"}, {"String", "String", "\"<\\(", ")>\""},
	{"Int?", "Int", "", " ?? 0"}, {"Int?", "Int", "", "!"}, {"Int?", "Bool", "", " == nil"}, {"Int?", "Int?", "", " ?? n"},
	{"Int?", "String", "", "?.toString() ?? \"none\""}, {"Int?", "Int", "", " as! Int"},
	{"[Int]", "Int", "", ".length"}, {"[Int]", "Int", "", "[0]"}, {"[Int]", "[Int]", "", ".concat(arr)"}, {"[Int]", "Bool", "", ".contains(i)"},
	{"{String: Int}", "Int?", "", "[s]"}, {"{String: Int}", "Int", "", ".length"}, {"{String: Int}", "[Int]", "", ".values"},
	{"S", "Int", "", ".n"}, {"S", "Int", "", ".foo(i)"}, {"S", "String", "", ".bar()"}, {"S", "Bool", "", ".baz()"}, {"S", "Int", "", ".dflt()"},
	{"UFix64", "UFix64", "", " + 1.0"}, {"UFix64", "Bool", "", " > fx"}, {"UInt8", "UInt8", "", " / 3"}, {"UInt8", "Int", "Int(", ")"},
	{"Word8", "Word8", "", " + w"}, {"Word8", "Bool", "", " == w"},
}

// TypedExprsDepth2 composes every typed context with every depth-1 expression of its hole type.
func TypedExprsDepth2() map[string][]string {
	base := TypedExprs()
	out := map[string][]string{}
	for _, c := range typedContexts {
		for _, e := range base[c.hole] {
			inner := e
			if strings.ContainsAny(e, " ?") && !strings.HasPrefix(e, "\"") {
				inner = "(" + e + ")"
			}
			out[c.result] = append(out[c.result], c.pre+inner+c.post)
		}
	}
	return out
}

var typedTypeOrder = []string{"Int", "Bool", "String", "Int?", "[Int]", "{String: Int}", "S", "UFix64", "UInt8", "Word8"}

func typedFun(ret, body string) string {
	if ret == "" {
		return "access(all) fun main() {" + TypedVars + body + "\n}\n"
	}
	return "access(all) fun main(): " + ret + " {" + TypedVars + body + "\n}\n"
}

// typedFunParams: the variable pool as parameters, so that conditions can refer to it.
func typedFunParams(ret, body string) string {
	return "access(all) fun main(i: Int, j: Int, b: Bool, c: Bool, o: Int?, n: Int?, s: String, t: String, arr: [Int], d: {String: Int}, st: S, fx: UFix64, u: UInt8, w: Word8, any: AnyStruct): " + ret + " {\n" + body + "\n}\n"
}

// TypedStatementBodies: function bodies (after the variable pool) exercising every statement form.
func TypedStatementBodies() []string {
	return []string{
		"    return",
		"    if b { i = i + 1 }",
		"    if b { i = 1 } else { i = 2 }",
		"    if i < j { i = 1 } else if i == j { i = 2 } else { i = 3 }",
		"    if let x = o { i = x }",
		"    if let x = o { i = x } else { i = 0 }",
		"    if var x = n { x = x + 1; i = x }",
		"    guard let x = o else { return }\n    i = x",
		"    guard b else { return }\n    i = 1",
		"    while i < 10 { i = i + 1 }",
		"    while true { i = i + 1\n if i > 5 { break } }",
		"    while i < 10 { i = i + 1\n if i % 2 == 0 { continue }\n j = j + i }",
		"    for x in arr { i = i + x }",
		"    for idx, x in arr { i = i + idx * x }",
		"    for k in d.keys { i = i + d[k]! }",
		"    for ch in s { t = t.concat(ch.toString()) }",
		"    for x in arr { if x == 2 { continue }\n if x == 3 { break }\n i = i + x }",
		"    for x in arr { for y in arr { i = i + x * y } }",
		"    for x in InclusiveRange(1, 5) { i = i + x }",
		"    for x in InclusiveRange(10, 0, step: -2) { i = i + x }",
		"    switch i { case 1: j = 10\n case 2: j = 20\n default: j = 30 }",
		"    switch s { case \"x\": i = 1\n case t: i = 2 }",
		"    switch i { case 1: break\n default: i = 0 }",
		"    switch Color.red { case Color.red: i = 1\n case Color.green: i = 2\n default: i = 3 }",
		"    emit Ev(x: i, s: s)",
		"    i = j",
		"    arr[0] = i",
		"    d[s] = i",
		"    d[\"gone\"] = nil",
		"    st.n = i",
		"    st.opt = o",
		"    i <-> j",
		"    arr[0] <-> arr[1]",
		"    let x = i\n    var y = x + 1\n    y = y * 2\n    i = y",
		"    let f = fun (a: Int): Int { return a + i }\n    i = f(j)",
		"    fun g(_ a: Int): Int { return a * 2 }\n    i = g(i)",
		"    fun fact(_ a: Int): Int { if a <= 1 { return 1 }\n return a * fact(a - 1) }\n    i = fact(5)",
		"    var counter = 0\n    let incr = fun () { counter = counter + 1 }\n    incr()\n    incr()\n    i = counter",
		"    let fs: [fun(Int): Int] = [fun (a: Int): Int { return a + 1 }, pureHelper]\n    i = fs[0](i) + fs[1](j)",
		"    let r <- create R(v: i)\n    i = r.bump()\n    destroy r",
		"    let r <- makeR(i)\n    let r2 <- r\n    i = r2.v\n    destroy r2",
		"    var r: @R? <- create R(v: 1)\n    if let rr <- r { i = rr.v\n destroy rr } else { i = 0 }",
		"    let rs: @[R] <- [<- create R(v: 1), <- create R(v: 2)]\n    i = rs.length\n    let first <- rs.remove(at: 0)\n    destroy first\n    destroy rs",
		"    let rd: @{String: R} <- {\"a\": <- create R(v: 1)}\n    let old <- rd[\"a\"] <- create R(v: 2)\n    destroy old\n    let gone <- rd.remove(key: \"a\")\n    destroy gone\n    destroy rd",
		"    let box <- create Box()\n    box.put(<- create R(v: 1))\n    box.add(<- create R(v: 2))\n    i = box.many.length\n    destroy box",
		"    let r <- create R(v: 1)\n    let ref = &r as &R\n    i = ref.v + ref.id()\n    destroy r",
		"    var r1 <- create R(v: 1)\n    var r2 <- create R(v: 2)\n    r1 <-> r2\n    i = r1.v\n    destroy r1\n    destroy r2",
		"    let r <- create R(v: 1)\n    let x: @AnyResource <- r\n    let back <- x as! @R\n    i = back.v\n    destroy back",
		"    let ref = &st as &S\n    i = ref.n + ref.foo(1)",
		"    let ref = &st as auth(E) &S\n    ref.inc()\n    i = st.n",
		"    let ref = &arr as &[Int]\n    i = ref[0] + ref.length",
		"    let ref = &arr as auth(Mutate) &[Int]\n    ref.append(4)\n    i = arr.length",
		"    let ref = &d as &{String: Int}\n    i = ref[\"a\"] ?? 0",
		"    let ro = &o as &Int?\n    i = ro ?? 0",
		"    let st2 = attach A(tag: 5) to st\n    i = st2[A]?.hello() ?? 0",
		"    var st2 = attach A(tag: 5) to st\n    remove A from st2\n    i = st2[A] == nil ? 1 : 0",
		"    let ty = Type<Int>()\n    b = ty == Type<Int>()\n    s = ty.identifier",
		"    let p = /storage/foo\n    s = p.toString()",
		"    let col = Color(rawValue: 1)\n    u = col?.rawValue ?? 0",
		"    let x = any as? String\n    let y = any as? Int\n    i = y ?? 0\n    s = x ?? \"\"",
		"    let x: AnyStruct = st\n    if let y = x as? S { i = y.n }",
		"    let x: {I} = st\n    i = x.foo(1) + x.dflt()",
		"    let x: {K} = st\n    i = x.kk()",
		"    let nested = [[1, 2], [3]]\n    i = nested[1][0] + nested[0].length",
		"    let dd = {\"a\": {\"b\": 1}}\n    i = dd[\"a\"]![\"b\"]!",
		"    let oo: Int?? = o\n    i = (oo ?? 1) ?? 2",
		"    let chain = st.opt?.toString()?.length\n    i = chain ?? 0",
		"    i = (fun (): Int { return 1 })() + (fun (): Int { return 2 })()",
		"    let v = arr.map(fun (x: Int): Int { return x * 2 })\n    i = v[0]",
		"    let v = arr.filter(view fun (x: Int): Bool { return x > 1 })\n    i = v.length",
		"    let big = 1 << 200\n    let small = Int8(-128)\n    let w2 = Word64(18446744073709551615) + 1\n    i = big > 0 ? Int(w2) : Int(small)",
		"    let x = fx * 2.0\n    let y = Fix64(-1.5)\n    b = x > 1.0 && y < 0.0",
		"    let addr: Address = 0x1\n    s = addr.toString()",
		"    let x = \"\\(i) \\(b) \\(s) \\(fx) \\(o ?? 0)\"\n    s = x",
		"    assert(i > 0, message: \"must be positive\")\n    if i > 100 { panic(\"too big\") }",
	}
}

// TypedDeclarationPrograms: whole test declarations exercising declaration forms
// (default functions, inherited conditions, nested types, events, transactions, contracts).
func TypedDeclarationPrograms() []string {
	return []string{
		`access(all) fun main(): Int { return S(n: 1).foo(2) }`,
		`access(all) struct interface P { access(all) fun a(): Int { return 1 }
 access(all) fun b(): Int { return 2 }
 access(all) fun c(): Int { return 3 }
 access(all) fun d(): Int { return 4 } }
access(all) struct interface Q { access(all) fun p(): Int { return 10 }
 access(all) fun q(): Int { return 20 } }
access(all) struct T: P, Q {}
access(all) fun main(): Int { let t = T()
 return t.a() + t.b() + t.c() + t.d() + t.p() + t.q() }`,
		`access(all) struct interface P { access(all) fun f(_ x: Int): Int { pre { x > 0: "P.pre" } post { result > 0: "P.post" } } }
access(all) struct interface Q: P { access(all) fun f(_ x: Int): Int { pre { x > 1: "Q.pre" } post { result > 1: "Q.post" } } }
access(all) struct interface W: P { access(all) fun f(_ x: Int): Int { pre { x > 2: "W.pre" } } }
access(all) struct T: Q, W { access(all) fun f(_ x: Int): Int { pre { x > 3: "T.pre" }
 post { result == before(x) + 1: "T.post" }
 return x + 1 } }
access(all) fun main(): Int { return T().f(5) }`,
		`access(all) struct T { access(all) let a: Int
 access(all) var b: String
 access(all) let c: [Int]
 access(all) let dd: {String: Int}
 init() { self.a = 1
 self.b = "b"
 self.c = []
 self.dd = {} }
 access(all) fun setB(_ v: String) { self.b = v } }
access(all) fun main(): String { let t = T()
 t.setB("z")
 return t.b }`,
		`access(all) resource Outer { access(all) var inner: @Inner
 init() { self.inner <- create Inner() }
 access(all) fun swapInner(): Int { let n <- create Inner()
 let old <- self.inner <- n
 let v = old.v
 destroy old
 return v } }
access(all) resource Inner { access(all) let v: Int
 init() { self.v = 9 } }
access(all) fun main(): Int { let o <- create Outer()
 let v = o.swapInner()
 destroy o
 return v }`,
		`access(all) contract C { access(all) var total: Int
 access(all) event Made(id: Int)
 access(all) struct Item { access(all) let id: Int
 init(id: Int) { self.id = id } }
 access(all) resource Vault { access(all) var balance: Int
 init(balance: Int) { self.balance = balance }
 access(all) fun deposit(from: @Vault) { self.balance = self.balance + from.balance
 destroy from } }
 access(all) enum Kind: UInt8 { access(all) case a
 access(all) case b }
 access(all) fun make(): Item { self.total = self.total + 1
 emit Made(id: self.total)
 return Item(id: self.total) }
 access(all) fun createVault(): @Vault { return <- create Vault(balance: 0) }
 init() { self.total = 0 } }`,
		`access(all) contract interface CI { access(all) fun hello(): String { return "hi" }
 access(all) resource interface Res { access(all) fun v(): Int } }
access(all) contract C: CI { access(all) resource Rz: CI.Res { access(all) fun v(): Int { return 1 } }
 access(all) fun mk(): @Rz { return <- create Rz() }
 init() {} }`,
		`transaction(amount: Int) { let x: Int
 prepare(signer: &Account) { self.x = amount + 1 }
 pre { amount > 0: "positive" }
 execute { let y = self.x * 2
 assert(y > 0, message: "y") }
 post { self.x > 0: "x" } }`,
		`transaction { prepare(a: auth(Storage) &Account, b: &Account) { let r <- makeR(1)
 a.storage.save(<- r, to: /storage/r)
 let back <- a.storage.load<@R>(from: /storage/r)
 destroy back } }`,
		`transaction { execute { emit Ev(x: 1, s: "s") } }`,
		`access(all) fun main(a: Int, b: String, c: [Int], d: {String: Int}?, e: Address): Int { return a + c.length + (d?.length ?? 0) }`,
		`access(all) fun vararg(_ a: Int, _ b: Int, c: Int, d dd: Int): Int { return a + b + c + dd }
access(all) fun main(): Int { return vararg(1, 2, c: 3, d: 4) }`,
		`access(all) fun outer(): fun(): Int { var x = 0
 return fun (): Int { x = x + 1
 return x } }
access(all) fun main(): Int { let f = outer()
 let g = outer()
 return f() + f() + g() }`,
		`access(all) fun main(): Int { var total = 0
 let adders: [fun(Int): Int] = []
 for k in [1, 2, 3] { adders.append(fun (x: Int): Int { return x + k }) }
 for f in adders { total = total + f(10) }
 return total }`,
		`access(all) attachment B for R { access(all) fun twice(): Int { return base.v * 2 } }
access(all) fun main(): Int { let r <- attach B() to <- makeR(4)
 let v = r[B]?.twice() ?? 0
 destroy r
 return v }`,
		`access(all) entitlement X
access(all) entitlement Y
access(all) entitlement mapping XY { X -> Y }
access(all) struct Holder { access(mapping XY) let inner: Inner
 init() { self.inner = Inner() } }
access(all) struct Inner { access(Y) fun y(): Int { return 1 }
 access(all) fun z(): Int { return 2 } }
access(all) fun main(): Int { let h = Holder()
 let ref = &h as auth(X) &Holder
 return ref.inner.y() + ref.inner.z() }`,
		`access(all) struct G { access(all) fun gen<T: AnyStruct>(_ x: T): T { return x } }
access(all) fun main(): Int { return 1 }`,
		`access(all) let globalA: Int = 1
access(all) var globalB: Int = globalA + 1
access(all) fun useGlobals(): Int { globalB = globalB + globalA
 return globalB }
access(all) fun main(): Int { return useGlobals() + useGlobals() }`,
		`access(all) struct Pt { access(all) var x: Int
 access(all) var y: Int
 init(x: Int, y: Int) { self.x = x
 self.y = y } }
access(all) fun main(): Int { let a = Pt(x: 1, y: 2)
 var bb = a
 bb.x = 10
 let arr2 = [a, bb]
 arr2[0].y = 5
 return a.x + bb.x + arr2[0].y }`,
		`access(all) event E1()
access(all) event E2(a: Int)
access(all) event E3(a: Int, b: String?, c: [Int], d: {String: Int})
access(all) fun main() { emit E1()
 emit E2(a: 1)
 emit E3(a: 1, b: nil, c: [1], d: {}) }`,
	}
}

// TypedPrograms enumerates the typed corpus (each program already includes TypedPrelude).
func TypedPrograms(cfg Config, yield func(Program)) {
	seen := map[string]struct{}{}
	emit := func(body, family, shape string) {
		src := TypedPrelude + "\n" + body
		if _, ok := seen[src]; ok {
			return
		}
		seen[src] = struct{}{}
		yield(Program{Src: src, Family: family, Shape: shape})
	}
	d1 := TypedExprs()
	d2 := TypedExprsDepth2()
	for _, ty := range typedTypeOrder {
		sets := [][]string{d1[ty]}
		if cfg.Depth >= 2 {
			sets = append(sets, d2[ty])
		}
		for si, set := range sets {
			for ei, e := range set {
				if cfg.Small && (ei+si)%4 != 0 {
					continue
				}
				fam := fmt.Sprintf("typed-expr%d", si+1)
				emit(typedFun(ty, "    return "+e), fam, "return:"+ty)
				if si == 0 || ei%3 == 0 {
					emit(typedFun("", "    let x: "+ty+" = "+e+"\n    let y = x"), fam, "let:"+ty)
					emit(typedFun("", "    var x: "+ty+" = "+e+"\n    x = "+e), fam, "assign:"+ty)
				}
				if ty == "Bool" {
					emit(typedFun("Int", "    if "+e+" { return 1 }\n    return 0"), fam, "if:Bool")
					emit(typedFun("Int", "    while "+e+" { i = i + 1\n if i > 3 { break } }\n    return i"), fam, "while:Bool")
					if si == 0 {
						emit(typedFunParams("Int", "    pre { "+e+": \"cond\" }\n    post { "+e+" }\n    return i"), fam, "condition:Bool")
					}
				}
				if ty == "[Int]" {
					emit(typedFun("Int", "    for x in "+e+" { i = i + x }\n    return i"), fam, "for:[Int]")
				}
				if ty == "Int" && si == 0 {
					emit(typedFun("Int", "    switch "+e+" { case 1: return 1\n case "+e+": return 2\n default: return 3 }"), fam, "switch:Int")
					emit(typedFun("", "    emit Ev(x: "+e+", s: s)"), fam, "emit:Int")
					emit(typedFun("Int", "    return helper("+e+", b: "+e+")"), fam, "args:Int")
				}
			}
		}
	}
	for _, body := range TypedStatementBodies() {
		emit(typedFun("", body), "typed-stmt", "stmt")
		// the same body inside a struct method, a resource method and a function expression
		if !cfg.Small {
			emit("access(all) struct W1 { access(all) fun m() {"+TypedVars+body+"\n} }", "typed-stmt-method", "stmt")
			emit("access(all) fun main() { let f = fun () {"+TypedVars+body+"\n}\n f() }", "typed-stmt-closure", "stmt")
		}
	}
	for _, p := range TypedDeclarationPrograms() {
		emit(p, "typed-decl", "decl")
	}
}

// AllTyped collects TypedPrograms into a slice.
func AllTyped(cfg Config) []Program {
	var out []Program
	TypedPrograms(cfg, func(p Program) { out = append(out, p) })
	return out
}

// PlainTypedPrograms: type-correct programs that use no nominal type (no prelude).
func PlainTypedPrograms() []Program {
	const vars = `
    var i: Int = 1
    var j: Int = 2
    var b: Bool = true
    var c: Bool = false
    var o: Int? = 3
    var n: Int? = nil
    var s: String = "x"
    var t: String = "y"
    var arr: [Int] = [1, 2, 3]
    var d: {String: Int} = {"a": 1}
    var fx: UFix64 = 1.5
    var u: UInt8 = 200
    var w: Word8 = 250
    var any: AnyStruct = 1
`
	var out []Program
	uses := func(e string) bool {
		for _, w := range []string{"st", "S(", "Color", "helper", "pureHelper", "Type<", "fun "} {
			if strings.Contains(e, w) {
				return true
			}
		}
		return false
	}
	d1 := TypedExprs()
	for _, ty := range typedTypeOrder {
		if ty == "S" {
			continue
		}
		for _, e := range d1[ty] {
			if uses(e) {
				continue
			}
			out = append(out, Program{Src: "access(all) fun main(): " + ty + " {" + vars + "    return " + e + "\n}\n", Family: "plain-expr", Shape: ty})
		}
	}
	for _, body := range []string{
		"    if b { i = i + 1 } else { i = 2 }", "    while i < 10 { i = i + 1\n if i == 5 { continue }\n if i > 7 { break } }",
		"    for x in arr { i = i + x }", "    for k in d.keys { i = i + d[k]! }", "    switch i { case 1: j = 10\n default: j = 30 }",
		"    if let x = o { i = x } else { i = 0 }", "    arr[0] = i\n    d[s] = j\n    i <-> j", "    let x = \"\\(i) \\(s)\"\n    s = x",
		"    guard let x = o else { return }\n    i = x", "    let p = /storage/foo\n    s = p.toString()",
	} {
		out = append(out, Program{Src: "access(all) fun main() {" + vars + body + "\n}\n", Family: "plain-stmt", Shape: "stmt"})
	}
	return out
}

// Package srcgen enumerates Cadence *source programs* from a small grammar,
// in a deterministic order, with a depth knob. It is the shared corpus of the
// front-end checks (C37 lexer/parser totality, C38 printer round trip, C39
// formatter, C35 compiler determinism).
//
// The generator is deliberately *untyped*: it knows the concrete syntax, not
// the type system. The parser (and, for C35, the checker) is the arbiter of
// which programs are well-formed; callers skip and count the rejected ones.
// For type-correct programs see typed.go.
//
// Construction principle: one-hole contexts. A context is an expression (or
// type) form with one designated hole and every other position filled with an
// atom. The corpus of depth d is C1[C2[...Cd[atom]]] for every sequence of
// contexts, in two spellings: with the inner expression parenthesized (the
// intended nesting is explicit and the printer has to decide which parentheses
// it may drop) and without (precedence and associativity decide the nesting).
// With ~75 expression contexts this gives every ordered pair of binary
// operators in both nestings, unary∘binary and binary∘unary, casts,
// conditional and ?? nesting, force / optional chaining, index / member / call
// chains and string templates (nested) at depth 2, and all triples at depth 3.
package srcgen

import (
	"fmt"
	"sort"
	"strings"
)

// Program is one generated source text.
type Program struct {
	Src string
	// Family names the grammar family ("expr", "literal", "type", "stmt", "decl", "program").
	Family string
	// Shape is a structural label of the derivation (context names, not atoms).
	Shape string
}

// Config selects the size of the corpus.
type Config struct {
	// Depth is the context nesting depth for expressions (2 ≈ 2×10⁴ programs, 3 ≈ 10⁶).
	Depth int
	// TypeDepth is the nesting depth of type constructors (2 = "every type form to depth 2").
	TypeDepth int
	// Small restricts every family to a representative subset (used as the
	// base corpus for mutation-based checks, where every program is multiplied
	// by the number of edits).
	Small bool
}

// Ctx is a one-hole context: Pre + hole + Post.
type Ctx struct {
	Name string
	Pre  string
	Post string
	// NoParen: the hole must not be parenthesized (the parentheses would
	// change the construct, e.g. `create (R())`).
	NoParen bool
}

func (c Ctx) Fill(s string) string { return c.Pre + s + c.Post }

// BinaryOperators in ascending precedence groups, as the parser defines them.
var BinaryOperators = []string{
	"||", "&&",
	"<", "<=", ">", ">=", "==", "!=",
	"??",
	"|", "^", "&",
	"<<", ">>",
	"+", "-",
	"*", "/", "%",
}

var CastOperators = []string{"as", "as?", "as!"}

var UnaryOperators = []string{"-", "!", "<-", "*", "&"}

// ExprAtoms are the leaves used to fill non-hole positions and innermost holes.
var ExprAtoms = []string{"a", "1", "nil"}

// ExprContexts returns the one-hole expression contexts.
func ExprContexts() []Ctx {
	var cs []Ctx
	for _, op := range BinaryOperators {
		cs = append(cs, Ctx{Name: "binL(" + op + ")", Pre: "", Post: " " + op + " b"})
		cs = append(cs, Ctx{Name: "binR(" + op + ")", Pre: "b " + op + " ", Post: ""})
	}
	for _, op := range CastOperators {
		cs = append(cs, Ctx{Name: "cast(" + op + ")", Pre: "", Post: " " + op + " T"})
	}
	// the optional-type cast target is the classical `?` ambiguity
	cs = append(cs, Ctx{Name: "cast(as?opt)", Pre: "", Post: " as? T?"})
	for _, op := range UnaryOperators {
		cs = append(cs, Ctx{Name: "un(" + op + ")", Pre: op, Post: ""})
	}
	cs = append(cs,
		Ctx{Name: "force", Pre: "", Post: "!"},
		Ctx{Name: "member", Pre: "", Post: ".m"},
		Ctx{Name: "optmember", Pre: "", Post: "?.m"},
		Ctx{Name: "indexed", Pre: "", Post: "[b]"},
		Ctx{Name: "index", Pre: "b[", Post: "]"},
		Ctx{Name: "callee", Pre: "", Post: "(b)"},
		Ctx{Name: "calleeT", Pre: "", Post: "<T>(b)"},
		Ctx{Name: "arg", Pre: "f(", Post: ")"},
		Ctx{Name: "arg2", Pre: "f(b, ", Post: ")"},
		Ctx{Name: "labeledarg", Pre: "f(l: ", Post: ")"},
		Ctx{Name: "condTest", Pre: "", Post: " ? b : c"},
		Ctx{Name: "condThen", Pre: "b ? ", Post: " : c"},
		Ctx{Name: "condElse", Pre: "b ? c : ", Post: ""},
		Ctx{Name: "array", Pre: "[", Post: "]"},
		Ctx{Name: "array2", Pre: "[b, ", Post: "]"},
		Ctx{Name: "dictKey", Pre: "{", Post: ": b}"},
		Ctx{Name: "dictValue", Pre: "{b: ", Post: "}"},
		Ctx{Name: "create", Pre: "create ", Post: "(b)", NoParen: true},
		Ctx{Name: "createArg", Pre: "create R(", Post: ")"},
		Ctx{Name: "destroy", Pre: "destroy ", Post: ""},
		Ctx{Name: "attachArg", Pre: "attach A(", Post: ") to b"},
		Ctx{Name: "attachTo", Pre: "attach A() to ", Post: ""},
		Ctx{Name: "template", Pre: "\"x\\(", Post: ")y\""},
		Ctx{Name: "template2", Pre: "\"\\(b)\\(", Post: ")\""},
		Ctx{Name: "funBody", Pre: "fun (): T { return ", Post: " }"},
		Ctx{Name: "refcast", Pre: "&", Post: " as &T"},
	)
	return cs
}

// Literals returns every literal kind, including escapes and unusual spellings.
func Literals() []string {
	lits := []string{
		// integers
		"0", "1", "42", "00", "007", "1_000", "1__0", "0b0", "0b101", "0b1_01", "0o17", "0o1_7",
		"0xfF", "0xDEAD_beef", "0x0", "0x1", "-1", "-0", "-0x10", "-0b1", "-0o7",
		"115792089237316195423570985008687907853269984665640564039457584007913129639936",
		// fixed point
		"1.0", "0.5", "00.10", "1_0.0_1", "-1.5", "-0.0", "123.45600000", "0.00000001",
		"1.000000000000000000000001",
		// booleans, nil, void
		"true", "false", "nil", "()",
		// strings
		`""`, `"a"`, `"a b"`, `"\0"`, `"\\"`, `"\t"`, `"\n"`, `"\r"`, `"\""`, `"\'"`, `"'"`,
		`"\u{0}"`, `"\u{7f}"`, `"\u{80}"`, `"\u{1F600}"`, `"\u{10FFFF}"`, `"\u{D7FF}"`, `"\u{e9}\u{301}"`,
		"\"é\"", "\"日本\"", "\"\U0001F600\"", "\"e\u0301\"", "\"\u200b\"", "\"\u2028\"", "\"\u00a0\"",
		`"\\("`, `"\\(a)"`, `"\\\(a)"`, `"("`, `")"`, `"\(a)"`, `"\(a)\(b)"`, `"x\(a)y\(b)z"`,
		`"\(a + b)"`, `"\(f(a))"`, `"\((a))"`, `"\("s")"`, `"a\("b\(c)d")e"`, `"\("\("\(a)")")"`,
		`"\(a)\\"`, `"\"\(a)\""`, `"\(a)\n"`, `"\t\(a)"`, `"\u{41}\(a)"`, `"\(a)é"`, `"//"`, `"/*"`, `"*/"`,
		`"\(a ? b : c)"`, `"\(a as? T)"`, `"\(a!)"`, `"\(a[0])"`, `"\(a.b)"`, `"\([a])"`, `"\(-a)"`,
		// paths
		"/storage/a", "/public/a", "/private/a", "/storage/self", "/public/let",
		// arrays / dictionaries
		"[]", "[a]", "[a, b]", "[[a], []]", "{}", "{a: b}", "{a: b, c: d}", "{a: {b: c}}", "[{}]", "{a: []}",
		// function expressions
		"fun () {}", "fun (): T {}", "fun (a: T) {}", "fun (_ a: T, b c: T): T { return a }",
		"view fun () {}", "fun (): T { pre { a } post { b: \"m\" } return c }",
		"fun (a: @T): @T { return <- a }", "fun (): fun (): T { return fun (): T { return a } }",
	}
	return lits
}

// TypeAtoms are leaf types.
var TypeAtoms = []string{"T", "A.B", "A.B.C", "{I}", "{I, J}", "{}", "{A.I}"}

// TypeContexts returns the one-hole type contexts.
func TypeContexts() []Ctx {
	return []Ctx{
		{Name: "opt", Pre: "", Post: "?"},
		{Name: "varray", Pre: "[", Post: "]"},
		{Name: "carray", Pre: "[", Post: "; 2]"},
		{Name: "dictK", Pre: "{", Post: ": U}"},
		{Name: "dictV", Pre: "{U: ", Post: "}"},
		{Name: "ref", Pre: "&", Post: ""},
		{Name: "auth1", Pre: "auth(E) &", Post: ""},
		{Name: "authConj", Pre: "auth(E, F) &", Post: ""},
		{Name: "authDisj", Pre: "auth(E | F) &", Post: ""},
		{Name: "authQual", Pre: "auth(A.E) &", Post: ""},
		{Name: "authMap", Pre: "auth(mapping M) &", Post: ""},
		{Name: "funParam", Pre: "fun(", Post: "): U"},
		{Name: "funParam2", Pre: "fun(U, ", Post: "): U"},
		{Name: "funRet", Pre: "fun(): ", Post: ""},
		{Name: "funNoRet", Pre: "fun(", Post: ")"},
		{Name: "viewFun", Pre: "view fun(", Post: "): U"},
		{Name: "viewFunRet", Pre: "view fun(): ", Post: ""},
		{Name: "inst", Pre: "Capability<", Post: ">"},
		{Name: "inst2", Pre: "G<U, ", Post: ">"},
		{Name: "instQual", Pre: "A.G<", Post: ">"},
		{Name: "resource", Pre: "@", Post: ""},
		{Name: "paren", Pre: "(", Post: ")"},
	}
}

// compose enumerates ctx-chains of exactly depth d over contexts cs and atoms,
// in both spellings (parenthesized / bare), calling yield(src, shape).
func compose(cs []Ctx, atoms []string, d int, yield func(src, shape string)) {
	type item struct{ src, shape string }
	// build inside-out: start from atoms, wrap d times
	cur := make([]item, 0, len(atoms))
	for _, a := range atoms {
		cur = append(cur, item{a, "atom"})
	}
	for level := 0; level < d; level++ {
		next := make([]item, 0, len(cur)*len(cs)*2)
		seen := map[string]struct{}{}
		for _, c := range cs {
			for _, in := range cur {
				shape := c.Name
				if in.shape != "atom" {
					shape = c.Name + ">" + in.shape
				}
				variants := []string{c.Fill(in.src)}
				if in.shape != "atom" && !c.NoParen {
					variants = append(variants, c.Fill("("+in.src+")"))
				}
				for vi, v := range variants {
					if _, ok := seen[v]; ok {
						continue
					}
					seen[v] = struct{}{}
					sh := shape
					if vi == 1 {
						sh = shape + "/p"
					}
					next = append(next, item{v, sh})
				}
			}
		}
		cur = next
	}
	for _, it := range cur {
		yield(it.src, it.shape)
	}
}

// Expressions enumerates expression sources of context depth 1..depth.
// At depth ≥ 2 only the first atom is used for the innermost hole except at
// depth 1, where all atoms are used.
func Expressions(depth int, yield func(src, shape string)) {
	cs := ExprContexts()
	for d := 1; d <= depth; d++ {
		atoms := ExprAtoms
		if d >= 2 {
			atoms = ExprAtoms[:2]
		}
		if d >= 3 {
			atoms = ExprAtoms[:1]
		}
		compose(cs, atoms, d, yield)
	}
}

// Types enumerates type sources of constructor depth 0..depth.
func Types(depth int, yield func(src, shape string)) {
	for _, a := range TypeAtoms {
		yield(a, "atom:"+a)
	}
	cs := TypeContexts()
	for d := 1; d <= depth; d++ {
		atoms := TypeAtoms[:1]
		if d == 1 {
			atoms = TypeAtoms
		}
		compose(cs, atoms, d, yield)
	}
}

// TypeEmbeddings places a type in every syntactic position a type can occur in.
func TypeEmbeddings() []Ctx {
	return []Ctx{
		{Name: "varAnnot", Pre: "let x: ", Post: " = a"},
		{Name: "castAs", Pre: "let x = a as ", Post: ""},
		{Name: "castAsQ", Pre: "let x = a as? ", Post: ""},
		{Name: "castAsQCond", Pre: "let x = a as? ", Post: " ? b : c"},
		{Name: "castAsQCoalesce", Pre: "let x = a as? ", Post: " ?? b"},
		{Name: "castAsB", Pre: "let x = (a as! ", Post: ").m"},
		{Name: "param", Pre: "fun f(p: ", Post: ") {}"},
		{Name: "ret", Pre: "fun f(): ", Post: " {}"},
		{Name: "typeArg", Pre: "let x = f<", Post: ">()"},
		{Name: "typeArg2", Pre: "let x = f<U, ", Post: ">(a)"},
		{Name: "field", Pre: "struct S { let f: ", Post: " }"},
		{Name: "funExprRet", Pre: "let x = fun (): ", Post: " {}"},
		{Name: "refExprCast", Pre: "let x = &a as ", Post: ""},
		{Name: "eventParam", Pre: "event Ev(p: ", Post: ")"},
		{Name: "attachmentBase", Pre: "attachment At for ", Post: " {}"},
	}
}

// AccessModifiers is every access modifier form ("" = none).
var AccessModifiers = []string{
	"", "access(all)", "access(self)", "access(contract)", "access(account)",
	"access(E)", "access(E, F)", "access(E | F)", "access(A.E)", "access(mapping M)", "access(mapping A.M)",
}

// Statements returns every statement form (expression holes filled with atoms),
// each to be placed inside a function body.
func Statements() []string {
	return []string{
		"return", "return a", "return <- a", "break", "continue",
		"if a {}", "if a { b }", "if a { b } else { c }", "if a { b } else if c { d }", "if a { b } else if c { d } else { e }",
		"if let x = a { b }", "if var x = a { b } else { c }", "if let x <- a { b }", "if let x: T = a { b }",
		"if (a) {}", "if a == b {}", "if a { if b { c } else { d } } else { e }",
		"guard a else { return }", "guard let x = a else { return b }", "guard var x <- a else { break }",
		"while a {}", "while a { b }", "while a { break }", "while a { continue }", "while (a) { b }",
		"for x in a {}", "for x in a { b }", "for i, x in a { b }", "for x in [a, b] { c }", "for x in a.b() { c }",
		"switch a {}", "switch a { case b: c }", "switch a { case b: c\n d\n case e: f\n default: g }",
		"switch a { default: b }", "switch a { case b: break }", "switch a { case b: switch c { case d: e } }",
		"emit Ev()", "emit Ev(a)", "emit Ev(a: b, c: d)", "emit A.Ev(a)",
		"a = b", "a.b = c", "a[b] = c", "a[b].c[d] = e", "a <- b", "a <-! b", "a <-> b", "a.b <-> c[d]", "a!.b = c", "a?.b = c",
		"a", "a()", "a.b()", "a!", "-a", "destroy a", "(a)", "a ?? b", "f(a)\n(b)", "a\n[b]", "a\n-b", "a; b", "a;b;", ";", "a\n.b",
		"let x = a", "var x = a", "let x: T = a", "let x <- a", "let x <-! a", "var x: @T <- a", "let x <- a <- b", "let x = a = b",
		"let x: T? = nil", "let x = a as! T", "access(all) let x = a",
		"fun g() {}", "fun g(a: T): T { return a }", "view fun g() {}", "access(all) fun g() {}",
		"remove A from a", "remove A.B from a.b", "attach A() to a", "let x <- attach A() to <- a",
		"let x = fun () {}", "fun () {}", "fun () {}()", "(fun () {})()",
		"struct S {}", "resource R {}", "enum En: T { case a }", "event Ev()",
		"#pragma", "import X from 0x1",
		"{ }", "return\na", "return ;", "return a;", "break;", "if a { return } else { return b }",
	}
}

// FunctionForms: function declaration shapes (without modifiers).
func FunctionForms() []string {
	return []string{
		"fun f() {}",
		"fun f()",
		"fun f(): T {}",
		"fun f(a: T) {}",
		"fun f(_ a: T, b c: T, d: T): T { return a }",
		"fun f(a: T = b) {}",
		"fun f<X>() {}",
		"fun f<X: T, Y>(a: X): Y {}",
		"fun f() { pre { a } }",
		"fun f() { post { a } }",
		"fun f() { pre { a: \"m\"; b } post { c: \"n\"\n emit Ev(d) } return e }",
		"fun f() { pre { emit Ev() } post { result == before(a) } }",
		"fun f(): @T { return <- a }",
		"fun f(a: @T): @T? { return <- a }",
		"fun f(a: auth(E) &T): &T { return a }",
		"fun f(): fun(): T { return g }",
		"fun f() { pre {} post {} }",
		"fun f() { let pre = a\n let post = b }",
		"fun f() { pre\n{ a } }",
	}
}

// FunctionModifiers: every ordered modifier prefix in canonical order
// access × static × native × view.
func FunctionModifiers() []string {
	var out []string
	for _, acc := range AccessModifiers {
		for _, st := range []string{"", "static"} {
			for _, nat := range []string{"", "native"} {
				for _, view := range []string{"", "view"} {
					parts := []string{}
					for _, p := range []string{acc, st, nat, view} {
						if p != "" {
							parts = append(parts, p)
						}
					}
					out = append(out, strings.Join(parts, " "))
				}
			}
		}
	}
	return out
}

// ParameterForms: every argument-label form of a parameter
// (no label, `_` label, label different from the name, label equal to the name).
var ParameterForms = []string{"a: T", "_ a: T", "b a: T", "a a: T", "x y: @T", "a: T, _ b: U", "l a: T, a b: U, c c: V"}

// ParameterHosts: every declaration / expression form that bears a parameter list (%s = the list).
var ParameterHosts = []string{
	"fun f(%s) {}",
	"fun f(%s): T { return a }",
	"access(all) view fun f(%s) {}",
	"fun f<X>(%s) {}",
	"struct S { init(%s) {} }",
	"resource R { init(%s) {} }",
	"struct S { fun m(%s) {} }",
	"struct interface I { fun m(%s) }",
	"struct interface I { init(%s) }",
	"contract C { fun m(%s) {} }",
	"attachment At for S { init(%s) {} }",
	"let x = fun (%s) {}",
	"let x = fun (%s): T { return a }",
	"fun g() { let h = fun (%s) {} }",
	"fun g() { fun h(%s) {} }",
	"event Ev(%s)",
	"struct S { event Ev(%s) }",
	"transaction(%s) {}",
	"transaction { prepare(%s) {} }",
}

// CompositeKinds: keyword prefix of composite-like declarations.
var CompositeKinds = []string{
	"struct", "resource", "contract", "struct interface", "resource interface", "contract interface",
}

// Conformances forms.
var Conformances = []string{"", ": I", ": I, J", ": A.I", ": I, A.J, K"}

// Members: member / nested declaration forms for composite bodies.
func Members() []string {
	return []string{
		"",
		"let x: T",
		"var x: T",
		"let x: @T",
		"x: T",
		"let x: T\n var y: U",
		"let x: T; var y: U",
		"init() {}",
		"init(a: T) { self.x = a }",
		"init() { pre { a } }",
		"init()",
		"view init() {}",
		"fun f() {}",
		"fun f()",
		"fun f(): T { return self.x }",
		"view fun f(): T",
		"fun f() { pre { a } }",
		"fun f() { post { a: \"m\" } }",
		"struct N {}",
		"resource N {}",
		"struct interface NI {}",
		"enum N: T { case a }",
		"event Ev()",
		"event Ev(a: T, b: U)",
		"event ResourceDestroyed(a: T = self.a)",
		"entitlement E",
		"entitlement mapping M {}",
		"attachment At for S {}",
		"case a",
		"case a\n case b",
		"case a; case b",
		"destroy() {}",
		"prepare() {}",
		"let x: T\n init(x: T) { self.x = x }\n fun f(): T { return self.x }",
		"#pragma",
		"let x: T = a",
		"fun f() {}\n fun g() {}",
		"static fun f() {}",
		"native fun f()",
		"static native fun f()",
	}
}

// OtherDeclarations: declaration forms without a modifier grid of their own.
func OtherDeclarations() []string {
	return []string{
		// variables
		"let x = a", "var x = a", "let x: T = a", "var x: T = a", "let x <- a", "var x <- a", "let x <-! a",
		"let x: @T <- a", "let x <- a <- b", "let x = a <- b", "let x: T? = a ?? b",
		// imports
		"import X", "import X from 0x1", "import X from 0x0000000000000001", "import X from \"p\"", "import \"p\"", "import 0x1",
		"import X from Y", "import X, Y from 0x1", "import X, Y, Z from \"p\"", "import from from 0x1", "import from, X from 0x1",
		"import X as Y from 0x1", "import X as Y, Z from 0x1", "import X as Y, Z as W from \"p\"", "import \"X\"",
		"import X from 0x1\nimport Y from 0x2", "import B from 0x2\nimport A from 0x1", "import \"b\"\nimport \"a\"",
		"import X from 0x1; import Y from 0x2",
		// pragmas
		"#a", "#a(b)", "#a(b: c)", "#a(\"s\")", "#a()", "#a.b", "#a(b(c))", "#allowAccountLinking", "#a\n#b",
		// events
		"event Ev()", "event Ev(a: T)", "event Ev(a: T, b: U)", "event Ev(_ a: T)", "event Ev(a b: T)", "event Ev(a: T = b)",
		"event Ev(a: @T)", "event Ev(a: [T?])",
		// entitlements
		"entitlement E", "entitlement mapping M {}", "entitlement mapping M { E -> F }",
		"entitlement mapping M { E -> F\n G -> H }", "entitlement mapping M { include N }",
		"entitlement mapping M { include N\n E -> F\n include A.O\n A.E -> A.F }", "entitlement mapping M { E -> F; G -> H }",
		// enums
		"enum En: T {}", "enum En: T { case a }", "enum En: T { case a\n case b }", "enum En: T { case a; case b }",
		"enum En { case a }", "enum En: T, U { case a }", "enum En: T { access(all) case a }",
		// attachments
		"attachment At for S {}", "attachment At for S: I {}", "attachment At for S: I, J { let x: T\n init() { self.x = a } }",
		"attachment At for A.S {}", "attachment At for {I} {}", "attachment At for AnyResource { fun f() { base.g() } }",
		"attachment At for S { require entitlement E\n require entitlement F }",
		// transactions
		"transaction {}", "transaction() {}", "transaction(a: T) {}", "transaction(a: T, b: U) {}",
		"transaction { prepare() {} }", "transaction { prepare(acct: &Account) {} }",
		"transaction { prepare(a: auth(E) &Account, b: &Account) { c } }",
		"transaction { execute {} }", "transaction { execute { a } }",
		"transaction { pre { a } }", "transaction { post { a } }",
		"transaction { let x: T\n prepare() { self.x = a } }",
		"transaction { let x: T\n var y: @U\n prepare() {} pre { a } execute { b } post { c } }",
		"transaction { prepare() {} execute {} post { a } }",
		"transaction { prepare() {} post { a } execute {} }",
		"transaction { prepare() {} pre { a: \"m\" } post { b: \"n\" } }",
		"transaction(a: T) { prepare(s: &Account) { let x = a } execute { f(a) } }",
		"transaction { fun f() {} }", "transaction { let x: T = a }", "transaction { access(all) let x: T\n prepare() {} }",
		// several declarations
		"let x = a\nlet y = b", "let x = a; let y = b", "let x = a let y = b", "fun f() {}\nfun g() {}", "struct S {}\nresource R {}",
		"access(all) let x = a", "access(self) var x: T = a", "access(all) event Ev()", "access(all) entitlement E",
		"access(all) entitlement mapping M {}", "access(all) enum En: T { case a }", "access(all) attachment At for S {}",
		"access(all) import X from 0x1", "access(all) #a", "access(all) transaction {}", "view let x = a", "view struct S {}",
		"pub let x = a", "priv let x = a", "pub(set) var x = a", "access(all) access(self) let x = a",
	}
}

func collect(f func(yield func(src, shape string))) (out [][2]string) {
	f(func(src, shape string) { out = append(out, [2]string{src, shape}) })
	return
}

// Programs enumerates the whole corpus in a deterministic order.
func Programs(cfg Config, yield func(Program)) {
	if cfg.Depth < 1 {
		cfg.Depth = 2
	}
	if cfg.TypeDepth < 1 {
		cfg.TypeDepth = 2
	}
	seen := map[string]struct{}{}
	emit := func(src, family, shape string) {
		if _, ok := seen[src]; ok {
			return
		}
		seen[src] = struct{}{}
		yield(Program{Src: src, Family: family, Shape: shape})
	}
	every := func(i, n int) bool { return !cfg.Small || i%n == 0 }

	// literals, as variable initializers, inside expressions, and in statements
	for i, l := range Literals() {
		emit("let x = "+l, "literal", "init")
		if every(i, 4) {
			emit("let x = "+l+".m", "literal", "member")
			emit("let x = -"+l, "literal", "neg")
			emit("let x = "+l+" + "+l, "literal", "plus")
			emit("let x = ["+l+", "+l+"]", "literal", "array")
			emit("let x = f("+l+")", "literal", "arg")
			emit("fun f() { "+l+" }", "literal", "stmt")
			emit("fun f() { return "+l+" }", "literal", "return")
			emit("let x = \"\\("+l+")\"", "literal", "template")
		}
	}

	// expressions
	depth := cfg.Depth
	if cfg.Small && depth > 1 {
		depth = 1
	}
	i := 0
	Expressions(depth, func(src, shape string) {
		i++
		emit("let x = "+src, "expr", shape)
		if strings.Count(shape, ">") == 0 {
			emit("fun f() { "+src+" }", "expr-stmt", shape)
			emit("fun f() { return "+src+" }", "expr-return", shape)
			emit("fun f() { "+src+" = c }", "expr-assign-target", shape)
			emit("fun f() { if "+src+" { c } }", "expr-if-test", shape)
			emit("fun f() { for x in "+src+" { c } }", "expr-for-in", shape)
			emit("fun f() { switch "+src+" { case "+src+": c } }", "expr-switch", shape)
			emit("fun f() { pre { "+src+": \"m\" } }", "expr-condition", shape)
			emit("resource R { event ResourceDestroyed(p: T = "+src+") }", "expr-default-arg", shape)
		}
	})

	// types
	tdepth := cfg.TypeDepth
	if cfg.Small {
		tdepth = 1
	}
	embeds := TypeEmbeddings()
	ti := 0
	Types(tdepth, func(src, shape string) {
		ti++
		for ei, e := range embeds {
			if cfg.Small && (ti+ei)%5 != 0 {
				continue
			}
			emit(e.Fill(src), "type", e.Name+">"+shape)
		}
	})

	// statements
	stmts := Statements()
	for _, s := range stmts {
		emit("fun f() { "+s+" }", "stmt", "one")
		emit("fun f() {\n    "+s+"\n    "+s+"\n}", "stmt", "two")
	}
	if !cfg.Small {
		// statement × expression context (depth 1) in the first expression position
		for _, c := range ExprContexts() {
			e := c.Fill("a")
			for _, tmpl := range []string{
				"return %s", "if %s { b }", "while %s { b }", "for x in %s { b }", "switch %s { case b: c }", "switch b { case %s: c }",
				"emit Ev(%s)", "%s = b", "b = %s", "b <- %s", "%s <-> b", "let x = %s", "let x <- %s", "let x: T = %s", "%s",
				"if let x = %s { b }", "guard %s else { return }", "let x <- %s <- b", "remove A from %s", "if b { %s } else { %s }",
			} {
				emit("fun f() { "+strings.ReplaceAll(tmpl, "%s", e)+" }", "stmt-expr", c.Name)
			}
		}
	}

	// function declarations × modifiers
	mods := FunctionModifiers()
	forms := FunctionForms()
	for mi, m := range mods {
		for fi, f := range forms {
			if cfg.Small && (mi*7+fi)%23 != 0 {
				continue
			}
			src := f
			if m != "" {
				src = m + " " + f
			}
			emit(src, "decl-fun", "mod")
		}
	}

	// composites × kind × conformances × member × member access modifier
	members := Members()
	n := 0
	for _, kind := range CompositeKinds {
		for _, conf := range Conformances {
			for _, m := range members {
				n++
				if cfg.Small && n%17 != 0 {
					continue
				}
				emit(fmt.Sprintf("%s S%s { %s }", kind, conf, m), "decl-composite", kind)
			}
		}
		for _, acc := range AccessModifiers {
			n++
			if cfg.Small && n%5 != 0 {
				continue
			}
			pre := acc
			if pre != "" {
				pre += " "
			}
			emit(fmt.Sprintf("%s%s S {}", pre, kind), "decl-composite-access", kind)
			for _, m := range []string{"let x: T", "var x: T", "fun f() {}", "view fun f(): T {}", "init() {}", "struct N {}", "event Ev()", "case a", "entitlement E", "x: T"} {
				n++
				if cfg.Small && n%11 != 0 {
					continue
				}
				emit(fmt.Sprintf("%s S { %s%s }", kind, pre, m), "decl-member-access", kind)
			}
		}
	}

	// parameter-bearing forms x argument-label forms
	for hi, h := range ParameterHosts {
		for pi, pf := range ParameterForms {
			if cfg.Small && (hi+pi)%3 != 0 {
				continue
			}
			emit(fmt.Sprintf(h, pf), "decl-params", "params")
		}
	}

	// other declarations
	for _, d := range OtherDeclarations() {
		emit(d, "decl-other", "one")
	}

	// whole programs: a few realistic ones
	for _, p := range WholePrograms() {
		emit(p, "program", "whole")
	}
}

// All collects Programs into a slice.
func All(cfg Config) []Program {
	var out []Program
	Programs(cfg, func(p Program) { out = append(out, p) })
	return out
}

// FamilyCounts returns how many programs each family has (sorted keys), for evidence.
func FamilyCounts(ps []Program) map[string]int {
	m := map[string]int{}
	for _, p := range ps {
		m[p.Family]++
	}
	return m
}

// SortedKeys returns the keys of m in ascending order.
func SortedKeys[V any](m map[string]V) []string {
	var ks []string
	for k := range m {
		ks = append(ks, k)
	}
	sort.Strings(ks)
	return ks
}

// WholePrograms are small realistic programs that use several features together.
func WholePrograms() []string {
	return []string{
		`access(all) contract C {
    access(all) let x: Int
    access(all) event Deposited(amount: UFix64, to: Address?)
    access(all) entitlement Withdraw
    access(all) resource interface Provider {
        access(Withdraw) fun withdraw(amount: UFix64): @Vault {
            post { result.balance == amount: "wrong amount" }
        }
    }
    access(all) resource Vault: Provider {
        access(all) var balance: UFix64
        init(balance: UFix64) { self.balance = balance }
        access(Withdraw) fun withdraw(amount: UFix64): @Vault {
            pre { self.balance >= amount: "insufficient" }
            self.balance = self.balance - amount
            return <- create Vault(balance: amount)
        }
        access(all) fun deposit(from: @Vault) {
            self.balance = self.balance + from.balance
            emit Deposited(amount: from.balance, to: self.owner?.address)
            destroy from
        }
    }
    access(all) fun createEmptyVault(): @Vault { return <- create Vault(balance: 0.0) }
    init() { self.x = 1 }
}`,
		`import FungibleToken from 0x1
import C from "C"

transaction(amount: UFix64, to: Address) {
    let vault: @{FungibleToken.Vault}
    prepare(signer: auth(BorrowValue, Storage) &Account) {
        let ref = signer.storage.borrow<auth(FungibleToken.Withdraw) &C.Vault>(from: /storage/vault)
            ?? panic("missing vault")
        self.vault <- ref.withdraw(amount: amount)
    }
    pre { amount > 0.0: "amount must be positive" }
    execute {
        let receiver = getAccount(to).capabilities.borrow<&{FungibleToken.Receiver}>(/public/receiver)!
        receiver.deposit(from: <- self.vault)
    }
    post { true }
}`,
		`access(all) fun main(a: [Int], m: {String: Int?}): Int? {
    var sum = 0
    for i, x in a {
        if x % 2 == 0 && i < 10 || x < 0 { continue }
        sum = sum + x * (i + 1)
    }
    while sum > 100 { sum = sum / 2 }
    switch sum {
        case 0: return nil
        case 1: return m["one"] ?? 1
        default: break
    }
    let s = "sum = \(sum), first = \(a.length > 0 ? a[0] : -1)"
    log(s)
    if let v = m[s] { return v }
    return sum as? Int
}`,
		`access(all) struct interface Shape {
    access(all) fun area(): UFix64
    access(all) view fun name(): String { return "shape" }
}
access(all) struct Square: Shape {
    access(all) let side: UFix64
    init(side: UFix64) { self.side = side }
    access(all) fun area(): UFix64 { return self.side * self.side }
}
access(all) enum Color: UInt8 {
    access(all) case red
    access(all) case green
}
access(all) attachment Tag for Square {
    access(all) let label: String
    init(label: String) { self.label = label }
    access(all) fun describe(): String { return base.name().concat(self.label) }
}
access(all) entitlement mapping M {
    E -> F
    include N
}
access(all) fun test(): String {
    let sq = attach Tag(label: "x") to Square(side: 2.0)
    let r = &sq as &Square
    let t = r[Tag]!
    return t.describe()
}`,
	}
}

package main

import (
	"fmt"
	"strings"
	"time"

	"github.com/onflow/cadence/parser"
	"github.com/onflow/cadence/parser/lexer"
)

func main() {
	for _, n := range []int{256, 4096, 16384} {
		src := []byte(strings.Repeat("let x = a\n", n))
		t0 := time.Now()
		ts, _ := lexer.Lex(src, nil)
		d := time.Since(t0)
		ts.Reclaim()
		t0 = time.Now()
		parser.ParseProgram(nil, src, parser.Config{})
		fmt.Println(n, "lex", d, "parse", time.Since(t0))
	}
}

package main

import (
	"fmt"
	"os"
	"strings"
	"syscall"
	"time"

	"github.com/onflow/cadence/common"
	"github.com/onflow/cadence/parser"
	"github.com/onflow/cadence/sema"
)

func cpu() time.Duration {
	var ru syscall.Rusage
	syscall.Getrusage(syscall.RUSAGE_SELF, &ru)
	return time.Duration(ru.Utime.Nano() + ru.Stime.Nano())
}

func main() {
	rep := strings.Repeat
	cons := map[string]func(n int) string{
		"while":     func(n int) string { return "fun f() { " + rep("while a { ", n) + "b" + rep(" }", n) + " }" },
		"if":        func(n int) string { return "fun f() { " + rep("if a { ", n) + "b" + rep(" }", n) + " }" },
		"for":       func(n int) string { return "fun f() { " + rep("for x in a { ", n) + "b" + rep(" }", n) + " }" },
		"switch":    func(n int) string { return "fun f() { " + rep("switch a { case b: ", n) + "c" + rep(" }", n) + " }" },
		"fun":       func(n int) string { return "fun f() { " + rep("fun g() { ", n) + rep(" }", n) + " }" },
		"composite": func(n int) string { return rep("struct S { ", n) + rep(" }", n) },
		"declseq":   func(n int) string { return rep("let x = a\n", n) },
		"stmtseq":   func(n int) string { return "fun f() { " + rep("a\n", n) + " }" },
	}
	name := os.Args[1]
	for n := 64; n <= 16384; n *= 4 {
		src := []byte(cons[name](n))
		t0 := cpu()
		p, err := parser.ParseProgram(nil, src, parser.Config{})
		t1 := cpu()
		var cerr error
		if err == nil {
			c, _ := sema.NewChecker(p, common.StringLocation("t"), nil, &sema.Config{AccessCheckMode: sema.AccessCheckModeNotSpecifiedUnrestricted})
			cerr = c.Check()
		}
		t2 := cpu()
		fmt.Println(name, n, "parse", t1-t0, err == nil, "check", t2-t1, cerr == nil)
	}
}

package main

import (
	"fmt"
	"os"
	"strings"

	"github.com/onflow/cadence/errors"
	"github.com/onflow/cadence/parser"
)

func main() {
	for _, s := range os.Args[1:] {
		in := make([]byte, len(s))
		copy(in, s)
		_, err := parser.ParseProgram(nil, in, parser.Config{})
		if pe, ok := err.(parser.Error); ok {
			for _, e := range pe.Errors {
				fmt.Printf("%T %v\n", e, e)
				if ue, ok := e.(errors.UnexpectedError); ok {
					for _, l := range strings.Split(string(ue.Stack), "\n") {
						if strings.Contains(l, "/repo/parser") {
							fmt.Println("  ", l[:min(len(l), 110)])
						}
					}
				}
			}
		}
	}
}

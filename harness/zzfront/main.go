package main

import (
	"fmt"
	"os"

	"github.com/onflow/cadence/parser/lexer"
)

func main() {
	for _, s := range os.Args[1:] {
		ts, err := lexer.Lex([]byte(s), nil)
		fmt.Printf("%q err=%v\n", s, err)
		for {
			t := ts.Next()
			fmt.Printf("   %-14s %v-%v\n", t.Type, t.StartPos, t.EndPos)
			if t.Type == lexer.TokenEOF {
				break
			}
		}
		ts.Reclaim()
	}
}

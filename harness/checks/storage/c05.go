package storage

import (
	"encoding/json"
	"fmt"
	"sort"
	"strings"

	"verif/mc"
	"verif/rt"
)

// C05 — non-resource values have copy semantics.
//
// Enumerated: shape (nesting of arrays, dictionaries and structs up to depth
// 3) x size of the shape's growing container (0, 1, 2 and just below / at the
// atree thresholds measured at run time for that shape) x copy form (let,
// argument+return, struct field, array append, dictionary insert, optional
// wrap, dereference, storage save+copy, save+load, save then borrow, and
// copy / borrow / load in a *later* transaction) x mutated side x mutation
// (depth 1..3) x access mode (direct, through a reference taken before the
// copy, through a reference taken after the copy). The checker is the arbiter
// of which combinations are programs; rejected ones are counted and skipped.
//
// Oracle (the property's sentence): every side that was not mutated prints,
// after the mutation, exactly what the original printed before the copy
// (dictionary entries and struct fields compared order-insensitively). Whether
// the mutated side shows the mutation is recorded (non-vacuity), not judged.

const c05Contract = `access(all) contract P {
  access(all) struct In {
    access(all) var n: Int
    access(all) var xs: [Int]
    init(_ n: Int, _ s: Int) { self.n = n; self.xs = []; var i = 0; while i < s { self.xs.append(i); i = i + 1 } }
    access(all) fun setN(_ n: Int) { self.n = n }
    access(all) fun push(_ x: Int) { self.xs.append(x) }
    access(all) fun set0(_ x: Int) { self.xs[0] = x }
  }
  access(all) struct Out {
    access(all) var inner: In
    access(all) var arr: [In]
    access(all) var d: {Int: In}
    init(_ s: Int) {
      self.inner = In(1, 2)
      self.arr = []
      self.d = {}
      var i = 0
      while i < s { self.arr.append(In(i, 1)); self.d[i] = In(i, 1); i = i + 1 }
    }
    access(all) fun setInnerN(_ n: Int) { self.inner.setN(n) }
    access(all) fun pushInner(_ x: Int) { self.inner.push(x) }
    access(all) fun setInner(_ x: In) { self.inner = x }
    access(all) fun arrAppend(_ x: In) { self.arr.append(x) }
    access(all) fun arr0Push(_ x: Int) { self.arr[0].push(x) }
    access(all) fun dSet(_ k: Int, _ x: In) { self.d[k] = x }
  }
  access(all) struct Opt {
    access(all) var o: [Int]?
    access(all) var s: In?
    access(all) var d: {Int: Int}?
    init(_ n: Int) { self.o = P.ints(n); self.s = In(1, n); self.d = P.dict(n) }
    access(all) fun addO(_ x: Int) { self.o!.append(x) }
    access(all) fun setSN(_ x: Int) { self.s!.setN(x) }
    access(all) fun pushS(_ x: Int) { self.s!.push(x) }
    access(all) fun putD(_ x: Int) { self.d!.insert(key: 100000, x) }
  }
  access(all) fun optArr(_ s: Int): [[Int]?] { let r: [[Int]?] = []; var i = 0; while i < s { r.append([i, i + 1]); i = i + 1 }; return r }
  // elements too large to be stored inline: even a one-element container holds a slab reference
  access(all) fun hugeInts(_ s: Int): [Int] { let r: [Int] = []; var i = 0; while i < s { r.append((1 << 4096) + i); i = i + 1 }; return r }
  access(all) fun hugeUInts(_ s: Int): [UInt] { let r: [UInt] = []; var i = 0; while i < s { r.append((UInt(1) << 4096) + UInt(i)); i = i + 1 }; return r }
  access(all) fun hugeDict(_ s: Int): {UInt64: UInt} { let r: {UInt64: UInt} = {}; var i = 0; while i < s { r[UInt64(i)] = (UInt(1) << 4096) + UInt(i); i = i + 1 }; return r }
  access(all) fun longStrs(_ s: Int): [String] { let r: [String] = []; var i = 0; while i < s { var t = i.toString(); while t.length < 1000 { t = t.concat("0123456789") }; r.append(t); i = i + 1 }; return r }
  access(all) fun ints(_ s: Int): [Int] { let r: [Int] = []; var i = 0; while i < s { r.append(i); i = i + 1 }; return r }
  access(all) fun ints2(_ s: Int): [[Int]] { let r: [[Int]] = []; var i = 0; while i < s { r.append([i, i + 1]); i = i + 1 }; return r }
  access(all) fun ints3(_ s: Int): [[[Int]]] { let r: [[[Int]]] = []; var i = 0; while i < s { r.append([[i], [i + 1, i + 2]]); i = i + 1 }; return r }
  access(all) fun dict(_ s: Int): {Int: Int} { let r: {Int: Int} = {}; var i = 0; while i < s { r[i] = i * 10; i = i + 1 }; return r }
  access(all) fun dictArr(_ s: Int): {Int: [Int]} { let r: {Int: [Int]} = {}; var i = 0; while i < s { r[i] = [i, i]; i = i + 1 }; return r }
  access(all) fun arrDict(_ s: Int): [{Int: Int}] { let r: [{Int: Int}] = []; var i = 0; while i < s { r.append({i: i, 5: 5}); i = i + 1 }; return r }
  access(all) fun arrIn(_ s: Int): [In] { let r: [In] = []; var i = 0; while i < s { r.append(In(i, 2)); i = i + 1 }; return r }
}`

type c05Mut struct {
	name  string
	depth int
	code  string // X = the side (variable or reference)
	min   int    // minimal size for which the mutation is valid
	// refOnly / directOnly restrict the access mode
	refOnly, directOnly bool
}

type c05Shape struct {
	name string
	typ  string
	ctor string // %d = size
	muts []c05Mut
	// fewSizes: only sizes {1, 2, inline, split} (optional-wrapped shapes)
	fewSizes bool
}

var c05Shapes = []c05Shape{
	{"[Int]", "[Int]", "P.ints(%d)", []c05Mut{
		{"set0", 1, "X[0] = 99", 1, false, false}, {"append", 1, "X.append(99)", 0, false, false}, {"remove0", 1, "X.remove(at: 0)", 1, false, false}}, false},
	{"[[Int]]", "[[Int]]", "P.ints2(%d)", []c05Mut{
		{"append", 1, "X.append([7])", 0, false, false}, {"set0", 1, "X[0] = [99]", 1, false, false},
		{"set00", 2, "X[0][0] = 99", 1, false, false}, {"append0", 2, "X[0].append(99)", 1, false, false}, {"setLast0", 2, "X[X.length - 1][0] = 99", 1, false, false}}, false},
	{"[[[Int]]]", "[[[Int]]]", "P.ints3(%d)", []c05Mut{
		{"set000", 3, "X[0][0][0] = 99", 1, false, false}, {"append01", 3, "X[0][1].append(99)", 1, false, false}, {"set0", 1, "X[0] = []", 1, false, false}}, false},
	{"{Int: Int}", "{Int: Int}", "P.dict(%d)", []c05Mut{
		{"set0", 1, "X[0] = 99", 0, false, false}, {"setNew", 1, "X[100000] = 1", 0, false, false}, {"remove0", 1, "X.remove(key: 0)", 1, false, false}}, false},
	{"{Int: [Int]}", "{Int: [Int]}", "P.dictArr(%d)", []c05Mut{
		{"set0", 1, "X[0] = [99]", 0, false, false}, {"append0", 2, "X[0]!.append(99)", 1, true, false}, {"remove0", 1, "X.remove(key: 0)", 1, false, false}}, false},
	{"[{Int: Int}]", "[{Int: Int}]", "P.arrDict(%d)", []c05Mut{
		{"set05", 2, "X[0][5] = 99", 1, false, false}, {"append", 1, "X.append({1: 1})", 0, false, false}}, false},
	{"In", "P.In", "P.In(1, %d)", []c05Mut{
		{"setN", 1, "X.setN(99)", 0, false, false}, {"push", 2, "X.push(99)", 0, false, false}, {"set0", 2, "X.set0(99)", 1, false, false}}, false},
	{"[In]", "[P.In]", "P.arrIn(%d)", []c05Mut{
		{"setN0", 2, "X[0].setN(99)", 1, false, false}, {"push0", 3, "X[0].push(99)", 1, false, false}, {"set0", 1, "X[0] = P.In(99, 0)", 1, false, false}}, false},
	{"Out", "P.Out", "P.Out(%d)", []c05Mut{
		{"setInnerN", 2, "X.setInnerN(99)", 0, false, false}, {"pushInner", 3, "X.pushInner(99)", 0, false, false},
		{"arr0Push", 3, "X.arr0Push(99)", 1, false, false}, {"dSet", 2, "X.dSet(0, P.In(99, 1))", 0, false, false}, {"setInner", 1, "X.setInner(P.In(99, 3))", 0, false, false}}, false},
	// optional-wrapped shapes: mutation through force-unwrap (of the variable or of an optional reference)
	{"[Int]?", "[Int]?", "P.ints(%d)", []c05Mut{
		{"append", 1, "X!.append(99)", 0, false, false}, {"remove0", 1, "X!.remove(at: 0)", 1, false, false}, {"set0", 1, "X![0] = 99", 1, false, false}}, true},
	{"{Int: Int}?", "{Int: Int}?", "P.dict(%d)", []c05Mut{
		{"insert", 1, "X!.insert(key: 100000, 1)", 0, false, false}, {"remove0", 1, "X!.remove(key: 0)", 1, false, false}}, true},
	{"In?", "P.In?", "P.In(1, %d)", []c05Mut{
		{"setN", 1, "X!.setN(99)", 0, false, false}, {"push", 2, "X!.push(99)", 0, false, false}}, true},
	{"[Int]??", "[Int]??", "P.ints(%d)", []c05Mut{
		{"append", 1, "X!!.append(99)", 0, false, false}}, true},
	{"[[Int]?]", "[[Int]?]", "P.optArr(%d)", []c05Mut{
		{"append0", 2, "X[0]!.append(99)", 1, false, false}, {"set0", 1, "X[0] = nil", 1, false, false}}, true},
	{"Opt", "P.Opt", "P.Opt(%d)", []c05Mut{
		{"addO", 2, "X.addO(99)", 0, false, false}, {"setSN", 2, "X.setSN(99)", 0, false, false}, {"pushS", 3, "X.pushS(99)", 0, false, false}, {"putD", 2, "X.putD(7)", 0, false, false}}, true},
	{"Opt?", "P.Opt?", "P.Opt(%d)", []c05Mut{
		{"addO", 3, "X!.addO(99)", 0, false, false}, {"pushS", 3, "X!.pushS(99)", 0, false, false}}, true},
	// elements too large to inline in small, single-slab containers
	{"[Int]/huge", "[Int]", "P.hugeInts(%d)", []c05Mut{
		{"set0", 1, "X[0] = 99", 1, false, false}, {"append", 1, "X.append(99)", 0, false, false}, {"remove0", 1, "X.remove(at: 0)", 1, false, false}}, true},
	{"[UInt]/huge", "[UInt]", "P.hugeUInts(%d)", []c05Mut{
		{"set0", 1, "X[0] = 99", 1, false, false}, {"append", 1, "X.append(99)", 0, false, false}}, true},
	{"{UInt64: UInt}/huge", "{UInt64: UInt}", "P.hugeDict(%d)", []c05Mut{
		{"set0", 1, "X[0] = 99", 0, false, false}, {"remove0", 1, "X.remove(key: 0)", 1, false, false}}, true},
	{"[String]/long", "[String]", "P.longStrs(%d)", []c05Mut{
		{"set0", 1, "X[0] = \"z\"", 1, false, false}, {"append", 1, "X.append(\"z\")", 0, false, false}}, true},
}

// a copy form: code that runs after `var v: T = ...; log(v)` and defines the
// other side(s). Placeholders: T = the type.
type c05Form struct {
	name string
	decl string // top-level declarations
	copy string
	w    string // expression of the second side
	wVar bool   // the second side is a variable (may be mutated / referenced)
	// extra expressions that must still print the original value after the mutation
	extra []string
	acct  bool // needs the account `a`
	// later: the copy happens in a later transaction than the save; then there is no `v`
	later bool
	// mutateStored: the mutation is applied to the stored value through a borrowed reference
	mutateStored bool
	// tmp: an expression yielding a fresh copy; the mutation is applied directly
	// to that temporary (side "tmp"), every named side must stay untouched
	tmp string
}

var c05Forms = []c05Form{
	{name: "let", copy: "var w = v", w: "w", wVar: true},
	{name: "arg-return", decl: "access(all) fun pass(_ x: T): T { return x }", copy: "var w = pass(v)", w: "w", wVar: true},
	{name: "field", decl: "access(all) struct H { access(all) var f: T; init(_ f: T) { self.f = f } }", copy: "let h = H(v)", w: "h.f"},
	{name: "field-out", decl: "access(all) struct H { access(all) var f: T; init(_ f: T) { self.f = f } }", copy: "let h = H(v)\nvar w = h.f", w: "w", wVar: true, extra: []string{"h.f"}},
	{name: "append", copy: "let box: [T] = []\nbox.append(v)", w: "box[0]"},
	{name: "dict-insert", copy: "let box: {Int: T} = {}\nbox[1] = v", w: "box[1]!"},
	{name: "optional", copy: "let o: T? = v\nvar w = o!", w: "w", wVar: true, extra: []string{"o!"}},
	{name: "deref", copy: "let dr = &v as &T\nvar w = *dr", w: "w", wVar: true},
	{name: "save-copy", copy: "a.storage.save(v, to: /storage/x)\nvar w = a.storage.copy<T>(from: /storage/x)!", w: "w", wVar: true, extra: []string{"a.storage.copy<T>(from: /storage/x)!"}, acct: true},
	{name: "save-load", copy: "a.storage.save(v, to: /storage/x)\nvar w = a.storage.load<T>(from: /storage/x)!", w: "w", wVar: true, acct: true},
	{name: "save-borrow-mutate", copy: "a.storage.save(v, to: /storage/x)\nvar w = a.storage.copy<T>(from: /storage/x)!", w: "w", wVar: true, acct: true, mutateStored: true},
	{name: "save-copy-mutate-temporary", copy: "a.storage.save(v, to: /storage/x)", w: "a.storage.copy<T>(from: /storage/x)!", acct: true, tmp: "(a.storage.copy<T>(from: /storage/x)!)"},
	{name: "later-copy-mutate-temporary", copy: "let keep = a.storage.copy<T>(from: /storage/x)!", w: "keep", acct: true, later: true, tmp: "(a.storage.copy<T>(from: /storage/x)!)", extra: []string{"a.storage.copy<T>(from: /storage/x)!"}},
	{name: "pass-mutate-temporary", decl: "access(all) fun pass(_ x: T): T { return x }", copy: "let keep = v", w: "keep", tmp: "pass(v)"},
	{name: "later-copy", copy: "var w = a.storage.copy<T>(from: /storage/x)!", w: "w", wVar: true, extra: []string{"a.storage.copy<T>(from: /storage/x)!"}, acct: true, later: true},
	{name: "later-copy-mutate-stored", copy: "var w = a.storage.copy<T>(from: /storage/x)!", w: "w", wVar: true, acct: true, later: true, mutateStored: true},
	{name: "later-load-save-twice", copy: "var w = a.storage.load<T>(from: /storage/x)!\na.storage.save(w, to: /storage/y)\na.storage.save(w, to: /storage/z)", w: "w", wVar: true, extra: []string{"a.storage.copy<T>(from: /storage/y)!", "a.storage.copy<T>(from: /storage/z)!"}, acct: true, later: true},
}

type c05Case struct {
	Shape  int    `json:"shape"`
	Size   int    `json:"size"`
	Form   int    `json:"form"`
	Mut    int    `json:"mut"`
	Side   string `json:"side"`   // "v" | "w" | "stored" | "tmp"
	Access string `json:"access"` // direct | ref-before | ref-after
	VM     bool   `json:"vm"`
}

func (c c05Case) String() string {
	sh := c05Shapes[c.Shape]
	return fmt.Sprintf("%s size=%d form=%s mut=%s(depth %d) side=%s access=%s %s", sh.name, c.Size, c05Forms[c.Form].name, sh.muts[c.Mut].name, sh.muts[c.Mut].depth, c.Side, c.Access, engName(c.VM))
}

// c05Programs renders the case: a list of programs run in order (transactions
// when the form needs an account, a script otherwise). ok=false if the
// combination is not meaningful.
type c05Prog struct {
	src    string
	script bool
}

func c05Render(c c05Case) (progs []c05Prog, ok bool) {
	sh := c05Shapes[c.Shape]
	f := c05Forms[c.Form]
	m := sh.muts[c.Mut]
	T := sh.typ
	if c.Size < m.min {
		return nil, false
	}
	if (m.refOnly && c.Access == "direct") || (m.directOnly && c.Access != "direct") {
		return nil, false
	}
	// which sides exist
	switch c.Side {
	case "v":
		if f.later {
			return nil, false
		}
	case "w":
		if !f.wVar || f.mutateStored {
			return nil, false
		}
		if c.Access == "ref-before" {
			return nil, false // w does not exist before the copy
		}
	case "stored":
		if !f.mutateStored || c.Access != "ref-after" {
			return nil, false
		}
	case "tmp":
		if f.tmp == "" || c.Access != "direct" {
			return nil, false
		}
	}
	if f.mutateStored && c.Side != "stored" {
		return nil, false
	}
	if f.tmp != "" && c.Side != "tmp" {
		return nil, false
	}
	rep := func(s string) string { return strings.ReplaceAll(s, "T", T) }
	ctor := fmt.Sprintf(sh.ctor, c.Size)
	var body strings.Builder
	if !f.later {
		fmt.Fprintf(&body, "var v: %s = %s\n", T, ctor)
		if c.Access == "ref-before" {
			fmt.Fprintf(&body, "let r = &v as auth(Mutate) &%s\n", T)
		}
		body.WriteString("log(\"before\")\nlog(v)\n")
	}
	body.WriteString(rep(f.copy) + "\n")
	target := c.Side
	switch {
	case c.Side == "tmp":
		target = rep(f.tmp)
	case c.Side == "stored":
		fmt.Fprintf(&body, "let r = a.storage.borrow<auth(Mutate) &%s>(from: /storage/x)!\n", T)
		target = "r"
	case c.Access == "ref-after":
		fmt.Fprintf(&body, "let r = &%s as auth(Mutate) &%s\n", c.Side, T)
		target = "r"
	case c.Access == "ref-before":
		target = "r"
	}
	body.WriteString(strings.ReplaceAll(m.code, "X", target) + "\n")
	// observations: label, then value
	obs := func(label, expr string) { fmt.Fprintf(&body, "log(%q)\nlog(%s)\n", label, expr) }
	if !f.later {
		if c.Side == "v" {
			obs("mutated", "v")
		} else {
			obs("untouched", "v")
		}
	}
	if c.Side == "w" {
		obs("mutated", f.w)
	} else {
		obs("untouched", rep(f.w))
	}
	for _, e := range f.extra {
		obs("untouched", rep(e))
	}
	if c.Side == "stored" {
		obs("mutated", rep("a.storage.copy<T>(from: /storage/x)!"))
	}
	decl := "import P from 0x9\n" + rep(f.decl) + "\n"
	if !f.acct {
		return []c05Prog{{src: decl + "access(all) fun main() {\n" + body.String() + "}\n", script: true}}, true
	}
	wrap := func(b string) string {
		return decl + "transaction { prepare(a: auth(Storage) &Account) {\n" + b + "} }\n"
	}
	if f.later {
		first := fmt.Sprintf("var v: %s = %s\nlog(\"before\")\nlog(v)\na.storage.save(v, to: /storage/x)\n", T, ctor)
		return []c05Prog{{src: "import P from 0x9\ntransaction { prepare(a: auth(Storage) &Account) {\n" + first + "} }\n"}, {src: wrap(body.String())}}, true
	}
	return []c05Prog{{src: wrap(body.String())}}, true
}

var c05Base [2]*rt.Ledger

func c05Ledger(vm bool) *rt.Ledger {
	i := 0
	if vm {
		i = 1
	}
	return c05Base[i].Clone()
}

// c05Run executes the case. verdict: "" conforming, "skip:<why>" not judged,
// otherwise a violation kind with detail.
func c05Run(c c05Case) (verdict, detail string, changed bool) {
	progs, ok := c05Render(c)
	if !ok {
		return "skip:not-applicable", "", false
	}
	l := c05Ledger(c.VM)
	var logs []string
	for _, p := range progs {
		tx := rt.Tx{Source: p.src, Script: p.script, UseVM: c.VM}
		if !p.script {
			tx.Signers = signers(1)
		}
		res := rt.Run(l, tx)
		if !res.OK() {
			if strings.Contains(res.Kind, "CheckerError") || strings.Contains(res.Kind, "ParserError") {
				return "skip:rejected-by-checker", res.Kind + ": " + short(res.ErrString(), 300), false
			}
			// every generated program that the checker accepts is written to succeed (mutations
			// are only applied at sizes for which they are valid): a copy, transfer, save or
			// load that fails at run time did not produce an independent value
			return "copy-failed:" + res.Class, short(res.ErrString(), 300), false
		}
		logs = append(logs, res.Logs...)
	}
	// logs come in (label, value) pairs
	if len(logs)%2 != 0 || len(logs) < 4 {
		return "HARNESS", fmt.Sprintf("unexpected log shape: %v", logs), false
	}
	before := ""
	if c.Side == "tmp" {
		changed = true // the mutated temporary cannot be observed afterwards
	}
	for i := 0; i < len(logs); i += 2 {
		label := strings.Trim(logs[i], "\"")
		val, err := c05Canon(logs[i+1])
		if err != nil {
			return "HARNESS", fmt.Sprintf("cannot parse logged value %q: %v", short(logs[i+1], 200), err), false
		}
		switch label {
		case "before":
			before = val
		case "untouched":
			if val != before {
				return "aliasing", fmt.Sprintf("%s: a side that was not mutated prints\n%s\nbut the original printed\n%s\nbefore the copy", c, short(val, 600), short(before, 600)), false
			}
		case "mutated":
			if val != before {
				changed = true
			}

		default:
			return "HARNESS", "unexpected label " + label, false
		}
	}
	return "", "", changed
}

func c05Sig(c c05Case, th thresholds) string {
	sh := c05Shapes[c.Shape]
	return fmt.Sprintf("aliasing|%s|%s|mutate-%s-depth%d-%s|%s|%s", c05Forms[c.Form].name, sh.name, c.Side, sh.muts[c.Mut].depth, c.Access, sizeClass(c.Size, th), engName(c.VM))
}

var c05Th = map[string]thresholds{}

func runC05(env *mc.Env) {
	for i, vm := range both {
		l := rt.NewLedger()
		rt.Deploy(l, rt.Addr(9), "P", c05Contract, vm)
		c05Base[i] = l
	}
	// thresholds per shape (engine-independent layout; measured with the interpreter)
	ths := map[string]thresholds{}
	for si, sh := range c05Shapes {
		sh := sh
		th, err := cachedThresholds("c05/"+sh.name, func() (thresholds, error) {
			return measure(c05Base[0], false, func(n int) string {
				return fmt.Sprintf("import P from 0x9\ntransaction { prepare(a: auth(Storage) &Account) { a.storage.save(%s, to: /storage/c) } }", fmt.Sprintf(sh.ctor, n))
			}, 3000)
		})
		if err != nil {
			// if saving a well-formed one-element value fails at run time, that is the property's
			// business: go on with sizes 0, 1, 2 (thresholds unknown) and let the cases report it
			probe := rt.Run(c05Base[0].Clone(), rt.Tx{Source: fmt.Sprintf("import P from 0x9\ntransaction { prepare(a: auth(Storage) &Account) { a.storage.save(%s, to: /storage/c) } }", fmt.Sprintf(sh.ctor, 1)), Signers: signers(1)})
			if probe.OK() || strings.Contains(probe.Kind, "CheckerError") || strings.Contains(probe.Kind, "ParserError") {
				env.R.HarnessError("C05: threshold measurement for %s failed: %v", sh.name, err)
				return
			}
			env.R.Add("shapes_without_thresholds", 1)
			th = thresholds{}
		}
		ths[sh.name] = th
		c05Th[sh.name] = th
		_ = si
	}
	env.R.Set("measured_thresholds", ths)
	var cases []c05Case
	for si, sh := range c05Shapes {
		th := ths[sh.name]
		sizes := []int{0, 1, 2, th.Inline - 1, th.Inline, th.Split - 1, th.Split}
		if sh.fewSizes {
			sizes = []int{1, 2, th.Inline, th.Split}
		}
		seen := map[int]bool{}
		for _, n := range sizes {
			if n < 0 || seen[n] {
				continue
			}
			seen[n] = true
			for fi := range c05Forms {
				for mi := range sh.muts {
					for _, side := range []string{"v", "w", "stored", "tmp"} {
						for _, acc := range []string{"direct", "ref-before", "ref-after"} {
							for _, vm := range both {
								c := c05Case{Shape: si, Size: n, Form: fi, Mut: mi, Side: side, Access: acc, VM: vm}
								if _, ok := c05Render(c); ok {
									cases = append(cases, c)
								}
							}
						}
					}
				}
			}
		}
	}
	env.R.Set("generated", len(cases))
	mc.ParallelFor(env, len(cases), func(i int) {
		c := cases[i]
		sh := c05Shapes[c.Shape]
		verdict, detail, changed := c05Run(c)
		switch {
		case verdict == "HARNESS":
			env.R.HarnessError("C05 %s: %s", c, detail)
		case strings.HasPrefix(verdict, "skip:"):
			env.R.Class(verdict, func() any { return map[string]any{"case": c.String(), "why": detail} })
			env.R.Add("not_judged", 1)
			if verdict == "skip:rejected-by-checker" {
				env.R.Add("rejected_by_checker", 1)
			}
		case verdict != "":
			env.R.Eval()
			sig := c05Sig(c, ths[sh.name])
			if strings.HasPrefix(verdict, "copy-failed") {
				sig = strings.Replace(sig, "aliasing|", verdict+"|", 1)
			}
			env.R.Violation(sig, c, detail)
		default:
			env.R.Eval()
			env.R.Add("accepted", 1)
			cls := "independent"
			if changed {
				cls = "independent+mutation-visible"
				env.R.Nontrivial(c.String())
			}
			env.R.Class(fmt.Sprintf("%s|%s|%s", cls, c05Forms[c.Form].name, sizeClass(c.Size, ths[sh.name])), nil)
		}
	})
}

func replayC05(env *mc.Env, raw json.RawMessage) (bool, string) {
	var c c05Case
	if err := json.Unmarshal(raw, &c); err != nil {
		return false, err.Error()
	}
	if c05Base[0] == nil {
		for i, vm := range both {
			l := rt.NewLedger()
			rt.Deploy(l, rt.Addr(9), "P", c05Contract, vm)
			c05Base[i] = l
		}
	}
	verdict, detail, _ := c05Run(c)
	if verdict != "" && verdict != "HARNESS" && !strings.HasPrefix(verdict, "skip:") {
		return true, verdict + ": " + detail
	}
	return false, verdict + " " + detail
}

// ---------------------------------------------------------------------------
// canonical form of a logged value: dictionary entries and composite fields sorted

type c05Parser struct {
	s string
	i int
}

func c05Canon(s string) (string, error) {
	p := &c05Parser{s: s}
	out, err := p.value()
	if err != nil {
		return "", err
	}
	p.ws()
	if p.i != len(p.s) {
		return "", fmt.Errorf("trailing input at %d", p.i)
	}
	return out, nil
}

func (p *c05Parser) ws() {
	for p.i < len(p.s) && (p.s[p.i] == ' ' || p.s[p.i] == '\n') {
		p.i++
	}
}

func (p *c05Parser) value() (string, error) {
	p.ws()
	if p.i >= len(p.s) {
		return "", fmt.Errorf("unexpected end")
	}
	switch ch := p.s[p.i]; {
	case ch == '[':
		p.i++
		var items []string
		for {
			p.ws()
			if p.i < len(p.s) && p.s[p.i] == ']' {
				p.i++
				break
			}
			v, err := p.value()
			if err != nil {
				return "", err
			}
			items = append(items, v)
			p.ws()
			if p.i < len(p.s) && p.s[p.i] == ',' {
				p.i++
			}
		}
		return "[" + strings.Join(items, ", ") + "]", nil
	case ch == '{':
		p.i++
		var items []string
		for {
			p.ws()
			if p.i < len(p.s) && p.s[p.i] == '}' {
				p.i++
				break
			}
			k, err := p.value()
			if err != nil {
				return "", err
			}
			p.ws()
			if p.i >= len(p.s) || p.s[p.i] != ':' {
				return "", fmt.Errorf("expected ':' at %d", p.i)
			}
			p.i++
			v, err := p.value()
			if err != nil {
				return "", err
			}
			items = append(items, k+": "+v)
			p.ws()
			if p.i < len(p.s) && p.s[p.i] == ',' {
				p.i++
			}
		}
		sort.Strings(items)
		return "{" + strings.Join(items, ", ") + "}", nil
	case ch == '"':
		j := p.i + 1
		for j < len(p.s) && p.s[j] != '"' {
			if p.s[j] == '\\' {
				j++
			}
			j++
		}
		if j >= len(p.s) {
			return "", fmt.Errorf("unterminated string")
		}
		out := p.s[p.i : j+1]
		p.i = j + 1
		return out, nil
	default:
		// number, identifier, qualified name, optionally followed by (fields)
		j := p.i
		for j < len(p.s) && (p.s[j] == '-' || p.s[j] == '.' || p.s[j] == '_' || (p.s[j] >= '0' && p.s[j] <= '9') || (p.s[j] >= 'a' && p.s[j] <= 'z') || (p.s[j] >= 'A' && p.s[j] <= 'Z')) {
			j++
		}
		if j == p.i {
			return "", fmt.Errorf("unexpected %q at %d", p.s[p.i], p.i)
		}
		name := p.s[p.i:j]
		p.i = j
		if p.i < len(p.s) && p.s[p.i] == '(' {
			p.i++
			var items []string
			for {
				p.ws()
				if p.i < len(p.s) && p.s[p.i] == ')' {
					p.i++
					break
				}
				k := p.i
				for k < len(p.s) && p.s[k] != ':' {
					k++
				}
				if k >= len(p.s) {
					return "", fmt.Errorf("expected field name at %d", p.i)
				}
				fname := p.s[p.i:k]
				p.i = k + 1
				v, err := p.value()
				if err != nil {
					return "", err
				}
				items = append(items, fname+": "+v)
				p.ws()
				if p.i < len(p.s) && p.s[p.i] == ',' {
					p.i++
				}
			}
			sort.Strings(items)
			return name + "(" + strings.Join(items, ", ") + ")", nil
		}
		return name, nil
	}
}

func init() {
	mc.Register(&mc.Check{
		ID: "C05",
		Rule: "every combination of 20 shapes (incl. 4 whose elements are too large to inline in a one-element container: [Int] / [UInt] of 2^4096+i, {UInt64: UInt}, [String] of ~1 KB strings; a run-time failure of an accepted program is a violation; arrays, dictionaries and structs nested up to depth 3, and optional-wrapped ones: [T]?, {K: V}?, S?, [T]??, [[T]?], structs with optional fields, mutated through force-unwrap) x sizes {0, 1, 2, inline-1, inline, split-1, split} (atree thresholds measured per shape at run time) x 17 copy forms (let, argument+return, struct field, array append, dictionary insert, optional, dereference, save+copy, save+load, save+borrow, copy / borrow / load+save in a later transaction, and mutation of the temporary returned by copy<T>() or by a function) x mutated side x 3-5 mutations per shape at depth 1..3 x access mode (direct, reference taken before the copy, reference taken after), both engines; the checker decides which combinations are programs (rejections counted). Oracle: after the mutation every side that was not mutated prints what the original printed before the copy (order-insensitive for dictionaries and fields). Non-trivial = accepted case in which the mutated side visibly changed.",
		Assumptions: []string{
			"values are observed through their logged String() form, parsed and canonicalised (dictionary entries and struct fields sorted)",
			"whether a particular mutation syntax mutates in place is not judged; only independence of the other side is",
		},
		Run:    runC05,
		Replay: replayC05,
	})
}

package storage

import (
	"encoding/json"
	"fmt"
	"sort"
	"strings"
	"sync"

	"verif/mc"
	"verif/rt"
	"verif/rtx"
)

// C22 — account storage behaves as a typed path-indexed map across transactions.
//
// Explicit-state search: 2 accounts x 2 paths = 4 slots; six value kinds
// (Int, a 300-element [Int] that lives in its own multi-slab container, struct S: I, [Int], [AnyStruct], resource R: RI) each carrying
// a payload that names the slot it was first saved to (so a stale or swapped
// value is visible); operations save, load<T>, copy<T>, borrow<&T>, check<T>,
// type(at:), with T ranging over exact, super-, sub- and unrelated types of
// both kinds; transactions of one or two operations, optionally aborted by a
// trailing panic. After every transition an observer script in a fresh
// runtime reads storagePaths, forEachStored, type(at:), check<T> for every T,
// and the value of every occupied slot. Reference model: map slot -> (kind, payload).

const c22Contract = `access(all) contract T {
  access(all) struct interface I {}
  access(all) struct S: I { access(all) let x: Int; init(_ x: Int) { self.x = x } }
  access(all) struct S2 { init() {} }
  access(all) resource interface RI {}
  access(all) resource R: RI { access(all) let x: Int; init(_ x: Int) { self.x = x } }
  access(all) resource R2 { init() {} }
  access(all) fun mkR(_ x: Int): @R { return <- create R(x) }
  // a value too large to be inlined in the account's storage map (its own, multi-slab container)
  access(all) fun big(_ x: Int): [Int] { let r: [Int] = [x]; var i = 1; while i < 300 { r.append(i); i = i + 1 }; return r }
  access(all) fun content(_ v: AnyStruct): String {
    if let i = v as? Int { return i.toString() }
    if let s = v as? String { return s }
    if let s = v as? S { return s.x.toString() }
    if let a = v as? [AnyStruct] { return a.length.toString().concat(":").concat(a.length > 0 ? self.content(a[0]) : "") }
    return "?"
  }
  access(all) fun show(_ v: AnyStruct): String { return v.getType().identifier.concat("=").concat(self.content(v)) }
  access(all) fun showRef(_ r: &AnyStruct): String {
    // dispatch on the run-time type first: only then cast
    let id = r.getType().identifier
    if id == "Int" { return "Int=".concat((*(r as! &Int)).toString()) }
    if id == "String" { return "String=".concat(*(r as! &String)) }
    if id == Type<S>().identifier { return id.concat("=").concat((r as! &S).x.toString()) }
    if id == "[Int]" { let a = r as! &[Int]; return "[Int]=".concat(a.length.toString()).concat(":").concat(a.length > 0 ? a[0].toString() : "") }
    if id == "[AnyStruct]" { let a = r as! &[AnyStruct]; return "[AnyStruct]=".concat(a.length.toString()).concat(":").concat(a.length > 0 ? a[0].getType().identifier == "Int" ? (*(a[0] as! &Int)).toString() : "?" : "") }
    return "?".concat(id)
  }
  access(all) fun showR(_ r: &AnyResource): String {
    if let x = r as? &R { return x.getType().identifier.concat("=").concat(x.x.toString()) }
    return r.getType().identifier.concat("=?")
  }
}`

const c22Addr = "A.0000000000000009.T."

type c22Slot struct{ acct, path string }

var c22Slots = []c22Slot{{"a1", "/storage/p"}, {"a1", "/storage/q"}, {"a2", "/storage/p"}, {"a2", "/storage/q"}}

// value kinds
var c22Kinds = []string{"int", "big", "s", "arr", "anyarr", "r"}

func c22Expr(kind string, p int) string {
	switch kind {
	case "int":
		return fmt.Sprint(p)
	case "big":
		return fmt.Sprintf("T.big(%d)", p)
	case "s":
		return fmt.Sprintf("T.S(%d)", p)
	case "arr":
		return fmt.Sprintf("[%d]", p)
	case "anyarr":
		return fmt.Sprintf("[%d] as [AnyStruct]", p)
	case "r":
		return fmt.Sprintf("<- T.mkR(%d)", p)
	}
	panic(kind)
}

// what T.show / T.showRef / T.showR print for a value
func c22Show(kind string, p int) string {
	switch kind {
	case "int":
		return fmt.Sprintf("Int=%d", p)
	case "big":
		return fmt.Sprintf("[Int]=300:%d", p)
	case "s":
		return fmt.Sprintf("%sS=%d", c22Addr, p)
	case "arr":
		return fmt.Sprintf("[Int]=1:%d", p)
	case "anyarr":
		return fmt.Sprintf("[AnyStruct]=1:%d", p)
	case "r":
		return fmt.Sprintf("%sR=%d", c22Addr, p)
	}
	panic(kind)
}

func c22TypeID(kind string) string {
	switch kind {
	case "int":
		return "Int"
	case "big":
		return "[Int]"
	case "s":
		return c22Addr + "S"
	case "arr":
		return "[Int]"
	case "anyarr":
		return "[AnyStruct]"
	case "r":
		return c22Addr + "R"
	}
	panic(kind)
}

// type arguments
type c22Type struct {
	name, src string
	resource  bool
}

var c22Types = []c22Type{
	{"Int", "Int", false}, {"Integer", "Integer", false}, {"String", "String", false}, {"AnyStruct", "AnyStruct", false},
	{"S", "T.S", false}, {"I", "{T.I}", false}, {"S2", "T.S2", false}, {"ArrInt", "[Int]", false}, {"ArrAny", "[AnyStruct]", false},
	{"R", "T.R", true}, {"AnyResource", "AnyResource", true}, {"RI", "{T.RI}", true}, {"R2", "T.R2", true},
}
var c22TypeByName = func() map[string]c22Type {
	m := map[string]c22Type{}
	for _, t := range c22Types {
		m[t.name] = t
	}
	return m
}()

// the subtype relation restricted to (value kind, type argument): the
// property's "the stored value's type is a subtype of T"
var c22Conforms = map[string]map[string]bool{
	"int":    {"Int": true, "Integer": true, "AnyStruct": true},
	"big":    {"ArrInt": true, "ArrAny": true, "AnyStruct": true},
	"s":      {"S": true, "I": true, "AnyStruct": true},
	"arr":    {"ArrInt": true, "ArrAny": true, "AnyStruct": true},
	"anyarr": {"ArrAny": true, "AnyStruct": true},
	"r":      {"R": true, "AnyResource": true, "RI": true},
}
var c22Exact = map[string]string{"int": "Int", "big": "ArrInt", "s": "S", "arr": "ArrInt", "anyarr": "ArrAny", "r": "R"}

// relation class for signatures and coverage
func c22Relation(kind, t string) string {
	switch {
	case kind == "":
		return "empty"
	case c22Exact[kind] == t:
		return "exact"
	case c22Conforms[kind][t]:
		return "super"
	case kind == "anyarr" && t == "ArrInt":
		return "sub"
	case (kind == "r") != c22TypeByName[t].resource:
		return "unrelated-kind"
	}
	return "unrelated"
}

type c22Val struct {
	Kind string `json:"k"`
	P    int    `json:"p"`
}
type c22Model [4]c22Val

func (m c22Model) String() string {
	var sb strings.Builder
	for i, v := range m {
		if v.Kind != "" {
			fmt.Fprintf(&sb, "%d=%s%d ", i, v.Kind, v.P)
		}
	}
	return sb.String()
}

type c22State struct {
	L  *rt.Ledger
	VM bool
	M  c22Model
}

type c22Case struct {
	VM   bool     `json:"vm"`
	Path []string `json:"path"`
}

// one primitive operation: label "kind:arg:slot[:slot2]"
type c22Prim struct {
	op   string // save load copy borrow mv
	arg  string // value kind (save) or type name
	slot int
	to   int
}

func c22ParsePrim(s string) c22Prim {
	f := strings.Split(s, ":")
	p := c22Prim{op: f[0], arg: f[1]}
	fmt.Sscan(f[2], &p.slot)
	if len(f) > 3 {
		fmt.Sscan(f[3], &p.to)
	}
	return p
}

// c22Apply steps the model: returns the expected log line, whether the
// operation must fail, and the relation class.
func (p c22Prim) apply(m *c22Model) (log string, fails bool, rel string) {
	cur := m[p.slot]
	switch p.op {
	case "save":
		if cur.Kind != "" {
			return "", true, "occupied"
		}
		m[p.slot] = c22Val{p.arg, p.slot + 1}
		return "saved", false, "free"
	case "load", "copy", "borrow":
		rel = c22Relation(cur.Kind, p.arg)
		if cur.Kind == "" {
			return "nil", false, rel
		}
		if !c22Conforms[cur.Kind][p.arg] {
			return "", true, rel
		}
		if p.op == "load" {
			m[p.slot] = c22Val{}
		}
		return c22Show(cur.Kind, cur.P), false, rel
	case "mv": // load<any of its kind>! from slot, save to "to"
		wantRes := p.arg == "AnyResource"
		if cur.Kind == "" {
			return "", true, "empty"
		}
		if (cur.Kind == "r") != wantRes {
			return "", true, "unrelated-kind"
		}
		if m[p.to].Kind != "" {
			return "", true, "occupied"
		}
		m[p.to] = cur
		m[p.slot] = c22Val{}
		return "moved", false, "super"
	}
	panic(p.op)
}

func (p c22Prim) source(i int) string {
	s := c22Slots[p.slot]
	v := fmt.Sprintf("v%d", i)
	switch p.op {
	case "save":
		return fmt.Sprintf("%s.storage.save(%s, to: %s)\nlog(\"saved\")", s.acct, c22Expr(p.arg, p.slot+1), s.path)
	case "load", "copy":
		t := c22TypeByName[p.arg]
		if t.resource {
			// (copy is not offered for resource types)
			return fmt.Sprintf("if let %s <- %s.storage.load<@%s>(from: %s) { log(T.showR(&%s as &AnyResource)); destroy %s } else { log(\"nil\") }", v, s.acct, t.src, s.path, v, v)
		}
		return fmt.Sprintf("let %s = %s.storage.%s<%s>(from: %s)\nlog(%s == nil ? \"nil\" : T.show(%s!))", v, s.acct, p.op, t.src, s.path, v, v)
	case "borrow":
		t := c22TypeByName[p.arg]
		fn := "showRef"
		if t.resource {
			fn = "showR"
		}
		return fmt.Sprintf("let %s = %s.storage.borrow<&%s>(from: %s)\nlog(%s == nil ? \"nil\" : T.%s(%s!))", v, s.acct, t.src, s.path, v, fn, v)
	case "mv":
		d := c22Slots[p.to]
		if p.arg == "AnyResource" {
			return fmt.Sprintf("let %s <- %s.storage.load<@AnyResource>(from: %s)!\n%s.storage.save(<- %s, to: %s)\nlog(\"moved\")", v, s.acct, s.path, d.acct, v, d.path)
		}
		return fmt.Sprintf("let %s = %s.storage.load<AnyStruct>(from: %s)!\n%s.storage.save(%s, to: %s)\nlog(\"moved\")", v, s.acct, s.path, d.acct, v, d.path)
	}
	panic(p.op)
}

// a transaction = primitives joined by "+", optionally "+panic"
func c22Tx(op string) (src string, prims []c22Prim, abort bool) {
	var body []string
	for i, part := range strings.Split(op, "+") {
		if part == "panic" {
			abort = true
			body = append(body, `panic("abort")`)
			continue
		}
		p := c22ParsePrim(part)
		prims = append(prims, p)
		body = append(body, p.source(i))
	}
	return "import T from 0x9\ntransaction { prepare(a1: auth(Storage) &Account, a2: auth(Storage) &Account) {\n" + strings.Join(body, "\n") + "\n} }", prims, abort
}

// c22Expect steps the model over a transaction.
func c22Expect(m c22Model, prims []c22Prim, abort bool) (next c22Model, logs []string, fails bool, rels []string) {
	next = m
	for _, p := range prims {
		lg, f, rel := p.apply(&next)
		rels = append(rels, p.op+"/"+rel)
		if f {
			return m, logs, true, rels
		}
		logs = append(logs, lg)
	}
	if abort {
		return m, logs, true, rels
	}
	return next, logs, false, rels
}

// observer: generated from the model (which slots hold what) so that it never
// performs a call the model says must fail
func c22Observer(m c22Model) string {
	var sb strings.Builder
	sb.WriteString("import T from 0x9\n")
	// one slot: mode 0 = model says empty, 1 = struct value, 2 = resource
	sb.WriteString("access(all) fun slot(_ a: auth(Storage) &Account, _ p: StoragePath, _ i: String, _ mode: Int, _ out: auth(Mutate) &[String]) {\n")
	sb.WriteString("  out.append(\"type \".concat(i).concat(\" \").concat(a.storage.type(at: p)?.identifier ?? \"nil\"))\n")
	sb.WriteString("  var bits = \"\"\n")
	for _, t := range c22Types {
		ts := t.src
		if t.resource {
			ts = "@" + ts
		}
		fmt.Fprintf(&sb, "  bits = bits.concat(a.storage.check<%s>(from: p) ? \"1\" : \"0\")\n", ts)
	}
	sb.WriteString("  out.append(\"check \".concat(i).concat(\" \").concat(bits))\n")
	sb.WriteString("  var v = \"nil\"\n")
	sb.WriteString("  if mode == 0 { if a.storage.copy<AnyStruct>(from: p) != nil || a.storage.borrow<&AnyResource>(from: p) != nil { v = \"present\" } }\n")
	sb.WriteString("  if mode == 1 { v = T.show(a.storage.copy<AnyStruct>(from: p)!) }\n")
	sb.WriteString("  if mode == 2 { v = T.showR(a.storage.borrow<&AnyResource>(from: p)!) }\n")
	sb.WriteString("  out.append(\"value \".concat(i).concat(\" \").concat(v))\n}\n")
	sb.WriteString("access(all) fun main(): [String] {\n  let out: [String] = []\n")
	sb.WriteString("  let a1 = getAuthAccount<auth(Storage) &Account>(0x1)\n  let a2 = getAuthAccount<auth(Storage) &Account>(0x2)\n")
	for _, a := range []string{"a1", "a2"} {
		fmt.Fprintf(&sb, "  for p in %s.storage.storagePaths { out.append(\"paths %s \".concat(p.toString())) }\n", a, a)
		fmt.Fprintf(&sb, "  %s.storage.forEachStored(fun (path: StoragePath, type: Type): Bool { out.append(\"each %s \".concat(path.toString()).concat(\" \").concat(type.identifier)); return true })\n", a, a)
	}
	for i, s := range c22Slots {
		mode := 1
		switch m[i].Kind {
		case "":
			mode = 0
		case "r":
			mode = 2
		}
		fmt.Fprintf(&sb, "  slot(%s, %s, \"%d\", %d, &out as auth(Mutate) &[String])\n", s.acct, s.path, i, mode)
	}
	sb.WriteString("  return out\n}\n")
	return sb.String()
}

func c22ExpectedObservation(m c22Model) []string {
	var out []string
	for i, s := range c22Slots {
		v := m[i]
		p := strings.Replace(s.path, "/storage/", "/storage/", 1)
		if v.Kind != "" {
			out = append(out, fmt.Sprintf("paths %s %s", s.acct, p), fmt.Sprintf("each %s %s %s", s.acct, p, c22TypeID(v.Kind)))
			out = append(out, fmt.Sprintf("type %d %s", i, c22TypeID(v.Kind)), fmt.Sprintf("value %d %s", i, c22Show(v.Kind, v.P)))
		} else {
			out = append(out, fmt.Sprintf("type %d nil", i), fmt.Sprintf("value %d nil", i))
		}
		bits := ""
		for _, t := range c22Types {
			if v.Kind != "" && c22Conforms[v.Kind][t.name] {
				bits += "1"
			} else {
				bits += "0"
			}
		}
		out = append(out, fmt.Sprintf("check %d %s", i, bits))
	}
	sort.Strings(out)
	return out
}

func c22Init(vm bool) *rt.Ledger {
	l := rt.NewLedger()
	rt.Deploy(l, rt.Addr(9), "T", c22Contract, vm)
	return l
}

// c22Step executes one transaction and judges it. sig=="" means conforming.
// observe decides whether the observer script runs on the resulting state
// (nil = always).
func c22Step(st c22State, op string, observe func(next c22State) bool) (next c22State, sig, detail string, rels []string, res *rt.Result) {
	src, prims, abort := c22Tx(op)
	wantM, wantLogs, wantFail, rels := c22Expect(st.M, prims, abort)
	l := st.L.Clone()
	res = rt.Run(l, rt.Tx{Source: src, Signers: signers(1, 2), UseVM: st.VM})
	next = c22State{L: l, VM: st.VM, M: wantM}
	opk := c22OpKind(op)
	relk := strings.Join(rels, ",")
	if strings.Contains(res.Kind, "CheckerError") || strings.Contains(res.Kind, "ParserError") {
		return next, "HARNESS", "ill-formed transaction: " + res.ErrString() + "\n" + src, rels, res
	}
	if wantFail {
		if res.OK() {
			return next, fmt.Sprintf("%s|%s|must-fail-but-succeeded", opk, relk), fmt.Sprintf("model %v: %s must fail, but it succeeded with logs %v", st.M, op, res.Logs), rels, res
		}
		if res.Class != "user" {
			return next, fmt.Sprintf("%s|%s|failed-with-%s", opk, relk, res.Class), fmt.Sprintf("model %v: %s failed with a non-user error: %s", st.M, op, res.ErrString()), rels, res
		}
		// the logs before the failure must be the model's
		for i, lg := range res.Logs {
			if i >= len(wantLogs) || strings.Trim(lg, "\"") != wantLogs[i] {
				return next, fmt.Sprintf("%s|%s|wrong-result-before-failure", opk, relk), fmt.Sprintf("model %v: %s logged %v, model %v", st.M, op, res.Logs, wantLogs), rels, res
			}
		}
	} else {
		if !res.OK() {
			return next, fmt.Sprintf("%s|%s|must-succeed-but-failed", opk, relk), fmt.Sprintf("model %v: %s must succeed with %v, but failed: %s", st.M, op, wantLogs, short(res.ErrString(), 300)), rels, res
		}
		got := make([]string, len(res.Logs))
		for i, lg := range res.Logs {
			got[i] = strings.Trim(lg, "\"")
		}
		if strings.Join(got, "|") != strings.Join(wantLogs, "|") {
			return next, fmt.Sprintf("%s|%s|wrong-result", opk, relk), fmt.Sprintf("model %v: %s returned %v, model %v", st.M, op, got, wantLogs), rels, res
		}
	}
	if !res.OK() {
		// rt.Run leaves the ledger byte-identical after a failed transaction (the
		// host discards it), and that ledger was observed when it was reached
		return next, "", "", rels, res
	}
	if herr := rtx.Health(l); herr != nil {
		return next, fmt.Sprintf("unhealthy-after|%s|%s", opk, rtx.HealthKind(herr)), herr.Error(), rels, res
	}
	if observe != nil && !observe(next) {
		return next, "", "", rels, res
	}
	// observer in a fresh runtime on the committed ledger
	o := rt.Run(l, rt.Tx{Source: c22Observer(wantM), Script: true, UseVM: st.VM})
	if !o.OK() {
		return next, fmt.Sprintf("observer-after|%s|%s|failed", opk, relk), fmt.Sprintf("model %v after %s: observer failed: %s", wantM, op, short(o.ErrString(), 300)), rels, res
	}
	got := c22Strings(o)
	sort.Strings(got)
	want := c22ExpectedObservation(wantM)
	if strings.Join(got, "\n") != strings.Join(want, "\n") {
		what := "?"
		for i := 0; i < len(got) || i < len(want); i++ {
			if i >= len(got) || i >= len(want) || got[i] != want[i] {
				if i < len(want) {
					what = strings.Fields(want[i])[0]
				} else {
					what = strings.Fields(got[i])[0]
				}
				break
			}
		}
		return next, fmt.Sprintf("observer-after|%s|%s|%s", opk, relk, what), fmt.Sprintf("model %v after %s: observer saw\n%s\nmodel says\n%s", wantM, op, strings.Join(got, "\n"), strings.Join(want, "\n")), rels, res
	}
	return next, "", "", rels, res
}

func c22Key(s c22State) string {
	return engName(s.VM) + "\n" + s.M.String() + "\n" + rtx.DumpWith(s.L, rtx.Options{NormalizeUUIDs: true, OmitCode: true})
}

func c22OpKind(op string) string {
	var ks []string
	for _, part := range strings.Split(op, "+") {
		f := strings.Split(part, ":")
		ks = append(ks, f[0])
	}
	return strings.Join(ks, "+")
}

func c22Ops(env *mc.Env) []string {
	var ops []string
	// quick: slots 0, 2, 3 (both accounts, both paths of account 2); thorough: all four
	n := len(c22Slots)
	skip := -1
	if !env.Thorough() {
		skip = 1
	}
	for s := 0; s < n; s++ {
		if s == skip {
			continue
		}
		for _, k := range c22Kinds {
			ops = append(ops, fmt.Sprintf("save:%s:%d", k, s))
		}
		for _, t := range c22Types {
			ops = append(ops, fmt.Sprintf("load:%s:%d", t.name, s), fmt.Sprintf("borrow:%s:%d", t.name, s))
			if !t.resource {
				ops = append(ops, fmt.Sprintf("copy:%s:%d", t.name, s))
			}
		}
		// aborted single operations
		ops = append(ops, fmt.Sprintf("save:int:%d+panic", s), fmt.Sprintf("save:r:%d+panic", s), fmt.Sprintf("save:arr:%d+panic", s),
			fmt.Sprintf("load:AnyStruct:%d+panic", s), fmt.Sprintf("load:AnyResource:%d+panic", s))
		for d := 0; d < n; d++ {
			if d == skip {
				continue
			}
			// two-operation transactions
			if d != s {
				ops = append(ops,
					fmt.Sprintf("mv:AnyStruct:%d:%d", s, d), fmt.Sprintf("mv:AnyResource:%d:%d", s, d),
					fmt.Sprintf("mv:AnyStruct:%d:%d+panic", s, d), fmt.Sprintf("mv:AnyResource:%d:%d+panic", s, d),
					fmt.Sprintf("save:s:%d+save:r:%d", s, d), fmt.Sprintf("save:big:%d+save:anyarr:%d+panic", s, d),
					fmt.Sprintf("save:int:%d+load:AnyStruct:%d", s, d), fmt.Sprintf("save:r:%d+load:AnyResource:%d+panic", s, d),
					fmt.Sprintf("load:AnyStruct:%d+save:big:%d", s, d), fmt.Sprintf("load:AnyResource:%d+load:AnyResource:%d", s, d))
			} else {
				ops = append(ops,
					fmt.Sprintf("save:int:%d+load:Int:%d", s, s),           // save then load in the same transaction
					fmt.Sprintf("save:int:%d+save:big:%d", s, s),           // second save must fail -> first rolled back
					fmt.Sprintf("load:AnyStruct:%d+save:s:%d", s, s),       // overwrite
					fmt.Sprintf("load:AnyResource:%d+save:r:%d", s, s),     // overwrite a resource
					fmt.Sprintf("load:AnyStruct:%d+load:AnyStruct:%d", s, s), // second load sees nil
					fmt.Sprintf("save:r:%d+borrow:RI:%d+load:R:%d", s, s, s),
					fmt.Sprintf("load:AnyStruct:%d+save:int:%d+panic", s, s))
			}
		}
	}
	return ops
}

func c22Strings(o *rt.Result) []string {
	if a, ok := cadenceStrings(o.Value); ok {
		return a
	}
	return []string{"<unexpected observer result: " + o.Value.String() + ">"}
}

func runC22(env *mc.Env) {
	ops := c22Ops(env)
	env.R.Set("alphabet_size", len(ops))
	var init []mc.Node[c22State]
	for _, vm := range both {
		init = append(init, mc.Node[c22State]{State: c22State{L: c22Init(vm), VM: vm}})
	}
	depth := mc.Pick(env, 3, 4)
	// Quick tier: the observer runs once per distinct resulting state (states
	// are merged by model + canonical dump, and the observer reads nothing but
	// decoded contents); thorough tier: after every committed transition.
	var seenObs sync.Map
	observe := func(next c22State) bool {
		if env.Thorough() {
			return true
		}
		_, dup := seenObs.LoadOrStore(mc.Hash(c22Key(next)), true)
		if !dup {
			env.R.Add("observer_runs", 1)
		}
		return !dup
	}
	for _, n := range init {
		if _, sig, detail, _, _ := c22Step(n.State, "load:Int:0", nil); sig != "" {
			env.R.HarnessError("C22: initial state does not pass its own oracle: %s %s", sig, detail)
			return
		}
	}
	states, trans := mc.BFS(env, mc.BFSOpts[c22State]{
		Init:     init,
		MaxDepth: depth,
		Ops:      func(n *mc.Node[c22State]) []string { return ops },
		Step: func(n *mc.Node[c22State], op string) (c22State, bool) {
			next, sig, detail, rels, res := c22Step(n.State, op, observe)
			env.R.Eval()
			if sig == "HARNESS" {
				env.R.HarnessError("C22: %s", detail)
				return next, false
			}
			if sig != "" {
				path := append(append([]string{}, n.Path...), op)
				env.R.Violation(sig+"|"+engName(n.State.VM), c22Case{VM: n.State.VM, Path: path}, fmt.Sprintf("path %v: %s", path, detail))
				return next, false
			}
			for _, r := range rels {
				cls := r
				if !res.OK() {
					cls += "/tx-failed"
				}
				env.R.Class(cls, nil)
				// non-trivial: an operation on an occupied slot, or an aborted transaction after a mutation
				if !strings.HasSuffix(r, "/empty") && !strings.HasSuffix(r, "/free") {
					env.R.Nontrivial(fmt.Sprintf("%s|%v|%s|%s", engName(n.State.VM), n.State.M, op, r))
				}
			}
			return next, true
		},
		Key: c22Key,
	})
	env.R.Set("bfs_states", states)
	env.R.Set("bfs_transitions", trans)
}

func replayC22(env *mc.Env, raw json.RawMessage) (bool, string) {
	var c c22Case
	if err := json.Unmarshal(raw, &c); err != nil {
		return false, err.Error()
	}
	st := c22State{L: c22Init(c.VM), VM: c.VM}
	for i, op := range c.Path {
		next, sig, detail, _, _ := c22Step(st, op, nil)
		if sig == "HARNESS" {
			return false, detail
		}
		if sig != "" {
			return true, fmt.Sprintf("step %d (%s): %s: %s", i, op, sig, short(detail, 800))
		}
		st = next
	}
	return false, "conforms"
}

func init() {
	mc.Register(&mc.Check{
		ID: "C22",
		Rule: "breadth-first search over all transaction histories up to depth 3 (quick) / 4 (thorough), both engines, on 4 slots (2 accounts x 2 paths); alphabet (~530 transactions): save of 6 value kinds, load<T>/borrow<&T> for 13 type arguments and copy<T> for 9 (exact, super-, sub-, unrelated and wrong-kind types), aborted variants, and two/three-operation transactions (move across slots and accounts, save+load, double save, overwrite, double load), each optionally ending in panic; after every transition an observer script in a fresh runtime reads storagePaths, forEachStored, type(at:), check<T> for all 13 types and the value of every slot; compared with a Go map model (incl. rollback on abort); rtx.Health before states are merged by canonical dump. Non-trivial = distinct (state, operation) pair that acts on an occupied slot.",
		Assumptions: []string{
			"the subtype relation among the 6 value kinds and 13 type arguments is the hand-written table c22Conforms (Int<:Integer<:AnyStruct, S<:{I}, [Int]<:[AnyStruct], R<:{RI}<:AnyResource)",
			"failures are required to be user-class errors; their Go types are recorded, not judged",
		},
		Run:    runC22,
		Replay: replayC22,
	})
}

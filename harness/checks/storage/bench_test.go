package storage

import (
	"testing"
	"time"

	"verif/rt"
	"verif/rtx"
)

func TestBenchC22(t *testing.T) {
	st := c22State{L: c22Init(false)}
	st, _, _, _, _ = c22Step(st, "save:arr:0", nil)
	t0 := time.Now()
	for i := 0; i < 100; i++ {
		c22Step(st, "borrow:ArrInt:0", nil)
	}
	t.Log("step", time.Since(t0)/100)
	src, _, _ := c22Tx("borrow:ArrInt:0")
	t0 = time.Now()
	for i := 0; i < 100; i++ {
		l := st.L.Clone()
		rt.Run(l, rt.Tx{Source: src, Signers: signers(1, 2)})
	}
	t.Log("tx", time.Since(t0)/100)
	obs := c22Observer(st.M)
	t0 = time.Now()
	for i := 0; i < 100; i++ {
		rt.Run(st.L, rt.Tx{Source: obs, Script: true})
	}
	t.Log("observer", time.Since(t0)/100)
	t0 = time.Now()
	for i := 0; i < 100; i++ {
		rtx.Health(st.L)
	}
	t.Log("health", time.Since(t0)/100)
	t0 = time.Now()
	for i := 0; i < 100; i++ {
		rtx.Dump(st.L)
	}
	t.Log("dump", time.Since(t0)/100)
}

func TestC20Smoke(t *testing.T) {
	for _, k := range c20Kinds() {
		for _, vm := range both {
			th, err := c20Thresholds(k, vm)
			if err != nil {
				t.Fatal(err)
			}
			t.Logf("%s %s thresholds %+v", k, engName(vm), th)
			root := &c20Root{K: k, VM: vm, Start: 5, Th: th, Bulk: 60}
			st, err := c20InitState(root)
			if err != nil {
				t.Fatal(err)
			}
			for _, op := range c20Ops(k) {
				t0 := time.Now()
				_, o := c20Step(st, nil, op, true)
				if o.Harness || o.Sig != "" {
					t.Errorf("%s %s %s: %s %s", k, engName(vm), op, o.Sig, short(o.Detail, 700))
				}
				_ = t0
			}
		}
	}
}

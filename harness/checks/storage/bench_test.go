package storage

import (
	"testing"
	"time"

	"verif/rt"
	"verif/rtx"
)

func TestBenchC22(t *testing.T) {
	st := c22State{L: c22Init(false)}
	st, _, _, _, _ = c22Step(st, "save:arr:0", nil)
	t0 := time.Now()
	for i := 0; i < 100; i++ {
		c22Step(st, "borrow:ArrInt:0", nil)
	}
	t.Log("step", time.Since(t0)/100)
	src, _, _ := c22Tx("borrow:ArrInt:0")
	t0 = time.Now()
	for i := 0; i < 100; i++ {
		l := st.L.Clone()
		rt.Run(l, rt.Tx{Source: src, Signers: signers(1, 2)})
	}
	t.Log("tx", time.Since(t0)/100)
	obs := c22Observer(st.M)
	t0 = time.Now()
	for i := 0; i < 100; i++ {
		rt.Run(st.L, rt.Tx{Source: obs, Script: true})
	}
	t.Log("observer", time.Since(t0)/100)
	t0 = time.Now()
	for i := 0; i < 100; i++ {
		rtx.Health(st.L)
	}
	t.Log("health", time.Since(t0)/100)
	t0 = time.Now()
	for i := 0; i < 100; i++ {
		rtx.Dump(st.L)
	}
	t.Log("dump", time.Since(t0)/100)
}

package storage

import (
	"encoding/json"
	"fmt"
	"strings"

	"verif/mc"
	"verif/rt"
	"verif/rtx"
)

// C23 — committed storage is always healthy.
//
// Explicit-state search over transaction histories on nested values. Every
// transition is one transaction (fresh runtime, fresh storage over the cloned
// ledger, AtreeValidationEnabled = false as in production so that the
// runtime's own commit-time health check cannot hide an unhealthy commit
// behind a failed transaction). After every committed transaction the
// independent whole-ledger check rtx.Health runs on the result, before the
// state is merged with an equal-looking one.

const c23Contract = `access(all) contract N {
  access(all) resource Item {
    access(all) let id: Int
    access(all) var tags: [Int]
    init(_ id: Int, _ n: Int) { self.id = id; self.tags = []; var i = 0; while i < n { self.tags.append(i); i = i + 1 } }
  }
  access(all) resource Coll {
    access(mapping Identity) var items: @[Item]
    access(mapping Identity) var map: @{Int: Item}
    access(mapping Identity) var smap: @{String: Item}
    access(all) var opt: @Coll?
    access(mapping Identity) var oitems: @[Item?]
    init(_ n: Int, _ t: Int) {
      self.items <- []
      self.map <- {}
      self.smap <- {}
      self.opt <- nil
      self.oitems <- [<- create Item(500, t * 50), nil, <- create Item(501, 1)]
      var i = 0
      while i < n {
        self.items.append(<- create Item(i, t))
        let old <- self.map.insert(key: i, <- create Item(100 + i, t))
        destroy old
        i = i + 1
      }
    }
    access(all) fun takeItem(): @Item? { if self.items.length == 0 { return nil }; return <- self.items.remove(at: 0) }
    access(all) fun takeLast(): @Item? { if self.items.length == 0 { return nil }; return <- self.items.removeLast() }
    access(all) fun takeMap(_ k: Int): @Item? { return <- self.map.remove(key: k) }
    access(all) fun putItem(_ i: @Item) { self.items.append(<- i) }
    access(all) fun putFront(_ i: @Item) { self.items.insert(at: 0, <- i) }
    access(all) fun putMap(_ k: Int, _ i: @Item) { let old <- self.map.insert(key: k, <- i); destroy old }
    access(all) fun setOpt(_ c: @Coll?) { let old <- self.opt <- c; destroy old }
    access(all) fun takeOpt(): @Coll? { let o <- self.opt <- nil; return <- o }
    access(all) fun putS(_ k: String, _ i: @Item) { let old <- self.smap.insert(key: k, <- i); destroy old }
    access(all) fun takeS(_ k: String): @Item? { return <- self.smap.remove(key: k) }
    access(all) fun oiSet(_ i: @Item?) { let old <- self.oitems[0] <- i; destroy old }
    // (any swap statement x <-> self.oitems[i] is accepted by the checker but fails at run time on both engines, see notes)
    access(all) fun oiSwap() { let a <- self.oitems[0] <- nil; let b <- self.oitems[1] <- a; let c <- self.oitems[0] <- b; destroy c }
    access(all) fun swapFirst() { if self.items.length > 0 && self.map[0] != nil { let a <- self.items.remove(at: 0); let b <- self.map.insert(key: 0, <- a); self.items.insert(at: 0, <- b!) } }
  }
  access(all) struct Box {
    access(mapping Identity) var a: [Int]
    access(mapping Identity) var b: [[Int]]
    access(mapping Identity) var d: {Int: [Int]}
    access(mapping Identity) var sd: {String: [Int]}
    access(all) var inner: [Box]
    // optional element / value / field types; the non-nil ones are containers or ~1 KB strings
    access(mapping Identity) var oa: [[Int]?]
    access(mapping Identity) var os: [String?]
    access(mapping Identity) var ob: [Pt?]
    access(mapping Identity) var od: {Int: [Int]?}
    access(all) var of: [Int]?
    access(all) var ofs: String?
    init(_ n: Int, _ m: Int) {
      self.a = []
      self.b = []
      self.d = {}
      self.sd = {"short": [1]}
      if m >= 40 { self.sd[N.longKey(0)] = [0] }
      self.inner = []
      var i = 0
      while i < n { self.a.append(i); i = i + 1 }
      i = 0
      while i < m { self.b.append([i, i + 1, i + 2]); self.d[i] = [i, i]; i = i + 1 }
      self.oa = []
      self.od = {}
      i = 0
      while i < m {
        if i % 3 == 2 { self.oa.append(nil); let none: [Int]? = nil; self.od[i] = none } else { self.oa.append([i, i + 1]); self.od[i] = [i] }
        i = i + 1
      }
      self.oa.append(nil)
      self.os = [N.longStr(0), nil, "s"]
      self.ob = [Pt(1), nil]
      self.of = [1]
      self.ofs = nil
      if m >= 40 { self.os.append(N.longStr(1)); self.of = N.ints(150); self.ofs = N.longStr(3) }
    }
    access(all) fun setOf(_ v: [Int]?) { self.of = v }
    access(all) fun setOfs(_ v: String?) { self.ofs = v }
    access(all) fun oaSwap() { if self.oa.length > 1 { self.oa[0] <-> self.oa[self.oa.length - 1] } }
    access(all) fun osSwap() { self.os[0] <-> self.os[1] }
    access(all) fun odSwap() { self.od[0] <-> self.od[2] }
    access(all) fun ofSwapOa() { if self.oa.length > 0 { self.of <-> self.oa[0] } }
    access(all) fun setA(_ v: [Int]) { self.a = v }
    access(all) fun setB(_ v: [[Int]]) { self.b = v }
    access(all) fun setD(_ k: Int, _ v: [Int]?) { self.d[k] = v }
    access(all) fun pushInner(_ x: Box) { self.inner.append(x) }
    access(all) fun popInner() { if self.inner.length > 0 { self.inner.removeLast() } }
    access(all) fun clearInner() { self.inner = [] }
    access(all) fun clearD() { self.d = {} }
    access(all) fun b0AppendAll(_ xs: [Int]) { if self.b.length > 0 { self.b[0].appendAll(xs) } }
  }
  access(all) struct Pt {
    access(all) let x: Int
    access(all) let ys: [Int]
    init(_ x: Int) { self.x = x; self.ys = [x, x] }
  }
  // a ~1000-character string: too large to be stored inline in an array
  access(all) view fun longStr(_ i: Int): String { var s = "s".concat(i.toString()); while s.length < 1000 { s = s.concat("0123456789") }; return s }
  // a ~400-character key: too large to be stored inline in a dictionary
  access(all) view fun longKey(_ i: Int): String { var s = "k".concat(i.toString()); while s.length < 400 { s = s.concat("0123456789") }; return s }
  access(all) fun mkColl(_ n: Int, _ t: Int): @Coll { return <- create Coll(n, t) }
  access(all) fun mkItem(_ id: Int, _ t: Int): @Item { return <- create Item(id, t) }
  access(all) fun itemOr(_ x: @Item?, _ id: Int): @Item { if let y <- x { return <- y }; return <- create Item(id, 1) }
  access(all) fun collOr(_ x: @Coll?): @Coll { if let y <- x { return <- y }; return <- create Coll(0, 0) }
  access(all) fun ints(_ n: Int): [Int] { let r: [Int] = []; var i = 0; while i < n { r.append(i); i = i + 1 }; return r }
}`

// slots of account storage used by the search
type c23Slot struct {
	acct string // signer variable
	path string
}

var c23Slots = []c23Slot{{"a1", "/storage/p"}, {"a2", "/storage/p"}, {"a2", "/storage/q"}}

// value kinds a slot can hold (the model; it only decides which operations are enabled)
const (
	kNone = ""
	kColl = "coll"
	kBox  = "box"
	kItem = "item"
)

type c23State struct {
	L     *rt.Ledger
	VM    bool
	Kinds [3]string
}

type c23Case struct {
	VM   bool     `json:"vm"`
	Path []string `json:"path"`
}

func c23Tx(body string) string {
	return "import N from 0x9\ntransaction { prepare(a1: auth(Storage) &Account, a2: auth(Storage) &Account) {\n" + body + "\n} }"
}

// value constructors by name. Sizes: "S" small (everything inlined),
// "B" big (40 resources in the array and 40 in the dictionary, 150-element
// Int array: forces child slabs and multi-slab containers).
var c23Mk = map[string]struct{ expr, kind string }{
	"collS": {"<- N.mkColl(2, 1)", kColl},
	"collB": {"<- N.mkColl(40, 3)", kColl},
	"boxS":  {"N.Box(2, 2)", kBox},
	"boxB":  {"N.Box(150, 40)", kBox},
	"item":  {"<- N.mkItem(7, 2)", kItem},
	"itemB": {"<- N.mkItem(8, 150)", kItem},
}
var c23MkOrder = []string{"collS", "collB", "boxS", "boxB", "item", "itemB"}

func loadAny(s c23Slot, kind string) string {
	if kind == kBox {
		return fmt.Sprintf("%s.storage.load<AnyStruct>(from: %s)!", s.acct, s.path)
	}
	return fmt.Sprintf("<- %s.storage.load<@AnyResource>(from: %s)!", s.acct, s.path)
}

// ops on a Coll stored in slot s (through a reference); {R} is the reference
var c23CollOps = map[string]string{
	"takeItemDestroy": `let x <- r.takeItem(); destroy x`,
	"takeLastDestroy": `let x <- r.takeLast(); destroy x`,
	"takeMapDestroy":  `let x <- r.takeMap(0); destroy x`,
	"takeMap1Destroy": `let x <- r.takeMap(1); destroy x`,
	"putItem":         `r.putItem(<- N.mkItem(50, 2))`,
	"putItemBig":      `r.putFront(<- N.mkItem(51, 150))`,
	"putMapReplace":   `r.putMap(0, <- N.mkItem(60, 2))`,
	"putMapNew":       `r.putMap(1000, <- N.mkItem(61, 2))`,
	"putMapBig":       `r.putMap(5, <- N.mkItem(52, 150))`,
	"putLongKey":      `r.putS(N.longKey(1), <- N.mkItem(53, 2))`,
	"putLongKeyBig":   `r.putS(N.longKey(1), <- N.mkItem(54, 150))`,
	"takeLongKey":     `let x <- r.takeS(N.longKey(1)); destroy x`,
	"directLongKey":   `let old <- r.smap.insert(key: N.longKey(2), <- N.mkItem(55, 2)); destroy old; let y <- r.smap.remove(key: N.longKey(2)); destroy y`,
	"setOptSmall":     `r.setOpt(<- N.mkColl(1, 1))`,
	"setOptBig":       `r.setOpt(<- N.mkColl(40, 3))`,
	"takeOptDestroy":  `let x <- r.takeOpt(); destroy x`,
	"swapFirst":       `r.swapFirst()`,
	"oiSetBig":        `r.oiSet(<- N.mkItem(57, 150))`,
	"oiSetNil":        `r.oiSet(nil)`,
	"oiSwap":          `r.oiSwap()`,
	"directRemove":    `if r.items.length > 0 { let x <- r.items.remove(at: r.items.length / 2); destroy x }`,
	"directMapRemove": `let x <- r.map.remove(key: 2); destroy x`,
	"directInsert":    `let old <- r.map.insert(key: 2, <- N.mkItem(62, 3)); destroy old`,
	"drain":           `while r.items.length > 0 { let x <- r.items.removeLast(); destroy x }; for k in r.map.keys { let y <- r.map.remove(key: k); destroy y }`,
	"fill":            `var i = 0; while i < 40 { r.putItem(<- N.mkItem(200 + i, 3)); r.putMap(200 + i, <- N.mkItem(300 + i, 3)); i = i + 1 }`,
}

var c23BoxOps = map[string]string{
	"aAppend":     `r.a.append(7)`,
	"aAppend200":  `var i = 0; while i < 200 { r.a.append(i); i = i + 1 }`,
	"aRemoveLast": `if r.a.length > 0 { r.a.removeLast() }`,
	"aClear":      `r.setA([])`,
	"aBig":        `r.setA(N.ints(150))`,
	"b0Append":    `r.b0AppendAll([9])`,
	"b0Big":       `r.b0AppendAll(N.ints(150))`,
	"bRemove0":    `if r.b.length > 0 { r.b.remove(at: 0) }`,
	"bAppendNew":  `r.b.append([1, 2, 3])`,
	"bClear":      `r.setB([])`,
	"dOverwrite":  `r.setD(0, [9, 9, 9])`,
	"dOverwriteBig": `r.setD(0, N.ints(150))`,
	"dNew":        `r.setD(1000, [1])`,
	"dRemove":     `r.d.remove(key: 0)`,
	"dNil":        `r.setD(1, nil)`,
	"pushInner":   `r.pushInner(N.Box(3, 3))`,
	"pushInnerBig": `r.pushInner(N.Box(150, 40))`,
	"popInner":    `r.popInner()`,
	"clearInner":  `r.clearInner()`,
	"dClear":      `r.clearD()`,
	"sdInsertLong": `r.sd[N.longKey(1)] = [1, 2]`,
	"sdOverwriteLong": `r.sd[N.longKey(1)] = N.ints(150)`,
	"sdRemoveLong": `r.sd.remove(key: N.longKey(1))`,
	"sdRemoveLong0": `r.sd.remove(key: N.longKey(0))`,
	"sdRemoveShort": `r.sd.remove(key: "short")`,
	"sdNilLong":    `r.sd[N.longKey(1)] = nil`,
	// optional element types: index assignment, overwrite, nil, swap
	"oaSet":        `if r.oa.length > 0 { r.oa[0] = [9, 9] }`,
	"oaSetBig":     `if r.oa.length > 0 { r.oa[0] = N.ints(150) }`,
	"oaSetNil":     `if r.oa.length > 0 { r.oa[0] = nil }`,
	"oaSetLast":    `if r.oa.length > 0 { r.oa[r.oa.length - 1] = [5, 5] }`,
	"oaSwap":       `r.oaSwap()`,
	"oaRemove":     `if r.oa.length > 0 { r.oa.remove(at: 0) }`,
	"osSet":        `r.os[0] = N.longStr(9)`,
	"osSetNil":     `r.os[0] = nil`,
	"osSwap":       `r.osSwap()`,
	"obSet":        `r.ob[0] = N.Pt(2)`,
	"odOverwrite":  `r.od[0] = [9]`,
	"odOverwriteBig": `r.od[0] = N.ints(150)`,
	"odInnerNil":   `let none: [Int]? = nil; r.od[0] = none`,
	"odRemove":     `r.od[0] = nil`,
	"odSwap":       `r.odSwap()`,
	"ofBig":        `r.setOf(N.ints(150))`,
	"ofNil":        `r.setOf(nil)`,
	"ofsSet":       `r.setOfs(N.longStr(8))`,
	"ofSwapOa":     `r.ofSwapOa()`,
}

// c23Source returns the transaction for an operation label, or "" if the
// label is not enabled in the given model state.
func c23Source(kinds [3]string, op string) (src string, newKinds [3]string) {
	f := strings.Split(op, ":")
	newKinds = kinds
	slot := func(i int) (int, c23Slot) {
		var n int
		fmt.Sscan(f[i], &n)
		return n, c23Slots[n]
	}
	switch f[0] {
	case "save": // save:<mk>:<slot>
		mk := c23Mk[f[1]]
		i, s := slot(2)
		if kinds[i] != kNone {
			return "", kinds
		}
		newKinds[i] = mk.kind
		return c23Tx(fmt.Sprintf("%s.storage.save(%s, to: %s)", s.acct, mk.expr, s.path)), newKinds
	case "over": // over:<mk>:<slot>  load (and destroy) then save a new value
		mk := c23Mk[f[1]]
		i, s := slot(2)
		if kinds[i] == kNone {
			return "", kinds
		}
		newKinds[i] = mk.kind
		var drop string
		if kinds[i] == kBox {
			drop = "let old = " + loadAny(s, kinds[i])
		} else {
			drop = "let old " + loadAny(s, kinds[i]) + "\ndestroy old"
		}
		return c23Tx(fmt.Sprintf("%s\n%s.storage.save(%s, to: %s)", drop, s.acct, mk.expr, s.path)), newKinds
	case "move": // move:<from>:<to>
		i, s := slot(1)
		j, t := slot(2)
		if kinds[i] == kNone || kinds[j] != kNone || i == j {
			return "", kinds
		}
		newKinds[j], newKinds[i] = kinds[i], kNone
		if kinds[i] == kBox {
			return c23Tx(fmt.Sprintf("let v = %s\n%s.storage.save(v, to: %s)", loadAny(s, kBox), t.acct, t.path)), newKinds
		}
		return c23Tx(fmt.Sprintf("let v %s\n%s.storage.save(<- v, to: %s)", loadAny(s, kinds[i]), t.acct, t.path)), newKinds
	case "copy": // copy:<from>:<to> (structs only)
		i, s := slot(1)
		j, t := slot(2)
		if kinds[i] != kBox || kinds[j] != kNone {
			return "", kinds
		}
		newKinds[j] = kBox
		return c23Tx(fmt.Sprintf("let v = %s.storage.copy<N.Box>(from: %s)!\n%s.storage.save(v, to: %s)", s.acct, s.path, t.acct, t.path)), newKinds
	case "destroy": // destroy:<slot>
		i, s := slot(1)
		if kinds[i] == kNone {
			return "", kinds
		}
		newKinds[i] = kNone
		if kinds[i] == kBox {
			return c23Tx("let old = " + loadAny(s, kBox)), newKinds
		}
		return c23Tx("let old " + loadAny(s, kinds[i]) + "\ndestroy old"), newKinds
	case "coll": // coll:<name>:<slot>
		i, s := slot(2)
		if kinds[i] != kColl {
			return "", kinds
		}
		return c23Tx(fmt.Sprintf("let r = %s.storage.borrow<auth(Mutate) &N.Coll>(from: %s)!\n%s", s.acct, s.path, c23CollOps[f[1]])), newKinds
	case "box": // box:<name>:<slot>
		i, s := slot(2)
		if kinds[i] != kBox {
			return "", kinds
		}
		return c23Tx(fmt.Sprintf("let r = %s.storage.borrow<auth(Mutate) &N.Box>(from: %s)!\n%s", s.acct, s.path, c23BoxOps[f[1]])), newKinds
	case "out": // out:<from>:<to>  move a nested resource out of a stored Coll into its own slot
		i, s := slot(1)
		j, t := slot(2)
		if kinds[i] != kColl || kinds[j] != kNone {
			return "", kinds
		}
		newKinds[j] = kItem
		// takeItem may return nil (empty array): then fall back to a fresh item so that the model stays exact
		return c23Tx(fmt.Sprintf("let r = %s.storage.borrow<&N.Coll>(from: %s)!\nlet x <- N.itemOr(<- r.takeItem(), 70)\n%s.storage.save(<- x, to: %s)", s.acct, s.path, t.acct, t.path)), newKinds
	case "outmap": // outmap:<from>:<to>
		i, s := slot(1)
		j, t := slot(2)
		if kinds[i] != kColl || kinds[j] != kNone {
			return "", kinds
		}
		newKinds[j] = kItem
		return c23Tx(fmt.Sprintf("let r = %s.storage.borrow<&N.Coll>(from: %s)!\nlet x <- N.itemOr(<- r.takeMap(1), 71)\n%s.storage.save(<- x, to: %s)", s.acct, s.path, t.acct, t.path)), newKinds
	case "in": // in:<item slot>:<coll slot>  move a stored Item into a stored Coll
		i, s := slot(1)
		j, t := slot(2)
		if kinds[i] != kItem || kinds[j] != kColl {
			return "", kinds
		}
		newKinds[i] = kNone
		return c23Tx(fmt.Sprintf("let x <- %s.storage.load<@N.Item>(from: %s)!\nlet r = %s.storage.borrow<&N.Coll>(from: %s)!\nr.putMap(0, <- x)", s.acct, s.path, t.acct, t.path)), newKinds
	case "xfer": // xfer:<coll slot>:<coll slot>  move nested resources between two stored Colls (possibly other account)
		i, s := slot(1)
		j, t := slot(2)
		if kinds[i] != kColl || kinds[j] != kColl || i == j {
			return "", kinds
		}
		return c23Tx(fmt.Sprintf("let r = %s.storage.borrow<&N.Coll>(from: %s)!\nlet q = %s.storage.borrow<&N.Coll>(from: %s)!\nif let x <- r.takeItem() { q.putItem(<- x) }\nif let y <- r.takeMap(3) { q.putMap(3, <- y) }", s.acct, s.path, t.acct, t.path)), newKinds
	case "nest": // nest:<coll slot>:<coll slot>  move a whole stored Coll into the opt field of another
		i, s := slot(1)
		j, t := slot(2)
		if kinds[i] != kColl || kinds[j] != kColl || i == j {
			return "", kinds
		}
		newKinds[i] = kNone
		return c23Tx(fmt.Sprintf("let c <- %s.storage.load<@N.Coll>(from: %s)!\nlet q = %s.storage.borrow<&N.Coll>(from: %s)!\nq.setOpt(<- c)", s.acct, s.path, t.acct, t.path)), newKinds
	case "unnest": // unnest:<coll slot>:<to>
		i, s := slot(1)
		j, t := slot(2)
		if kinds[i] != kColl || kinds[j] != kNone {
			return "", kinds
		}
		newKinds[j] = kColl
		return c23Tx(fmt.Sprintf("let r = %s.storage.borrow<&N.Coll>(from: %s)!\nlet c <- N.collOr(<- r.takeOpt())\n%s.storage.save(<- c, to: %s)", s.acct, s.path, t.acct, t.path)), newKinds
	}
	panic("c23: unknown op " + op)
}

// c23AllOps is the full alphabet (labels); the per-state enabled subset is
// decided by c23Source.
func c23AllOps(env *mc.Env) []string {
	var ops []string
	nslots := len(c23Slots)
	for _, mk := range c23MkOrder {
		for s := 0; s < nslots; s++ {
			ops = append(ops, fmt.Sprintf("save:%s:%d", mk, s))
		}
		// overwrite only in slots 0 and 2 (one per account)
		for _, s := range []int{0, 2} {
			ops = append(ops, fmt.Sprintf("over:%s:%d", mk, s))
		}
	}
	for s := 0; s < nslots; s++ {
		ops = append(ops, fmt.Sprintf("destroy:%d", s))
		for t := 0; t < nslots; t++ {
			if s != t {
				ops = append(ops, fmt.Sprintf("move:%d:%d", s, t), fmt.Sprintf("copy:%d:%d", s, t),
					fmt.Sprintf("out:%d:%d", s, t), fmt.Sprintf("outmap:%d:%d", s, t), fmt.Sprintf("in:%d:%d", s, t),
					fmt.Sprintf("xfer:%d:%d", s, t), fmt.Sprintf("nest:%d:%d", s, t), fmt.Sprintf("unnest:%d:%d", s, t))
			}
		}
		// the operations on optional-typed members run in slots 0 and 2 only (one per account, like "over")
		for _, name := range sortedKeys(c23CollOps) {
			if s == 1 && strings.HasPrefix(name, "oi") {
				continue
			}
			ops = append(ops, fmt.Sprintf("coll:%s:%d", name, s))
		}
		for _, name := range sortedKeys(c23BoxOps) {
			if s == 1 && len(name) > 2 && name[0] == 'o' && strings.Contains("asbdf", name[1:2]) {
				continue
			}
			ops = append(ops, fmt.Sprintf("box:%s:%d", name, s))
		}
	}
	return ops
}

func c23Init(vm bool) *rt.Ledger {
	l := rt.NewLedger()
	rt.Deploy(l, rt.Addr(9), "N", c23Contract, vm)
	return l
}

// c23Step runs one operation; returns the result, whether it committed, and
// the health verdict of the resulting ledger.
func c23Step(st c23State, op string) (next c23State, res *rt.Result, enabled bool, herr error) {
	src, nk := c23Source(st.Kinds, op)
	if src == "" {
		return st, nil, false, nil
	}
	l := st.L.Clone()
	res = rt.Run(l, rt.Tx{Source: src, Signers: signers(1, 2), UseVM: st.VM, NoAtreeValidation: true})
	next = c23State{L: l, VM: st.VM, Kinds: st.Kinds}
	if res.OK() {
		next.Kinds = nk
		herr = rtx.Health(l)
	}
	return next, res, true, herr
}

func c23OpKind(op string) string {
	f := strings.Split(op, ":")
	if f[0] == "coll" || f[0] == "box" || f[0] == "save" || f[0] == "over" {
		return f[0] + ":" + f[1]
	}
	return f[0]
}

func c23Key(s c23State) string {
	return engName(s.VM) + "\n" + strings.Join(s.Kinds[:], ",") + "\n" +
		rtx.DumpWith(s.L, rtx.Options{NormalizeUUIDs: true, SlabCounts: true, OmitCode: true})
}

func runC23(env *mc.Env) {
	// self-test of the oracle on this very tree: a healthy ledger passes, and
	// removing any single slab register or the account root register is detected.
	detected, tried := 0, 0
	for _, vm := range both {
		l := c23Init(vm)
		st := c23State{L: l, VM: vm}
		for _, op := range []string{"save:collB:0", "save:boxB:1"} {
			n, res, _, herr := c23Step(st, op)
			if !res.OK() || herr != nil {
				env.R.HarnessError("C23 self-test set-up failed: %v %v", res.ErrString(), herr)
				return
			}
			st = n
		}
		for i := 0; ; i++ {
			c, ok := rtx.Corrupt(st.L, i)
			if !ok {
				break
			}
			tried++
			if rtx.Health(c) != nil {
				detected++
			}
		}
		c := st.L.Clone()
		for k := range c.Values {
			if strings.HasSuffix(k, "|stored") {
				delete(c.Values, k)
				break
			}
		}
		tried++
		if rtx.HealthKind(rtx.Health(c)) == "orphan-root" {
			detected++
		}
	}
	env.R.Set("oracle_selftest_corruptions_tried", tried)
	env.R.Set("oracle_selftest_corruptions_detected", detected)
	if detected != tried || tried < 10 {
		env.R.HarnessError("C23 oracle self-test: only %d of %d corrupted ledgers detected", detected, tried)
		return
	}

	all := c23AllOps(env)
	var init []mc.Node[c23State]
	for _, vm := range both {
		init = append(init, mc.Node[c23State]{State: c23State{L: c23Init(vm), VM: vm}})
	}
	depth := mc.Pick(env, 3, 4)
	maxStates := mc.Pick(env, 0, 400000)
	states, trans := mc.BFS(env, mc.BFSOpts[c23State]{
		Init:      init,
		MaxDepth:  depth,
		MaxStates: maxStates,
		Ops: func(n *mc.Node[c23State]) []string {
			var ops []string
			for _, op := range all {
				if src, _ := c23Source(n.State.Kinds, op); src != "" {
					ops = append(ops, op)
				}
			}
			return ops
		},
		Step: func(n *mc.Node[c23State], op string) (c23State, bool) {
			next, res, _, herr := c23Step(n.State, op)
			env.R.Eval()
			if !res.OK() && (strings.Contains(res.Kind, "CheckerError") || strings.Contains(res.Kind, "ParserError") || strings.Contains(res.Kind, "ParsingCheckingError")) {
				env.R.HarnessError("C23 generated an ill-formed transaction for %s: %s", op, res.ErrString())
				return next, false
			}
			if !res.OK() {
				// every enabled operation is written to succeed; a failure is not
				// this property's business (no commit happened) but must be visible
				env.R.Class("tx-failed:"+classOf(res)+":"+c23OpKind(op), func() any {
					return map[string]any{"vm": n.State.VM, "path": append(append([]string{}, n.Path...), op), "err": res.ErrString()}
				})
				env.R.DontCare.Add(1)
				return next, false
			}
			if herr != nil {
				path := append(append([]string{}, n.Path...), op)
				env.R.Violation(fmt.Sprintf("unhealthy-after|%s|%s|%s", c23OpKind(op), rtx.HealthKind(herr), engName(n.State.VM)),
					c23Case{VM: n.State.VM, Path: path}, fmt.Sprintf("after %v: %v", path, short(herr.Error(), 500)))
				return next, false
			}
			slabs := rtx.SlabCount(next.L)
			cls := "healthy:inline-only"
			if slabs > 3 {
				cls = "healthy:child-slabs"
				env.R.Nontrivial(engName(n.State.VM) + "|" + strings.Join(append(append([]string{}, n.Path...), op), " "))
			}
			env.R.Class(cls+":"+c23OpKind(op), nil)
			return next, true
		},
		Key: c23Key,
	})
	env.R.Set("bfs_states", states)
	env.R.Set("bfs_transitions", trans)
	env.R.Set("alphabet_size", len(all))
}

func replayC23(env *mc.Env, raw json.RawMessage) (bool, string) {
	var c c23Case
	if err := json.Unmarshal(raw, &c); err != nil {
		return false, err.Error()
	}
	st := c23State{L: c23Init(c.VM), VM: c.VM}
	for i, op := range c.Path {
		next, res, enabled, herr := c23Step(st, op)
		if !enabled {
			return false, fmt.Sprintf("step %d (%s) not enabled", i, op)
		}
		if !res.OK() {
			return false, fmt.Sprintf("step %d (%s) failed: %s", i, op, res.ErrString())
		}
		if herr != nil {
			return true, fmt.Sprintf("after step %d (%s): %v", i, op, short(herr.Error(), 600))
		}
		st = next
	}
	return false, "all steps healthy"
}

func init() {
	mc.Register(&mc.Check{
		ID: "C23",
		Rule: "breadth-first search over all transaction histories up to depth 3 (quick) / 4 (thorough) from a fresh ledger, both engines; alphabet = save / overwrite / move / copy / destroy of small and large nested resources and structs in 3 slots of 2 accounts, and ~70 mutations through references (remove, insert, replace, drain, refill, index assignment / overwrite / nil / swap on optional-element arrays, optional-valued dictionaries and optional fields, move nested resource out/in/across accounts, nest a stored collection into another); every transition is its own transaction on a fresh runtime over a cloned ledger; states deduplicated by canonical decoded dump + slab count; rtx.Health (independent of Storage.CheckHealth) runs after every committed transaction. Non-trivial = distinct history whose resulting ledger has child slabs (more slab registers than account roots).",
		Assumptions: []string{
			"atree.CheckStorageHealth is the trusted structural checker; rtx adds root-set equality with the account root registers and a full decode walk",
			"the oracle's own detection ability is re-established on every run (every single-register deletion of a populated ledger must be flagged)",
			"transactions run with AtreeValidationEnabled=false (production setting) so that an unhealthy commit is observed rather than converted into a failed transaction",
		},
		Run:    runC23,
		Replay: replayC23,
	})
}

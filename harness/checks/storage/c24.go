package storage

import (
	"encoding/json"
	"fmt"
	"strings"
	"sync"

	"verif/mc"
	"verif/rt"
	"verif/rtx"
)

// C24 — failed transactions and all scripts write no ledger registers;
// successful transactions write only after their code has finished, and the
// writes hold everything a later transaction observes.
//
// Enumerated: every program of 1..k statements from a pool of storage-mutating
// statements (plain save/load, mutation through references, resources,
// contract state, first touch of an account without a storage map, contract
// deploy / update / remove, capability issue+publish, inbox) x
//   (a) no failure,
//   (b) failure kind x failure position (after each statement; transaction
//       pre- and post-condition; failures before execution: parse error, type
//       error, wrong signer count, surplus argument),
//   (c) the limit sweep: an abort injected at *every* computation-metered
//       point (CompLimit = 1..Lmax) and at the memory-metered points (every commit-phase point; execution-phase
//       points all (one-statement programs) or strided; parse/check points strided),
//   (d) the same statements run as a script through getAuthAccount, with and
//       without a failure.
// Both engines.

const c24K = `access(all) contract K {
  access(all) var counter: Int
  access(all) var hist: [Int]
  access(all) resource R {
    access(all) var xs: [Int]
    init() { self.xs = [1] }
    access(all) fun push(_ x: Int) { self.xs.append(x) }
  }
  access(all) fun mk(): @R { return <- create R() }
  access(all) fun bump() { self.counter = self.counter + 1; self.hist.append(self.counter) }
  access(all) fun bumpThenFailPost(): Int { post { result < 0: "contract post" }; self.bump(); return 1 }
  access(all) fun needPositive(_ x: Int) { pre { x > 0: "contract pre" } }
  access(all) view fun zero(): Int { return 0 }
  access(all) view fun one(): Int { return 1 }
  access(all) view fun none(): Int? { return nil }
  access(all) view fun anyInt(): AnyStruct { return 1 }
  access(all) view fun u8(): UInt8 { return 255 }
  init() { self.counter = 0; self.hist = [] }
}`

const c24K2v1 = `access(all) contract K2 { access(all) fun f(): Int { return 1 } }`
const c24K2v2 = `access(all) contract K2 { access(all) fun f(): Int { return 2 } access(all) fun g(): Int { return 3 } }`
const c24D = `access(all) contract D { access(all) var x: Int; init() { self.x = 1; self.account.storage.save(11, to: /storage/dinit) } }`
const c24E = `access(all) contract E { access(all) var ys: [Int]; init() { self.ys = [1, 2] } }`

const c24Auth = `auth(Storage, Contracts, Capabilities, Inbox) &Account`

// the statement pool; A = main account (has data), B = fresh account without a storage map
type c24Stmt struct {
	name string
	src  string
}

func hexOf(s string) string { return fmt.Sprintf("%x", s) }

var c24Pool = []c24Stmt{
	{"save", `A.storage.save(7, to: /storage/n)`},
	{"saveBig", `A.storage.save(A.storage.copy<[Int]>(from: /storage/big)!, to: /storage/nb)`},
	{"load", `let v = A.storage.load<Int>(from: /storage/i)`},
	{"arrAppend", `A.storage.borrow<auth(Mutate) &[Int]>(from: /storage/arr)!.append(9)`},
	{"bigRemove", `let v = A.storage.borrow<auth(Mutate) &[Int]>(from: /storage/big)!.remove(at: 0)`},
	{"resSave", `A.storage.save(<- K.mk(), to: /storage/nr)`},
	{"resDestroy", `destroy A.storage.load<@K.R>(from: /storage/r)`},
	{"resMutate", `A.storage.borrow<&K.R>(from: /storage/r)!.push(3)`},
	{"bump", `K.bump()`},
	{"firstTouch", `B.storage.save("hello", to: /storage/x)`},
	{"firstRead", `let v = B.storage.load<Int>(from: /storage/none)`},
	{"moveAcross", `B.storage.save(A.storage.load<[Int]>(from: /storage/arr)!, to: /storage/arr)`},
	{"deploy", `A.contracts.add(name: "D", code: "` + hexOf(c24D) + `".decodeHex())`},
	{"deployB", `B.contracts.add(name: "E", code: "` + hexOf(c24E) + `".decodeHex())`},
	{"update", `A.contracts.update(name: "K2", code: "` + hexOf(c24K2v2) + `".decodeHex())`},
	{"remove", `A.contracts.remove(name: "K2")`},
	{"capPublish", `A.capabilities.publish(A.capabilities.storage.issue<&Int>(/storage/i), at: /public/i)`},
	{"inbox", `A.inbox.publish(A.capabilities.storage.issue<&Int>(/storage/i), name: "c", recipient: 0x2)`},
}

var c24PoolIdx = func() map[string]int {
	m := map[string]int{}
	for i, s := range c24Pool {
		m[s.name] = i
	}
	return m
}()

// failure statements (run-time failures placed after a statement)
var c24Fail = map[string]string{
	"panic":        `panic("boom")`,
	"assert":       `assert(K.zero() == 1, message: "assert")`,
	"mismatchLoad": `let z = A.storage.load<String>(from: /storage/mm)`,
	"divZero":      `let z = 1 / K.zero()`,
	"outOfBounds":  `let z = [1][K.one()]`,
	"unwrapNil":    `let z = K.none()!`,
	"overflow":     `let z = K.u8() + UInt8(1)`,
	"forceCast":    `let z = K.anyInt() as! String`,
	"contractPre":  `K.needPositive(K.zero())`,
	"contractPost": `let z = K.bumpThenFailPost()`,
}
var c24FailOrder = []string{"panic", "assert", "mismatchLoad", "divZero", "outOfBounds", "unwrapNil", "overflow", "forceCast", "contractPre", "contractPost"}

// failures with their own position
var c24SpecialFails = []string{"txPre", "txPost", "parse", "check", "signers", "args"}

const c24Obs = `
access(all) fun obs(_ a: ` + c24Auth + `, _ b: ` + c24Auth + `): String {
  var s = "n=".concat(a.storage.copy<Int>(from: /storage/n)?.toString() ?? "-")
  s = s.concat(" i=").concat(a.storage.copy<Int>(from: /storage/i)?.toString() ?? "-")
  let arr = a.storage.copy<[Int]>(from: /storage/arr)
  s = s.concat(" arr=").concat(arr == nil ? "-" : arr!.length.toString())
  let big = a.storage.borrow<&[Int]>(from: /storage/big)
  s = s.concat(" big=").concat(big == nil ? "-" : big!.length.toString().concat("/").concat(big![0].toString()))
  let nb = a.storage.borrow<&[Int]>(from: /storage/nb)
  s = s.concat(" nb=").concat(nb == nil ? "-" : nb!.length.toString())
  let r = a.storage.borrow<&K.R>(from: /storage/r)
  s = s.concat(" r=").concat(r == nil ? "-" : r!.xs.length.toString())
  s = s.concat(" nr=").concat(a.storage.type(at: /storage/nr)?.identifier ?? "-")
  s = s.concat(" dinit=").concat(a.storage.copy<Int>(from: /storage/dinit)?.toString() ?? "-")
  s = s.concat(" K=").concat(K.counter.toString()).concat("/").concat(K.hist.length.toString())
  s = s.concat(" bx=").concat(b.storage.copy<String>(from: /storage/x) ?? "-")
  let barr = b.storage.copy<[Int]>(from: /storage/arr)
  s = s.concat(" barr=").concat(barr == nil ? "-" : barr!.length.toString())
  s = s.concat(" apaths=").concat(a.storage.storagePaths.length.toString())
  s = s.concat(" bpaths=").concat(b.storage.storagePaths.length.toString())
  s = s.concat(" D=").concat(a.contracts.get(name: "D")?.code?.length?.toString() ?? "-")
  s = s.concat(" K2=").concat(a.contracts.get(name: "K2")?.code?.length?.toString() ?? "-")
  s = s.concat(" E=").concat(b.contracts.get(name: "E")?.code?.length?.toString() ?? "-")
  s = s.concat(" cap=").concat(a.capabilities.exists(/public/i) ? "y" : "n")
  s = s.concat(" ctrl=").concat(a.capabilities.storage.getControllers(forPath: /storage/i).length.toString())
  return s
}
`

type c24Case struct {
	Script bool     `json:"script"`
	Stmts  []string `json:"stmts"`
	Fail   string   `json:"fail,omitempty"` // "" = none
	Pos    int      `json:"pos"`            // number of statements executed before the failure
	VM     bool     `json:"vm"`
	Comp   uint64   `json:"comp,omitempty"`
	Mem    uint64   `json:"mem,omitempty"`
	// NoObs leaves out the observer function and the final observation log
	// (failure variants and limit sweeps do not need them; smaller programs).
	NoObs bool `json:"noobs,omitempty"`
}

func (c c24Case) String() string {
	b, _ := json.Marshal(c)
	return string(b)
}

var c24BaseOnce [2]sync.Once
var c24BaseLedger [2]*rt.Ledger
var c24BaseObs [2]string

func c24Base(vm bool) (*rt.Ledger, string) {
	i := 0
	if vm {
		i = 1
	}
	c24BaseOnce[i].Do(func() {
		l := rt.NewLedger()
		rt.Deploy(l, rt.Addr(1), "K", c24K, vm)
		rt.Deploy(l, rt.Addr(1), "K2", c24K2v1, vm)
		r := rt.Run(l, rt.Tx{Source: `import K from 0x1
		transaction { prepare(a: auth(Storage) &Account) {
		  a.storage.save(5, to: /storage/i)
		  a.storage.save(6, to: /storage/mm)
		  a.storage.save([1, 2, 3], to: /storage/arr)
		  let big: [Int] = []
		  var i = 0
		  while i < 400 { big.append(i); i = i + 1 }
		  a.storage.save(big, to: /storage/big)
		  a.storage.save(<- K.mk(), to: /storage/r)
		} }`, Signers: signers(1), UseVM: vm})
		if !r.OK() {
			panic("c24 base: " + r.ErrString())
		}
		c24BaseLedger[i] = l
		o := rt.Run(l, rt.Tx{Source: c24ObserverScript, Script: true, UseVM: vm})
		if !o.OK() {
			panic("c24 base observer: " + o.ErrString())
		}
		c24BaseObs[i] = o.Value.String()
	})
	return c24BaseLedger[i], c24BaseObs[i]
}

var c24ObserverScript = "import K from 0x1\n" + c24Obs + `
access(all) fun main(): String {
  return obs(getAuthAccount<` + c24Auth + `>(0x1), getAuthAccount<` + c24Auth + `>(0x2))
}`

// c24Program renders the case as source.
func c24Program(c c24Case) (src string) {
	var sb strings.Builder
	defer func() {
		// import K only when the program mentions it
		if strings.Contains(src, "K.") {
			src = "import K from 0x1\n" + src
		}
	}()
	if !c.NoObs {
		sb.WriteString(c24Obs)
	}
	a, b := "self.a", "self.b"
	if c.Script {
		a, b = "a", "b"
	}
	stmt := func(i int) string {
		s := c24Pool[c24PoolIdx[c.Stmts[i]]].src
		s = strings.ReplaceAll(s, "A.", a+".")
		s = strings.ReplaceAll(s, "B.", b+".")
		return fmt.Sprintf("    if true { %s }\n    log(\"s%d\")\n", s, i+1)
	}
	fail := func(pos int) string {
		f, ok := c24Fail[c.Fail]
		if !ok || c.Pos != pos {
			return ""
		}
		f = strings.ReplaceAll(f, "A.", a+".")
		return "    if true { " + f + " }\n"
	}
	k := len(c.Stmts)
	if c.Script {
		sb.WriteString("access(all) fun main(): String {\n")
		fmt.Fprintf(&sb, "    let a = getAuthAccount<%s>(0x1)\n    let b = getAuthAccount<%s>(0x2)\n", c24Auth, c24Auth)
		sb.WriteString(fail(0))
		for i := 0; i < k; i++ {
			sb.WriteString(stmt(i))
			sb.WriteString(fail(i + 1))
		}
		if c.NoObs {
			sb.WriteString("    return \"\"\n}\n")
		} else {
			sb.WriteString("    let o = obs(a, b)\n    log(o)\n    return o\n}\n")
		}
		return sb.String()
	}
	h := (k + 1) / 2 // statements in prepare
	params := ""
	if c.Fail == "args" {
		params = "(x: Int)"
	}
	fmt.Fprintf(&sb, "transaction%s {\n  let a: %s\n  let b: %s\n", params, c24Auth, c24Auth)
	fmt.Fprintf(&sb, "  prepare(a: %s, b: %s) {\n    self.a = a\n    self.b = b\n    log(\"s0\")\n", c24Auth, c24Auth)
	sb.WriteString(fail(0))
	for i := 0; i < h; i++ {
		sb.WriteString(stmt(i))
		sb.WriteString(fail(i + 1))
	}
	if c.Fail == "check" {
		sb.WriteString("    let bad: Int = \"not an int\"\n")
	}
	sb.WriteString("  }\n")
	if c.Fail == "txPre" {
		sb.WriteString("  pre { K.zero() == 1: \"tx pre\" }\n")
	}
	sb.WriteString("  execute {\n")
	for i := h; i < k; i++ {
		sb.WriteString(stmt(i))
		sb.WriteString(fail(i + 1))
	}
	if c.NoObs {
		sb.WriteString("    log(\"end\")\n  }\n")
	} else {
		sb.WriteString("    log(obs(self.a, self.b))\n  }\n")
	}
	if c.Fail == "txPost" {
		sb.WriteString("  post { K.zero() == 1: \"tx post\" }\n")
	}
	sb.WriteString("}\n")
	if c.Fail == "parse" {
		sb.WriteString("}{ garbage\n")
	}
	return sb.String()
}

func c24Exec(c c24Case, record bool) (res *rt.Result, after *rt.Ledger, baseObs string) {
	base, baseObs := c24Base(c.VM)
	l := base.Clone()
	tx := rt.Tx{Source: c24Program(c), UseVM: c.VM, Script: c.Script, CompLimit: c.Comp, MemLimit: c.Mem, RecordMeter: record, NoAtreeValidation: true}
	if !c.Script {
		tx.Signers = signers(1, 2)
		if c.Fail == "signers" {
			tx.Signers = signers(1)
		}
	}
	res = rt.Run(l, tx)
	return res, l, baseObs
}

// c24Judge applies the oracle. sig == "" means the execution conforms.
func c24Judge(c c24Case, res *rt.Result, after *rt.Ledger, baseObs string) (sig, detail, class string) {
	what := "tx"
	if c.Script {
		what = "script"
	}
	failKind := c.Fail
	switch {
	case c.Comp > 0:
		failKind = "computation-limit"
	case c.Mem > 0:
		failKind = "memory-limit"
	case failKind == "":
		failKind = "natural"
	}
	firstWrite := func() string {
		w := res.Writes[0]
		r := rtx.Register{Key: w.Key}
		return r.Kind() + "-register"
	}
	if res.Class == "escaped-panic" {
		// not this property's subject (C01/C28), but a host crash must not go unnoticed
		return fmt.Sprintf("%s-escaped-panic|%s", what, failKind), res.ErrString(), ""
	}
	if c.Script {
		if len(res.Writes) > 0 {
			return fmt.Sprintf("script-wrote|%s|%s", map[bool]string{true: "ok", false: "failed"}[res.OK()], firstWrite()),
				fmt.Sprintf("script issued %d SetValue call(s); trace %v", len(res.Writes), res.Trace), ""
		}
		if res.OK() {
			return "", "", "script-ok"
		}
		return "", "", "script-failed:" + res.Class
	}
	if !res.OK() {
		if len(res.Writes) > 0 {
			return fmt.Sprintf("failed-tx-wrote|%s|%s", failKind, firstWrite()),
				fmt.Sprintf("failed transaction (%s: %s) issued %d SetValue call(s); trace %v", res.Class, short(res.ErrString(), 160), len(res.Writes), res.Trace), ""
		}
		return "", "", "tx-failed:" + res.Class
	}
	// successful transaction: all register writes after the last program log / event
	lastCode, firstSet := -1, -1
	for i, k := range res.Trace {
		switch k {
		case "ProgramLog", "EmitEvent":
			lastCode = i
		case "SetValue":
			if firstSet < 0 {
				firstSet = i
			}
		}
	}
	if firstSet >= 0 && firstSet < lastCode {
		return "ok-tx-wrote-early|" + firstWrite(), fmt.Sprintf("SetValue at host-call index %d precedes program output at index %d; trace %v", firstSet, lastCode, res.Trace), ""
	}
	if len(res.Logs) == 0 || c.NoObs {
		return "", "", "tx-ok-unobserved"
	}
	inTx := res.Logs[len(res.Logs)-1]
	o := rt.Run(after, rt.Tx{Source: c24ObserverScript, Script: true, UseVM: c.VM})
	if !o.OK() {
		return "ok-tx-later-observer-fails", "observer script on the committed ledger failed: " + o.ErrString(), ""
	}
	later := o.Value.String()
	if later != inTx {
		return "ok-tx-writes-incomplete", fmt.Sprintf("state seen at the end of the transaction: %s; state seen by a later script: %s", inTx, later), ""
	}
	if herr := rtx.Health(after); herr != nil {
		return "ok-tx-unhealthy-ledger|" + rtx.HealthKind(herr), herr.Error(), ""
	}
	if later == baseObs {
		return "", "", "tx-ok-unchanged"
	}
	return "", "", "tx-ok-changed"
}

func c24Programs(env *mc.Env) [][]string {
	var out [][]string
	maxLen := mc.Pick(env, 2, 3)
	var rec func(cur []string)
	rec = func(cur []string) {
		if len(cur) > 0 {
			out = append(out, append([]string{}, cur...))
		}
		if len(cur) == maxLen {
			return
		}
		for _, s := range c24Pool {
			rec(append(cur, s.name))
		}
	}
	rec(nil)
	return out
}

func runC24(env *mc.Env) {
	progs := c24Programs(env)
	env.R.Set("programs", len(progs))
	for _, vm := range both {
		c24Base(vm)
	}
	report := func(c c24Case, res *rt.Result, after *rt.Ledger, baseObs string) {
		env.R.Eval()
		sig, detail, class := c24Judge(c, res, after, baseObs)
		if sig != "" {
			env.R.Violation(sig, c, c.String()+": "+detail)
			return
		}
		// generator hygiene: the unfailed programs must be well-formed
		if c.Fail == "" && c.Comp == 0 && c.Mem == 0 && !res.OK() && (strings.Contains(res.Kind, "CheckerError") || strings.Contains(res.Kind, "ParserError")) {
			env.R.HarnessError("C24 generated an ill-formed program %s: %s", c, res.ErrString())
		}
		env.R.Class(class, func() any { return map[string]any{"case": c, "logs": res.Logs, "err": short(res.ErrString(), 200)} })
		// non-trivial: a failure (or a script) after at least one statement really ran
		if (c.Script || !res.OK()) && len(res.Logs) > 1 {
			env.R.Nontrivial(c.String())
		}
	}
	type job struct {
		prog []string
		vm   bool
	}
	var jobs []job
	for _, p := range progs {
		for _, vm := range both {
			jobs = append(jobs, job{p, vm})
		}
	}
	mc.ParallelFor(env, len(jobs), func(i int) {
		j := jobs[i]
		k := len(j.prog)
		// (a) no failure, recorded meter
		c0 := c24Case{Stmts: j.prog, VM: j.vm}
		res0, after0, baseObs := c24Exec(c0, true)
		report(c0, res0, after0, baseObs)
		// (b) failure kind x position
		for _, f := range c24FailOrder {
			for pos := 0; pos <= k; pos++ {
				c := c24Case{Stmts: j.prog, VM: j.vm, Fail: f, Pos: pos, NoObs: true}
				res, after, _ := c24Exec(c, false)
				if res.OK() {
					env.R.HarnessError("C24: injected failure did not fail: %s", c)
				}
				report(c, res, after, baseObs)
			}
		}
		for _, f := range c24SpecialFails {
			c := c24Case{Stmts: j.prog, VM: j.vm, Fail: f, Pos: k, NoObs: f != "txPost"}
			res, after, _ := c24Exec(c, false)
			if res.OK() {
				env.R.HarnessError("C24: injected failure did not fail: %s", c)
			}
			report(c, res, after, baseObs)
		}
		// (d) scripts
		for pos := -1; pos <= k; pos++ {
			c := c24Case{Script: true, Stmts: j.prog, VM: j.vm}
			if pos >= 0 {
				c.Fail, c.Pos, c.NoObs = "panic", pos, true
			}
			res, after, _ := c24Exec(c, false)
			report(c, res, after, baseObs)
		}
		// (c) limit sweep over the unfailed program (without the observer)
		if !res0.OK() {
			return
		}
		cm := c24Case{Stmts: j.prog, VM: j.vm, NoObs: true}
		resm, afterm, _ := c24Exec(cm, true)
		report(cm, resm, afterm, baseObs)
		if !resm.OK() {
			env.R.HarnessError("C24: program succeeds with the observer but fails without: %s: %s", cm, resm.ErrString())
			return
		}
		var compPts, memPts []uint64
		var cc, mm uint64
		for _, m := range resm.Meter {
			if m.Mem {
				mm += m.Amount
				if mm > 1 && (len(memPts) == 0 || memPts[len(memPts)-1] != mm-1) {
					memPts = append(memPts, mm-1) // the largest limit that aborts at this metered point
				}
			} else {
				cc += m.Amount
				if cc > 1 && (len(compPts) == 0 || compPts[len(compPts)-1] != cc-1) {
					compPts = append(compPts, cc-1)
				}
			}
		}
		var limits []uint64
		if cc <= 300 {
			for L := uint64(1); L < cc; L++ {
				limits = append(limits, L)
			}
		} else {
			limits = compPts
		}
		env.R.Add("comp_limit_points", int64(len(limits)))
		for _, L := range limits {
			c := c24Case{Stmts: j.prog, VM: j.vm, Comp: L, NoObs: true}
			res, after, _ := c24Exec(c, false)
			if res.OK() || !res.LimitHit {
				env.R.Add("limit_runs_not_aborting", 1)
			}
			report(c, res, after, baseObs)
		}
		// memory: three phases, found by bisection on the logs of limited runs:
		// parsing/checking (before "s0"), execution ("s0" .. last log), commit
		// (after the last log). Every commit-phase point is taken for every
		// program; execution-phase points: all for one-statement programs, every
		// 8th (quick) / 2nd (thorough) otherwise; parse/check points: every 16th
		// for one-statement programs, every 64th (quick) / 8th (thorough) otherwise.
		nlogs := len(resm.Logs)
		bisect := func(reached func(r *rt.Result) bool) int {
			lo, hi := 0, len(memPts)
			for lo < hi {
				mid := (lo + hi) / 2
				c := c24Case{Stmts: j.prog, VM: j.vm, Mem: memPts[mid], NoObs: true}
				res, after, _ := c24Exec(c, false)
				report(c, res, after, baseObs)
				if reached(res) {
					hi = mid
				} else {
					lo = mid + 1
				}
			}
			return lo
		}
		execStart := bisect(func(r *rt.Result) bool { return len(r.Logs) > 0 }) - 1
		commitStart := bisect(func(r *rt.Result) bool { return len(r.Logs) >= nlogs }) - 1
		execStride, parseStride := 1, 16
		if k > 1 {
			execStride, parseStride = mc.Pick(env, 8, 2), mc.Pick(env, 64, 8)
		}
		var mlimits []uint64
		for i, M := range memPts {
			switch {
			case i >= commitStart:
				mlimits = append(mlimits, M)
				env.R.Add("mem_limit_points_in_commit", 1)
			case i >= execStart:
				if i%execStride == 0 {
					mlimits = append(mlimits, M)
					env.R.Add("mem_limit_points_in_execution", 1)
				}
			case i%parseStride == 0:
				mlimits = append(mlimits, M)
			}
		}
		env.R.Add("mem_limit_points", int64(len(mlimits)))
		for _, M := range mlimits {
			c := c24Case{Stmts: j.prog, VM: j.vm, Mem: M, NoObs: true}
			res, after, _ := c24Exec(c, false)
			if res.OK() || !res.LimitHit {
				env.R.Add("limit_runs_not_aborting", 1)
			}
			report(c, res, after, baseObs)
		}
	})
}

func replayC24(env *mc.Env, raw json.RawMessage) (bool, string) {
	var c c24Case
	if err := json.Unmarshal(raw, &c); err != nil {
		return false, err.Error()
	}
	res, after, baseObs := c24Exec(c, false)
	sig, detail, class := c24Judge(c, res, after, baseObs)
	if sig != "" {
		return true, sig + ": " + detail
	}
	return false, "conforms: " + class
}

func init() {
	mc.Register(&mc.Check{
		ID: "C24",
		Rule: "every sequence of 1..2 (quick) / 1..3 (thorough) statements from an 18-statement pool of storage mutations (save/load, mutation through references, resources, contract state, first touch of an account, contract deploy/update/remove incl. on a fresh account, capability publish, inbox) as a transaction: unfailed; x 10 run-time failure kinds x every position; x tx pre/post-condition, parse error, type error, wrong signer count, surplus argument; x an abort at every computation-metered point (CompLimit = 1..Lmax) and at the memory-metered points (every point of the commit phase; every execution-phase point for one-statement programs and every 8th (quick) / 2nd (thorough) otherwise; parse/check-phase points strided 16..64); and as a script through getAuthAccount with a panic at every position. Oracle: scripts and failed transactions issue zero SetValue; successful transactions issue every SetValue after their last program log, and a fresh-runtime observer on the committed ledger sees exactly what the transaction saw at its end. Non-trivial = failing transaction or script in which at least one mutating statement ran.",
		Assumptions: []string{
			"register write = SetValue on the host interface (contract-code update calls are recorded but not judged: the property speaks of ledger registers)",
			"metering is deterministic (C31), so the limit values between two metered points behave like the lower one",
		},
		Run:    runC24,
		Replay: replayC24,
	})
}

package storage

import (
	"encoding/json"
	"errors"
	"fmt"
	"math/big"
	"strconv"
	"strings"

	"github.com/onflow/cadence"

	"verif/mc"
	"verif/rt"
	"verif/rtx"
)

// C20 — arrays and dictionaries behave like their mathematical models.
//
// Explicit-state search per (container kind, element kind, start size, engine).
// Every transition is executed twice with the real code:
//   stored:  its own transaction on the container stored at /storage/c
//            (mutations and index reads through a storage reference, functional
//            operations on a copy), i.e. commit + reload on every step; the
//            committed contents are then decoded by rtx.Dump and compared
//            element by element with the model, after rtx.Health;
//   memory:  one script that rebuilds the start state in a local variable and
//            replays the whole path, returning the outputs of the last
//            operation and the final container (compared element by element).
// Start sizes are placed around the atree thresholds measured at run time.

type c20Root struct {
	K     c20Kind    `json:"kind"`
	VM    bool       `json:"vm"`
	Start int        `json:"start"`
	Th    thresholds `json:"thresholds"`
	Bulk  int        `json:"bulk"`
}

type c20State struct {
	Root *c20Root
	L    *rt.Ledger
	M    c20Model
}

type c20Case struct {
	Root c20Root  `json:"root"`
	Path []string `json:"path"`
}

func c20StartModel(k c20Kind, n int) c20Model {
	m := c20Model{}
	if k.Cont == "dict" {
		m.D = map[int]int{}
		for i := 0; i < n; i++ {
			m.D[i] = i
		}
		return m
	}
	for i := 0; i < n; i++ {
		m.Xs = append(m.Xs, i)
	}
	return m
}

// Cadence statements that build the start container of n elements in `xs`.
func c20Build(k c20Kind, n int) string {
	E := k.vType()
	switch k.Cont {
	case "array":
		return fmt.Sprintf("var xs: [%s] = []\nvar bi = 0\nwhile bi < %d { xs.append(M.mk(bi)); bi = bi + 1 }\n", E, n)
	case "const":
		return fmt.Sprintf("var tmp: [%s] = []\nvar bi = 0\nwhile bi < %d { tmp.append(M.mk(bi)); bi = bi + 1 }\nvar xs: %s = tmp.toConstantSized<%s>()!\n", E, n, k.contType(n), k.contType(n))
	}
	return fmt.Sprintf("var xs: %s = {}\nvar bi = 0\nwhile bi < %d { xs[M.mkK(bi)] = M.mk(bi); bi = bi + 1 }\n", k.contType(n), n)
}

func c20BaseLedger(k c20Kind, vm bool) *rt.Ledger {
	l := rt.NewLedger()
	rt.Deploy(l, rt.Addr(9), "M", c20Contract(k), vm)
	return l
}

func c20SaveTx(k c20Kind, n int) string {
	return "import M from 0x9\ntransaction { prepare(a: auth(Storage) &Account) {\n" + c20Build(k, n) + "a.storage.save(xs, to: /storage/c)\n} }"
}

func c20Thresholds(k c20Kind, vm bool) (thresholds, error) {
	if k.Cont == "const" {
		// [E; N] is laid out like [E]
		k = c20Kind{"array", k.Elem}
	}
	return cachedThresholds(k.String()+engName(vm), func() (thresholds, error) {
		base := c20BaseLedger(k, vm)
		return measure(base, vm, func(n int) string { return c20SaveTx(k, n) }, 4000)
	})
}

func usesV(code string) bool {
	return strings.Contains(code, "v.") || strings.Contains(code, "v[") || strings.Contains(code, "in v ")
}

// sum statement for handle (a reference expression) into out
func c20SumStmt(k c20Kind, n int, storedVariant bool, tag string) string {
	switch k.Cont {
	case "array":
		if storedVariant {
			return "out.append(M.sum(a.storage.borrow<&" + k.contType(n) + ">(from: /storage/c)!))\n"
		}
		return "out.append(M.sum(&xs as &" + k.contType(n) + "))\n"
	case "dict":
		if storedVariant {
			return "out.append(M.sumD(a.storage.borrow<&" + k.contType(n) + ">(from: /storage/c)!))\n"
		}
		return "out.append(M.sumD(&xs as &" + k.contType(n) + "))\n"
	}
	src := "xs"
	if storedVariant {
		src = "a.storage.copy<" + k.contType(n) + ">(from: /storage/c)!"
	}
	return fmt.Sprintf("let t%s = (%s).toVariableSized()\nout.append(M.sum(&t%s as &[%s]))\n", tag, src, tag, k.vType())
}

func expandReplace(code string, f func(expr string) string) string {
	var out []string
	for _, line := range strings.Split(code, "\n") {
		if strings.HasPrefix(line, "REPLACE(") && strings.HasSuffix(line, ")") {
			out = append(out, f(line[len("REPLACE("):len(line)-1]))
		} else {
			out = append(out, line)
		}
	}
	return strings.Join(out, "\n")
}

// stored-variant transaction for one operation
func c20StoredTx(k c20Kind, n int, code string) string {
	ct := k.contType(n)
	var sb strings.Builder
	sb.WriteString("import M from 0x9\ntransaction { prepare(a: auth(Storage) &Account) {\nvar out: [String] = []\n")
	sb.WriteString(c20SumStmt(k, n, true, "b"))
	sb.WriteString("if true {\n")
	fmt.Fprintf(&sb, "let r = a.storage.borrow<auth(Mutate) &%s>(from: /storage/c)!\n", ct)
	if usesV(code) {
		fmt.Fprintf(&sb, "let v = a.storage.copy<%s>(from: /storage/c)!\n", ct)
	}
	sb.WriteString(expandReplace(code, func(expr string) string {
		return "let nv = " + expr + "\nlet old = a.storage.load<" + ct + ">(from: /storage/c)\na.storage.save(nv, to: /storage/c)"
	}))
	sb.WriteString("}\n")
	// the container type may have changed only in size-preserving ways (const) or not at all
	sb.WriteString("for s in out { log(s) }\n} }")
	return sb.String()
}

// after-commit checksum through Cadence (a second transaction would be the
// next transition's "before"; here a script on the committed ledger)
func c20SumScript(k c20Kind, n int) string {
	return "import M from 0x9\naccess(all) fun main(): [String] {\nlet a = getAuthAccount<auth(Storage) &Account>(0x1)\nvar out: [String] = []\n" +
		c20SumStmt(k, n, true, "a") + "return out\n}"
}

// memory-variant script replaying a whole path
func c20MemoryScript(root *c20Root, path []string) (src string, m c20Model, exp c20Expect) {
	k := root.K
	m = c20StartModel(k, root.Start)
	var sb strings.Builder
	sb.WriteString("import M from 0x9\naccess(all) fun main(): [AnyStruct] {\n")
	sb.WriteString(c20Build(k, root.Start))
	sb.WriteString("var out: [String] = []\n")
	for _, op := range path {
		n := m.size(k)
		var code string
		code, exp = c20Gen(k, &m, op, root.Bulk)
		ct := k.contType(n)
		sb.WriteString("out = []\nif true {\n")
		fmt.Fprintf(&sb, "let r = &xs as auth(Mutate) &%s\n", ct)
		if usesV(code) {
			sb.WriteString("let v = xs\n")
		}
		sb.WriteString(expandReplace(code, func(expr string) string { return "xs = " + expr }))
		sb.WriteString("}\n")
	}
	sb.WriteString(c20SumStmt(k, m.size(k), false, "z"))
	sb.WriteString("return [out, xs]\n}")
	return sb.String(), m, exp
}

// decode an exported container into the model form; ok=false if an element is malformed
func c20Decode(k c20Kind, v cadence.Value) (c20Model, string) {
	bigID := func(b *big.Int) (int, bool) {
		if b.IsInt64() {
			return int(b.Int64()), true
		}
		d := new(big.Int).Sub(b, c20Huge)
		if !d.IsInt64() {
			return 0, false
		}
		return int(d.Int64()), true
	}
	elem := func(e cadence.Value) (int, bool) {
		switch x := e.(type) {
		case cadence.Int:
			return bigID(x.Big())
		case cadence.UInt:
			return bigID(x.Big())
		case cadence.UInt64:
			return int(x), true
		case cadence.String:
			s := string(x)
			if !strings.HasSuffix(s, c20Fill) {
				return 0, false
			}
			// both fills are runs of 'x'; ids are decimal digits
			id, err := strconv.Atoi(strings.TrimRight(s, "x"))
			if err != nil || (len(s) != len(strconv.Itoa(id))+c20FillLen && len(s) != len(strconv.Itoa(id))+c20BigFillLen) {
				return 0, false
			}
			return id, true
		case cadence.Array:
			if len(x.Values) != 2 {
				return 0, false
			}
			a, ok1 := x.Values[0].(cadence.Int)
			b, ok2 := x.Values[1].(cadence.Int)
			if !ok1 || !ok2 || b.Int() != a.Int()+1 {
				return 0, false
			}
			return a.Int(), true
		}
		return 0, false
	}
	m := c20Model{}
	switch x := v.(type) {
	case cadence.Array:
		if k.Cont == "dict" {
			return m, "not-a-dictionary"
		}
		for _, e := range x.Values {
			id, ok := elem(e)
			if !ok {
				return m, "malformed-element"
			}
			m.Xs = append(m.Xs, id)
		}
		return m, ""
	case cadence.Dictionary:
		m.D = map[int]int{}
		for _, p := range x.Pairs {
			key, ok1 := elem(p.Key)
			val, ok2 := elem(p.Value)
			if !ok1 || !ok2 {
				return m, "malformed-element"
			}
			if _, dup := m.D[key]; dup {
				return m, "duplicate-key"
			}
			m.D[key] = val
		}
		return m, ""
	}
	return m, "unexpected-result-type"
}

func stripQuotes(logs []string) []string {
	out := make([]string, len(logs))
	for i, l := range logs {
		out[i] = strings.TrimSuffix(strings.TrimPrefix(l, "\""), "\"")
	}
	return out
}

func c20OpClass(op string) string { return op }

type c20Outcome struct {
	Sig, Detail string
	Harness     bool
	SlabsBefore int
	SlabsAfter  int
	Failed      bool
}

// c20Step runs op from state st (reached by path) both ways and judges.
func c20Step(st c20State, path []string, op string, memory bool) (next c20State, o c20Outcome) {
	root := st.Root
	k := root.K
	n := st.M.size(k)
	m := st.M.clone()
	code, exp := c20Gen(k, &m, op, root.Bulk)
	next = c20State{Root: root, M: m}
	sc := sizeClass(n, root.Th)
	sig := func(variant, what string) string {
		return fmt.Sprintf("%s|%s|%s|%s|%s|%s", k, c20OpClass(op), sc, what, variant, engName(root.VM))
	}
	illFormed := func(r *rt.Result) bool {
		return strings.Contains(r.Kind, "CheckerError") || strings.Contains(r.Kind, "ParserError")
	}

	// ---- stored variant
	l := st.L.Clone()
	o.SlabsBefore = rtx.SlabCount(l)
	src := c20StoredTx(k, n, code)
	res := rt.Run(l, rt.Tx{Source: src, Signers: signers(1), UseVM: root.VM, NoAtreeValidation: true})
	next.L = l
	if illFormed(res) {
		return next, c20Outcome{Harness: true, Detail: "ill-formed stored transaction for " + op + ": " + res.ErrString() + "\n" + src}
	}
	if exp.Fails {
		o.Failed = true
		switch {
		case res.OK():
			o.Sig, o.Detail = sig("stored", "invalid-index-accepted"), fmt.Sprintf("%s on %d elements must fail, but succeeded: logs %v", op, n, res.Logs)
			return
		case res.Class != "user":
			o.Sig, o.Detail = sig("stored", "invalid-index-"+res.Class), fmt.Sprintf("%s on %d elements must fail with an index error, failed with %s: %s", op, n, res.Class, short(res.ErrString(), 300))
			return
		}
		next.M = st.M
	} else {
		if !res.OK() {
			o.Sig, o.Detail = sig("stored", "failed-"+res.Class), fmt.Sprintf("%s on %d elements must succeed, failed: %s", op, n, short(res.ErrString(), 400))
			return
		}
		logs := stripQuotes(res.Logs)
		if len(logs) < 1 || logs[0] != st.M.sum(k) {
			o.Sig, o.Detail = sig("stored", "reloaded-contents"), fmt.Sprintf("before %s: reloaded container reports %v, model %s", op, logs, st.M.sum(k))
			return
		}
		if bad := c20CompareOuts(st.M, logs[1:], exp.Outs, code); bad != "" {
			o.Sig, o.Detail = sig("stored", "wrong-"+bad), fmt.Sprintf("%s on %d elements: got %v\nmodel %v", op, n, short(strings.Join(logs[1:], " | "), 1500), short(strings.Join(exp.Outs, " | "), 1500))
			return
		}
	}
	if herr := rtx.Health(l); herr != nil {
		o.Sig, o.Detail = sig("stored", "unhealthy-"+rtx.HealthKind(herr)), herr.Error()
		return
	}
	o.SlabsAfter = rtx.SlabCount(l)
	dump := rtx.DumpWith(l, rtx.Options{OmitCode: true})
	want := c20DumpLine(k, next.M)
	if !strings.Contains(dump, want+"\n") {
		got := ""
		for _, line := range strings.Split(dump, "\n") {
			if strings.HasPrefix(line, "  c = ") {
				got = line
			}
		}
		o.Sig, o.Detail = sig("stored", "committed-contents"), fmt.Sprintf("after %s on %d elements the committed container decodes to\n%s\nmodel\n%s", op, n, short(got, 1200), short(want, 1200))
		return
	}
	if !o.Failed {
		// the committed container as a fresh runtime sees it through Cadence
		sr := rt.Run(l, rt.Tx{Source: c20SumScript(k, next.M.size(k)), Script: true, UseVM: root.VM})
		if !sr.OK() {
			if illFormed(sr) {
				return next, c20Outcome{Harness: true, Detail: "ill-formed sum script: " + sr.ErrString()}
			}
			o.Sig, o.Detail = sig("stored", "reload-failed-"+sr.Class), fmt.Sprintf("after %s: reading the committed container failed: %s", op, short(sr.ErrString(), 300))
			return
		}
		got, _ := cadenceStrings(sr.Value)
		if len(got) != 1 || got[0] != next.M.sum(k) {
			o.Sig, o.Detail = sig("stored", "reloaded-contents"), fmt.Sprintf("after %s: reloaded container reports %v, model %s", op, got, next.M.sum(k))
			return
		}
	}

	// ---- memory variant: replay the whole path in one script
	if !memory {
		return
	}
	full := append(append([]string{}, path...), op)
	msrc, mm, mexp := c20MemoryScript(root, full)
	mr := rt.Run(st.L, rt.Tx{Source: msrc, Script: true, UseVM: root.VM})
	if illFormed(mr) {
		return next, c20Outcome{Harness: true, Detail: "ill-formed memory script for " + strings.Join(full, " ") + ": " + mr.ErrString() + "\n" + msrc}
	}
	if mexp.Fails {
		switch {
		case mr.OK():
			o.Sig, o.Detail = sig("memory", "invalid-index-accepted"), fmt.Sprintf("path %v: last operation must fail, script succeeded", full)
		case mr.Class != "user":
			o.Sig, o.Detail = sig("memory", "invalid-index-"+mr.Class), fmt.Sprintf("path %v: must fail with an index error, failed with %s: %s", full, mr.Class, short(mr.ErrString(), 300))
		}
		return
	}
	if !mr.OK() {
		o.Sig, o.Detail = sig("memory", "failed-"+mr.Class), fmt.Sprintf("path %v must succeed in memory, failed: %s", full, short(mr.ErrString(), 400))
		return
	}
	arr, ok := mr.Value.(cadence.Array)
	if !ok || len(arr.Values) != 2 {
		return next, c20Outcome{Harness: true, Detail: "memory script result has unexpected shape"}
	}
	outs, ok := cadenceStrings(arr.Values[0])
	if !ok || len(outs) < 1 {
		return next, c20Outcome{Harness: true, Detail: "memory script outputs have unexpected shape"}
	}
	if bad := c20CompareOuts(st.M, outs[:len(outs)-1], mexp.Outs, code); bad != "" {
		o.Sig, o.Detail = sig("memory", "wrong-"+bad), fmt.Sprintf("path %v: got %v\nmodel %v", full, short(strings.Join(outs, " | "), 1500), short(strings.Join(mexp.Outs, " | "), 1500))
		return
	}
	if outs[len(outs)-1] != mm.sum(k) {
		o.Sig, o.Detail = sig("memory", "final-checksum"), fmt.Sprintf("path %v: container reports %s, model %s", full, outs[len(outs)-1], mm.sum(k))
		return
	}
	dm, bad := c20Decode(k, arr.Values[1])
	if bad == "" && dm.key(k) != mm.key(k) {
		bad = "final-contents"
	}
	if bad != "" {
		o.Sig, o.Detail = sig("memory", bad), fmt.Sprintf("path %v: final container %s, model %s", full, short(arr.Values[1].String(), 800), short(mm.key(k), 800))
	}
	return
}

func c20Kinds() []c20Kind {
	return []c20Kind{
		{"array", "int"}, {"array", "str"}, {"array", "arr"},
		{"dict", "int"}, {"dict", "str"}, {"dict", "arr"}, {"dict", "strkey"},
		{"const", "int"}, {"const", "str"}, {"const", "arr"},
		// every element too large to inline (single-slab containers of slab ids)
		{"array", "bigint"}, {"array", "biguint"}, {"array", "bigstr"},
		{"dict", "bigint"}, {"dict", "biguint"}, {"dict", "bigkey"},
		{"const", "bigint"},
	}
}

func c20Ops(k c20Kind, depth int) []string {
	if k.Cont == "dict" {
		return c20DictOps()
	}
	return c20ArrayOps(k, depth == 0)
}

func c20Roots(env *mc.Env) ([]*c20Root, error) {
	var roots []*c20Root
	for _, k := range c20Kinds() {
		for _, vm := range both {
			th, err := c20Thresholds(k, vm)
			if err != nil {
				// a kind whose small start containers cannot even be built and saved: report
				// that as violations of the property and go on with the other kinds
				reported := false
				for _, n := range []int{0, 1, 2, 3} {
					probe := &c20Root{K: k, VM: vm, Start: n, Bulk: 60}
					if k.Cont == "const" && n == 0 {
						continue
					}
					var sf *c20SetupFailure
					if _, e := c20InitState(probe); errors.As(e, &sf) {
						env.R.Violation(sf.sig(), c20Case{Root: sf.Root}, short(sf.Error(), 600))
						reported = true
					}
				}
				if reported {
					continue
				}
				return nil, fmt.Errorf("%s %s: %w", k, engName(vm), err)
			}
			sizes := []int{0, 1, th.Inline - 1, th.Inline, th.Split - 1, th.Split}
			if k.Cont == "const" {
				sizes = []int{1, th.Inline - 1, th.Inline, th.Split}
			}
			seen := map[int]bool{}
			for _, n := range sizes {
				if n < 0 || seen[n] || (k.Cont == "const" && n == 0) {
					continue
				}
				seen[n] = true
				// the bulk size must carry a start state across the next threshold in either direction
				bulk := 60
				roots = append(roots, &c20Root{K: k, VM: vm, Start: n, Th: th, Bulk: bulk})
			}
		}
	}
	return roots, nil
}

// c20SetupFailure: building and saving the start container (append / insert
// of n fresh elements, then save) is itself a history of the property; if it
// fails at run time although the program is well-formed, that is a violation.
type c20SetupFailure struct {
	Root c20Root
	Res  *rt.Result
}

func (f *c20SetupFailure) Error() string {
	return fmt.Sprintf("cannot build start state %+v: %s", f.Root, f.Res.ErrString())
}

func (f *c20SetupFailure) sig() string {
	return fmt.Sprintf("%s|start|%d|failed-%s|stored|%s", f.Root.K, f.Root.Start, f.Res.Class, engName(f.Root.VM))
}

func c20InitState(root *c20Root) (c20State, error) {
	l := c20BaseLedger(root.K, root.VM)
	r := rt.Run(l, rt.Tx{Source: c20SaveTx(root.K, root.Start), Signers: signers(1), UseVM: root.VM, NoAtreeValidation: true})
	if !r.OK() {
		if strings.Contains(r.Kind, "CheckerError") || strings.Contains(r.Kind, "ParserError") {
			return c20State{}, fmt.Errorf("ill-formed start state program %+v: %s", *root, r.ErrString())
		}
		return c20State{}, &c20SetupFailure{Root: *root, Res: r}
	}
	return c20State{Root: root, L: l, M: c20StartModel(root.K, root.Start)}, nil
}

func runC20(env *mc.Env) {
	roots, err := c20Roots(env)
	if err != nil {
		env.R.HarnessError("C20: threshold measurement failed: %v", err)
		return
	}
	thr := map[string]thresholds{}
	var init []mc.Node[c20State]
	for _, r := range roots {
		thr[r.K.String()+"/"+engName(r.VM)] = r.Th
		st, err := c20InitState(r)
		var sf *c20SetupFailure
		if errors.As(err, &sf) {
			env.R.Violation(sf.sig(), c20Case{Root: sf.Root}, short(sf.Error(), 600))
			continue
		}
		if err != nil {
			env.R.HarnessError("C20: %v", err)
			return
		}
		init = append(init, mc.Node[c20State]{State: st})
	}
	env.R.Set("measured_thresholds", thr)
	env.R.Set("roots", len(roots))
	depth := mc.Pick(env, 2, 3)
	key := func(s c20State) string {
		r := s.Root
		return fmt.Sprintf("%s|%s|%d|%s\n%s", r.K, engName(r.VM), r.Start, s.M.key(r.K), rtx.DumpWith(s.L, rtx.Options{SlabCounts: true, OmitCode: true}))
	}
	states, trans := mc.BFS(env, mc.BFSOpts[c20State]{
		Init:     init,
		MaxDepth: depth,
		Ops:      func(n *mc.Node[c20State]) []string { return c20Ops(n.State.Root.K, n.Depth) },
		Step: func(n *mc.Node[c20State], op string) (c20State, bool) {
			next, o := c20Step(n.State, n.Path, op, true)
			env.R.EvalN(2)
			root := n.State.Root
			if o.Harness {
				env.R.HarnessError("C20 %s %s: %s", root.K, op, o.Detail)
				return next, false
			}
			if o.Sig != "" {
				env.R.Violation(o.Sig, c20Case{Root: *root, Path: append(append([]string{}, n.Path...), op)}, o.Detail)
				return next, false
			}
			before := sizeClass(n.State.M.size(root.K), root.Th)
			after := sizeClass(next.M.size(root.K), root.Th)
			cls := fmt.Sprintf("%s|%s|%s->%s", root.K, strings.Split(op, ":")[0], before, after)
			if o.Failed {
				cls += "|index-error"
			}
			env.R.Class(cls, nil)
			if o.SlabsAfter != o.SlabsBefore {
				env.R.Add("slab_transitions_observed", 1)
				env.R.Nontrivial(fmt.Sprintf("%s|%s|%d|%v|%s", root.K, engName(root.VM), root.Start, n.Path, op))
			} else if o.Failed {
				env.R.Nontrivial(fmt.Sprintf("%s|%s|%d|%v|%s", root.K, engName(root.VM), root.Start, n.Path, op))
			}
			return next, !o.Failed
		},
		Key: key,
	})
	env.R.Set("bfs_states", states)
	env.R.Set("bfs_transitions", trans)
}

func replayC20(env *mc.Env, raw json.RawMessage) (bool, string) {
	var c c20Case
	if err := json.Unmarshal(raw, &c); err != nil {
		return false, err.Error()
	}
	root := c.Root
	st, err := c20InitState(&root)
	var sf *c20SetupFailure
	if errors.As(err, &sf) {
		return true, "start state: " + sf.sig() + ": " + short(sf.Error(), 1200)
	}
	if err != nil {
		return false, err.Error()
	}
	for i, op := range c.Path {
		next, o := c20Step(st, c.Path[:i], op, true)
		if o.Harness {
			return false, o.Detail
		}
		if o.Sig != "" {
			return true, fmt.Sprintf("step %d (%s): %s: %s", i, op, o.Sig, short(o.Detail, 1200))
		}
		st = next
	}
	return false, "conforms"
}

func init() {
	mc.Register(&mc.Check{
		ID: "C20",
		Rule: "breadth-first search to depth 2 (quick) / 3 (thorough) from every root = (container in {[E], [E; N], {K: V}}) x (element in {Int, ~200-char String, [Int]}; dictionaries also {String: Int} with ~200-char keys; and elements too large to inline, so that even a one-element single-slab container holds slab references: Int and UInt 2^4096+id, ~900-char String, {UInt64: UInt}, {Int: Int} with 2^4096+id keys) x (start size in {0, 1, inline-1, inline, split-1, split} with the two atree thresholds measured at run time by slab count; for the too-large-to-inline elements that yields start sizes 0, 1, 2 and the 60-element bulk operations reach the multi-slab sizes) x (interpreter, VM). Alphabet per state: one 'observe' transaction (length, index reads, slice, reverse, concat, filter, map, contains, firstIndex, toConstantSized/toVariableSized, iteration; dictionaries: reads, keys, values, containsKey, forEachKey with early stop, iteration), every mutation (append, appendAll, insert, remove, removeFirst/Last, index write, replace-by reverse/slice/concat/filter/map, dictionary insert/remove/index write/nil write) at positions {0, mid, last/end}, every invalid-index variant {len, len+1, -1}, slice over ALL 25 (from, upTo) pairs of {0, mid, last, len, len+1} at every root (= every start size class) and over representatives (inverted, past the end, negative, equal out-of-range, equal at len) elsewhere, and bulk macro-operations of 60 elements that cross the thresholds. Every transition is run as its own transaction on the stored container and as a script that replays the whole path in memory; outputs, failures and full final contents (decoded from the committed ledger / the script result) are compared with a Go slice/map model; rtx.Health before states merge. Non-trivial = transition that changes the number of slabs, or an index error.",
		Assumptions: []string{
			"'index error' is judged as: the operation fails with a user-class error and leaves the container unchanged; the Go error type is not required by name",
			"dictionary enumeration order is unspecified: keys are compared as a set, values/iteration by pairing with keys",
			"merged states: equal model contents + equal canonical dump + equal slab count per account",
		},
		Run:    runC20,
		Replay: replayC20,
	})
}

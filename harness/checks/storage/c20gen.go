package storage

import (
	"fmt"
	"math/big"
	"sort"
	"strconv"
	"strings"
)

// C20 program generator and Go reference model.
//
// A *kind* is (container, element): containers "array" ([E]), "const" ([E; N])
// and "dict" ({K: V}); elements "int" (Int, inlined), "str" (~200-character
// String, stored in its own slab when large), "arr" ([Int], a nested
// container); dictionaries additionally "strkey" ({String: Int} with
// ~200-character keys). Every element is identified by a small integer id:
//   int: id            str: id.toString() + 190 x 'x'            arr: [id, id+1]
// so the Go model is a []int (arrays) or map[int]int (dictionaries).
//
// Element kinds whose every element is too large to be stored inline in its
// container, so that even a one-element, single-slab container refers to its
// elements through slab ids:
//   bigint:  Int   2^4096 + id            biguint: UInt 2^4096 + id (dictionary keys UInt64)
//   bigstr:  String id.toString() + 890 x 'x'
//   bigkey:  {Int: Int} with keys 2^4096 + id and small values

const c20FillLen = 190

var c20Fill = strings.Repeat("x", c20FillLen)

const c20BigFillLen = 890

var c20BigFill = strings.Repeat("x", c20BigFillLen)

// 2^4096
var c20Huge = new(big.Int).Lsh(big.NewInt(1), 4096)

func c20HugeStr(id int) string {
	return new(big.Int).Add(c20Huge, big.NewInt(int64(id))).String()
}

type c20Kind struct {
	Cont string `json:"cont"` // array | const | dict
	Elem string `json:"elem"` // int | str | arr | strkey
}

func (k c20Kind) String() string { return k.Cont + "/" + k.Elem }

// Cadence types of key, value, and of an element read through a reference
func (k c20Kind) vType() string {
	switch k.Elem {
	case "int", "strkey", "bigint", "bigkey":
		return "Int"
	case "biguint":
		return "UInt"
	case "str", "bigstr":
		return "String"
	}
	return "[Int]"
}
func (k c20Kind) kType() string {
	switch k.Elem {
	case "strkey":
		return "String"
	case "biguint":
		if k.Cont == "dict" {
			return "UInt64"
		}
	}
	return "Int"
}

// contType with n = number of elements (only used by const)
func (k c20Kind) contType(n int) string {
	switch k.Cont {
	case "array":
		return "[" + k.vType() + "]"
	case "const":
		return fmt.Sprintf("[%s; %d]", k.vType(), n)
	}
	return "{" + k.kType() + ": " + k.vType() + "}"
}

// the helper contract for a kind
func c20Contract(k c20Kind) string {
	E := k.vType()
	ER := E
	if k.Elem == "arr" {
		ER = "&[Int]"
	}
	var sb strings.Builder
	sb.WriteString("access(all) contract M {\n  access(all) let fill: String\n  access(all) let bigFill: String\n  access(all) let huge: Int\n  access(all) let hugeU: UInt\n")
	sb.WriteString("  init() { var s = \"\"; var i = 0; while i < 19 { s = s.concat(\"xxxxxxxxxx\"); i = i + 1 }; self.fill = s\n")
	sb.WriteString("    while i < 89 { s = s.concat(\"xxxxxxxxxx\"); i = i + 1 }; self.bigFill = s\n")
	sb.WriteString("    self.huge = 1 << 4096; self.hugeU = UInt(1) << 4096 }\n")
	sb.WriteString("  access(all) view fun mkS(_ id: Int): String { return id.toString().concat(self.fill) }\n")
	sb.WriteString("  access(all) view fun idS(_ e: String): Int { if e.length <= 190 { return -1 }; return Int.fromString(e.slice(from: 0, upTo: e.length - 190)) ?? -2 }\n")
	switch k.Elem {
	case "bigint":
		sb.WriteString("  access(all) view fun mk(_ id: Int): Int { return self.huge + id }\n  access(all) view fun id(_ e: Int): Int { return e - self.huge }\n  access(all) view fun idv(_ e: Int): Int { return e - self.huge }\n")
	case "biguint":
		sb.WriteString("  access(all) view fun mk(_ id: Int): UInt { return self.hugeU + UInt(id) }\n  access(all) view fun id(_ e: UInt): Int { return Int(e) - self.huge }\n  access(all) view fun idv(_ e: UInt): Int { return Int(e) - self.huge }\n")
	case "bigstr":
		sb.WriteString("  access(all) view fun mk(_ id: Int): String { return id.toString().concat(self.bigFill) }\n")
		sb.WriteString("  access(all) view fun id(_ e: String): Int { if e.length <= 890 { return -1 }; return Int.fromString(e.slice(from: 0, upTo: e.length - 890)) ?? -2 }\n")
		sb.WriteString("  access(all) view fun idv(_ e: String): Int { return self.id(e) }\n")
	case "int", "strkey", "bigkey":
		sb.WriteString("  access(all) view fun mk(_ id: Int): Int { return id }\n  access(all) view fun id(_ e: Int): Int { return e }\n  access(all) view fun idv(_ e: Int): Int { return e }\n")
	case "str":
		sb.WriteString("  access(all) view fun mk(_ id: Int): String { return self.mkS(id) }\n  access(all) view fun id(_ e: String): Int { return self.idS(e) }\n  access(all) view fun idv(_ e: String): Int { return self.idS(e) }\n")
	case "arr":
		sb.WriteString("  access(all) view fun mk(_ id: Int): [Int] { return [id, id + 1] }\n")
		sb.WriteString("  access(all) view fun id(_ e: &[Int]): Int { if e.length != 2 || e[1] != e[0] + 1 { return -1 }; return e[0] }\n")
		sb.WriteString("  access(all) view fun idv(_ e: [Int]): Int { if e.length != 2 || e[1] != e[0] + 1 { return -1 }; return e[0] }\n")
	}
	if k.Elem == "strkey" {
		sb.WriteString("  access(all) view fun mkK(_ id: Int): String { return self.mkS(id) }\n  access(all) view fun idK(_ e: String): Int { return self.idS(e) }\n")
	} else if k.Elem == "bigkey" {
		sb.WriteString("  access(all) view fun mkK(_ id: Int): Int { return self.huge + id }\n  access(all) view fun idK(_ e: Int): Int { return e - self.huge }\n")
	} else if k.Elem == "biguint" && k.Cont == "dict" {
		sb.WriteString("  access(all) view fun mkK(_ id: Int): UInt64 { return UInt64(id) }\n  access(all) view fun idK(_ e: UInt64): Int { return Int(e) }\n")
	} else {
		sb.WriteString("  access(all) view fun mkK(_ id: Int): Int { return id }\n  access(all) view fun idK(_ e: Int): Int { return e }\n")
	}
	fmt.Fprintf(&sb, "  access(all) fun sh(_ e: %s): String { return self.id(e).toString() }\n", ER)
	fmt.Fprintf(&sb, "  access(all) fun shv(_ e: %s): String { return self.idv(e).toString() }\n", E)
	fmt.Fprintf(&sb, "  access(all) fun sho(_ e: %s?): String { if e == nil { return \"nil\" }; return \"some:\".concat(self.idv(e!).toString()) }\n", E)
	// arrays
	fmt.Fprintf(&sb, "  access(all) fun showv(_ xs: [%s]): String { var s = \"\"; for e in xs { s = s.concat(self.idv(e).toString()).concat(\",\") }; return s }\n", E)
	fmt.Fprintf(&sb, "  access(all) fun sum(_ r: &[%s]): String { var n = 0; var s1 = 0; var s2 = 0; for e in r { n = n + 1; s1 = s1 + self.id(e); s2 = s2 + n * self.id(e) }; return \"len=\".concat(r.length.toString()).concat(\" n=\").concat(n.toString()).concat(\" s1=\").concat(s1.toString()).concat(\" s2=\").concat(s2.toString()) }\n", E)
	// dictionaries
	K := k.kType()
	fmt.Fprintf(&sb, "  access(all) fun sumD(_ r: &{%s: %s}): String { var n = 0; var s1 = 0; var s2 = 0; for key in r.keys { n = n + 1; s1 = s1 + self.idK(key); s2 = s2 + self.idK(key) * self.id(r[key]!) }; return \"len=\".concat(r.length.toString()).concat(\" n=\").concat(n.toString()).concat(\" s1=\").concat(s1.toString()).concat(\" s2=\").concat(s2.toString()) }\n", K, E)
	fmt.Fprintf(&sb, "  access(all) fun showKs(_ ks: [%s]): String { var s = \"\"; for e in ks { s = s.concat(self.idK(e).toString()).concat(\",\") }; return s }\n", K)
	sb.WriteString("}\n")
	return sb.String()
}

// ---------------------------------------------------------------------------
// model

type c20Model struct {
	Xs []int       // arrays: element ids in order
	D  map[int]int // dictionaries: key id -> value id
}

func (m c20Model) clone() c20Model {
	n := c20Model{Xs: append([]int(nil), m.Xs...)}
	if m.D != nil {
		n.D = make(map[int]int, len(m.D))
		for k, v := range m.D {
			n.D[k] = v
		}
	}
	return n
}

func (m c20Model) size(k c20Kind) int {
	if k.Cont == "dict" {
		return len(m.D)
	}
	return len(m.Xs)
}

func (m c20Model) keys() []int {
	ks := make([]int, 0, len(m.D))
	for k := range m.D {
		ks = append(ks, k)
	}
	sort.Ints(ks)
	return ks
}

func (m c20Model) key(k c20Kind) string {
	if k.Cont == "dict" {
		var sb strings.Builder
		for _, key := range m.keys() {
			fmt.Fprintf(&sb, "%d=%d,", key, m.D[key])
		}
		return sb.String()
	}
	return idsStr(m.Xs)
}

func idsStr(xs []int) string {
	var sb strings.Builder
	for _, x := range xs {
		sb.WriteString(strconv.Itoa(x))
		sb.WriteByte(',')
	}
	return sb.String()
}

func sums(xs []int) string {
	s1, s2 := 0, 0
	for i, x := range xs {
		s1 += x
		s2 += (i + 1) * x
	}
	return fmt.Sprintf("len=%d n=%d s1=%d s2=%d", len(xs), len(xs), s1, s2)
}

func (m c20Model) sum(k c20Kind) string {
	if k.Cont != "dict" {
		return sums(m.Xs)
	}
	s1, s2 := 0, 0
	for key, v := range m.D {
		s1 += key
		s2 += key * v
	}
	return fmt.Sprintf("len=%d n=%d s1=%d s2=%d", len(m.D), len(m.D), s1, s2)
}

// rendering of an element exactly as rtx.Dump renders the stored value
func c20DumpElem(elem string, id int) string {
	switch elem {
	case "int", "strkey", "bigkey":
		return strconv.Itoa(id)
	case "bigint", "biguint":
		return c20HugeStr(id)
	case "str":
		return "\"" + strconv.Itoa(id) + c20Fill + "\""
	case "bigstr":
		return "\"" + strconv.Itoa(id) + c20BigFill + "\""
	}
	return fmt.Sprintf("([Int])[%d, %d]", id, id+1)
}

func c20DumpKey(elem string, id int) string {
	switch elem {
	case "strkey":
		return "\"" + strconv.Itoa(id) + c20Fill + "\""
	case "bigkey":
		return c20HugeStr(id)
	}
	return strconv.Itoa(id)
}

// c20DumpLine is the line rtx.Dump prints for the container stored at /storage/c.
func c20DumpLine(k c20Kind, m c20Model) string {
	var sb strings.Builder
	sb.WriteString("  c = (" + k.contType(len(m.Xs)) + ")")
	if k.Cont == "dict" {
		type kv struct{ k, v string }
		var es []kv
		for key, v := range m.D {
			es = append(es, kv{c20DumpKey(k.Elem, key), c20DumpElem(k.Elem, v)})
		}
		sort.Slice(es, func(i, j int) bool { return es[i].k < es[j].k })
		sb.WriteString("{")
		for i, e := range es {
			if i > 0 {
				sb.WriteString(", ")
			}
			sb.WriteString(e.k + ": " + e.v)
		}
		sb.WriteString("}")
		return sb.String()
	}
	sb.WriteString("[")
	for i, x := range m.Xs {
		if i > 0 {
			sb.WriteString(", ")
		}
		sb.WriteString(c20DumpElem(k.Elem, x))
	}
	sb.WriteString("]")
	return sb.String()
}

// ---------------------------------------------------------------------------
// operations

const (
	c20A    = 7000 // atom used by append / insert
	c20B    = 7001 // atom used by set / second element
	c20Bulk = 8000 // first id of bulk-inserted elements
	c20New  = 9000 // new dictionary key
	c20Miss = 424242
)

// c20Expect describes what an operation must do.
type c20Expect struct {
	Fails bool
	// Outs are the expected output lines of the operation; a line beginning
	// with "~" is compared as a multiset of comma-separated items; a line
	// beginning with "?" is a keys/values pairing check handled by the judge.
	Outs []string
	// Mutates: the operation changes the container
	Mutates bool
}

// c20OutName names an output line by the operation that produced it (for
// structural signatures).
func c20OutName(code string) string {
	for _, n := range []string{"toConstantSized", "toVariableSized", "firstIndex", "containsKey", "contains", "forEachKey", "reverse", "filter", "concat", "slice", "map(", "keys", "values", "length", "remove", "insert", "for "} {
		if strings.Contains(code, n) {
			return strings.Trim(n, "( ")
		}
	}
	if strings.Contains(code, "[") {
		return "index-read"
	}
	return "result"
}

// c20Gen returns the Cadence code of op for model state m (operating on the
// reference r, the by-value copy v, and appending results to out), the
// expectation, and steps the model. bulk is the bulk size.
// REPLACE(<expr>) in the code stands for "the container becomes <expr>".
func c20Gen(k c20Kind, m *c20Model, op string, bulk int) (code string, exp c20Expect) {
	switch k.Cont {
	case "array", "const":
		return c20GenArray(k, m, op, bulk)
	}
	return c20GenDict(k, m, op, bulk)
}

func c20Index(n int, which string) int {
	switch which {
	case "0":
		return 0
	case "mid":
		return n / 2
	case "last":
		return n - 1
	case "end", "len":
		return n
	case "past", "len1":
		return n + 1
	case "neg":
		return -1
	}
	panic("index " + which)
}

func filterEven(xs []int) []int {
	var out []int
	for _, x := range xs {
		if x%2 == 0 {
			out = append(out, x)
		}
	}
	return out
}
func mapInc(xs []int) []int {
	out := make([]int, len(xs))
	for i, x := range xs {
		out[i] = x + 1
	}
	return out
}
func reversed(xs []int) []int {
	out := make([]int, len(xs))
	for i, x := range xs {
		out[len(xs)-1-i] = x
	}
	return out
}
func firstIndex(xs []int, x int) string {
	for i, y := range xs {
		if y == x {
			return fmt.Sprintf("some:%d", i)
		}
	}
	return "nil"
}
func containsStr(xs []int, x int) string {
	for _, y := range xs {
		if y == x {
			return "true"
		}
	}
	return "false"
}

func c20GenArray(k c20Kind, m *c20Model, op string, bulk int) (string, c20Expect) {
	n := len(m.Xs)
	E := k.vType()
	ER := E
	if k.Elem == "arr" {
		ER = "&[Int]"
	}
	_ = ER
	f := strings.Split(op, ":")
	var c strings.Builder
	exp := c20Expect{}
	isConst := k.Cont == "const"
	switch f[0] {
	case "append":
		fmt.Fprintf(&c, "r.append(M.mk(%d))\n", c20A)
		m.Xs = append(m.Xs, c20A)
		exp.Mutates = true
	case "appendAll":
		fmt.Fprintf(&c, "r.appendAll([M.mk(%d), M.mk(%d)])\n", c20A, c20B)
		m.Xs = append(m.Xs, c20A, c20B)
		exp.Mutates = true
	case "insert":
		i := c20Index(n, f[1])
		fmt.Fprintf(&c, "r.insert(at: %d, M.mk(%d))\n", i, c20A)
		if i < 0 || i > n {
			exp.Fails = true
		} else {
			m.Xs = append(m.Xs[:i:i], append([]int{c20A}, m.Xs[i:]...)...)
			exp.Mutates = true
		}
	case "remove":
		i := c20Index(n, f[1])
		if f[1] == "past" {
			i = n // first invalid index ("len1" is the second)
		}
		fmt.Fprintf(&c, "out.append(M.shv(r.remove(at: %d)))\n", i)
		if i < 0 || i >= n {
			exp.Fails = true
		} else {
			exp.Outs = []string{strconv.Itoa(m.Xs[i])}
			m.Xs = append(m.Xs[:i:i], m.Xs[i+1:]...)
			exp.Mutates = true
		}
	case "removeFirst":
		c.WriteString("out.append(M.shv(r.removeFirst()))\n")
		if n == 0 {
			exp.Fails = true
		} else {
			exp.Outs = []string{strconv.Itoa(m.Xs[0])}
			m.Xs = append([]int(nil), m.Xs[1:]...)
			exp.Mutates = true
		}
	case "removeLast":
		c.WriteString("out.append(M.shv(r.removeLast()))\n")
		if n == 0 {
			exp.Fails = true
		} else {
			exp.Outs = []string{strconv.Itoa(m.Xs[n-1])}
			m.Xs = append([]int(nil), m.Xs[:n-1]...)
			exp.Mutates = true
		}
	case "set":
		i := c20Index(n, f[1])
		if f[1] == "past" {
			i = n
		}
		fmt.Fprintf(&c, "r[%d] = M.mk(%d)\n", i, c20B)
		if i < 0 || i >= n {
			exp.Fails = true
		} else {
			m.Xs = append([]int(nil), m.Xs...)
			m.Xs[i] = c20B
			exp.Mutates = true
		}
	case "get":
		i := c20Index(n, f[1])
		if f[1] == "past" {
			i = n
		}
		fmt.Fprintf(&c, "out.append(M.sh(r[%d]))\n", i)
		if i < 0 || i >= n {
			exp.Fails = true
		} else {
			exp.Outs = []string{strconv.Itoa(m.Xs[i])}
		}
	case "slice":
		var from, to int
		if len(f) == 3 {
			// slice:<from>:<upTo> over the index alphabet {0, mid, last, len, len1}
			from, to = c20Index(n, f[1]), c20Index(n, f[2])
		} else {
			switch f[1] {
			case "inverted":
				from, to = n, 0
				if n == 0 {
					from, to = 1, 0
				}
			case "past":
				from, to = 0, n+1
			case "neg":
				from, to = -1, n
			}
		}
		fmt.Fprintf(&c, "out.append(M.showv(v.slice(from: %d, upTo: %d)))\n", from, to)
		if from < 0 || to < 0 || from > to || to > n {
			exp.Fails = true
		} else {
			exp.Outs = []string{idsStr(m.Xs[from:to])}
		}
	case "replace":
		exp.Mutates = true
		switch f[1] {
		case "reverse":
			c.WriteString("REPLACE(v.reverse())\n")
			m.Xs = reversed(m.Xs)
		case "slice":
			from, to := 0, n
			if n >= 2 {
				from, to = 1, n-1
			}
			fmt.Fprintf(&c, "REPLACE(v.slice(from: %d, upTo: %d))\n", from, to)
			m.Xs = append([]int(nil), m.Xs[from:to]...)
		case "concat":
			fmt.Fprintf(&c, "REPLACE(v.concat([M.mk(%d), M.mk(%d)]))\n", c20A, c20B)
			m.Xs = append(append([]int(nil), m.Xs...), c20A, c20B)
		case "filter":
			fmt.Fprintf(&c, "REPLACE(v.filter(view fun (e: %s): Bool { return M.idv(e) %% 2 == 0 }))\n", E)
			m.Xs = filterEven(m.Xs)
		case "map":
			fmt.Fprintf(&c, "REPLACE(v.map(fun (e: %s): %s { return M.mk(M.idv(e) + 1) }))\n", E, E)
			m.Xs = mapInc(m.Xs)
		}
	case "bulk":
		exp.Mutates = true
		switch f[1] {
		case "append":
			fmt.Fprintf(&c, "var i = 0\nwhile i < %d { r.append(M.mk(%d + i)); i = i + 1 }\n", bulk, c20Bulk)
			for i := 0; i < bulk; i++ {
				m.Xs = append(m.Xs, c20Bulk+i)
			}
		case "insertFront":
			fmt.Fprintf(&c, "var i = 0\nwhile i < %d { r.insert(at: 0, M.mk(%d + i)); i = i + 1 }\n", bulk, c20Bulk)
			front := make([]int, bulk)
			for i := 0; i < bulk; i++ {
				front[bulk-1-i] = c20Bulk + i
			}
			m.Xs = append(front, m.Xs...)
		case "removeLast":
			fmt.Fprintf(&c, "var i = 0\nvar s = 0\nwhile i < %d && r.length > 0 { s = s + M.idv(r.removeLast()); i = i + 1 }\nout.append(s.toString())\n", bulk)
			cnt := bulk
			if cnt > n {
				cnt = n
			}
			s := 0
			for _, x := range m.Xs[n-cnt:] {
				s += x
			}
			exp.Outs = []string{strconv.Itoa(s)}
			m.Xs = append([]int(nil), m.Xs[:n-cnt]...)
		case "removeFirst":
			fmt.Fprintf(&c, "var i = 0\nvar s = 0\nwhile i < %d && r.length > 0 { s = s + M.idv(r.removeFirst()); i = i + 1 }\nout.append(s.toString())\n", bulk)
			cnt := bulk
			if cnt > n {
				cnt = n
			}
			s := 0
			for _, x := range m.Xs[:cnt] {
				s += x
			}
			exp.Outs = []string{strconv.Itoa(s)}
			m.Xs = append([]int(nil), m.Xs[cnt:]...)
		}
	case "observe":
		out := func(code, want string) {
			fmt.Fprintf(&c, "out.append(%s)\n", code)
			exp.Outs = append(exp.Outs, want)
		}
		out("r.length.toString()", strconv.Itoa(n))
		out("v.length.toString()", strconv.Itoa(n))
		if n > 0 {
			for _, w := range []string{"0", "mid", "last"} {
				i := c20Index(n, w)
				out(fmt.Sprintf("M.sh(r[%d])", i), strconv.Itoa(m.Xs[i]))
				out(fmt.Sprintf("M.shv(v[%d])", i), strconv.Itoa(m.Xs[i]))
			}
		}
		tv := ""
		if isConst {
			tv = ".toVariableSized()" // reverse and map keep the constant size
		}
		out("M.showv(v.reverse()"+tv+")", idsStr(reversed(m.Xs)))
		out(fmt.Sprintf("M.showv(v.filter(view fun (e: %s): Bool { return M.idv(e) %% 2 == 0 }))", E), idsStr(filterEven(m.Xs)))
		out(fmt.Sprintf("M.showv(v.map(fun (e: %s): %s { return M.mk(M.idv(e) + 1) })%s)", E, E, tv), idsStr(mapInc(m.Xs)))
		out("M.showKs(v.map(fun (e: "+E+"): Int { return M.idv(e) * 2 })"+tv+")", idsStr(func() []int {
			o := make([]int, n)
			for i, x := range m.Xs {
				o[i] = 2 * x
			}
			return o
		}()))
		first, last := c20Miss, c20Miss
		if n > 0 {
			first, last = m.Xs[0], m.Xs[n-1]
		}
		for _, x := range []int{first, last, c20Miss, c20B} {
			out(fmt.Sprintf("v.contains(M.mk(%d)) ? \"true\" : \"false\"", x), containsStr(m.Xs, x))
			out(fmt.Sprintf("r.contains(M.mk(%d)) ? \"true\" : \"false\"", x), containsStr(m.Xs, x))
			out(fmt.Sprintf("(fun (i: Int?): String { if i == nil { return \"nil\" }; return \"some:\".concat(i!.toString()) })(v.firstIndex(of: M.mk(%d)))", x), firstIndex(m.Xs, x))
		}
		// iteration, with and without index
		c.WriteString("if true { var s = \"\"; for e in v { s = s.concat(M.shv(e)).concat(\",\") }; out.append(s) }\n")
		exp.Outs = append(exp.Outs, idsStr(m.Xs))
		c.WriteString("if true { var s = \"\"; for i, e in v { s = s.concat(i.toString()).concat(\"=\").concat(M.shv(e)).concat(\",\") }; out.append(s) }\n")
		var sb strings.Builder
		for i, x := range m.Xs {
			fmt.Fprintf(&sb, "%d=%d,", i, x)
		}
		exp.Outs = append(exp.Outs, sb.String())
		c.WriteString("if true { var s = \"\"; for e in r { s = s.concat(M.sh(e)).concat(\",\") }; out.append(s) }\n")
		exp.Outs = append(exp.Outs, idsStr(m.Xs))
		if isConst {
			out("M.showv(v.toVariableSized())", idsStr(m.Xs))
		} else {
			out("M.showv(v.concat([M.mk(7000), M.mk(7001)]))", idsStr(append(append([]int(nil), m.Xs...), c20A, c20B)))
			out("M.showv(v.concat([]))", idsStr(m.Xs))
			type sl struct{ a, b int }
			for _, s := range []sl{{0, n / 2}, {n / 2, n}, {0, n}, {n, n}, {0, 0}} {
				out(fmt.Sprintf("M.showv(v.slice(from: %d, upTo: %d))", s.a, s.b), idsStr(m.Xs[s.a:s.b]))
			}
			// toConstantSized with the right and a wrong size
			fmt.Fprintf(&c, "if let cs = v.toConstantSized<[%s; %d]>() { out.append(\"some:\".concat(M.showv(cs.toVariableSized()))) } else { out.append(\"nil\") }\n", E, n)
			exp.Outs = append(exp.Outs, "some:"+idsStr(m.Xs))
			fmt.Fprintf(&c, "out.append(v.toConstantSized<[%s; %d]>() == nil ? \"nil\" : \"some\")\n", E, n+1)
			exp.Outs = append(exp.Outs, "nil")
		}
	default:
		panic("c20 array op " + op)
	}
	return c.String(), exp
}

// c20IndexNames is the index alphabet of two-index operations.
var c20IndexNames = []string{"0", "mid", "last", "len", "len1"}

// c20ArrayOps: full = the complete alphabet incl. every (from, upTo) pair of
// the index alphabet for slice and the second out-of-range index for the
// one-index operations (used at the roots, i.e. for every start size class);
// deeper states use one representative of each invalid class.
func c20ArrayOps(k c20Kind, full bool) []string {
	if k.Cont == "const" {
		ops := []string{"observe", "set:0", "set:mid", "set:last", "set:past", "set:neg", "get:past", "get:neg", "replace:reverse", "replace:map"}
		if full {
			ops = append(ops, "set:len1", "get:len1")
		}
		return ops
	}
	if full {
		ops := c20ArrayOps(k, false)
		for _, a := range c20IndexNames {
			for _, b := range c20IndexNames {
				ops = append(ops, "slice:"+a+":"+b)
			}
		}
		return append(ops, "remove:len1", "set:len1", "get:len1")
	}
	ops := []string{"observe",
		"append", "appendAll", "insert:0", "insert:mid", "insert:end", "insert:past", "insert:neg",
		"remove:0", "remove:mid", "remove:last", "remove:past", "remove:neg", "removeFirst", "removeLast",
		"set:0", "set:mid", "set:last", "set:past", "set:neg", "get:past", "get:neg",
		"slice:inverted", "slice:past", "slice:neg", "slice:len1:len1", "slice:len:len", "slice:last:mid",
		"replace:reverse", "replace:slice", "replace:concat", "replace:filter", "replace:map",
		"bulk:append", "bulk:removeLast", "bulk:removeFirst", "bulk:insertFront"}
	return ops
}

// ---------------------------------------------------------------------------
// dictionaries

func c20GenDict(k c20Kind, m *c20Model, op string, bulk int) (string, c20Expect) {
	ks := m.keys()
	n := len(ks)
	var c strings.Builder
	exp := c20Expect{}
	f := strings.Split(op, ":")
	opt := func(key int) string {
		if v, ok := m.D[key]; ok {
			return fmt.Sprintf("some:%d", v)
		}
		return "nil"
	}
	pick := func(which string) int {
		switch which {
		case "existing":
			if n == 0 {
				return c20New
			}
			return ks[0]
		case "mid":
			if n == 0 {
				return c20New
			}
			return ks[n/2]
		case "new", "absent":
			return c20New
		}
		panic(which)
	}
	set := func(key, v int) {
		m.D[key] = v
	}
	switch f[0] {
	case "insert":
		key := pick(f[1])
		fmt.Fprintf(&c, "out.append(M.sho(r.insert(key: M.mkK(%d), M.mk(%d))))\n", key, c20A)
		exp.Outs = []string{opt(key)}
		set(key, c20A)
		exp.Mutates = true
	case "remove":
		key := pick(f[1])
		fmt.Fprintf(&c, "out.append(M.sho(r.remove(key: M.mkK(%d))))\n", key)
		exp.Outs = []string{opt(key)}
		delete(m.D, key)
		exp.Mutates = true
	case "set":
		key := pick(f[1])
		fmt.Fprintf(&c, "r[M.mkK(%d)] = M.mk(%d)\n", key, c20B)
		set(key, c20B)
		exp.Mutates = true
	case "setnil":
		key := pick(f[1])
		fmt.Fprintf(&c, "r[M.mkK(%d)] = nil\n", key)
		delete(m.D, key)
		exp.Mutates = true
	case "bulk":
		exp.Mutates = true
		switch f[1] {
		case "insert":
			fmt.Fprintf(&c, "var i = 0\nwhile i < %d { r[M.mkK(%d + i)] = M.mk(%d + i); i = i + 1 }\n", bulk, c20Bulk, c20Bulk)
			for i := 0; i < bulk; i++ {
				set(c20Bulk+i, c20Bulk+i)
			}
		case "remove":
			// remove the `bulk` smallest keys (the model knows them)
			cnt := bulk
			if cnt > n {
				cnt = n
			}
			c.WriteString("var s = 0\n")
			s := 0
			if cnt > 0 {
				// keys of the start state are contiguous in most states; list them explicitly to stay exact
				var lits []string
				for _, key := range ks[:cnt] {
					lits = append(lits, strconv.Itoa(key))
					s += m.D[key]
					delete(m.D, key)
				}
				fmt.Fprintf(&c, "for kid in [%s] { s = s + M.idv(r.remove(key: M.mkK(kid))!) }\n", strings.Join(lits, ", "))
			}
			c.WriteString("out.append(s.toString())\n")
			exp.Outs = []string{strconv.Itoa(s)}
		case "overwrite":
			cnt := bulk
			if cnt > n {
				cnt = n
			}
			if cnt > 0 {
				var lits []string
				for _, key := range ks[:cnt] {
					lits = append(lits, strconv.Itoa(key))
					set(key, c20B)
				}
				fmt.Fprintf(&c, "for kid in [%s] { r[M.mkK(kid)] = M.mk(%d) }\n", strings.Join(lits, ", "), c20B)
			}
		}
	case "observe":
		out := func(code, want string) {
			fmt.Fprintf(&c, "out.append(%s)\n", code)
			exp.Outs = append(exp.Outs, want)
		}
		out("r.length.toString()", strconv.Itoa(n))
		out("v.length.toString()", strconv.Itoa(n))
		for _, w := range []string{"existing", "mid", "absent"} {
			key := pick(w)
			if w == "absent" {
				key = c20Miss
			}
			out(fmt.Sprintf("M.sho(v[M.mkK(%d)])", key), opt(key))
			out(fmt.Sprintf("v.containsKey(M.mkK(%d)) ? \"true\" : \"false\"", key), map[bool]string{true: "true", false: "false"}[opt(key) != "nil"])
			out(fmt.Sprintf("r.containsKey(M.mkK(%d)) ? \"true\" : \"false\"", key), map[bool]string{true: "true", false: "false"}[opt(key) != "nil"])
			if k.Elem != "arr" {
				out(fmt.Sprintf("M.sho(r[M.mkK(%d)])", key), opt(key))
			}
		}
		var all []string
		for _, key := range ks {
			all = append(all, strconv.Itoa(key))
		}
		keysLine := "~" + strings.Join(all, ",")
		if n > 0 {
			keysLine += ","
		}
		// keys, values (paired by position), forEachKey, iteration over keys
		c.WriteString("let ks = v.keys\nlet vs = v.values\n")
		out("M.showKs(*(r.keys))", keysLine)
		out("M.showKs(ks)", keysLine)
		out("M.showv(vs)", "?values")
		c.WriteString("if true { var s = \"\"; for key in v.keys { s = s.concat(M.idK(key).toString()).concat(\"=\").concat(M.sho(v[key])).concat(\";\") }; out.append(s) }\n")
		exp.Outs = append(exp.Outs, "?pairs")
		c.WriteString("if true { let acc: [" + k.kType() + "] = []; v.forEachKey(fun (key: " + k.kType() + "): Bool { acc.append(key); return true }); out.append(M.showKs(acc)) }\n")
		exp.Outs = append(exp.Outs, keysLine)
		c.WriteString("if true { let acc: [" + k.kType() + "] = []; v.forEachKey(fun (key: " + k.kType() + "): Bool { acc.append(key); return acc.length < 2 }); out.append(acc.length.toString()) }\n")
		want := 2
		if n < 2 {
			want = n
		}
		exp.Outs = append(exp.Outs, strconv.Itoa(want))
		c.WriteString("if true { var s = \"\"; for key in v { s = s.concat(M.idK(key).toString()).concat(\",\") }; out.append(s) }\n")
		exp.Outs = append(exp.Outs, keysLine)
	default:
		panic("c20 dict op " + op)
	}
	return c.String(), exp
}

func c20DictOps() []string {
	return []string{"observe", "insert:existing", "insert:mid", "insert:new", "remove:existing", "remove:mid", "remove:absent",
		"set:existing", "set:new", "setnil:existing", "setnil:absent", "bulk:insert", "bulk:remove", "bulk:overwrite"}
}

// c20CompareOuts compares the output lines of an operation with the
// expectation; returns "" or the kind of mismatch.
func c20CompareOuts(m c20Model, got, want []string, code string) string {
	var names []string
	for _, line := range strings.Split(code, "\n") {
		if strings.Contains(line, "out.append(") {
			names = append(names, c20OutName(line))
		}
	}
	if len(got) != len(want) {
		return fmt.Sprintf("result-count(%d!=%d)", len(got), len(want))
	}
	var gotKeys []int
	for i := range want {
		w, g := want[i], got[i]
		switch {
		case w == "?values":
			// values[i] must belong to keys[i] (the keys line precedes)
			vs := splitIDs(g)
			if len(vs) != len(gotKeys) {
				return "values-count"
			}
			for j, key := range gotKeys {
				if mv, ok := m.D[key]; !ok || mv != vs[j] {
					return "keys-values-pairing"
				}
			}
		case w == "?pairs":
			seen := map[int]bool{}
			for _, p := range strings.Split(strings.TrimSuffix(g, ";"), ";") {
				if p == "" {
					continue
				}
				kv := strings.SplitN(p, "=", 2)
				key, _ := strconv.Atoi(kv[0])
				if mv, ok := m.D[key]; !ok || len(kv) != 2 || kv[1] != fmt.Sprintf("some:%d", mv) || seen[key] {
					return "iteration-pairs"
				}
				seen[key] = true
			}
			if len(seen) != len(m.D) {
				return "iteration-pairs-count"
			}
		case strings.HasPrefix(w, "~"):
			a, b := splitIDs(w[1:]), splitIDs(g)
			gotKeys = append([]int(nil), b...)
			sort.Ints(a)
			sort.Ints(b)
			if idsStr(a) != idsStr(b) {
				return "key-set"
			}
		default:
			if w != g {
				if i < len(names) {
					return "result-of-" + names[i]
				}
				return fmt.Sprintf("result-%d", i)
			}
		}
	}
	return ""
}

func splitIDs(s string) []int {
	var out []int
	for _, p := range strings.Split(s, ",") {
		if p == "" {
			continue
		}
		n, err := strconv.Atoi(p)
		if err != nil {
			n = -999999
		}
		out = append(out, n)
	}
	return out
}

// Package storage holds the checks of the storage family:
// C05 (copy semantics), C20 (container models), C22 (account storage map),
// C23 (committed storage is healthy), C24 (no writes on failure / scripts).
package storage

import (
	"fmt"
	"sort"
	"strings"
	"sync"

	"github.com/onflow/cadence"
	"github.com/onflow/cadence/common"

	"verif/mc"
	"verif/rt"
	"verif/rtx"
)

var both = []bool{false, true}

func engName(vm bool) string {
	if vm {
		return "vm"
	}
	return "interp"
}

func signers(ns ...byte) []common.Address {
	out := make([]common.Address, len(ns))
	for i, n := range ns {
		out[i] = rt.Addr(n)
	}
	return out
}

// sizeClass is the structural size class used in signatures.
func sizeClass(n int, th thresholds) string {
	switch {
	case n == 0:
		return "empty"
	case n < th.Inline:
		return "inline"
	case n < th.Split:
		return "one-slab"
	}
	return "multi-slab"
}

// thresholds of one (container kind, element kind): the smallest element
// count at which a stored container leaves its parent slab (Inline) and the
// smallest at which it needs more than one slab of its own (Split). Measured
// at run time through the runtime, never hard-coded.
type thresholds struct {
	Inline int `json:"inline"`
	Split  int `json:"split"`
}

// measure finds the thresholds for containers produced by the Cadence
// expression builder mk(n) (a transaction body fragment that saves a container
// of n elements at /storage/c of account 1). base is the ledger to start from.
func measure(base *rt.Ledger, vm bool, mkTx func(n int) string, max int) (thresholds, error) {
	count := func(n int) (int, error) {
		l := base.Clone()
		r := rt.Run(l, rt.Tx{Source: mkTx(n), Signers: signers(1), UseVM: vm, NoAtreeValidation: true})
		if !r.OK() {
			return 0, fmt.Errorf("threshold probe n=%d failed: %s", n, r.ErrString())
		}
		return rtx.SlabCount(l), nil
	}
	c0, err := count(0)
	if err != nil {
		return thresholds{}, err
	}
	// smallest n with count(n) > limit, assuming monotonicity (verified at the
	// two neighbours of the answer)
	find := func(limit int, lo int) (int, error) {
		hi := lo
		if hi < 1 {
			hi = 1
		}
		for {
			c, err := count(hi)
			if err != nil {
				return 0, err
			}
			if c > limit {
				break
			}
			lo = hi
			hi *= 2
			if hi > max {
				return 0, fmt.Errorf("no slab transition up to %d elements", max)
			}
		}
		// invariant: count(lo) <= limit < count(hi)
		for hi-lo > 1 {
			mid := (lo + hi) / 2
			c, err := count(mid)
			if err != nil {
				return 0, err
			}
			if c > limit {
				hi = mid
			} else {
				lo = mid
			}
		}
		return hi, nil
	}
	in, err := find(c0, 0)
	if err != nil {
		return thresholds{}, err
	}
	sp, err := find(c0+1, in)
	if err != nil {
		return thresholds{}, err
	}
	return thresholds{Inline: in, Split: sp}, nil
}

// once-per-process cache of measured thresholds
var thMu sync.Mutex
var thCache = map[string]thresholds{}

func cachedThresholds(key string, f func() (thresholds, error)) (thresholds, error) {
	thMu.Lock()
	defer thMu.Unlock()
	if t, ok := thCache[key]; ok {
		return t, nil
	}
	t, err := f()
	if err == nil {
		thCache[key] = t
	}
	return t, err
}

func sortedKeys[V any](m map[string]V) []string {
	ks := make([]string, 0, len(m))
	for k := range m {
		ks = append(ks, k)
	}
	sort.Strings(ks)
	return ks
}

func short(s string, n int) string {
	if len(s) > n {
		return s[:n] + "…"
	}
	return s
}

func joinLogs(logs []string) string { return strings.Join(logs, "\n") }

// classOf summarises a result for outcome-class counting.
func classOf(r *rt.Result) string {
	if r.OK() {
		return "ok"
	}
	return r.Class + ":" + r.Kind
}

var _ = mc.Hash

// cadenceStrings converts a [String] script result.
func cadenceStrings(v cadence.Value) ([]string, bool) {
	a, ok := v.(cadence.Array)
	if !ok {
		return nil, false
	}
	out := make([]string, 0, len(a.Values))
	for _, e := range a.Values {
		s, ok := e.(cadence.String)
		if !ok {
			return nil, false
		}
		out = append(out, string(s))
	}
	return out, true
}

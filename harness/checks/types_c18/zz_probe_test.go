package types_c18

import (
	"fmt"
	"os"
	"strings"
	"testing"

	"verif/rt"
)

func TestProbe(t *testing.T) {
	b, err := os.ReadFile("/tmp/c18probe.txt")
	if err != nil {
		t.Skip()
	}
	for _, vm := range []bool{false, true} {
		for _, line := range strings.Split(string(b), "\n") {
			line = strings.TrimSpace(line)
			if line == "" || strings.HasPrefix(line, "#") {
				continue
			}
			src := "import C18 from 0x1\naccess(all) fun main(): AnyStruct {\n" + strings.ReplaceAll(line, ";;", "\n") + "\n}"
			r := rt.Run(c18Ledger(vm), rt.Tx{Source: src, Script: true, UseVM: vm})
			es := r.ErrString()
			if len(es) > 300 {
				es = es[:300]
			}
			fmt.Printf("vm=%v %-70s => %v %s %s %s\n", vm, line, r.Value, r.Class, r.Kind, strings.ReplaceAll(es, "\n", " | "))
		}
	}
}

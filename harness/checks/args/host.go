package args

import (
	"fmt"
	"sort"

	"github.com/onflow/atree"

	"github.com/onflow/cadence"
	"github.com/onflow/cadence/common"
	jsoncdc "github.com/onflow/cadence/encoding/json"
	"github.com/onflow/cadence/runtime"
	"github.com/onflow/cadence/stdlib"
	ru "github.com/onflow/cadence/test_utils/runtime_utils"

	"verif/rt"
)

// host is the bulk driver: one runtime.Interface, one reusable
// runtime.Environment and one program cache per (worker, entry-point kind,
// engine), the way a production host re-uses environments and caches programs
// across executions. It reads the shared ledger (contracts C and D) and
// discards every write. Results have the shape of rt.Result.
//
// Soundness: nothing a host reports becomes a VIOLATION before the same case
// is re-executed five times by rt.Run (fresh runtime, environment, storage and
// program cache per execution) in Replay; and on every job one case per
// configuration is cross-checked against rt.Run (disagreement = harness error).
type host struct {
	script, vm bool
	l          *rt.Ledger
	iface      *ru.TestRuntimeInterface
	env        runtime.Environment
	rtm        runtime.Runtime
	logs       []string
	events     []cadence.Event
	progs      map[runtime.Location]*runtime.Program
	lastSrc    string
	dirty      bool
	// overlay receives the writes of the execution (the shared ledger is read-only) and is read first;
	// a transaction host and its read-back script host share one overlay, cleared before every transaction.
	overlay  map[string][]byte
	readOnly bool // a read-back host: reads the overlay, never clears or writes it
}

func newHost(l *rt.Ledger, script, vm bool) *host {
	h := &host{script: script, vm: vm, l: l}
	h.reset()
	return h
}

func (h *host) reset() {
	key := func(owner, k []byte) string { return string(owner) + "|" + string(k) }
	h.progs = map[runtime.Location]*runtime.Program{}
	h.lastSrc = ""
	h.dirty = false
	var slab uint64
	h.iface = &ru.TestRuntimeInterface{
		Storage: ru.TestLedger{
			OnValueExists: func(owner, k []byte) (bool, error) {
				if v, ok := h.overlay[key(owner, k)]; ok {
					return len(v) > 0, nil
				}
				return len(h.l.Values[key(owner, k)]) > 0, nil
			},
			OnGetValue: func(owner, k []byte) ([]byte, error) {
				if v, ok := h.overlay[key(owner, k)]; ok {
					return v, nil
				}
				return h.l.Values[key(owner, k)], nil
			},
			OnSetValue: func(owner, k, v []byte) error {
				if h.overlay != nil && !h.readOnly {
					h.overlay[key(owner, k)] = append([]byte(nil), v...)
				}
				return nil
			},
			OnAllocateSlabIndex: func(owner []byte) (r atree.SlabIndex, err error) {
				slab++
				r[0] = 0xf0 // far away from the indices used by the deployed contracts
				for i := 0; i < 7; i++ {
					r[7-i] = byte(slab >> (8 * i))
				}
				return
			},
		},
		OnGetSigningAccounts: func() ([]runtime.Address, error) {
			if h.script {
				return nil, nil
			}
			return []runtime.Address{rt.Addr(1)}, nil
		},
		OnProgramLog:         func(s string) { h.logs = append(h.logs, s) },
		OnEmitEvent:          func(e cadence.Event) error { h.events = append(h.events, e); return nil },
		OnGenerateUUID:       func() (uint64, error) { return 1000, nil },
		OnResolveLocation: func(ids []runtime.Identifier, loc runtime.Location) ([]runtime.ResolvedLocation, error) {
			if al, ok := loc.(common.AddressLocation); ok && al.Name == "" {
				var out []runtime.ResolvedLocation
				for _, id := range ids {
					out = append(out, runtime.ResolvedLocation{
						Location:    common.AddressLocation{Address: al.Address, Name: id.Identifier},
						Identifiers: []runtime.Identifier{id},
					})
				}
				return out, nil
			}
			return []runtime.ResolvedLocation{{Location: loc, Identifiers: ids}}, nil
		},
		OnGetCode: func(loc runtime.Location) ([]byte, error) { return h.l.Code[string(loc.ID())], nil },
		OnGetAccountContractCode: func(loc common.AddressLocation) ([]byte, error) {
			return h.l.Code[string(loc.ID())], nil
		},
		OnDecodeArgument: func(b []byte, _ cadence.Type) (cadence.Value, error) { return jsoncdc.Decode(nil, b) },
		OnValidatePublicKey: func(*stdlib.PublicKey) error { return nil },
		// the same fixed answers as rt.Run gives
		OnGetAccountBalance:          func(runtime.Address) (uint64, error) { return 100_00000000, nil },
		OnGetAccountAvailableBalance: func(runtime.Address) (uint64, error) { return 90_00000000, nil },
		OnGetStorageUsed:             func(runtime.Address) (uint64, error) { return 1000, nil },
		OnGetStorageCapacity:         func(runtime.Address) (uint64, error) { return 100000, nil },
		OnAccountKeysCount:           func(runtime.Address) (uint32, error) { return 0, nil },
		OnGetAccountKey:              func(runtime.Address, uint32) (*stdlib.AccountKey, error) { return nil, nil },
		OnGetAccountContractNames: func(a runtime.Address) ([]string, error) {
			if a == rt.Addr(1) {
				var names []string
				for k := range h.l.Code {
					if loc, _, err := common.DecodeTypeID(nil, k); err == nil {
						if al, ok := loc.(common.AddressLocation); ok && al.Address == a {
							names = append(names, al.Name)
						}
					}
				}
				sort.Strings(names)
				return names, nil
			}
			return nil, nil
		},
		OnGetOrLoadProgram: func(loc runtime.Location, load func() (*runtime.Program, error)) (*runtime.Program, error) {
			if p, ok := h.progs[loc]; ok {
				return p, nil
			}
			p, err := load()
			if err == nil && p != nil {
				h.progs[loc] = p
			}
			return p, err
		},
	}
	cfg := runtime.Config{AtreeValidationEnabled: true}
	switch {
	case h.script && h.vm:
		h.env = runtime.NewScriptVMEnvironment(cfg)
	case h.script:
		h.env = runtime.NewScriptInterpreterEnvironment(cfg)
	case h.vm:
		h.env = runtime.NewBaseVMEnvironment(cfg)
	default:
		h.env = runtime.NewBaseInterpreterEnvironment(cfg)
	}
	h.rtm = runtime.NewRuntime(cfg)
}

func (h *host) run(src string, args [][]byte) *rt.Result {
	if h.dirty {
		h.reset()
	}
	if src != h.lastSrc {
		// the entry program changes, the imported contracts stay cached
		for loc := range h.progs {
			if _, ok := loc.(common.AddressLocation); !ok {
				delete(h.progs, loc)
			}
		}
		h.lastSrc = src
	}
	h.logs, h.events = nil, nil
	if h.overlay != nil && !h.readOnly {
		clear(h.overlay)
	}
	res := &rt.Result{}
	var loc common.Location = common.ScriptLocation{0x1}
	if !h.script {
		loc = common.TransactionLocation{0x1}
	}
	ctx := runtime.Context{Interface: h.iface, Location: loc, UseVM: h.vm, Environment: h.env}
	func() {
		defer func() {
			if p := recover(); p != nil {
				res.EscapedPanic = p
			}
		}()
		if h.script {
			res.Value, res.Err = h.rtm.ExecuteScript(runtime.Script{Source: []byte(src), Arguments: args}, ctx)
		} else {
			res.Err = h.rtm.ExecuteTransaction(runtime.Script{Source: []byte(src), Arguments: args}, ctx)
		}
	}()
	if res.EscapedPanic != nil {
		res.Class, res.Kind = "escaped-panic", fmt.Sprintf("%T", res.EscapedPanic)
	} else {
		res.Class, res.Kind = rt.Classify(res.Err)
	}
	res.Logs, res.Events = h.logs, h.events
	if res.Class != "ok" && res.Class != "user" {
		// do not let a crashed execution influence the next one
		h.dirty = true
	}
	return res
}

// runFresh is the reference driver (and the replay driver): rt.Run, everything fresh.
func runFresh(l *rt.Ledger, src string, args [][]byte, script, vm bool) *rt.Result {
	if args == nil {
		args = [][]byte{}
	}
	tx := rt.Tx{Source: src, RawArgs: args, Script: script, UseVM: vm}
	if !script {
		tx.Signers = []common.Address{rt.Addr(1)}
	}
	return rt.Run(l, tx)
}

package args

import (
	"fmt"

	"github.com/onflow/cadence"

	"verif/gen/cdcval"
	"verif/mc"
	"verif/rt"
)

// Returned values that hold the SAME reference more than once (siblings in an
// array, values of a dictionary, two fields of a struct, two nesting depths,
// a container that contains a reference to itself).
//
// Oracle, besides "exports and round-trips" (judgeReturn):
//
//   - twin: the exported value equals (exact dump) the export of the same
//     structure built from two distinct references to the same target – what a
//     script builds does not depend on whether two positions hold one reference
//     value or two equal ones;
//   - siblings: where the result is a container whose members were all built
//     from the one reference, the exported members are pairwise equal (this is
//     the clause for self-containing structures, which have no twin).
type sharedCase struct {
	Name     string
	Decls    string // top-level declarations of the script
	Body     string // statements of main, sharing one reference
	Twin     string // same structure from distinct references ("" = none)
	Siblings bool
}

const twoDecl = `access(all) struct Two {
    access(all) let a: &Int
    access(all) let b: &Int
    init(a: &Int, b: &Int) { self.a = a; self.b = b }
}
access(all) struct TwoAny {
    access(all) let a: AnyStruct
    access(all) let b: AnyStruct
    init(a: AnyStruct, b: AnyStruct) { self.a = a; self.b = b }
}
`

var sharedCases = []sharedCase{
	{"array-siblings", "", `let r = &1 as &Int; return [r, r]`, `let r = &1 as &Int; let q = &1 as &Int; return [r, q]`, true},
	{"array-three", "", `let r = &"s" as &String; return [r, r, r]`, `return [&"s" as &String, &"s" as &String, &"s" as &String]`, true},
	{"dictionary-values", "", `let r = &1 as &Int; return {"a": r, "b": r}`, `let r = &1 as &Int; let q = &1 as &Int; return {"a": r, "b": q}`, true},
	{"struct-two-fields", twoDecl, `let r = &1 as &Int; return Two(a: r, b: r)`, `let r = &1 as &Int; let q = &1 as &Int; return Two(a: r, b: q)`, false},
	{"struct-anystruct-fields", twoDecl, `let r = &1 as &Int; return TwoAny(a: r, b: r)`, `let r = &1 as &Int; let q = &1 as &Int; return TwoAny(a: r, b: q)`, false},
	{"two-depths-array", "", `let r = &1 as &Int; let x: [AnyStruct] = [r, [r]]; return x`, `let r = &1 as &Int; let q = &1 as &Int; let x: [AnyStruct] = [r, [q]]; return x`, false},
	{"two-depths-dictionary", "", `let r = &1 as &Int; let x: {String: AnyStruct} = {"a": r, "b": {"c": r}}; return x`, `let r = &1 as &Int; let q = &1 as &Int; let x: {String: AnyStruct} = {"a": r, "b": {"c": q}}; return x`, false},
	{"nested-arrays", "", `let r = &1 as &Int; return [[r], [r]]`, `let r = &1 as &Int; let q = &1 as &Int; return [[r], [q]]`, true},
	{"array-and-struct", twoDecl, `let r = &1 as &Int; let x: [AnyStruct] = [r, Two(a: r, b: r)]; return x`, `let x: [AnyStruct] = [&1 as &Int, Two(a: &1 as &Int, b: &1 as &Int)]; return x`, false},
	{"optional-and-bare", "", `let r = &1 as &Int; let x: [&Int?] = [r, nil, r]; return x`, `let r = &1 as &Int; let q = &1 as &Int; let x: [&Int?] = [r, nil, q]; return x`, false},
	{"reference-to-struct", "", `let s = C.S2(7); let r = &s as &C.S2; return [r, r]`, `let s = C.S2(7); return [&s as &C.S2, &s as &C.S2]`, true},
	{"reference-to-array", "", `let a = [1, 2]; let r = &a as &[Int]; return [r, r]`, `let a = [1, 2]; return [&a as &[Int], &a as &[Int]]`, true},
	{"reference-to-dictionary", "", `let d = {"k": C.S2(1)}; let r = &d as &{String: C.S2}; return {1: r, 2: r}`, `let d = {"k": C.S2(1)}; return {1: &d as &{String: C.S2}, 2: &d as &{String: C.S2}}`, true},
	{"authorized-reference", "", `let s = C.S(1); let r = &s as auth(C.E) &C.S; return [r, r]`, `let s = C.S(1); return [&s as auth(C.E) &C.S, &s as auth(C.E) &C.S]`, true},
	{"reference-inside-referenced-array", "", `let r = &1 as &Int; let a = [r, r]; let ra = &a as &[&Int]; return [ra, ra]`, `let a = [&1 as &Int, &1 as &Int]; return [&a as &[&Int], &a as &[&Int]]`, true},
	// a container that contains a reference to itself: no twin (the cut of the cycle depends on the entry point), siblings only
	{"self-containing-array", "", `let a: [AnyStruct] = [1]; let r = &a as &[AnyStruct]; a.append(r); return [r, r]`, "", true},
	{"self-containing-dictionary", "", `let d: {String: AnyStruct} = {}; let r = &d as &{String: AnyStruct}; d["self"] = r; return [r, r, r]`, "", true},
	{"self-containing-twice", "", `let a: [AnyStruct] = []; let r = &a as &[AnyStruct]; a.append(r); a.append(r); return a`, "", true},
}

func sharedByName(name string) *sharedCase {
	for i := range sharedCases {
		if sharedCases[i].Name == name {
			return &sharedCases[i]
		}
	}
	return nil
}

func sharedSource(imports, decls, body string) string {
	return imports + decls + "access(all) fun main(): AnyStruct {\n    " + body + "\n}\n"
}

func exactDump(v cadence.Value) (s string) {
	defer func() {
		if p := recover(); p != nil {
			s = fmt.Sprintf("<undumpable: %v>", p)
		}
	}()
	return cdcval.Dump(v, cdcval.Exact)
}

// judgeShared: sig "" = fine; status "skip" = the programs do not check / are refused with a user error.
func judgeShared(c *sharedCase, run func(src string) *rt.Result, imports string) (sig, detail, status string) {
	res := run(sharedSource(imports, c.Decls, c.Body))
	if res.Class == "user" {
		return "", trunc(res.ErrString(), 200), "skip"
	}
	if res.Class != "ok" || res.Value == nil {
		s, d := judgeReturn(res)
		return s, d, "violation"
	}
	// the equality clauses first: their signatures name the structure
	if c.Siblings {
		members := cdcval.Children(res.Value)
		if d, ok := res.Value.(cadence.Dictionary); ok {
			members = nil
			for _, p := range d.Pairs {
				members = append(members, p.Value)
			}
		}
		for i := 1; i < len(members); i++ {
			if a, b := exactDump(members[0]), exactDump(members[i]); a != b {
				return "returned-value|shared-reference|siblings-differ|" + c.Name,
					fmt.Sprintf("members 0 and %d of the result were built from one reference and export differently: %s vs %s", i, trunc(a, 150), trunc(b, 150)), "violation"
			}
		}
	}
	if c.Twin != "" {
		tw := run(sharedSource(imports, c.Decls, c.Twin))
		if tw.Class != "ok" || tw.Value == nil {
			return "", "twin: " + trunc(tw.ErrString(), 200), "skip"
		}
		if a, b := exactDump(res.Value), exactDump(tw.Value); a != b {
			return "returned-value|shared-reference|differs-from-distinct-references|" + c.Name,
				fmt.Sprintf("built with one reference: %s; built with distinct references to the same target: %s", trunc(a, 200), trunc(b, 200)), "violation"
		}
	}
	if class, d := roundTrip(res.Value); class != "" {
		return fmt.Sprintf("returned-value|shared-reference|%s|%s", class, c.Name), fmt.Sprintf("returned value %s: %s", trunc(safeString(res.Value), 200), trunc(d, 300)), "violation"
	}
	return "", "", "ok"
}

func runShared(env *mc.Env, w *world, hs *hostSet, c *sharedCase) {
	var evals int64
	for _, vm := range []bool{false, true} {
		h := hs.hosts[hostIndex(true, vm)]
		sig, detail, status := judgeShared(c, func(src string) *rt.Result { evals++; return h.run(src, [][]byte{}) }, w.imports)
		switch status {
		case "violation":
			env.R.Violation(sig, c29Case{World: w.name, Shared: c.Name, Script: true, VM: vm}, fmt.Sprintf("[%s] shared-reference result %s: %s", modeName(true, vm), c.Name, detail))
			env.R.ClassN("returned|shared-reference|violation", 1)
		case "skip":
			env.R.HarnessError("shared-reference case %s does not run (%s): %s", c.Name, modeName(true, vm), detail)
		default:
			env.R.Nontrivial("shared|" + c.Name + modeName(true, vm))
			env.R.ClassN("returned|shared-reference|exported-equal-to-twin-and-round-tripped", 1)
		}
	}
	env.R.EvalN(evals)
}

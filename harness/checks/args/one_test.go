package args

import (
	"os"
	"testing"
)

// TestOne runs one case: C29_PARAM, C29_ARG, C29_MODE (script/interp …) through rt.Run and prints everything.
func TestOne(t *testing.T) {
	p, a, m := os.Getenv("C29_PARAM"), os.Getenv("C29_ARG"), os.Getenv("C29_MODE")
	if p == "" {
		t.Skip()
	}
	script := m == "" || m[0] == 's'
	vm := len(m) > 2 && m[len(m)-2:] == "vm"
	c := c29Case{World: worldName(), Param: p, Script: script, VM: vm, Args: []string{a}}
	w := getWorld(worldName())
	T, _ := w.paramType(p)
	deep := T != nil && alwaysStorable(T, 0)
	l := w.ledger.Clone()
	res := runFresh(l, w.source(p, script, deep), c.raw(), script, vm)
	t.Logf("class=%s kind=%s logs=%v value=%v\nerr=%s", res.Class, res.Kind, res.Logs, res.Value, res.ErrString())
	if res.Value != nil {
		cl, d := roundTrip(res.Value)
		t.Logf("roundtrip: %s %s", cl, d)
	}
	v, d := replayC29(nil, mustJSON(c))
	t.Logf("replay: %v %s", v, d)
}

package args

import (
	"fmt"
	"strings"

	"github.com/onflow/cadence"
	"github.com/onflow/cadence/common"
	"github.com/onflow/cadence/encoding/ccf"
	jsoncdc "github.com/onflow/cadence/encoding/json"
	"github.com/onflow/cadence/interpreter"
	"github.com/onflow/cadence/runtime"
	"github.com/onflow/cadence/sema"

	"verif/gen/cdcval"
	"verif/gen/tygen"
)

// The independent deep conformance check of C29.
//
// check(v, T) walks an external value (the argument as sent, decoded from the
// JSON-CDC bytes, or the value the program received, as exported) against
// the *sema* parameter type:
//
//   - leaves: the leaf's own static type (its cadence type converted to a sema
//     type) must be a subtype of the expected type by sema.IsSubType and must
//     be importable by sema's own IsImportable; capability and function values
//     are never importable;
//   - optionals / arrays / dictionaries: recursively against the declared
//     element / key / value type of the expected type (constant-sized arrays:
//     the size too); when the expected type is not of that shape (AnyStruct,
//     HashableStruct, …) every element must conform by itself and the
//     container type built over each element type must be a subtype;
//   - composites: the type ID must name a composite type of the deployed
//     contracts (or a native one) of the same kind, the set of field names must
//     be exactly the declared one, and every field value must conform to the
//     declared field type, recursively;
//   - exported values carry the static type the runtime gave a container
//     (declared = true): that type must itself be a subtype of the expected
//     type and the elements must conform to *it*.
//
// It never calls ConformsToStaticType, IsImportable (the value method) or any
// of the importer's code.

// verdict is the result of a conformance walk: Class == "" means conforms.
// A Class starting with "?" means the walk met a type it cannot resolve
// (a capability borrow type naming a type that does not exist …): the
// property's sentence does not say what a subtype of the parameter type is
// then, so an accepted argument of that kind is a don't-care, never an alarm.
type verdict struct {
	Class  string
	Detail string
}

func (v verdict) ok() bool       { return v.Class == "" }
func (v verdict) dontCare() bool { return strings.HasPrefix(v.Class, "?") }

func bad(class, format string, a ...any) verdict {
	return verdict{Class: class, Detail: fmt.Sprintf(format, a...)}
}

type oracle struct {
	conv  *interpreter.Interpreter
	types *typeTable
}

// typeTable is the nominal types of the deployed contracts C (tygen prelude) and D.
type typeTable struct {
	composites map[common.TypeID]*sema.CompositeType
	interfaces map[common.TypeID]*sema.InterfaceType
}

func newOracle(w *world) *oracle {
	ch := w.cChecker
	tt := w.types
	inter, err := interpreter.NewInterpreter(
		interpreter.ProgramFromChecker(ch),
		tygen.PreludeLocation,
		&interpreter.Config{
			Storage: interpreter.NewInMemoryStorage(nil, nil),
			CompositeTypeHandler: func(_ common.Location, id interpreter.TypeID) *sema.CompositeType {
				return tt.composites[id]
			},
			InterfaceTypeHandler: func(_ common.Location, id interpreter.TypeID) *sema.InterfaceType {
				return tt.interfaces[id]
			},
		},
	)
	if err != nil {
		panic(err)
	}
	return &oracle{conv: inter, types: tt}
}

// semaOf converts an external type to a sema type ("" error = resolved).
func (o *oracle) semaOf(t cadence.Type) (ty sema.Type, err error) {
	defer func() {
		if p := recover(); p != nil {
			ty, err = nil, fmt.Errorf("%v", p)
		}
	}()
	if t == nil {
		return nil, fmt.Errorf("nil type")
	}
	st := runtime.ImportType(nil, t)
	ty, err = interpreter.ConvertStaticToSemaType(o.conv, st)
	if err == nil && (ty == nil || ty.IsInvalidType()) {
		err = fmt.Errorf("invalid type")
	}
	return
}

func subtype(a, b sema.Type) bool { return sema.IsSubType(a, b) }

func importable(t sema.Type) bool { return t.IsImportable(map[*sema.Member]bool{}) }

var compositeKindOf = map[string]common.CompositeKind{
	"Struct": common.CompositeKindStructure, "Resource": common.CompositeKindResource,
	"Event": common.CompositeKindEvent, "Enum": common.CompositeKindEnum,
	"Contract": common.CompositeKindContract, "Attachment": common.CompositeKindAttachment,
}

// natural computes a sound upper bound of the value's own type, checking the
// value's internal consistency on the way (declared: trust-but-verify the
// static types carried by exported containers).
func (o *oracle) natural(v cadence.Value, declared bool, depth int) (sema.Type, verdict) {
	if depth > 12 {
		return nil, bad("?too-deep", "nesting deeper than 12")
	}
	switch v := v.(type) {
	case nil:
		return nil, bad("nil-value", "nil value")
	case cadence.Optional:
		if v.Value == nil {
			return sema.NewOptionalType(nil, sema.NeverType), verdict{}
		}
		in, vd := o.natural(v.Value, declared, depth+1)
		if !vd.ok() {
			return nil, vd
		}
		return sema.NewOptionalType(nil, in), verdict{}

	case cadence.Array:
		if declared && v.ArrayType != nil {
			dt, err := o.semaOf(v.ArrayType)
			if err != nil {
				return nil, bad("?unresolvable-array-type", "%v", err)
			}
			at, ok := dt.(sema.ArrayType)
			if !ok {
				return nil, bad("array-static-type-not-array", "%s", dt)
			}
			if ct, ok := dt.(*sema.ConstantSizedType); ok && int(ct.Size) != len(v.Values) {
				return nil, bad("array-size", "%d elements in %s", len(v.Values), dt)
			}
			for i, e := range v.Values {
				if vd := o.check(e, at.ElementType(false), declared, depth+1); !vd.ok() {
					vd.Detail = fmt.Sprintf("[%d]: %s", i, vd.Detail)
					vd.Class = "element:" + vd.Class
					return nil, vd
				}
			}
			return dt, verdict{}
		}
		res, str := 0, 0
		for i, e := range v.Values {
			n, vd := o.natural(e, declared, depth+1)
			if !vd.ok() {
				vd.Detail = fmt.Sprintf("[%d]: %s", i, vd.Detail)
				vd.Class = "element:" + vd.Class
				return nil, vd
			}
			if n.IsResourceType() {
				res++
			} else {
				str++
			}
		}
		if res > 0 && str > 0 {
			return nil, bad("array-mixes-resources-and-structs", "%d resource-kinded, %d struct-kinded elements", res, str)
		}
		if res > 0 {
			return sema.NewVariableSizedType(nil, sema.AnyResourceType), verdict{}
		}
		if len(v.Values) == 0 {
			return sema.NewVariableSizedType(nil, sema.NeverType), verdict{}
		}
		return sema.NewVariableSizedType(nil, sema.AnyStructType), verdict{}

	case cadence.Dictionary:
		if declared && v.DictionaryType != nil {
			dt, err := o.semaOf(v.DictionaryType)
			if err != nil {
				return nil, bad("?unresolvable-dictionary-type", "%v", err)
			}
			d, ok := dt.(*sema.DictionaryType)
			if !ok {
				return nil, bad("dictionary-static-type-not-dictionary", "%s", dt)
			}
			for i, p := range v.Pairs {
				if vd := o.check(p.Key, d.KeyType, declared, depth+1); !vd.ok() {
					vd.Detail = fmt.Sprintf("key %d: %s", i, vd.Detail)
					vd.Class = "key:" + vd.Class
					return nil, vd
				}
				if vd := o.check(p.Value, d.ValueType, declared, depth+1); !vd.ok() {
					vd.Detail = fmt.Sprintf("value %d: %s", i, vd.Detail)
					vd.Class = "value:" + vd.Class
					return nil, vd
				}
			}
			return dt, verdict{}
		}
		res, str := 0, 0
		for i, p := range v.Pairs {
			kn, vd := o.natural(p.Key, declared, depth+1)
			if !vd.ok() {
				vd.Detail = fmt.Sprintf("key %d: %s", i, vd.Detail)
				vd.Class = "key:" + vd.Class
				return nil, vd
			}
			if !subtype(kn, sema.HashableStructType) {
				return nil, bad("key:not-hashable", "key %d of type %s", i, kn)
			}
			vn, vd := o.natural(p.Value, declared, depth+1)
			if !vd.ok() {
				vd.Detail = fmt.Sprintf("value %d: %s", i, vd.Detail)
				vd.Class = "value:" + vd.Class
				return nil, vd
			}
			if vn.IsResourceType() {
				res++
			} else {
				str++
			}
		}
		if res > 0 && str > 0 {
			return nil, bad("dictionary-mixes-resources-and-structs", "")
		}
		switch {
		case res > 0:
			return sema.NewDictionaryType(nil, sema.HashableStructType, sema.AnyResourceType), verdict{}
		case len(v.Pairs) == 0:
			return sema.NewDictionaryType(nil, sema.NeverType, sema.NeverType), verdict{}
		}
		return sema.NewDictionaryType(nil, sema.HashableStructType, sema.AnyStructType), verdict{}

	case *cadence.InclusiveRange:
		var member sema.Type
		for i, m := range []cadence.Value{v.Start, v.End, v.Step} {
			n, vd := o.natural(m, declared, depth+1)
			if !vd.ok() {
				vd.Class = "range-member:" + vd.Class
				return nil, vd
			}
			if !subtype(n, sema.IntegerType) {
				return nil, bad("range-member:not-integer", "member %d has type %s", i, n)
			}
			if member == nil {
				member = n
			} else if !member.Equal(n) {
				return nil, bad("range-member:types-differ", "%s vs %s", member, n)
			}
		}
		rt := sema.NewInclusiveRangeType(nil, member)
		if declared && v.InclusiveRangeType != nil {
			dt, err := o.semaOf(v.InclusiveRangeType)
			if err != nil {
				return nil, bad("?unresolvable-range-type", "%v", err)
			}
			if !dt.Equal(rt) {
				return nil, bad("range-static-type", "members are %s, static type %s", member, dt)
			}
		}
		return rt, verdict{}

	case cadence.Composite:
		return o.naturalComposite(v, declared, depth)
	}

	// leaves: numbers, strings, paths, type values, capabilities, functions …
	var t cadence.Type
	func() {
		defer func() { _ = recover() }()
		t = v.Type()
	}()
	switch v.(type) {
	case cadence.Capability, cadence.Function:
		// Importability of *values* (what the sentence's "a value that is importable" is about): capabilities
		// and functions are never importable - an argument must not be able to forge authority - although
		// `Capability<…>` is an admissible parameter type for sema.
		return nil, bad("not-importable", "%s value", cdcval.Kind(v))
	}
	st, err := o.semaOf(t)
	if err != nil {
		return nil, bad("?unresolvable-leaf-type", "%s: %v", cdcval.Kind(v), err)
	}
	if !importable(st) {
		return nil, bad("not-importable", "%s", st)
	}
	return st, verdict{}
}

func (o *oracle) naturalComposite(v cadence.Composite, declared bool, depth int) (sema.Type, verdict) {
	ct, ok := v.Type().(cadence.CompositeType)
	if !ok || ct == nil {
		return nil, bad("?composite-without-type", "%T", v)
	}
	loc := ct.CompositeTypeLocation()
	qid := ct.CompositeTypeQualifiedIdentifier()
	var st *sema.CompositeType
	if loc == nil {
		st = sema.NativeCompositeTypes[qid]
	} else {
		st = o.types.composites[common.NewTypeIDFromQualifiedName(nil, loc, qid)]
	}
	if st == nil {
		return nil, bad("unknown-composite-type", "%s", ct.ID())
	}
	if k, ok := compositeKindOf[cdcval.Kind(v)]; !ok || k != st.Kind {
		return nil, bad("composite-kind", "%s value for %s %s", cdcval.Kind(v), st.Kind.Name(), st.ID())
	}
	if !importable(st) {
		return nil, bad("not-importable", "%s", st)
	}
	fields := cdcval.Fields(ct)
	vals := cdcval.FieldValues(v)
	if len(fields) != len(vals) {
		return nil, bad("field-count", "%d names, %d values", len(fields), len(vals))
	}
	seen := map[string]bool{}
	for i, f := range fields {
		if seen[f.Identifier] {
			return nil, bad("duplicate-field", "%s.%s", st.ID(), f.Identifier)
		}
		seen[f.Identifier] = true
		member, ok := st.Members.Get(f.Identifier)
		declaredField := false
		for _, n := range st.Fields {
			if n == f.Identifier {
				declaredField = true
			}
		}
		if !ok || !declaredField {
			return nil, bad("extra-field", "%s has no field %s", st.ID(), f.Identifier)
		}
		if vd := o.check(vals[i], member.TypeAnnotation.Type, declared, depth+1); !vd.ok() {
			vd.Detail = fmt.Sprintf("%s.%s: %s", st.ID(), f.Identifier, vd.Detail)
			vd.Class = "field:" + vd.Class
			return nil, vd
		}
	}
	for _, n := range st.Fields {
		if !seen[n] {
			return nil, bad("missing-field", "%s.%s", st.ID(), n)
		}
	}
	return st, verdict{}
}

// check says whether v deeply conforms to the expected type T.
func (o *oracle) check(v cadence.Value, T sema.Type, declared bool, depth int) verdict {
	if depth > 12 {
		return bad("?too-deep", "nesting deeper than 12")
	}
	if opt, ok := T.(*sema.OptionalType); ok {
		if ov, ok := v.(cadence.Optional); ok {
			if ov.Value == nil {
				return verdict{}
			}
			return o.check(ov.Value, opt.Type, declared, depth+1)
		}
		// a non-optional value for an optional expected type is a subtype
		return o.check(v, opt.Type, declared, depth+1)
	}
	switch v := v.(type) {
	case cadence.Array:
		at, ok := T.(sema.ArrayType)
		if !ok || (declared && v.ArrayType != nil) {
			break
		}
		if ct, ok := T.(*sema.ConstantSizedType); ok && int(ct.Size) != len(v.Values) {
			return bad("array-size", "%d elements for %s", len(v.Values), T)
		}
		for i, e := range v.Values {
			if vd := o.check(e, at.ElementType(false), declared, depth+1); !vd.ok() {
				vd.Detail = fmt.Sprintf("[%d]: %s", i, vd.Detail)
				vd.Class = "element:" + vd.Class
				return vd
			}
		}
		return verdict{}
	case cadence.Dictionary:
		d, ok := T.(*sema.DictionaryType)
		if !ok || (declared && v.DictionaryType != nil) {
			break
		}
		for i, p := range v.Pairs {
			if vd := o.check(p.Key, d.KeyType, declared, depth+1); !vd.ok() {
				vd.Detail = fmt.Sprintf("key %d: %s", i, vd.Detail)
				vd.Class = "key:" + vd.Class
				return vd
			}
			if vd := o.check(p.Value, d.ValueType, declared, depth+1); !vd.ok() {
				vd.Detail = fmt.Sprintf("value %d: %s", i, vd.Detail)
				vd.Class = "value:" + vd.Class
				return vd
			}
		}
		return verdict{}
	}
	n, vd := o.natural(v, declared, depth)
	if !vd.ok() {
		return vd
	}
	if !subtype(n, T) {
		return bad("type-mismatch", "%s is not a subtype of %s", n, T)
	}
	return verdict{}
}

// hasNestedStructure: the value is a container / composite / non-nil optional
// holding at least one value.
func hasNestedStructure(v cadence.Value) bool {
	return len(cdcval.Children(v)) > 0
}

// ---------------------------------------------------------------------------
// round trips of a returned value

// Comparison after a round trip: what the codec does not carry is erased (JSON-CDC: static types of containers;
// CCF: initializers etc. of inline types, order of dictionary entries and type sets), and a nil at any optional
// depth is the same value (the language flattens optionals: CCF decodes the nil of an `Int??` slot as some(nil)).
var (
	jsonMode = cdcval.Mode{Static: cdcval.TNone, Borrow: cdcval.TFull, NilFlat: true}
	ccfMode  = cdcval.Mode{Static: cdcval.TInline, Borrow: cdcval.TInline, DictSet: true, SetTypes: true, NilFlat: true}
)

// roundTrip encodes, decodes and compares v through JSON-CDC and CCF.
// Returns ("", "") when both round trips hold.
func roundTrip(v cadence.Value) (class, detail string) {
	var out string
	func() {
		defer func() {
			if p := recover(); p != nil {
				class, detail = "roundtrip-panic", fmt.Sprintf("%v", p)
			}
		}()
		b, err := jsoncdc.Encode(v)
		if err != nil {
			class, detail = "json-encode-fails", err.Error()
			return
		}
		w, err := jsoncdc.Decode(nil, b)
		if err != nil {
			class, detail = "json-decode-of-own-encoding-fails", err.Error()
			return
		}
		if a, c := cdcval.Dump(v, jsonMode), cdcval.Dump(w, jsonMode); a != c {
			class, detail = "json-roundtrip-differs", a+" != "+c
			return
		}
		cb, err := ccf.Encode(v)
		if err != nil {
			class, detail = "ccf-encode-fails", err.Error()
			return
		}
		cw, err := ccf.Decode(nil, cb)
		if err != nil {
			class, detail = "ccf-decode-of-own-encoding-fails", err.Error()
			return
		}
		if a, c := cdcval.Dump(v, ccfMode), cdcval.Dump(cw, ccfMode); a != c {
			class, detail = "ccf-roundtrip-differs", a+" != "+c
			return
		}
		out = "ok"
	}()
	_ = out
	return
}

// ---------------------------------------------------------------------------
// shapes for signatures

// semaShape is the constructor nesting of a sema type with leaves collapsed
// into a few categories (all number types are "Num", all path types "Path").
func semaShape(t sema.Type) string { return semaShapeD(t, 0) }

func semaShapeD(t sema.Type, d int) string {
	if d > 3 {
		return "…"
	}
	switch t := t.(type) {
	case *sema.OptionalType:
		return "Opt<" + semaShapeD(t.Type, d+1) + ">"
	case *sema.VariableSizedType:
		return "Arr<" + semaShapeD(t.Type, d+1) + ">"
	case *sema.ConstantSizedType:
		return "CArr<" + semaShapeD(t.Type, d+1) + ">"
	case *sema.DictionaryType:
		return "Dict<" + semaShapeD(t.KeyType, d+1) + "," + semaShapeD(t.ValueType, d+1) + ">"
	case *sema.CapabilityType:
		if t.BorrowType == nil {
			return "Cap"
		}
		return "Cap<…>"
	case *sema.InclusiveRangeType:
		return "Range"
	case *sema.IntersectionType:
		return "Intersection"
	case *sema.ReferenceType:
		return "Ref"
	case *sema.FunctionType:
		return "Fun"
	case *sema.CompositeType:
		if t.Location == nil {
			return "Native:" + t.Identifier
		}
		return t.Kind.Name() + ":" + t.QualifiedIdentifier()
	}
	switch {
	case t == sema.AnyStructType, t == sema.HashableStructType, t == sema.MetaType, t == sema.StringType,
		t == sema.BoolType, t == sema.CharacterType, t == sema.TheAddressType:
		return t.QualifiedString()
	case subtype(t, sema.NumberType):
		return "Num"
	case subtype(t, sema.PathType):
		return "Path"
	}
	return t.QualifiedString()
}

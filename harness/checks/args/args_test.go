package args

import (
	"os"
	"strings"
	"verif/rt"
	"testing"
	"time"

	"verif/mc"
)

func worldName() string {
	if n := os.Getenv("C29_WORLD"); n != "" {
		return n
	}
	return "A"
}

// every right-typed value the generator builds must conform by the oracle
func TestGoodsConform(t *testing.T) {
	w := getWorld(worldName())
	o := newOracle(w)
	g := newGoodGen(w, o)
	ps, skipped := w.params(false)
	if len(skipped) > 0 {
		t.Fatalf("skipped: %v", skipped)
	}
	none := 0
	muts := 0
	deep := 0
	repl := replacements(g, false)
	for _, p := range ps {
		if alwaysStorable(p.Sema, 0) {
			deep++
		}
		gs := g.goods(p.Sema, 0)
		if len(gs) == 0 {
			none++
			t.Logf("no good value for %s", p.Source)
		}
		for _, v := range gs {
			if vd := o.check(v, p.Sema, false, 0); !vd.ok() && !strings.HasSuffix(vd.Class, "not-importable") {
				t.Errorf("%s: good value %s does not conform: %s %s", p.Source, v, vd.Class, vd.Detail)
			}
			b, ok := encodeArg(v)
			if !ok {
				t.Errorf("%s: cannot encode %s", p.Source, v)
				continue
			}
			d := decodeArg(b)
			if d == nil {
				// (the JSON decoder refuses its own encoding of `&{StructStringer}`: a codec matter, C41)
				t.Logf("%s: cannot decode own encoding %s", p.Source, b)
				continue
			}
			if vd := o.check(d, p.Sema, false, 0); !vd.ok() && !strings.HasSuffix(vd.Class, "not-importable") {
				t.Errorf("%s: decoded good value %s does not conform: %s %s", p.Source, b, vd.Class, vd.Detail)
			}
			muts += len(mutations(b, repl))
		}
	}
	t.Logf("%d params (%d deep-observable in transactions), %d without good value, %d mutations, universe %d", len(ps), deep, none, muts, len(universe(1)))
}

// a slice of the check on a few parameter types (development aid)
func TestSmoke(t *testing.T) {
	if os.Getenv("C29_SMOKE") == "" {
		t.Skip("development aid: set C29_SMOKE=1 (C29_PARAMS=all for every parameter type, C29_WORLD=B for world B)")
	}
	t.Setenv("VERIF_OUT", t.TempDir()) // never touch /verif/evidence from a test
	w := getWorld(worldName())
	env := &mc.Env{Prop: "C29", Tier: "quick", Deadline: time.Now().Add(10 * time.Minute), Workers: 4, Root: "/verif", R: mc.NewReport("C29")}
	ps, _ := w.params(false)
	want := map[string]bool{"Int": true, "[Int]": true, "C.S": true, "AnyStruct": true, "D.P": true, "{String: Int}": true, "Int?": true, "[C.S; 2]": true,
		"Capability<&Int>": true, "InclusiveRange<Int>": true, "PublicKey": true, "{C.I}": true, "D.W": true, "Type": true, "HashableStruct": true}
	if s := os.Getenv("C29_PARAMS"); s == "all" {
		want = nil
	}
	hs := newHostSet(w, false)
	uni := universe(1)
	sigs := map[string]int{}
	first := map[string]string{}
	violationHook = func(sig, mode, param string, a arg, res *rt.Result) {
		k := sig
		sigs[k]++
		if first[k] == "" {
			first[k] = mode + " " + param + " <- " + trunc(a.JSON[0], 300) + "  ==> " + trunc(res.ErrString(), 300)
		}
	}
	defer func() {
		violationHook = nil
		for k, n := range sigs {
			t.Logf("SIG %5d %s\n        %s", n, k, first[k])
		}
	}()
	for _, p := range ps {
		if want != nil && !want[p.Source] {
			continue
		}
		start := time.Now()
		before := env.R.Evaluations.Load()
		runParam(env, w, hs, p, uni)
		t.Logf("%s: %d runs in %v", p.Source, env.R.Evaluations.Load()-before, time.Since(start))
	}
	code := mc.Finish(mc.Lookup("C29"), env, time.Now())
	t.Logf("exit %d", code)
}

package args

import (
	"fmt"
	"math/big"
	"sync"

	"github.com/onflow/cadence"
	"github.com/onflow/cadence/common"
	jsoncdc "github.com/onflow/cadence/encoding/json"
	"github.com/onflow/cadence/runtime"
	"github.com/onflow/cadence/sema"

	"verif/gen/cdcval"
	"verif/gen/tygen"
	"verif/rt"
)

// ---------------------------------------------------------------------------
// contract D: a few composite types whose fields are containers (where an
// importer that trusts declared types goes wrong), an event and a resource.

const contractD = `import C from 0x1

access(all) contract D {

    access(all) struct interface J {
        access(all) let n: Int
    }

    access(all) struct K: J {
        access(all) let n: Int
        init(n: Int) { self.n = n }
    }

    access(all) struct P {
        access(all) let xs: [Int]
        access(all) let m: {String: C.S2}
        access(all) let o: Int?
        access(all) let a: AnyStruct
        access(all) let i: {C.I}
        access(all) let e: C.En
        init(xs: [Int], m: {String: C.S2}, o: Int?, a: AnyStruct, i: {C.I}, e: C.En) {
            self.xs = xs
            self.m = m
            self.o = o
            self.a = a
            self.i = i
            self.e = e
        }
    }

    access(all) struct W {
        access(all) let c: Capability<&Int>
        access(all) let t: Type
        access(all) let p: StoragePath
        access(all) let k: [{J}; 1]
        init(c: Capability<&Int>, t: Type, p: StoragePath, k: [{J}; 1]) {
            self.c = c
            self.t = t
            self.p = p
            self.k = k
        }
    }

    access(all) struct Rec {
        access(all) let next: Rec?
        access(all) let v: Int
        init(next: Rec?, v: Int) {
            self.next = next
            self.v = v
        }
    }

    access(all) event Ev(a: Int)

    access(all) resource Res {
        access(all) let n: Int
        init() { self.n = 1 }
    }

    init() {}
}
`

var dLocation = common.AddressLocation{Address: tygen.PreludeAddress, Name: "D"}


// scriptSource / txSource are the programs for parameter type annotation src.
func scriptSource(imports, src string) string {
	return imports + "access(all) fun main(x: " + src + "): AnyStruct {\n    log(\"in\")\n    let r: [AnyStruct] = [x.getType().identifier, x.getType().isSubtype(of: Type<" + src + ">()), x]\n    return r\n}\n"
}

// A transaction has no result and an event cannot carry an AnyStruct, so the
// transaction reports the type through the log and - where every value of the
// parameter type is storable (deep = true) - saves the received argument to
// /storage/c29 of the signer, from where readBackSource exports it.
func txSource(imports, src string, deep bool) string {
	save := ""
	if deep {
		save = "        acct.storage.save(x, to: /storage/c29)\n"
	}
	return imports + "transaction(x: " + src + ") {\n    prepare(acct: auth(Storage) &Account) {\n        log(\"in\")\n        log(x.getType().identifier)\n        log(x.getType().isSubtype(of: Type<" + src + ">()))\n" + save + "    }\n}\n"
}

const readBackSource = "access(all) fun main(): AnyStruct {\n    return getAuthAccount<auth(Storage) &Account>(0x1).storage.copy<AnyStruct>(from: /storage/c29)!\n}\n"

func (w *world) source(src string, script bool, deep bool) string {
	if script {
		return scriptSource(w.imports, src)
	}
	return txSource(w.imports, src, deep)
}

// alwaysStorable: every value of the type can be saved to account storage
// (so a failing save of a received argument cannot be legitimate).
func alwaysStorable(t sema.Type, depth int) bool {
	if depth > 6 {
		return false
	}
	switch t := t.(type) {
	case *sema.OptionalType:
		return alwaysStorable(t.Type, depth+1)
	case *sema.VariableSizedType:
		return alwaysStorable(t.Type, depth+1)
	case *sema.ConstantSizedType:
		return alwaysStorable(t.Type, depth+1)
	case *sema.DictionaryType:
		return alwaysStorable(t.KeyType, depth+1) && alwaysStorable(t.ValueType, depth+1)
	case *sema.CapabilityType:
		return true
	case *sema.CompositeType:
		if t.Location == nil || (t.Kind != common.CompositeKindStructure && t.Kind != common.CompositeKindEnum) {
			return false
		}
		for _, f := range t.Fields {
			m, ok := t.Members.Get(f)
			if !ok || !alwaysStorable(m.TypeAnnotation.Type, depth+1) {
				return false
			}
		}
		return true
	case *sema.IntersectionType:
		// the implementations of the user-defined interfaces of C and D are structs with storable fields
		for _, i := range t.Types {
			if i.Location == nil {
				return false
			}
		}
		return true
	}
	switch t {
	case sema.StringType, sema.BoolType, sema.CharacterType, sema.TheAddressType, sema.MetaType:
		return true
	}
	return subtype(t, sema.NumberType) || subtype(t, sema.PathType)
}

// world is one deployment (read-only after construction).
//
//	A: tygen's prelude contract C plus contract D at 0x1 (parameter types of the type universe)
//	B: cdcval's prelude contract C at 0x1 (the composites of the value universe are right-typed here)
type world struct {
	name     string
	ledger   *rt.Ledger
	imports  string                      // import lines of every program
	cChecker *sema.Checker               // checker of contract C
	elabs    map[string]*sema.Elaboration // location ID -> elaboration, for checking programs
	types    *typeTable
	poolIDs  []string // composite types of the right-typed value pool, most useful first
	eventJSON string  // a well-formed event value of the deployment (not importable)
}

var (
	worldMu sync.Mutex
	worlds  = map[string]*world{}
)

func getWorld(name string) *world {
	worldMu.Lock()
	defer worldMu.Unlock()
	if w, ok := worlds[name]; ok {
		return w
	}
	var w *world
	tt := &typeTable{composites: map[common.TypeID]*sema.CompositeType{}, interfaces: map[common.TypeID]*sema.InterfaceType{}}
	switch name {
	case "A":
		l := tygen.NewLedger()
		rt.Deploy(l, tygen.PreludeAddress, "D", contractD, false)
		ch, err := tygen.CheckProgram(contractD, dLocation, nil)
		if err != nil {
			panic(fmt.Sprintf("args: contract D does not check: %v", err))
		}
		w = &world{name: name, ledger: l, imports: "import C from 0x1\nimport D from 0x1\n", cChecker: tygen.PreludeChecker(),
			elabs:   map[string]*sema.Elaboration{dLocation.ID(): ch.Elaboration},
			poolIDs:   []string{"C.S2", "C.S", "C.S3", "C.Inner", "C.En", "D.K", "D.P", "D.W", "D.Rec"},
			eventJSON: `{"type":"Event","value":{"id":"A.0000000000000001.D.Ev","fields":[{"name":"a","value":{"type":"Int","value":"1"}}]}}`}
		for _, e := range []*sema.Elaboration{tygen.PreludeChecker().Elaboration, ch.Elaboration} {
			e.ForEachGlobalType(func(_ string, v *sema.Variable) { collectNominal(v.Type, tt) })
		}
	case "B":
		l := rt.NewLedger()
		rt.Deploy(l, tygen.PreludeAddress, "C", cdcval.PreludeContract, false)
		ch, err := cdcval.PreludeChecker()
		if err != nil {
			panic(fmt.Sprintf("args: cdcval prelude does not check: %v", err))
		}
		w = &world{name: name, ledger: l, imports: "import C from 0x1\n", cChecker: ch,
			elabs:   map[string]*sema.Elaboration{tygen.PreludeLocation.ID(): ch.Elaboration},
			poolIDs:   []string{"C.S", "C.Node", "C.Box", "C.En", "C.Emp", "C.S2", "C.W"},
			eventJSON: `{"type":"Event","value":{"id":"A.0000000000000001.C.Ev","fields":[{"name":"a","value":{"type":"Int","value":"1"}},{"name":"who","value":{"type":"Optional","value":null}}]}}`}
		ch.Elaboration.ForEachGlobalType(func(_ string, v *sema.Variable) { collectNominal(v.Type, tt) })
	default:
		panic("args: unknown world " + name)
	}
	w.types = tt
	worlds[name] = w
	return w
}

func collectNominal(t sema.Type, tt *typeTable) {
	switch t := t.(type) {
	case *sema.CompositeType:
		if _, ok := tt.composites[t.ID()]; ok {
			return
		}
		tt.composites[t.ID()] = t
		if t.NestedTypes != nil {
			t.NestedTypes.Foreach(func(_ string, n sema.Type) { collectNominal(n, tt) })
		}
	case *sema.InterfaceType:
		if _, ok := tt.interfaces[t.ID()]; ok {
			return
		}
		tt.interfaces[t.ID()] = t
		if t.NestedTypes != nil {
			t.NestedTypes.Foreach(func(_ string, n sema.Type) { collectNominal(n, tt) })
		}
	}
}

// paramType resolves the sema type of parameter annotation src with the real
// checker (nil + error if the script does not check).
func (w *world) paramType(src string) (sema.Type, error) {
	ch, err := tygen.CheckProgram(scriptSource(w.imports, src), common.ScriptLocation{0x29}, w.elabs)
	if err != nil {
		return nil, err
	}
	ft, err := ch.Elaboration.FunctionEntryPointType()
	if err != nil {
		return nil, err
	}
	return ft.Parameters[0].TypeAnnotation.Type, nil
}

// ---------------------------------------------------------------------------
// parameter types

type param struct {
	Source string
	Kind   string // tygen kind, "extra" for the D types
	Sema   sema.Type
	Depth  int
}

// extra parameter types over contract D.
var extraParams = []string{
	"D.P", "D.W", "D.Rec", "D.K", "{D.J}", "[D.P]", "D.P?", "{String: D.P}", "[D.Rec; 1]", "{Int: {D.J}}",
	"[[Int]]", "[{String: Int}]", "{String: [Int]}", "[Int?]", "[Int]?", "{String: Int?}", "[[C.S]]", "{String: [C.S2]}",
	"[AnyStruct]?", "{String: AnyStruct}",
}

// rejected before any argument is looked at (not importable): the run must fail with a user error on every argument.
var nonImportableParams = []string{"@C.R", "&Int", "fun(): Int", "C", "@[C.R]", "D.Ev", "@D.Res?", "[&Int]", "{String: &Int}"}

// parameter types of world B: over the nominal types of the value universe
var worldBParams = []string{
	"AnyStruct", "AnyStruct?", "[AnyStruct]", "{String: AnyStruct}", "HashableStruct", "{HashableStruct: AnyStruct}",
	"C.S", "C.S2", "C.Node", "C.Box", "C.Emp", "C.W", "C.En", "C.S?", "[C.S]", "{String: C.S}", "{C.En: C.S?}", "{Int: C.S}",
	"{C.I}", "[{C.I, C.I2}]", "{C.J}?", "[C.Node?]", "[C.Box]", "{Address: C.Box}", "[C.S2; 2]", "[C.S; 2]", "{String: [C.S]}",
	"[Int]", "{String: Int}", "[Int?]", "{Int: Int}", "{Address: AnyStruct}", "Type", "[Type]",
}

func (w *world) params(depth2 bool) (out []param, skipped []string) {
	add := func(src, kind string, depth int) {
		t, err := w.paramType(src)
		if err != nil {
			skipped = append(skipped, src)
			return
		}
		out = append(out, param{Source: src, Kind: kind, Sema: t, Depth: depth})
	}
	if w.name == "B" {
		for _, src := range worldBParams {
			add(src, "worldB", 1)
		}
		return
	}
	for _, ty := range tygen.Universe(1) {
		if !ty.Denotable() || ty.Resource || !importable(ty.Sema) {
			continue
		}
		out = append(out, param{Source: ty.Source, Kind: ty.Kind, Sema: ty.Sema, Depth: ty.Depth})
	}
	for _, src := range extraParams {
		add(src, "extra", 2)
	}
	if depth2 {
		// a representative slice of depth 2: the first two members of every distinct constructor shape
		seen := map[string]int{}
		for _, ty := range tygen.Universe(2) {
			if ty.Depth != 2 || !ty.Denotable() || ty.Resource || !importable(ty.Sema) {
				continue
			}
			k := semaShape(ty.Sema)
			if seen[k] >= 2 {
				continue
			}
			seen[k]++
			out = append(out, param{Source: ty.Source, Kind: ty.Kind + "2", Sema: ty.Sema, Depth: 2})
		}
	}
	return
}

// ---------------------------------------------------------------------------
// right-typed values

func bigv(n int64) *big.Int { return big.NewInt(n) }

func must[T any](v T, err error) T {
	if err != nil {
		panic(err)
	}
	return v
}

// numberOf builds the value n of the named concrete number type (nil if the name is not one).
func numberOf(name string, n int64) cadence.Value {
	switch name {
	case "Int":
		return cadence.NewInt(int(n))
	case "Int8":
		return cadence.Int8(n)
	case "Int16":
		return cadence.Int16(n)
	case "Int32":
		return cadence.Int32(n)
	case "Int64":
		return cadence.Int64(n)
	case "Int128":
		return must(cadence.NewInt128FromBig(bigv(n)))
	case "Int256":
		return must(cadence.NewInt256FromBig(bigv(n)))
	case "UInt":
		return cadence.NewUInt(uint(n))
	case "UInt8":
		return cadence.UInt8(n)
	case "UInt16":
		return cadence.UInt16(n)
	case "UInt32":
		return cadence.UInt32(n)
	case "UInt64":
		return cadence.UInt64(n)
	case "UInt128":
		return must(cadence.NewUInt128FromBig(bigv(n)))
	case "UInt256":
		return must(cadence.NewUInt256FromBig(bigv(n)))
	case "Word8":
		return cadence.Word8(n)
	case "Word16":
		return cadence.Word16(n)
	case "Word32":
		return cadence.Word32(n)
	case "Word64":
		return cadence.Word64(n)
	case "Word128":
		return must(cadence.NewWord128FromBig(bigv(n)))
	case "Word256":
		return must(cadence.NewWord256FromBig(bigv(n)))
	case "Fix64":
		return cadence.Fix64(n * 100000000)
	case "UFix64":
		return cadence.UFix64(n * 100000000)
	case "Fix128":
		return must(cadence.NewUnmeteredFix128FromString(fmt.Sprintf("%d.0", n)))
	case "UFix128":
		return must(cadence.NewUnmeteredUFix128FromString(fmt.Sprintf("%d.0", n)))
	}
	return nil
}

var numberNames = []string{"Int", "Int8", "Int16", "Int32", "Int64", "Int128", "Int256", "UInt", "UInt8", "UInt16", "UInt32", "UInt64",
	"UInt128", "UInt256", "Word8", "Word16", "Word32", "Word64", "Word128", "Word256", "Fix64", "UFix64", "Fix128", "UFix128"}

type goodGen struct {
	w    *world
	o    *oracle
	pool []cadence.Value
	poolT []sema.Type
}

func newGoodGen(w *world, o *oracle) *goodGen {
	g := &goodGen{w: w, o: o}
	str := func(s string) cadence.Value { return must(cadence.NewString(s)) }
	a1 := cadence.NewAddress(tygen.PreludeAddress)
	intRef := cadence.NewReferenceType(cadence.UnauthorizedAccess, cadence.IntType)
	leaves := []cadence.Value{
		cadence.NewInt(1), str("a"), cadence.NewBool(true), a1,
	}
	for _, n := range numberNames[1:] {
		leaves = append(leaves, numberOf(n, 1))
	}
	leaves = append(leaves,
		must(cadence.NewCharacter("c")),
		cadence.MustNewPath(common.PathDomainStorage, "a"),
		cadence.MustNewPath(common.PathDomainPublic, "b"),
		cadence.MustNewPath(common.PathDomainPrivate, "c"),
		cadence.NewTypeValue(cadence.IntType),
		cadence.NewCapability(1, a1, intRef),
		cadence.NewInt(-2), str(""), cadence.NewBool(false),
	)
	for _, v := range leaves {
		// (the type only: a capability is a right-typed value of `Capability<…>` although it is not importable)
		n, err := o.semaOf(v.Type())
		if err != nil {
			panic(fmt.Sprintf("args: pool leaf does not resolve: %v", err))
		}
		g.pool = append(g.pool, v)
		g.poolT = append(g.poolT, n)
	}
	// composites of the deployed contracts, in a fixed order (most useful first)
	for _, id := range w.poolIDs {
		ct := w.types.composites[common.AddressLocation{Address: tygen.PreludeAddress, Name: id[:1]}.TypeID(nil, id)]
		if ct == nil {
			panic("args: no composite " + id)
		}
		v := g.composite(ct, 0)
		g.pool = append(g.pool, v)
		g.poolT = append(g.poolT, ct)
	}
	for _, n := range []string{"PublicKey", "HashAlgorithm", "SignatureAlgorithm", "RoundingRule"} {
		ct := sema.NativeCompositeTypes[n]
		if ct == nil {
			continue
		}
		g.pool = append(g.pool, g.composite(ct, 0))
		g.poolT = append(g.poolT, ct)
	}
	// containers as members of AnyStruct
	arr := cadence.NewArray([]cadence.Value{cadence.NewInt(1), cadence.NewInt(2)})
	dict := cadence.NewDictionary([]cadence.KeyValuePair{{Key: str("k"), Value: cadence.NewInt(1)}})
	opt := cadence.NewOptional(cadence.NewInt(3))
	rng := cadence.NewInclusiveRange(cadence.NewInt(1), cadence.NewInt(5), cadence.NewInt(2))
	for _, v := range []cadence.Value{arr, dict, opt, rng} {
		n, vd := o.natural(v, false, 0)
		if !vd.ok() {
			panic("args: pool container does not resolve: " + vd.Detail)
		}
		g.pool = append(g.pool, v)
		g.poolT = append(g.poolT, n)
	}
	return g
}

// composite builds a right-typed value of composite type ct (fields filled with the richest good value of their types).
func (g *goodGen) composite(ct *sema.CompositeType, depth int) cadence.Value {
	et := runtime.ExportType(ct, map[sema.TypeID]cadence.Type{})
	cct, ok := et.(cadence.CompositeType)
	if !ok {
		panic(fmt.Sprintf("args: %s exports to %T", ct, et))
	}
	var vals []cadence.Value
	for _, f := range cdcval.Fields(cct) {
		m, ok := ct.Members.Get(f.Identifier)
		if !ok {
			panic("args: no member " + f.Identifier)
		}
		gs := g.goods(m.TypeAnnotation.Type, depth+1)
		if len(gs) == 0 {
			panic(fmt.Sprintf("args: no good value for field %s.%s: %s", ct, f.Identifier, m.TypeAnnotation.Type))
		}
		vals = append(vals, gs[len(gs)-1])
	}
	switch t := et.(type) {
	case *cadence.StructType:
		return cadence.NewStruct(vals).WithType(t)
	case *cadence.EnumType:
		return cadence.NewEnum(vals).WithType(t)
	}
	panic(fmt.Sprintf("args: cannot build %T", et))
}

// goods returns a few right-typed values for T (possibly none: Never, {StructStringer}).
func (g *goodGen) goods(T sema.Type, depth int) []cadence.Value {
	switch t := T.(type) {
	case *sema.OptionalType:
		out := []cadence.Value{cadence.NewOptional(nil)}
		if depth > 3 {
			return out
		}
		in := g.goods(t.Type, depth+1)
		if len(in) > 0 {
			// the bare value for an optional parameter, and the wrapped one
			if _, isOpt := in[0].(cadence.Optional); !isOpt {
				out = append(out, in[0])
			}
			out = append(out, cadence.NewOptional(in[len(in)-1]))
		}
		return out
	case *sema.VariableSizedType:
		e := g.goods(t.Type, depth+1)
		out := []cadence.Value{cadence.NewArray([]cadence.Value{})}
		if len(e) > 0 {
			out = append(out, cadence.NewArray([]cadence.Value{e[0], e[len(e)-1]}))
		}
		return out
	case *sema.ConstantSizedType:
		e := g.goods(t.Type, depth+1)
		if len(e) == 0 {
			return nil
		}
		vs := make([]cadence.Value, t.Size)
		for i := range vs {
			vs[i] = e[(len(e)-1+i)%len(e)]
		}
		return []cadence.Value{cadence.NewArray(vs)}
	case *sema.DictionaryType:
		ks := g.goods(t.KeyType, depth+1)
		vs := g.goods(t.ValueType, depth+1)
		out := []cadence.Value{cadence.NewDictionary([]cadence.KeyValuePair{})}
		if len(ks) > 0 && len(vs) > 0 {
			pairs := []cadence.KeyValuePair{{Key: ks[0], Value: vs[len(vs)-1]}}
			if len(ks) > 1 && cdcval.Dump(ks[0], cdcval.Exact) != cdcval.Dump(ks[len(ks)-1], cdcval.Exact) {
				pairs = append(pairs, cadence.KeyValuePair{Key: ks[len(ks)-1], Value: vs[0]})
			}
			out = append(out, cadence.NewDictionary(pairs))
		}
		return out
	case *sema.InclusiveRangeType:
		name := t.MemberType.QualifiedString()
		if numberOf(name, 1) == nil {
			return nil
		}
		return []cadence.Value{cadence.NewInclusiveRange(numberOf(name, 1), numberOf(name, 7), numberOf(name, 2))}
	case *sema.CapabilityType:
		a1 := cadence.NewAddress(tygen.PreludeAddress)
		if t.BorrowType == nil {
			return []cadence.Value{cadence.NewCapability(1, a1, cadence.NewReferenceType(cadence.UnauthorizedAccess, cadence.IntType))}
		}
		return []cadence.Value{cadence.NewCapability(2, a1, runtime.ExportType(t.BorrowType, map[sema.TypeID]cadence.Type{}))}
	case *sema.CompositeType:
		if depth > 4 {
			return nil
		}
		if !importable(t) {
			return nil
		}
		return []cadence.Value{g.composite(t, depth)}
	}
	// simple, abstract and intersection types: the members of the pool that are subtypes, at most four of distinct types
	var out []cadence.Value
	seen := map[sema.TypeID]bool{}
	for i, v := range g.pool {
		if len(out) >= 4 {
			break
		}
		if seen[g.poolT[i].ID()] || !subtype(g.poolT[i], T) {
			continue
		}
		seen[g.poolT[i].ID()] = true
		out = append(out, v)
	}
	return out
}

// ---------------------------------------------------------------------------
// the argument universe

type arg struct {
	Origin string   // "universe:<kind>", "good", "mut:<kind>", "raw:<name>", "count:<n>"
	JSON   []string // the encoded arguments (normally one)
	Sent   cadence.Value // decoded by the harness from JSON[0] (nil if it does not decode)
	IsType bool // a Type or Function value of the universe (subject to the quick-tier reduction)
	TypeKind string
	Mut    bool
}

func decodeArg(b []byte) (v cadence.Value) {
	defer func() {
		if p := recover(); p != nil {
			v = nil
		}
	}()
	v, err := jsoncdc.Decode(nil, b)
	if err != nil {
		return nil
	}
	return v
}

func encodeArg(v cadence.Value) (b []byte, ok bool) {
	defer func() {
		if p := recover(); p != nil {
			b, ok = nil, false
		}
	}()
	b, err := jsoncdc.Encode(v)
	return b, err == nil
}

func mkArg(origin string, js []byte) arg {
	return arg{Origin: origin, JSON: []string{string(js)}, Sent: decodeArg(js)}
}

var rawArgs = []struct{ name, json string }{
	{"empty", ``},
	{"not-json", `{`},
	{"null", `null`},
	{"empty-object", `{}`},
	{"json-array", `[]`},
	{"no-value", `{"type":"Int"}`},
	{"number-not-string", `{"type":"Int","value":1}`},
	{"int-garbage", `{"type":"Int","value":"x"}`},
	{"int8-out-of-range", `{"type":"Int8","value":"128"}`},
	{"unknown-type-tag", `{"type":"Nope","value":""}`},
	{"extra-key", `{"type":"Int","value":"1","x":1}`},
	{"bad-address", `{"type":"Address","value":"0x123456789012345678"}`},
	{"bad-path-domain", `{"type":"Path","value":{"domain":"nope","identifier":"a"}}`},
	{"bad-character", `{"type":"Character","value":"ab"}`},
	{"type-unknown-kind", `{"type":"Type","value":{"staticType":{"kind":"Nope"}}}`},
	{"type-restriction-kind", `{"type":"Type","value":{"staticType":{"kind":"Restriction","typeID":"","type":{"kind":"AnyStruct"},"restrictions":[]}}}`},
	{"type-unknown-struct", `{"type":"Type","value":{"staticType":{"kind":"Struct","typeID":"A.0000000000000001.C.Nope","fields":[],"initializers":[],"type":""}}}`},
	{"cap-no-borrow", `{"type":"Capability","value":{"id":"1","address":"0x0000000000000001"}}`},
	{"struct-native-unknown", `{"type":"Struct","value":{"id":"Nope","fields":[]}}`},
	{"struct-bad-id", `{"type":"Struct","value":{"id":"A.1","fields":[]}}`},
	{"enum-hashalgo-255", `{"type":"Enum","value":{"id":"HashAlgorithm","fields":[{"name":"rawValue","value":{"type":"UInt8","value":"255"}}]}}`},
	{"publickey-bad-sigalgo", `{"type":"Struct","value":{"id":"PublicKey","fields":[{"name":"publicKey","value":{"type":"Array","value":[]}},{"name":"signatureAlgorithm","value":{"type":"Enum","value":{"id":"SignatureAlgorithm","fields":[{"name":"rawValue","value":{"type":"UInt8","value":"99"}}]}}}]}}`},
	{"publickey-no-fields", `{"type":"Struct","value":{"id":"PublicKey","fields":[]}}`},
	{"account-struct", `{"type":"Struct","value":{"id":"Account","fields":[]}}`},
	{"deep-optional", `{"type":"Optional","value":{"type":"Optional","value":{"type":"Optional","value":null}}}`},
}

var (
	universeOnce sync.Once
	universeArgs map[int][]arg
	universeMu   sync.Mutex
)

// universe returns the encoded value universe cdcval.Values(depth) plus the raw malformed arguments.
func universe(depth int) []arg {
	universeMu.Lock()
	defer universeMu.Unlock()
	if universeArgs == nil {
		universeArgs = map[int][]arg{}
	}
	if u, ok := universeArgs[depth]; ok {
		return u
	}
	var out []arg
	seen := map[string]bool{}
	for _, v := range cdcval.Values(depth) {
		b, ok := encodeArg(v)
		if !ok || seen[string(b)] {
			continue
		}
		seen[string(b)] = true
		a := mkArg("universe:"+cdcval.Kind(v), b)
		switch tv := v.(type) {
		case cadence.TypeValue:
			a.IsType, a.TypeKind = true, "Type<"+cdcval.TypeKind(tv.StaticType)+">"
		case cadence.Function:
			a.IsType, a.TypeKind = true, "Function"
		}
		out = append(out, a)
	}
	for _, r := range rawArgs {
		out = append(out, mkArg("raw:"+r.name, []byte(r.json)))
	}
	universeArgs[depth] = out
	return out
}

// admitsMeta says whether a Type value can occur somewhere inside a value of type t.
func admitsMeta(t sema.Type, depth int) bool {
	if depth > 4 {
		return false
	}
	switch t := t.(type) {
	case *sema.OptionalType:
		return admitsMeta(t.Type, depth+1)
	case *sema.VariableSizedType:
		return admitsMeta(t.Type, depth+1)
	case *sema.ConstantSizedType:
		return admitsMeta(t.Type, depth+1)
	case *sema.DictionaryType:
		return admitsMeta(t.KeyType, depth+1) || admitsMeta(t.ValueType, depth+1)
	case *sema.CompositeType:
		for _, f := range t.Fields {
			if m, ok := t.Members.Get(f); ok && admitsMeta(m.TypeAnnotation.Type, depth+1) {
				return true
			}
		}
		return false
	}
	return subtype(sema.MetaType, t)
}

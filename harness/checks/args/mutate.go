package args

import (
	"bytes"
	"encoding/json"
	"fmt"

	"github.com/onflow/cadence"
	"github.com/onflow/cadence/common"

	"verif/gen/tygen"
)

// Single structural mutations of a JSON-CDC encoded argument.
//
// The encoding is parsed into a generic JSON tree; every *value node*
// ({"type": …, "value": …}) is a mutation site. Mutations:
//
//	retype:<r>     the node is replaced by replacement value r (a value of another type,
//	               including non-importable ones: resource, event, function, contract)
//	wrap-optional  the node is wrapped in an Optional
//	unwrap         an Optional node is replaced by its content
//	field-missing / field-extra / field-dup / field-rename / field-swap   composite nodes
//	id:<variant>   composite nodes: another existing type, non-existing type, other
//	               address, other contract, other location kind, malformed
//	kind:<tag>     composite nodes: the composite kind tag is changed
//	array-drop / array-append      (size of constant-sized arrays)
//	dict-dup-key
//	cap-borrow:<variant>, type-static:<variant>   embedded types
type mutation struct {
	Kind string
	JSON []byte
}

func parseJSON(b []byte) (any, error) {
	dec := json.NewDecoder(bytes.NewReader(b))
	dec.UseNumber()
	var v any
	err := dec.Decode(&v)
	return v, err
}

func deepCopy(n any) any {
	switch n := n.(type) {
	case map[string]any:
		m := make(map[string]any, len(n))
		for k, v := range n {
			m[k] = deepCopy(v)
		}
		return m
	case []any:
		s := make([]any, len(n))
		for i, v := range n {
			s[i] = deepCopy(v)
		}
		return s
	}
	return n
}

// at returns the node reached from root by path (string = object key, int = index).
func at(root any, path []any) any {
	for _, p := range path {
		switch k := p.(type) {
		case string:
			root = root.(map[string]any)[k]
		case int:
			root = root.([]any)[k]
		}
	}
	return root
}

// with returns a deep copy of root in which the node at path is replaced by f(copy of node).
func with(root any, path []any, f func(any) any) any {
	if len(path) == 0 {
		return f(deepCopy(root))
	}
	c := deepCopy(root)
	parent := at(c, path[:len(path)-1])
	switch k := path[len(path)-1].(type) {
	case string:
		m := parent.(map[string]any)
		m[k] = f(m[k])
	case int:
		s := parent.([]any)
		s[k] = f(s[k])
	}
	return c
}

func appendPath(path []any, more ...any) []any {
	out := make([]any, 0, len(path)+len(more))
	out = append(out, path...)
	return append(out, more...)
}

var compositeTags = []string{"Struct", "Resource", "Event", "Enum", "Contract"}

func isCompositeTag(t string) bool {
	for _, c := range compositeTags {
		if c == t {
			return true
		}
	}
	return false
}

// valueNodes lists the paths of all value nodes, root first, depth-first.
func valueNodes(n any, path []any, out *[][]any) {
	obj, ok := n.(map[string]any)
	if !ok {
		return
	}
	*out = append(*out, path)
	typ, _ := obj["type"].(string)
	val := obj["value"]
	switch {
	case typ == "Optional":
		if val != nil {
			valueNodes(val, appendPath(path, "value"), out)
		}
	case typ == "Array":
		if s, ok := val.([]any); ok {
			for i, e := range s {
				valueNodes(e, appendPath(path, "value", i), out)
			}
		}
	case typ == "Dictionary":
		if s, ok := val.([]any); ok {
			for i, e := range s {
				if kv, ok := e.(map[string]any); ok {
					valueNodes(kv["key"], appendPath(path, "value", i, "key"), out)
					valueNodes(kv["value"], appendPath(path, "value", i, "value"), out)
				}
			}
		}
	case isCompositeTag(typ):
		if m, ok := val.(map[string]any); ok {
			if fs, ok := m["fields"].([]any); ok {
				for i, f := range fs {
					if fo, ok := f.(map[string]any); ok {
						valueNodes(fo["value"], appendPath(path, "value", "fields", i, "value"), out)
					}
				}
			}
		}
	case typ == "InclusiveRange":
		if m, ok := val.(map[string]any); ok {
			for _, k := range []string{"start", "end", "step"} {
				valueNodes(m[k], appendPath(path, "value", k), out)
			}
		}
	}
}

type replacement struct {
	Name string
	Node any
}

func jsonOf(v cadence.Value) any {
	b, ok := encodeArg(v)
	if !ok {
		panic(fmt.Sprintf("args: cannot encode replacement %v", v))
	}
	n, err := parseJSON(b)
	if err != nil {
		panic(err)
	}
	return n
}

func rawNode(s string) any {
	n, err := parseJSON([]byte(s))
	if err != nil {
		panic(err)
	}
	return n
}

// replacements are the values a node is retyped to (full = thorough tier adds a few).
func replacements(g *goodGen, full bool) []replacement {
	str := func(s string) cadence.Value { return must(cadence.NewString(s)) }
	a1 := cadence.NewAddress(tygen.PreludeAddress)
	byName := func(n string) cadence.Value {
		for i, t := range g.poolT {
			if t.QualifiedString() == n {
				return g.pool[i]
			}
		}
		return nil
	}
	// the first two composites of the world's pool are retype targets
	comp := func(i int) replacement {
		id := g.w.poolIDs[i]
		return replacement{"Struct:" + id, jsonOf(byName(id))}
	}
	out := []replacement{
		{"Int", jsonOf(cadence.NewInt(5))},
		{"UInt8", jsonOf(cadence.UInt8(5))},
		{"String", jsonOf(str("s"))},
		{"Bool", jsonOf(cadence.NewBool(true))},
		{"nil", jsonOf(cadence.NewOptional(nil))},
		{"Array[]", jsonOf(cadence.NewArray([]cadence.Value{}))},
		{"Array[String]", jsonOf(cadence.NewArray([]cadence.Value{str("e")}))},
		{"Dict{String:Bool}", jsonOf(cadence.NewDictionary([]cadence.KeyValuePair{{Key: str("k"), Value: cadence.NewBool(true)}}))},
		comp(0),
		comp(2),
		{"Resource:C.R", rawNode(`{"type":"Resource","value":{"id":"A.0000000000000001.C.R","fields":[{"name":"uuid","value":{"type":"UInt64","value":"1"}},{"name":"x","value":{"type":"Int","value":"1"}}]}}`)},
		{"Function", rawNode(`{"type":"Function","value":{"functionType":{"kind":"Function","typeID":"fun():Void","typeParameters":[],"parameters":[],"purity":"","return":{"kind":"Void"}}}}`)},
		{"Type<Int>", jsonOf(cadence.NewTypeValue(cadence.IntType))},
		{"Capability<&String>", jsonOf(cadence.NewCapability(3, a1, cadence.NewReferenceType(cadence.UnauthorizedAccess, cadence.StringType)))},
		{"Path", jsonOf(cadence.MustNewPath(common.PathDomainPublic, "r"))},
		{"Event", rawNode(g.w.eventJSON)},
	}
	if full {
		out = append(out,
			replacement{"Fix64", jsonOf(cadence.Fix64(100000000))},
			replacement{"Address", jsonOf(a1)},
			replacement{"Character", jsonOf(must(cadence.NewCharacter("x")))},
			replacement{"Enum:C.En", jsonOf(byName("C.En"))},
			comp(1),
			replacement{"Contract:C", rawNode(`{"type":"Contract","value":{"id":"A.0000000000000001.C","fields":[]}}`)},
			replacement{"Range<Int>", jsonOf(cadence.NewInclusiveRange(cadence.NewInt(1), cadence.NewInt(2), cadence.NewInt(1)))},
			replacement{"Array[Int]", jsonOf(cadence.NewArray([]cadence.Value{cadence.NewInt(1)}))},
			replacement{"Void", rawNode(`{"type":"Void"}`)},
		)
	}
	return out
}

var idVariants = []struct{ name, id string }{
	{"other-struct", "A.0000000000000001.C.S2"},
	{"other-struct-S", "A.0000000000000001.C.S"},
	{"resource-type", "A.0000000000000001.C.R"},
	{"interface-type", "A.0000000000000001.C.I"},
	{"nonexistent-type", "A.0000000000000001.C.Nope"},
	{"other-address", "A.0000000000000002.C.S"},
	{"nonexistent-contract", "A.0000000000000001.Zz.S"},
	{"string-location", "S.test.S"},
	{"no-location", "C.S"},
	{"empty", ""},
	{"native", "PublicKey"},
}

func marshal(n any) []byte {
	b, err := json.Marshal(n)
	if err != nil {
		panic(err)
	}
	return b
}

// mutations enumerates every single mutation of the encoded value.
func mutations(encoded []byte, repl []replacement) []mutation {
	root, err := parseJSON(encoded)
	if err != nil {
		return nil
	}
	var nodes [][]any
	valueNodes(root, nil, &nodes)
	var out []mutation
	seen := map[string]bool{string(marshal(root)): true}
	add := func(kind string, n any) {
		b := marshal(n)
		if seen[string(b)] {
			return
		}
		seen[string(b)] = true
		out = append(out, mutation{Kind: kind, JSON: b})
	}
	for _, path := range nodes {
		node := at(root, path).(map[string]any)
		typ, _ := node["type"].(string)
		for _, r := range repl {
			add("retype:"+r.Name, with(root, path, func(any) any { return deepCopy(r.Node) }))
		}
		add("wrap-optional", with(root, path, func(n any) any { return map[string]any{"type": "Optional", "value": n} }))
		if typ == "Optional" && node["value"] != nil {
			add("unwrap", with(root, path, func(n any) any { return n.(map[string]any)["value"] }))
		}
		switch {
		case isCompositeTag(typ):
			val, _ := node["value"].(map[string]any)
			fields, _ := val["fields"].([]any)
			fpath := appendPath(path, "value", "fields")
			for i := range fields {
				i := i
				add("field-missing", with(root, fpath, func(n any) any {
					s := n.([]any)
					return append(append([]any{}, s[:i]...), s[i+1:]...)
				}))
				add("field-rename", with(root, appendPath(fpath, i, "name"), func(n any) any { return n.(string) + "_" }))
				if i+1 < len(fields) {
					add("field-swap", with(root, fpath, func(n any) any {
						s := n.([]any)
						s[i], s[i+1] = s[i+1], s[i]
						return s
					}))
					// the names stay, the values move: each value under the other's name
					add("field-values-swapped", with(root, fpath, func(n any) any {
						s := n.([]any)
						a, b := s[i].(map[string]any), s[i+1].(map[string]any)
						a["value"], b["value"] = b["value"], a["value"]
						return s
					}))
				}
			}
			add("field-extra", with(root, fpath, func(n any) any {
				return append(n.([]any), map[string]any{"name": "zz", "value": rawNode(`{"type":"Int","value":"1"}`)})
			}))
			if len(fields) > 0 {
				add("field-dup", with(root, fpath, func(n any) any {
					s := n.([]any)
					return append(s, deepCopy(s[0]))
				}))
				add("field-dup-retyped", with(root, fpath, func(n any) any {
					s := n.([]any)
					d := deepCopy(s[0]).(map[string]any)
					d["value"] = rawNode(`{"type":"String","value":"dup"}`)
					return append(s, d)
				}))
			}
			for _, v := range idVariants {
				v := v
				add("id:"+v.name, with(root, appendPath(path, "value", "id"), func(any) any { return v.id }))
			}
			for _, tag := range compositeTags {
				tag := tag
				if tag != typ {
					add("kind:"+tag, with(root, appendPath(path, "type"), func(any) any { return tag }))
				}
			}
		case typ == "Array":
			if s, _ := node["value"].([]any); len(s) > 0 {
				add("array-drop", with(root, appendPath(path, "value"), func(n any) any { return n.([]any)[1:] }))
				add("array-append", with(root, appendPath(path, "value"), func(n any) any {
					s := n.([]any)
					return append(s, deepCopy(s[len(s)-1]))
				}))
			}
		case typ == "Dictionary":
			if s, _ := node["value"].([]any); len(s) > 0 {
				add("dict-dup-key", with(root, appendPath(path, "value"), func(n any) any {
					s := n.([]any)
					return append(s, deepCopy(s[0]))
				}))
			}
		case typ == "Capability":
			bpath := appendPath(path, "value", "borrowType")
			add("cap-borrow:not-a-reference", with(root, bpath, func(any) any { return rawNode(`{"kind":"Int"}`) }))
			add("cap-borrow:other-reference", with(root, bpath, func(any) any {
				return rawNode(`{"kind":"Reference","authorization":{"kind":"Unauthorized","entitlements":null},"type":{"kind":"Bool"}}`)
			}))
			add("cap-borrow:nonexistent-type", with(root, bpath, func(any) any {
				return rawNode(`{"kind":"Reference","authorization":{"kind":"Unauthorized","entitlements":null},"type":{"kind":"Struct","typeID":"A.0000000000000001.C.Nope","fields":[],"initializers":[],"type":""}}`)
			}))
			add("cap-borrow:nonexistent-entitlement", with(root, bpath, func(n any) any {
				return map[string]any{"kind": "Reference", "type": rawNode(`{"kind":"Int"}`),
					"authorization": rawNode(`{"kind":"EntitlementConjunctionSet","entitlements":[{"kind":"Entitlement","typeID":"A.0000000000000001.C.Nope"}]}`)}
			}))
		case typ == "Type":
			spath := appendPath(path, "value", "staticType")
			add("type-static:nonexistent-struct", with(root, spath, func(any) any {
				return rawNode(`{"kind":"Struct","typeID":"A.0000000000000001.C.Nope","fields":[],"initializers":[],"type":""}`)
			}))
			add("type-static:reference-to-nonexistent", with(root, spath, func(any) any {
				return rawNode(`{"kind":"Reference","authorization":{"kind":"Unauthorized","entitlements":null},"type":{"kind":"Resource","typeID":"A.0000000000000009.X.Y","fields":[],"initializers":[],"type":""}}`)
			}))
		}
	}
	return out
}

// Package args is the check of property C29: entry-point arguments are
// validated against parameter types.
package args

import (
	"encoding/json"
	"fmt"
	"regexp"
	"strings"
	"sync"

	"github.com/onflow/cadence"
	cerrors "github.com/onflow/cadence/errors"
	"github.com/onflow/cadence/sema"

	"verif/gen/cdcval"
	"verif/mc"
	"verif/rt"
)

// c29Case is one replayable execution.
type c29Case struct {
	World  string   `json:"world"`          // "A" (tygen prelude + D) or "B" (cdcval prelude)
	Return string   `json:"return,omitempty"` // returned-value case: the expression a parameterless script returns
	Shared string   `json:"shared,omitempty"` // returned-value case: name of a shared-reference result (shared.go)
	Param  string   `json:"param"`          // parameter type annotation
	Script bool     `json:"script"` // script or transaction
	VM     bool     `json:"vm"`
	Args   []string `json:"args"` // JSON-CDC encoded arguments (normally one)
	Origin string   `json:"origin"`
}

func (c c29Case) raw() [][]byte {
	out := make([][]byte, len(c.Args))
	for i, a := range c.Args {
		out[i] = []byte(a)
	}
	return out
}

func modeName(script, vm bool) string {
	s := "tx"
	if script {
		s = "script"
	}
	if vm {
		return s + "/vm"
	}
	return s + "/interp"
}

func entryName(script bool) string {
	if script {
		return "script"
	}
	return "tx"
}

// observed is what the program reported about the argument it received.
type observed struct {
	ident string
	sub   bool
	x     cadence.Value
}

// observe: a script returns [identifier, isSubtype, x]; a transaction logs "in", identifier, isSubtype
// (x then comes from the read-back of /storage/c29, where available).
func observe(res *rt.Result, script bool) (ob observed, err string) {
	if !script {
		if len(res.Logs) != 3 {
			return ob, fmt.Sprintf("%d log lines", len(res.Logs))
		}
		switch res.Logs[2] {
		case "true":
			ob.sub = true
		case "false":
		default:
			return ob, "unexpected log line " + res.Logs[2]
		}
		ob.ident = strings.Trim(res.Logs[1], `"`)
		return ob, ""
	}
	arr, ok := res.Value.(cadence.Array)
	if !ok {
		return ob, fmt.Sprintf("script returned %T", res.Value)
	}
	fields := arr.Values
	if len(fields) != 3 {
		return ob, fmt.Sprintf("%d observation fields", len(fields))
	}
	id, ok1 := fields[0].(cadence.String)
	sub, ok2 := fields[1].(cadence.Bool)
	if !ok1 || !ok2 {
		return ob, "observation fields have unexpected types"
	}
	return observed{ident: string(id), sub: bool(sub), x: fields[2]}, ""
}

// outcome of judging one execution
type judgement struct {
	sig      string // "" = no violation
	detail   string
	status   string // "rejected" | "accepted" | "violation" | "dont-care"
	nested   bool   // accepted value has nested structure
	received verdict
}

var (
	reDigits = regexp.MustCompile(`[0-9]+`)
	reParens = regexp.MustCompile(`\([^()]*\)`)
	reQuoted = regexp.MustCompile("`[^`]*`|'[^']*'|\"[^\"]*\"")
)

// msgClass is a stable class of an error message: the first line of the innermost error,
// with numbers, quoted and parenthesised parts blanked (they hold the concrete values).
func msgClass(err error) string {
	if err == nil {
		return ""
	}
	last := err
	for {
		u, ok := last.(interface{ Unwrap() error })
		if !ok {
			break
		}
		next := u.Unwrap()
		if next == nil {
			break
		}
		last = next
	}
	return normMsg(last.Error())
}

var reConv = regexp.MustCompile(`interface conversion: \S+ is not`)

// siteOf names the function that raised an internal error: the first frame of the stack trace carried by
// the error message that lies in the repository and outside its errors package ("" if there is no trace).
func siteOf(msg string) string {
	for _, line := range strings.Split(msg, "\n") {
		line = strings.TrimSpace(line)
		if !strings.HasPrefix(line, "github.com/onflow/cadence/") || strings.HasPrefix(line, "github.com/onflow/cadence/errors.") {
			continue
		}
		if strings.Contains(line, "UserPanicToError") || strings.Contains(line, "AsCadenceError") || strings.Contains(line, "GetWrappedError") ||
			strings.Contains(line, "WrapPanic") || strings.Contains(line, "Recover") {
			// the frame that converted a panic, not the one that raised it
			return ""
		}
		line = strings.TrimPrefix(line, "github.com/onflow/cadence/")
		if i := strings.LastIndexByte(line, '('); i > 0 {
			line = line[:i]
		}
		return line
	}
	return ""
}

func normMsg(m string) string {
	if i := strings.IndexByte(m, '\n'); i >= 0 {
		m = m[:i]
	}
	m = strings.TrimPrefix(m, "internal error: ")
	m = strings.TrimPrefix(m, "unexpected: ")
	m = reConv.ReplaceAllString(m, "interface conversion: T is not")
	m = reQuoted.ReplaceAllString(m, "'…'")
	m = reParens.ReplaceAllString(m, "(…)")
	m = reDigits.ReplaceAllString(m, "N")
	if len(m) > 110 {
		m = m[:110]
	}
	return strings.TrimSpace(m)
}

func originClass(origin string) string {
	// "mut:retype:Int@3" -> "mut:retype:Int"
	if i := strings.IndexByte(origin, '@'); i >= 0 {
		return origin[:i]
	}
	return origin
}

// judge applies the oracle of the property sentence to one execution.
//
//	"either rejects the argument with an invalid-argument (user) error, or passes the
//	 script a value that is importable and whose run-time type is a subtype of the
//	 parameter type. Values returned by scripts always export to a value that
//	 round-trips through JSON-CDC and CCF."
//
// readBack (transactions whose parameter type is always storable) exports the argument the transaction saved.
func judge(o *oracle, T sema.Type, script bool, sent []string, res *rt.Result, origin string, readBack func() *rt.Result) judgement {
	shape := semaShape(T)
	argCount := len(sent)
	sentJSON := ""
	if argCount == 1 {
		sentJSON = sent[0]
	}
	entry := entryName(script)
	_ = originClass
	entered := false
	for _, l := range res.Logs {
		if l == `"in"` || l == "in" {
			entered = true
		}
	}
	switch res.Class {
	case "user":
		if entered {
			// the program's body cannot fail by itself: a failure after it was entered is a failure
			// to evaluate / return / export the received argument
			return judgement{status: "violation",
				sig:    fmt.Sprintf("failure-after-acceptance|%s|%s", res.Kind, msgClass(res.Err)),
				detail: fmt.Sprintf("the program was entered (argument accepted), then failed: %s", res.ErrString())}
		}
		return judgement{status: "rejected"}
	case "ok":
	case "gopanic":
		// A Go run-time error in the chain of a *user-class* rejection, for an argument that the
		// JSON-CDC decoder itself turns into that error (a panic the decoder recovers): the run is
		// rejected with an invalid-argument error as the sentence demands, by way of a recovered
		// panic in the host's decoder. The sentence does not say whether that counts: don't-care
		// (the decoder's robustness is C41's subject).
		if res.EscapedPanic == nil && !entered && cerrors.IsUserError(res.Err) && !cerrors.IsInternalError(res.Err) && decoderFails(sentJSON) {
			return judgement{status: "dont-care", received: verdict{Class: "?rejected-via-go-panic-recovered-by-the-decoder"}}
		}
		fallthrough
	default:
		// internal error, Go run-time panic, escaped panic, external or unclassified error
		m := msgClass(res.Err)
		site := ""
		if res.EscapedPanic != nil {
			m = normMsg(fmt.Sprint(res.EscapedPanic))
		} else if res.Err != nil {
			site = siteOf(res.Err.Error())
		}
		return judgement{status: "violation",
			sig:    fmt.Sprintf("%s|%s|%s|%s", res.Class, res.Kind, site, m),
			detail: fmt.Sprintf("not a user-class rejection (%s, entered=%v): %s", res.Class, entered, res.ErrString())}
	}
	if !entered {
		return judgement{status: "violation", sig: entry + "|ok-without-running|param=" + shape, detail: "no error, but the program did not run"}
	}
	if argCount != 1 {
		return judgement{status: "violation", sig: entry + "|accepted-wrong-argument-count|param=" + shape,
			detail: fmt.Sprintf("%d arguments accepted for one parameter", argCount)}
	}
	ob, oerr := observe(res, script)
	if oerr != "" {
		return judgement{status: "violation", sig: entry + "|no-observation|param=" + shape, detail: oerr}
	}
	if !script && readBack != nil {
		rb := readBack()
		if rb.Class != "ok" || rb.Value == nil {
			return judgement{status: "violation",
				sig:    fmt.Sprintf("tx|saved-argument-unreadable|%s|%s|%s", rb.Class, rb.Kind, msgClass(rb.Err)),
				detail: fmt.Sprintf("the transaction saved the received argument, reading it back fails: %s", rb.ErrString())}
		}
		ob.x = rb.Value
	}
	j := judgement{status: "accepted", nested: ob.x != nil && hasNestedStructure(ob.x)}
	if ob.x == nil {
		j.status = "accepted-type-only"
	}
	// (b) the type the program observed is a subtype of the parameter type
	if !ob.sub {
		return judgement{status: "violation",
			sig:    fmt.Sprintf("observed-type-not-subtype|param=%s", shape),
			detail: fmt.Sprintf("the program received a value of type %s, which it finds not to be a subtype of %s", ob.ident, T)}
	}
	if ob.x == nil {
		// transaction whose parameter type has non-storable values: only the type is observable
		return j
	}
	// (a) the received value deeply conforms and is importable
	vd := o.check(ob.x, T, true, 0)
	j.received = vd
	if vd.dontCare() {
		// DESIGN §5: "…whose run-time type is a subtype of the parameter type" has no answer
		// when the value embeds a type that does not resolve
		j.status = "dont-care"
		return j
	}
	if !vd.ok() {
		return judgement{status: "violation", received: vd,
			sig:    fmt.Sprintf("accepted-nonconforming|%s|param=%s", vd.Class, shape),
			detail: fmt.Sprintf("received value %s does not conform to %s: %s", trunc(safeString(ob.x), 200), T, vd.Detail)}
	}
	// (c) returned values round-trip
	if script {
		if class, detail := roundTrip(res.Value); class != "" {
			return judgement{status: "violation",
				sig:    returnSig(class, detail, res.Value),
				detail: fmt.Sprintf("returned value %s: %s", trunc(safeString(res.Value), 200), trunc(detail, 300))}
		}
	}
	return j
}

// returnSig is the signature of a round-trip failure: the codec's message class, or - where the decoded value
// differs - the shape of the value.
func returnSig(class, detail string, v cadence.Value) string {
	if strings.HasSuffix(class, "-differs") {
		return fmt.Sprintf("returned-value|%s|%s", class, cdcval.Shape(v))
	}
	return fmt.Sprintf("returned-value|%s|%s|%s", class, siteOf(detail), normMsg(detail))
}

// decoderFails: the JSON-CDC decoder (what the host calls) refuses the bytes.
func decoderFails(js string) bool { return decodeArg([]byte(js)) == nil }

// safeString renders a value; a malformed exported value (nil field) must not take the harness down.
func safeString(v cadence.Value) (s string) {
	defer func() {
		if p := recover(); p != nil {
			s = fmt.Sprintf("<unprintable %T: %v>", v, p)
		}
	}()
	if v == nil {
		return "<nil>"
	}
	return v.String()
}

func trunc(s string, n int) string {
	if len(s) > n {
		return s[:n] + "…"
	}
	return s
}

// ---------------------------------------------------------------------------

type hostSet struct {
	hosts   [4]*host // index: script?0:2 + vm?1:0
	readers [2]*host // read-back script hosts of the two transaction hosts (by engine)
	o     *oracle
	g     *goodGen
	repl  []replacement
}

func hostIndex(script, vm bool) int {
	i := 2
	if script {
		i = 0
	}
	if vm {
		i++
	}
	return i
}

// violationHook is a development aid (tests list every violating case, not only the first per signature).
var violationHook func(sig, mode, param string, a arg, res *rt.Result)

var configs = []struct{ script, vm bool }{{true, false}, {true, true}, {false, false}, {false, true}}

func runC29(env *mc.Env) {
	uni := universe(mc.Pick(env, 1, 2))
	env.R.Set("universe_arguments", len(uni))
	total := 0
	for _, name := range []string{"A", "B"} {
		w := getWorld(name)
		params, skipped := w.params(env.Thorough())
		if len(skipped) > 0 {
			env.R.HarnessError("world %s: parameter types that do not check: %v", name, skipped)
		}
		total += len(params)
		env.R.Set("parameter_types_world_"+name, len(params))

		var poolMu sync.Mutex
		var pool []*hostSet
		get := func() *hostSet {
			poolMu.Lock()
			defer poolMu.Unlock()
			if n := len(pool); n > 0 {
				hs := pool[n-1]
				pool = pool[:n-1]
				return hs
			}
			return newHostSet(w, env.Thorough())
		}
		put := func(hs *hostSet) {
			poolMu.Lock()
			pool = append(pool, hs)
			poolMu.Unlock()
		}

		nonImp := nonImportableParams
		var rets [][]retCase
		if name == "B" {
			nonImp = nil
		} else {
			rets = returnBatches()
		}
		nShared := 0
		if name == "A" {
			nShared = len(sharedCases)
		}
		jobs := len(params) + len(nonImp) + len(rets) + nShared
		// cheap jobs first (returned values), so that a deadline on a loaded machine cuts parameter types only
		mc.ParallelFor(env, jobs, func(i int) {
			hs := get()
			defer put(hs)
			switch {
			case i < nShared:
				runShared(env, w, hs, &sharedCases[i])
			case i < nShared+len(rets):
				runReturns(env, w, hs, rets[i-nShared])
			case i < nShared+len(rets)+len(nonImp):
				runNonImportable(env, w, hs, nonImp[i-nShared-len(rets)], uni)
			default:
				runParam(env, w, hs, params[i-nShared-len(rets)-len(nonImp)], uni)
			}
		})
	}
	env.R.BoundCompleted(fmt.Sprintf("%d parameter types x (universe of %d + goods + single mutations) x script/tx x interpreter/VM; returned values: every denotable type of the universe as a type value + %d expressions + %d shared-reference results (each against a twin built from distinct references)", total, len(uni), len(returnExprs), len(sharedCases)))
}

func newHostSet(w *world, full bool) *hostSet {
	o := newOracle(w)
	hs := &hostSet{o: o}
	hs.g = newGoodGen(w, o)
	hs.repl = replacements(hs.g, full)
	for _, c := range configs {
		h := newHost(w.ledger, c.script, c.vm)
		hs.hosts[hostIndex(c.script, c.vm)] = h
		if !c.script {
			h.overlay = map[string][]byte{}
			r := newHost(w.ledger, true, c.vm)
			r.overlay = h.overlay
			r.readOnly = true
			hs.readers[hostIndex(true, c.vm)] = r
		}
	}
	return hs
}

// argsFor builds the argument list of one parameter type.
func argsFor(env *mc.Env, hs *hostSet, p param, uni []arg) (out []arg, goods int) {
	admits := env.Thorough() || admitsMeta(p.Sema, 0)
	seenKind := map[string]bool{}
	for _, a := range uni {
		if a.IsType && !admits {
			// quick tier: a Type / Function value is a leaf of type Type / a function type whatever it
			// describes; where the parameter type cannot hold a Type value anywhere, one representative
			// per kind of described type is run
			if seenKind[a.TypeKind] {
				continue
			}
			seenKind[a.TypeKind] = true
		}
		out = append(out, a)
	}
	gs := hs.g.goods(p.Sema, 0)
	maxGoods := mc.Pick(env, 2, 4)
	if len(gs) > maxGoods {
		gs = append(gs[:maxGoods-1:maxGoods-1], gs[len(gs)-1])
	}
	for gi, gv := range gs {
		b, ok := encodeArg(gv)
		if !ok {
			continue
		}
		goods++
		a := mkArg(fmt.Sprintf("good@%d", gi), b)
		out = append(out, a)
		for mi, m := range mutations(b, hs.repl) {
			ma := mkArg(fmt.Sprintf("mut:%s@%d.%d", m.Kind, gi, mi), m.JSON)
			ma.Mut = true
			out = append(out, ma)
		}
	}
	// wrong argument counts
	one := `{"type":"Int","value":"1"}`
	out = append(out, arg{Origin: "count:0", JSON: []string{}})
	if len(gs) > 0 {
		if b, ok := encodeArg(gs[0]); ok {
			one = string(b)
		}
	}
	out = append(out, arg{Origin: "count:2", JSON: []string{one, one}})
	return
}

func rawOf(a arg) [][]byte {
	out := make([][]byte, len(a.JSON))
	for i, s := range a.JSON {
		out[i] = []byte(s)
	}
	return out
}

func runParam(env *mc.Env, w *world, hs *hostSet, p param, uni []arg) {
	args, goods := argsFor(env, hs, p, uni)
	if goods == 0 {
		env.R.Add("parameter_types_without_right_typed_value", 1)
	}
	// conformance of the argument as sent (information: rejected-although-conforming, normalised-by-import)
	sent := make([]verdict, len(args))
	for i, a := range args {
		switch {
		case len(a.JSON) != 1:
			sent[i] = bad("argument-count", "%d arguments", len(a.JSON))
		case a.Sent == nil:
			sent[i] = bad("undecodable", "the harness cannot decode the argument")
		default:
			sent[i] = hs.o.check(a.Sent, p.Sema, false, 0)
		}
	}
	counts := map[string]int64{}
	keep := make([]bool, len(args)) // not plainly rejected by script/interpreter: run on every configuration
	var evals int64
	deep := alwaysStorable(p.Sema, 0)
	if deep {
		counts["parameter_types_with_deep_transaction_observation"]++
	}
	for _, c := range configs {
		if env.Expired() {
			env.R.NotExhaustive("deadline inside a parameter type")
			break
		}
		h := hs.hosts[hostIndex(c.script, c.vm)]
		src := w.source(p.Source, c.script, deep)
		mode := modeName(c.script, c.vm)
		accepted := 0
		var readBack func() *rt.Result
		if !c.script && deep {
			reader := hs.readers[hostIndex(true, c.vm)]
			readBack = func() *rt.Result {
				evals++
				return reader.run(readBackSource, [][]byte{})
			}
		}
		primary := c.script && !c.vm
		seenKind := map[string]bool{}
		for i, a := range args {
			if !primary && !env.Thorough() && strings.HasPrefix(a.Origin, "universe:") && !keep[i] && sent[i].Class != "" {
				// quick tier, configurations other than script/interpreter: of the universe values that do not
				// conform and that script/interpreter refused with a user error, one representative per value kind
				if seenKind[a.Origin] {
					continue
				}
				seenKind[a.Origin] = true
			}
			res := h.run(src, rawOf(a))
			evals++
			j := judge(hs.o, p.Sema, c.script, a.JSON, res, a.Origin, readBack)
			if primary && j.status != "rejected" {
				keep[i] = true
			}
			if strings.Contains(res.Kind, "CheckerError") || strings.Contains(res.Kind, "ParsingError") || strings.Contains(res.Kind, "ParameterTypeNotImportable") {
				env.R.HarnessError("program for parameter type %s does not run: %s", p.Source, res.ErrString())
				return
			}
			key := p.Kind + "|" + j.status
			switch j.status {
			case "violation":
				if violationHook != nil {
					violationHook(j.sig, mode, p.Source, a, res)
				}
				env.R.Violation(j.sig, c29Case{World: w.name, Param: p.Source, Script: c.script, VM: c.vm, Args: a.JSON, Origin: a.Origin},
					fmt.Sprintf("[%s] parameter %s, argument (%s) %s: %s", mode, p.Source, a.Origin, trunc(strings.Join(a.JSON, " , "), 400), j.detail))
			case "rejected":
				if sent[i].ok() {
					// not a violation of the sentence (it allows rejecting); counted as information
					key = p.Kind + "|rejected-although-conforming"
					env.R.Class("rejected-although-conforming:"+res.Kind, func() any {
						return map[string]any{"param": p.Source, "mode": mode, "arg": trunc(a.JSON[0], 300), "error": trunc(res.ErrString(), 200)}
					})
				}
				if a.Mut {
					env.R.Nontrivial(p.Source + "|" + a.JSON[0])
				}
			case "accepted", "accepted-type-only":
				accepted++
				env.R.Nontrivial(p.Source + "|" + a.JSON[0])
				if j.nested {
					counts["accepted_with_nested_structure"]++
				}
				if !sent[i].ok() {
					// the argument as sent does not conform, the value the program received does:
					// the importer normalised it (dropped an unknown field, boxed a value, …)
					key = p.Kind + "|accepted-normalised"
					env.R.Class("accepted-normalised:"+sent[i].Class, func() any {
						return map[string]any{"param": p.Source, "mode": mode, "arg": trunc(a.JSON[0], 300), "sent": sent[i].Detail}
					})
				}
			case "dont-care":
				env.R.DontCare.Add(1)
				env.R.Class("dont-care:"+j.received.Class, func() any {
					return map[string]any{"param": p.Source, "mode": mode, "arg": trunc(a.JSON[0], 300)}
				})
			}
			counts[key]++
			counts[mode+"|"+j.status]++
			if a.Mut {
				counts["mutation|"+j.status]++
			}
		}
		if goods > 0 && accepted == 0 {
			counts["parameter_types_accepting_nothing|"+mode]++
		}
		// cross-check of the bulk driver against rt.Run on the first right-typed argument (or the first argument)
		ci := 0
		for i, a := range args {
			if strings.HasPrefix(a.Origin, "good") {
				ci = i
				break
			}
		}
		fast := h.run(src, rawOf(args[ci]))
		ref := runFresh(w.ledger.Clone(), src, rawOf(args[ci]), c.script, c.vm)
		evals += 2
		if fast.Class != ref.Class || fast.Kind != ref.Kind {
			env.R.HarnessError("bulk driver and rt.Run disagree on %s %s %s: %s/%s vs %s/%s", mode, p.Source, args[ci].JSON, fast.Class, fast.Kind, ref.Class, ref.Kind)
		}
	}
	env.R.EvalN(evals)
	for k, n := range counts {
		if strings.Contains(k, "|") {
			env.R.ClassN(k, n)
		} else {
			env.R.Add(k, n)
		}
	}
}

// runNonImportable: parameter types that are not importable must be refused (user error) whatever the argument.
func runNonImportable(env *mc.Env, w *world, hs *hostSet, src string, uni []arg) {
	var evals int64
	for _, c := range configs {
		h := hs.hosts[hostIndex(c.script, c.vm)]
		prog := w.source(src, c.script, false)
		n := 0
		for i, a := range uni {
			if a.IsType && i%16 != 0 {
				continue
			}
			res := h.run(prog, rawOf(a))
			evals++
			n++
			entered := len(res.Logs) > 0
			if res.Class != "user" || entered {
				env.R.Violation(fmt.Sprintf("%s|non-importable-parameter-type|%s|entered=%v", entryName(c.script), res.Class, entered),
					c29Case{World: w.name, Param: src, Script: c.script, VM: c.vm, Args: a.JSON, Origin: a.Origin},
					fmt.Sprintf("[%s] parameter type %s is not importable, argument %s: class %s %s", modeName(c.script, c.vm), src, trunc(a.JSON[0], 200), res.Class, res.ErrString()))
			}
		}
		env.R.ClassN("non-importable-parameter|rejected", int64(n))
	}
	env.R.EvalN(evals)
}

func replayC29(env *mc.Env, raw json.RawMessage) (bool, string) {
	var c c29Case
	if err := json.Unmarshal(raw, &c); err != nil {
		return false, err.Error()
	}
	if c.World == "" {
		c.World = "A"
	}
	w := getWorld(c.World)
	if c.Shared != "" {
		sc := sharedByName(c.Shared)
		if sc == nil {
			return false, "unknown shared-reference case " + c.Shared
		}
		sig, detail, _ := judgeShared(sc, func(src string) *rt.Result { return runFresh(w.ledger.Clone(), src, nil, true, c.VM) }, w.imports)
		return sig != "", fmt.Sprintf("[%s] shared-reference result %s -> %s %s", modeName(true, c.VM), c.Shared, sig, detail)
	}
	if c.Return != "" {
		res := runFresh(w.ledger.Clone(), returnSource(w.imports, []string{c.Return}), nil, true, c.VM)
		sig, detail := judgeReturn(res)
		return sig != "", fmt.Sprintf("[%s] return %s: class=%s kind=%s -> %s %s", modeName(true, c.VM), c.Return, res.Class, res.Kind, sig, detail)
	}
	o := newOracle(w)
	T, err := w.paramType(c.Param)
	deep := err == nil && alwaysStorable(T, 0)
	l := w.ledger.Clone()
	res := runFresh(l, w.source(c.Param, c.Script, deep), c.raw(), c.Script, c.VM)
	if err != nil {
		// a parameter type that is not importable: the program must be refused
		entered := len(res.Logs) > 0
		return res.Class != "user" || entered, fmt.Sprintf("non-importable parameter type %s: class %s entered=%v %s", c.Param, res.Class, entered, res.ErrString())
	}
	var readBack func() *rt.Result
	if !c.Script && deep {
		// rt.Run committed the successful transaction into l
		readBack = func() *rt.Result { return runFresh(l, readBackSource, nil, true, c.VM) }
	}
	j := judge(o, T, c.Script, c.Args, res, c.Origin, readBack)
	return j.status == "violation", fmt.Sprintf("[%s] %s <- %s: class=%s kind=%s logs=%v -> %s %s %s", modeName(c.Script, c.VM), c.Param,
		trunc(strings.Join(c.Args, " , "), 300), res.Class, res.Kind, res.Logs, j.status, j.sig, j.detail)
}

func init() {
	mc.Register(&mc.Check{
		ID: "C29",
		Rule: "every importable, denotable parameter type of tygen.Universe(1) (plus 20 nested types over a second contract D, plus 34 types over the value universe's own contract in a second deployment; thorough: plus two members of every depth-2 constructor shape) " +
			"x every argument of {cdcval.Values(1) (thorough: Values(2)), 25 malformed encodings, 1-4 right-typed values built for the type, every single structural mutation of each " +
			"(every nested value node retyped to each of 16 (25) replacement values incl. resource/function/event/capability, wrapped/unwrapped optional, composite field missing/extra/duplicated/renamed/reordered/values swapped, " +
			"11 type-ID variants, 4 kind tags, array longer/shorter, duplicate dictionary key, capability borrow type and type-value variants), 0 and 2 arguments}, JSON-CDC encoded, " +
			"x script/transaction x interpreter/VM, each executed through runtime.ExecuteScript/ExecuteTransaction; the program reports the received value (script result / event) and its type; " +
			"oracle: user-class rejection before the program is entered, or the received value deeply conforms to the sema parameter type by an independent recursive walk (sema.IsSubType at leaves), " +
			"its observed type is a subtype, and the script result round-trips through JSON-CDC and CCF. non-trivial = distinct (type, argument) that was accepted, or a rejected single mutation of a right-typed value",
		Assumptions: []string{
			"sema.IsSubType, sema's IsImportable on types and the static->sema type conversion are the reference for leaf judgements (C08 checks the subtype relation itself)",
			"the bulk driver re-uses runtime.Environment and caches programs per worker like a production host; every reported violation is re-executed 5x by rt.Run with nothing shared, and one case per (type, configuration) is cross-checked against rt.Run",
			"quick tier: for parameter types that cannot hold a Type value, Type/Function arguments are reduced to one per kind of described type",
			"the host decodes arguments with jsoncdc.Decode (rt's DecodeArgument), as flow-go does",
		},
		Run:    runC29,
		Replay: replayC29,
	})
}

func mustJSON(v any) json.RawMessage {
	b, err := json.Marshal(v)
	if err != nil {
		panic(err)
	}
	return b
}

package args

import (
	"strings"
	"testing"

	"verif/rt"
)

// every shared-reference case must run and pass on the tree under test (both engines), through rt.Run
func TestSharedCases(t *testing.T) {
	w := getWorld("A")
	for i := range sharedCases {
		c := &sharedCases[i]
		for _, vm := range []bool{false, true} {
			var last *rt.Result
			sig, detail, status := judgeShared(c, func(src string) *rt.Result { last = runFresh(w.ledger.Clone(), src, nil, true, vm); return last }, w.imports)
			if status != "ok" && !(status == "violation" && strings.Contains(sig, "json-decode-of-own-encoding-fails|self-containing")) { // known finding
				t.Errorf("%s vm=%v: %s %s %s", c.Name, vm, status, sig, detail)
			} else {
				t.Logf("%s vm=%v ok: %v", c.Name, vm, safeString(last.Value))
			}
		}
	}
}

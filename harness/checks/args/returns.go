package args

import (
	"fmt"
	"strings"

	"verif/gen/tygen"
	"verif/mc"
	"verif/rt"
)

// Returned values ("Values returned by scripts always export to a value that
// round-trips through JSON-CDC and CCF"): besides every argument a script
// received (c29.go), parameterless scripts return
//
//   - Type<T>() for every denotable type T of tygen.Universe(1) (type values of
//     every type kind, including reference, function, capability and
//     intersection types), 40 per script, failing batches re-run one by one;
//   - a fixed list of expressions of every kind of value a script can produce
//     without arguments (functions, bound and built-in functions and their
//     types, references, capabilities, paths, ranges, attachments, resources,
//     accounts, blocks, nil, Void …).
//
// Oracle: the run succeeds and the result round-trips through both codecs. A
// refusal with a user-class error (the runtime declines to export the value)
// is a don't-care: the sentence says "always export", the documented behaviour
// of non-exportable results is a user error. Internal errors and Go panics are
// violations.

type retCase struct {
	Expr string
	Kind string // "type" | "expr"
}

var returnExprs = []string{
	`1`, `"a"`, `true`, `nil`, `()`, `0x1 as Address`, `/storage/a`, `/public/a`, `1.5`, `-1.5 as Fix64`, `"a".utf8`, `[1, "a"]`, `{"a": 1}`, `{1: [nil, 2]}`,
	`InclusiveRange(1, 5)`, `InclusiveRange(5 as UInt8, 1 as UInt8, step: 1 as UInt8)`,
	`C.S2(1)`, `C.S(1)`, `[C.S3()]`, `C.En.a`, `{C.En.b: C.S2(2)}`, `D.P(xs: [1], m: {"k": C.S2(1)}, o: 3, a: C.S3(), i: C.S2(2), e: C.En.a)`, `D.Rec(next: D.Rec(next: nil, v: 1), v: 2)`,
	`&1 as &Int`, `&C.S(1) as auth(C.E) &C.S`, `[&"a" as &String]`, `&[1, 2] as &[Int]`, `&{"a": 1} as &{String: Int}`,
	`attach C.A() to C.S(1)`, `(attach C.A() to C.S(1))[C.A]`,
	`fun (): Int { return 1 }`, `fun (_ x: Int): Int { return x }`, `C.mkR`, `"a".concat`, `[1].append`, `[1].map`, `(1).toString`, `panic`, `getAccount`, `log`, `Type<Int>`,
	`"a".concat.getType()`, `[1].map.getType()`, `[1].append.getType()`, `getAccount(0x1).capabilities.borrow.getType()`, `getAccount(0x1).capabilities.get.getType()`,
	`getAccount(0x1).storage.getType()`, `panic.getType()`, `Type<Int>.getType()`, `InclusiveRange.getType()`,
	`getAccount(0x1)`, `getAccount(0x1).address`, `getAccount(0x1).balance`, `getAccount(0x1).keys`, `getAccount(0x1).contracts.names`, `getAccount(0x1).capabilities`,
	`getAccount(0x1).capabilities.get<&Int>(/public/a)`, `getCurrentBlock()`, `getCurrentBlock().id`, `getCurrentBlock().timestamp`,
	`HashAlgorithm.SHA3_256`, `SignatureAlgorithm.ECDSA_P256`, `PublicKey(publicKey: [1, 2], signatureAlgorithm: SignatureAlgorithm.ECDSA_P256)`,
	`Type<Int>()`, `Type<@C.R>()`, `CompositeType("A.0000000000000001.C.S")`, `OptionalType(Type<Int>())`, `ReferenceType(entitlements: ["A.0000000000000001.C.E"], type: Type<Int>())`,
	`FunctionType(parameters: [Type<Int>()], return: Type<String>())`, `IntersectionType(types: ["A.0000000000000001.C.I"])`, `CapabilityType(Type<&Int>())`, `InclusiveRangeType(Type<Int>())`,
	`C.S(1).getType()`, `(nil as Int?).getType()`, `[1].getType()`, `C.getType()`, `C.S`, `C.En`, `D.P`,
	`1 as AnyStruct`, `[] as [Never]`, `{} as {String: Never}`, `[[1], []] as [[Int]]`, `[1 as Int?, nil]`, `{"a": 1 as Int?}`,
}

func returnSource(imports string, exprs []string) string {
	var sb strings.Builder
	sb.WriteString(imports)
	sb.WriteString("access(all) fun main(): AnyStruct {\n")
	if len(exprs) == 1 {
		fmt.Fprintf(&sb, "    return %s\n}\n", exprs[0])
		return sb.String()
	}
	sb.WriteString("    let r: [AnyStruct] = [\n")
	for i, e := range exprs {
		sep := ","
		if i == len(exprs)-1 {
			sep = ""
		}
		fmt.Fprintf(&sb, "        %s%s\n", e, sep)
	}
	sb.WriteString("    ]\n    return r\n}\n")
	return sb.String()
}

func returnBatches() [][]retCase {
	var all []retCase
	for _, ty := range tygen.Universe(1) {
		if ty.Denotable() {
			all = append(all, retCase{Expr: ty.TypeExpr(), Kind: "type"})
		}
	}
	var out [][]retCase
	for i := 0; i < len(all); i += 40 {
		j := i + 40
		if j > len(all) {
			j = len(all)
		}
		out = append(out, all[i:j])
	}
	// expressions one per script: many of them do not check (resource-kinded, not AnyStruct) and are skipped individually
	for _, e := range returnExprs {
		out = append(out, []retCase{{Expr: e, Kind: "expr"}})
	}
	return out
}

// judgeReturn: "" = fine (or don't-care).
func judgeReturn(res *rt.Result) (sig, detail string) {
	switch res.Class {
	case "ok":
		if res.Value == nil {
			return "returned-value|no-value", "script succeeded without a value"
		}
		if class, d := roundTrip(res.Value); class != "" {
			return returnSig(class, d, res.Value), fmt.Sprintf("returned value %s: %s", trunc(safeString(res.Value), 200), trunc(d, 300))
		}
		return "", ""
	case "user":
		return "", "user"
	}
	m := msgClass(res.Err)
	site := ""
	if res.EscapedPanic != nil {
		m = normMsg(fmt.Sprint(res.EscapedPanic))
	} else if res.Err != nil {
		site = siteOf(res.Err.Error())
	}
	return fmt.Sprintf("returned-value|%s|%s|%s|%s", res.Class, res.Kind, site, m), fmt.Sprintf("not exported (%s): %s", res.Class, res.ErrString())
}

func runReturns(env *mc.Env, w *world, hs *hostSet, batch []retCase) {
	var evals int64
	for _, vm := range []bool{false, true} {
		h := hs.hosts[hostIndex(true, vm)]
		var exprs []string
		for _, c := range batch {
			exprs = append(exprs, c.Expr)
		}
		one := func(c retCase) {
			res := h.run(returnSource(w.imports, []string{c.Expr}), [][]byte{})
			evals++
			if res.Class == "user" && (strings.Contains(res.Kind, "CheckerError") || strings.Contains(res.Kind, "ParsingError")) {
				// the expression is not a struct-kinded expression of this language version: not a case
				env.R.ClassN("returned|"+c.Kind+"|does-not-check", 1)
				return
			}
			sig, detail := judgeReturn(res)
			switch {
			case sig != "":
				env.R.Violation(sig, c29Case{World: w.name, Return: c.Expr, Script: true, VM: vm}, fmt.Sprintf("[%s] script returning %s: %s", modeName(true, vm), c.Expr, detail))
				env.R.ClassN("returned|"+c.Kind+"|violation", 1)
			case detail == "user":
				// "always export" vs. the runtime's documented user error for results it does not export
				env.R.DontCare.Add(1)
				env.R.Class("dont-care:returned-value-refused-with-user-error:"+res.Kind, func() any { return map[string]any{"return": c.Expr, "error": trunc(res.ErrString(), 200)} })
			default:
				env.R.Nontrivial("return|" + c.Expr)
				env.R.ClassN("returned|"+c.Kind+"|exported-and-round-tripped", 1)
			}
		}
		if len(batch) > 1 {
			res := h.run(returnSource(w.imports, exprs), [][]byte{})
			evals++
			if sig, detail := judgeReturn(res); sig == "" && detail == "" {
				for _, c := range batch {
					env.R.Nontrivial("return|" + c.Expr)
				}
				env.R.ClassN("returned|type|exported-and-round-tripped", int64(len(batch)))
				continue
			}
		}
		for _, c := range batch {
			one(c)
		}
	}
	env.R.EvalN(evals)
}

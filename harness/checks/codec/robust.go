package codec

import (
	"bufio"
	"encoding/hex"
	"encoding/json"
	"fmt"
	"os"
	"os/exec"
	"runtime/debug"
	"strconv"
	"strings"
	"sync"
	"syscall"

	"verif/mc"
)

// Decoder robustness runs in worker subprocesses (this binary re-executed with
// --sub robust-worker:…), because a Go `fatal error` (stack overflow, out of
// memory, concurrent map access) cannot be recovered: a worker that dies is
// attributed to the document it announced last, that document is re-run with
// one announcement per edit to find the input, and the input is reported as a
// violation of the never-crashes clause.
//
// Protocol (worker stdout, one record per line):
//
//	D <doc index>          about to process this document
//	E <edit index>         (fine mode only) about to decode this edit
//	V <json robustViolation>
//	S <json robustStats>   final statistics of the shard

type robustViolation struct {
	Sig    string    `json:"sig"`
	Case   valueCase `json:"case"`
	Detail string    `json:"detail"`
}

type robustStatsJSON struct {
	Evals, Ok, Err, Docs int64
}

// robustJob describes one robustness campaign of a check.
type robustJob struct {
	codec string // "json" | "ccf"
	// docs rebuilds the corpus deterministically (parent and workers must agree).
	docs func(env *mc.Env) [][]byte
	// edits enumerates the mutated inputs of document i and calls f with a
	// label and the input; f's slice is only valid during the call.
	edits func(env *mc.Env, i int, doc []byte, f func(kind string, input []byte))
	// decode decodes one input with every decoder variant and reports crashes.
	decode func(kind string, input []byte, st *robustStats, report func(sig string, c valueCase, detail string))
}

func limitWorker() {
	debug.SetMaxStack(64 << 20)
	var lim syscall.Rlimit
	if err := syscall.Getrlimit(syscall.RLIMIT_AS, &lim); err == nil {
		const want = 12 << 30
		if lim.Cur > want {
			lim.Cur = want
			_ = syscall.Setrlimit(syscall.RLIMIT_AS, &lim)
		}
	}
}

// robustWorker is the body of a worker subprocess. spec = "k/K[:from=N][:fine=DOC]".
func robustWorker(env *mc.Env, job robustJob, spec string) {
	limitWorker()
	parts := strings.Split(spec, ":")
	var k, K int
	fmt.Sscanf(parts[0], "%d/%d", &k, &K)
	from, fine := 0, -1
	for _, p := range parts[1:] {
		if strings.HasPrefix(p, "from=") {
			from, _ = strconv.Atoi(p[5:])
		}
		if strings.HasPrefix(p, "fine=") {
			fine, _ = strconv.Atoi(p[5:])
		}
	}
	out := bufio.NewWriter(os.Stdout)
	defer out.Flush()
	docs := job.docs(env)
	var st robustStats
	report := func(sig string, c valueCase, detail string) {
		b, _ := json.Marshal(robustViolation{Sig: sig, Case: c, Detail: detail})
		fmt.Fprintf(out, "V %s\n", b)
	}
	for i, doc := range docs {
		if fine >= 0 {
			if i != fine {
				continue
			}
		} else if i%K != k || i < from {
			continue
		}
		fmt.Fprintf(out, "D %d\n", i)
		out.Flush()
		st.docs++
		n := 0
		job.edits(env, i, doc, func(kind string, input []byte) {
			if fine >= 0 {
				fmt.Fprintf(out, "E %d\n", n)
				out.Flush()
			}
			n++
			job.decode(kind, input, &st, report)
		})
	}
	b, _ := json.Marshal(robustStatsJSON{st.evals, st.okDec, st.errDec, st.docs})
	fmt.Fprintf(out, "S %s\n", b)
}

// spawn runs one worker and returns what it printed and whether it ended normally.
func spawn(env *mc.Env, sub string, onLine func(tag byte, rest string)) (ok bool, how string) {
	cmd := exec.Command(os.Args[0], env.Prop, "--tier", env.Tier, "--sub", sub)
	cmd.Env = append(os.Environ(), "GOMAXPROCS=2", "VERIF_WORKERS=1", "GOTRACEBACK=single")
	stdout, err := cmd.StdoutPipe()
	if err != nil {
		return false, err.Error()
	}
	var stderr strings.Builder
	cmd.Stderr = &limitedWriter{w: &stderr, n: 4000}
	if err := cmd.Start(); err != nil {
		return false, err.Error()
	}
	sc := bufio.NewScanner(stdout)
	sc.Buffer(make([]byte, 1<<20), 256<<20)
	sawStats := false
	for sc.Scan() {
		line := sc.Text()
		if len(line) > 2 && line[1] == ' ' {
			if line[0] == 'S' {
				sawStats = true
			}
			onLine(line[0], line[2:])
		}
	}
	err = cmd.Wait()
	if sawStats {
		return true, ""
	}
	how = "worker ended without statistics"
	if err != nil {
		how = err.Error()
	}
	first := stderr.String()
	if i := strings.Index(first, "\n\n"); i > 0 {
		first = first[:i]
	}
	return false, how + ": " + trunc(strings.TrimSpace(first), 300)
}

type limitedWriter struct {
	w *strings.Builder
	n int
}

func (l *limitedWriter) Write(p []byte) (int, error) {
	if l.n > 0 {
		q := p
		if len(q) > l.n {
			q = q[:l.n]
		}
		l.w.Write(q)
		l.n -= len(q)
	}
	return len(p), nil
}

// fatalClass names the kind of fatal error from the worker's stderr head.
func fatalClass(how string) string {
	switch {
	case strings.Contains(how, "stack overflow"), strings.Contains(how, "stack exceeds"):
		return "stack-overflow"
	case strings.Contains(how, "out of memory"), strings.Contains(how, "cannot allocate"):
		return "out-of-memory"
	case strings.Contains(how, "concurrent map"):
		return "concurrent-map-access"
	case strings.Contains(how, "signal: killed"):
		return "killed"
	case strings.Contains(how, "fatal error"):
		return "fatal-error"
	}
	return "abnormal-exit"
}

// runRobust is the parent side.
func runRobust(env *mc.Env, job robustJob) (tot robustStats) {
	docs := job.docs(env)
	K := env.Workers
	if K < 1 {
		K = 1
	}
	if K > len(docs) {
		K = len(docs)
	}
	var mu sync.Mutex
	var wg sync.WaitGroup
	for k := 0; k < K; k++ {
		wg.Add(1)
		go func(k int) {
			defer wg.Done()
			from := 0
			for attempt := 0; ; attempt++ {
				if attempt >= 3 {
					// every further document of this shard would cost two more dying processes
					env.R.NotExhaustive(fmt.Sprintf("robustness shard %d/%d stopped after 3 fatal crashes", k, K))
					return
				}
				if env.Expired() {
					env.R.NotExhaustive("deadline hit in robustness workers")
					return
				}
				last := -1
				spec := fmt.Sprintf("robust-worker:%d/%d:from=%d", k, K, from)
				ok, how := spawn(env, spec, func(tag byte, rest string) {
					switch tag {
					case 'D':
						last, _ = strconv.Atoi(rest)
					case 'V':
						var v robustViolation
						if json.Unmarshal([]byte(rest), &v) == nil {
							env.R.Violation(v.Sig, v.Case, v.Detail)
						}
					case 'S':
						var s robustStatsJSON
						if json.Unmarshal([]byte(rest), &s) == nil {
							mu.Lock()
							tot.evals += s.Evals
							tot.okDec += s.Ok
							tot.errDec += s.Err
							tot.docs += s.Docs
							mu.Unlock()
						}
					}
				})
				if ok {
					return
				}
				if last < 0 {
					env.R.HarnessError("robustness worker %s failed before its first document: %s", spec, how)
					return
				}
				// the worker died in document `last`: find the edit
				edit := -1
				_, how2 := spawn(env, fmt.Sprintf("robust-worker:%d/%d:fine=%d", k, K, last), func(tag byte, rest string) {
					if tag == 'E' {
						edit, _ = strconv.Atoi(rest)
					}
				})
				var input []byte
				kind := "?"
				n := 0
				job.edits(env, last, docs[last], func(kd string, in []byte) {
					if n == edit {
						input = append([]byte(nil), in...)
						kind = kd
					}
					n++
				})
				if how2 == "" {
					how2 = how
				}
				c := valueCase{Part: "robust-fatal", Codec: job.codec, Hex: hex.EncodeToString(input), Index: last, Site: edit, Print: trunc(string(docs[last]), 300)}
				env.R.Violation(job.codec+".Decode|"+kind+"|fatal:"+fatalClass(how2), c,
					fmt.Sprintf("the decoder killed the process (%s) on edit %d of corpus document %d; input (hex) %s", trunc(how2, 300), edit, last, trunc(c.Hex, 400)))
				from = last + 1 // continue the shard after the fatal document
			}
		}(k)
	}
	wg.Wait()
	return tot
}

// replayFatal decodes one input in a child process and reports whether the child died.
func replayFatal(env *mc.Env, c valueCase) (bool, string) {
	died := true
	ok, how := spawn(env, "robust-input:"+c.Codec+":"+c.Hex, func(tag byte, rest string) {
		if tag == 'S' {
			died = false
		}
	})
	if ok && !died {
		return false, "the decoder returned"
	}
	return true, "child process died: " + how
}

// robustInput is the body of the single-input child. spec = "<codec>:<hex>".
func robustInput(job robustJob, spec string) {
	limitWorker()
	i := strings.Index(spec, ":")
	if i < 0 {
		return
	}
	b, _ := hex.DecodeString(spec[i+1:])
	var st robustStats
	job.decode("replay", b, &st, func(string, valueCase, string) {})
	fmt.Println("S {}")
}

// robustDispatch handles the worker sub-modes; it returns true if env.Sub was one.
func robustDispatch(env *mc.Env, job robustJob) bool {
	switch {
	case strings.HasPrefix(env.Sub, "robust-worker:"):
		robustWorker(env, job, strings.TrimPrefix(env.Sub, "robust-worker:"))
		return true
	case strings.HasPrefix(env.Sub, "robust-input:"):
		robustInput(job, strings.TrimPrefix(env.Sub, "robust-input:"))
		return true
	}
	return false
}

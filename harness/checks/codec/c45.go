package codec

import (
	"encoding/json"
	"fmt"
	"strings"
	"sync/atomic"

	"github.com/onflow/cadence"
	"github.com/onflow/cadence/common"
	"github.com/onflow/cadence/interpreter"
	"github.com/onflow/cadence/runtime"
	"github.com/onflow/cadence/sema"
	"github.com/onflow/cadence/stdlib"

	"verif/gen/cdcval"
	"verif/mc"
	"verif/rt"
)

// C45 — type identity is preserved across representations.
//
//	"A type's ID is the same in the checker, in the run-time static-type
//	 representation, and in the exported external representation. Converting a
//	 type from the checker to run-time form and back yields an equal type. A type
//	 ID decodes to the location and qualified identifier it was built from, and
//	 the run-time type constructors (OptionalType, ReferenceType, CompositeType,
//	 ...) build types equal to the corresponding static types."
//
// Part A (Go level): sema types built over the checked prelude contract.
// Part B: common.DecodeTypeID over every location kind.
// Part C (script level, both engines): run-time type constructors vs Type<T>().

// ---------------------------------------------------------------------------
// Part A: sema type universe

type semaCase struct {
	Name string
	T    sema.Type
	// Twin, if set, is the same type with the members of one set (entitlements,
	// intersection) inserted in another order.
	Twin sema.Type
}

type semaUni struct {
	checker *sema.Checker
	comp    map[string]*sema.CompositeType
	iface   map[string]*sema.InterfaceType
	ent     map[string]*sema.EntitlementType
	mapM    *sema.EntitlementMapType
}

func newSemaUni() (*semaUni, error) {
	ch, err := cdcval.PreludeChecker()
	if err != nil {
		return nil, err
	}
	u := &semaUni{checker: ch, comp: map[string]*sema.CompositeType{}, iface: map[string]*sema.InterfaceType{}, ent: map[string]*sema.EntitlementType{}}
	id := func(n string) common.TypeID { return common.TypeID("A.0000000000000001." + n) }
	names := []string{"C", "C.S", "C.S2", "C.Node", "C.Box", "C.Emp", "C.W", "C.R", "C.RBox", "C.Ev", "C.En", "C.A", "C.A0", "C.A2", "C.AR", "C.AR0", "C.Leaf"}
	for _, m := range cdcval.ThePrelude().Mix {
		names = append(names, m.QualifiedIdentifier)
	}
	for _, n := range names {
		t := ch.Elaboration.CompositeType(id(n))
		if t == nil {
			return nil, fmt.Errorf("prelude has no composite %s", n)
		}
		u.comp[n] = t
	}
	for _, n := range []string{"C.I", "C.I2", "C.J", "C.RI"} {
		t := ch.Elaboration.InterfaceType(id(n))
		if t == nil {
			return nil, fmt.Errorf("prelude has no interface %s", n)
		}
		u.iface[n] = t
	}
	for _, n := range []string{"C.E", "C.H", "C.Gg"} {
		t := ch.Elaboration.EntitlementType(id(n))
		if t == nil {
			return nil, fmt.Errorf("prelude has no entitlement %s", n)
		}
		u.ent[n] = t
	}
	u.mapM = ch.Elaboration.EntitlementMapType(id("C.M"))
	if u.mapM == nil {
		return nil, fmt.Errorf("prelude has no mapping C.M")
	}
	return u, nil
}

type namedAuth struct {
	name string
	a    sema.Access
	twin sema.Access
}

func (u *semaUni) auths() []namedAuth {
	set := func(k sema.EntitlementSetKind, names ...string) sema.Access {
		var es []*sema.EntitlementType
		for _, n := range names {
			es = append(es, u.ent[n])
		}
		return sema.NewEntitlementSetAccess(es, k)
	}
	return []namedAuth{
		{"unauth", sema.UnauthorizedAccess, nil},
		{"map(M)", sema.NewEntitlementMapAccess(u.mapM), nil},
		{"conj(E)", set(sema.Conjunction, "C.E"), nil},
		{"conj(E,H)", set(sema.Conjunction, "C.E", "C.H"), set(sema.Conjunction, "C.H", "C.E")},
		{"conj(Gg,H)", set(sema.Conjunction, "C.Gg", "C.H"), set(sema.Conjunction, "C.H", "C.Gg")},
		{"disj(E,H)", set(sema.Disjunction, "C.E", "C.H"), set(sema.Disjunction, "C.H", "C.E")},
		{"disj(Gg,H,E)", set(sema.Disjunction, "C.Gg", "C.H", "C.E"), set(sema.Disjunction, "C.E", "C.Gg", "C.H")},
		{"disj(E)", set(sema.Disjunction, "C.E"), nil},
	}
}

func (u *semaUni) inter(names ...string) *sema.IntersectionType {
	var ts []*sema.InterfaceType
	for _, n := range names {
		ts = append(ts, u.iface[n])
	}
	return sema.NewIntersectionType(nil, nil, ts)
}

func (u *semaUni) cases(depth int) []semaCase {
	var out []semaCase
	add := func(name string, t sema.Type) { out = append(out, semaCase{Name: name, T: t}) }
	addTwin := func(name string, t, twin sema.Type) { out = append(out, semaCase{Name: name, T: t, Twin: twin}) }

	// primitives
	for ty := interpreter.PrimitiveStaticType(1); ty < interpreter.PrimitiveStaticType_Count; ty++ {
		if !ty.IsDefined() || ty.IsDeprecated() { //nolint:staticcheck
			continue
		}
		st := ty.SemaType()
		if st == nil || st == sema.InvalidType {
			continue
		}
		add("prim:"+string(st.ID()), st)
	}
	// nominal
	for _, n := range []string{"C", "C.S", "C.S2", "C.Node", "C.Box", "C.Emp", "C.W", "C.R", "C.RBox", "C.Ev", "C.En", "C.A"} {
		add("composite:"+n, u.comp[n])
	}
	for _, n := range []string{"C.I", "C.I2", "C.J", "C.RI"} {
		add("interface:"+n, u.iface[n])
	}
	addTwin("inter{I,I2}", u.inter("C.I", "C.I2"), u.inter("C.I2", "C.I"))
	addTwin("inter{J,I2}", u.inter("C.J", "C.I2"), u.inter("C.I2", "C.J"))
	addTwin("inter{I2,J,I}", u.inter("C.I2", "C.J", "C.I"), u.inter("C.I", "C.I2", "C.J"))
	add("inter{I}", u.inter("C.I"))
	add("inter{RI}", u.inter("C.RI"))
	for _, t := range []sema.Type{sema.IntType, sema.UInt8Type, sema.Int128Type, sema.Word64Type} {
		add("range:"+string(t.ID()), sema.NewInclusiveRangeType(nil, t))
	}

	type nt struct {
		n string
		t sema.Type
	}
	atoms := []nt{
		{"Int", sema.IntType}, {"String", sema.StringType}, {"AnyStruct", sema.AnyStructType}, {"Address", sema.TheAddressType},
		{"S", u.comp["C.S"]}, {"Node", u.comp["C.Node"]}, {"R", u.comp["C.R"]}, {"I", u.iface["C.I"]}, {"{I,I2}", u.inter("C.I", "C.I2")},
	}
	fn := func(purity sema.FunctionPurity, ret sema.Type, ps ...sema.Type) sema.Type {
		var params []sema.Parameter
		for i, p := range ps {
			params = append(params, sema.Parameter{Label: sema.ArgumentLabelNotRequired, Identifier: fmt.Sprintf("p%d", i), TypeAnnotation: sema.NewTypeAnnotation(p)})
		}
		return sema.NewSimpleFunctionType(purity, params, sema.NewTypeAnnotation(ret))
	}
	full := func(x nt) {
		p := x.n
		add("opt("+p+")", sema.NewOptionalType(nil, x.t))
		add("varr("+p+")", sema.NewVariableSizedType(nil, x.t))
		add("carr0("+p+")", sema.NewConstantSizedType(nil, x.t, 0))
		add("carr3("+p+")", sema.NewConstantSizedType(nil, x.t, 3))
		add("dict(String,"+p+")", sema.NewDictionaryType(nil, sema.StringType, x.t))
		add("dict(Int,"+p+")", sema.NewDictionaryType(nil, sema.IntType, x.t))
		add("dict(En,"+p+")", sema.NewDictionaryType(nil, u.comp["C.En"], x.t))
		for _, a := range u.auths() {
			t := sema.NewReferenceType(nil, a.a, x.t)
			if a.twin != nil {
				addTwin("ref("+a.name+","+p+")", t, sema.NewReferenceType(nil, a.twin, x.t))
			} else {
				add("ref("+a.name+","+p+")", t)
			}
		}
		add("cap("+p+")", sema.NewCapabilityType(nil, x.t))
		add("cap(&"+p+")", sema.NewCapabilityType(nil, sema.NewReferenceType(nil, sema.UnauthorizedAccess, x.t)))
		add("fun():"+p, fn(sema.FunctionPurityImpure, x.t))
		add("viewfun("+p+")", fn(sema.FunctionPurityView, sema.VoidType, x.t))
		add("fun("+p+",Int):"+p, fn(sema.FunctionPurityImpure, x.t, x.t, sema.IntType))
	}
	reduced := func(x nt) []nt {
		a := u.auths()[4]
		return []nt{
			{"opt(" + x.n + ")", sema.NewOptionalType(nil, x.t)},
			{"varr(" + x.n + ")", sema.NewVariableSizedType(nil, x.t)},
			{"carr2(" + x.n + ")", sema.NewConstantSizedType(nil, x.t, 2)},
			{"dict(String," + x.n + ")", sema.NewDictionaryType(nil, sema.StringType, x.t)},
			{"ref(conj(Gg,H)," + x.n + ")", sema.NewReferenceType(nil, a.a, x.t)},
			{"cap(" + x.n + ")", sema.NewCapabilityType(nil, x.t)},
			{"fun(" + x.n + "):" + x.n, fn(sema.FunctionPurityImpure, x.t, x.t)},
		}
	}
	add("cap()", sema.NewCapabilityType(nil, nil))
	level := atoms
	for k := 1; k <= depth; k++ {
		var next []nt
		for _, x := range level {
			full(x)
			next = append(next, reduced(x)...)
		}
		level = next
	}
	return out
}

func semaKind(t sema.Type) string {
	s := fmt.Sprintf("%T", t)
	s = strings.TrimPrefix(s, "*")
	s = strings.TrimPrefix(s, "sema.")
	if r, ok := t.(*sema.ReferenceType); ok {
		switch a := r.Authorization.(type) {
		case sema.EntitlementSetAccess:
			if a.SetKind == sema.Conjunction {
				s += "[conj]"
			} else {
				s += "[disj]"
			}
		case *sema.EntitlementMapAccess:
			s += "[map]"
		}
	}
	return s
}

var importUnsupported atomic.Int64

// judgeSema returns "" or a failure class.
func judgeSema(inter *interpreter.Interpreter, t sema.Type) (class, detail string) {
	var p bool
	var pv any
	p, pv, _ = mc.Guard(func() {
		semaID := string(t.ID())
		st := interpreter.ConvertSemaToStaticType(nil, t)
		if st == nil {
			class, detail = "no-static-type", semaID
			return
		}
		if staticID := string(st.ID()); staticID != semaID {
			class, detail = "static-id-differs", fmt.Sprintf("sema %q static %q", semaID, staticID)
			return
		}
		ct := runtime.ExportType(t, map[sema.TypeID]cadence.Type{})
		if ct == nil {
			class, detail = "no-exported-type", semaID
			return
		}
		if cid := ct.ID(); cid != semaID {
			class, detail = "exported-id-differs", fmt.Sprintf("sema %q exported %q", semaID, cid)
			return
		}
		back, err := interpreter.ConvertStaticToSemaType(inter, st)
		if err != nil {
			class, detail = "static-to-sema-error", err.Error()
			return
		}
		if !back.Equal(t) || !t.Equal(back) {
			class, detail = "sema-static-sema-not-equal", fmt.Sprintf("%s -> %s -> %s", semaID, st.ID(), back.ID())
			return
		}
		if string(back.ID()) != semaID {
			class, detail = "sema-static-sema-id-differs", fmt.Sprintf("%s vs %s", semaID, back.ID())
			return
		}
		again := interpreter.ConvertSemaToStaticType(nil, back)
		if !again.Equal(st) || !st.Equal(again) {
			class, detail = "static-sema-static-not-equal", semaID
			return
		}
		// exported -> static (ImportType has no function types: they cannot be imported)
		if _, isFn := t.(*sema.FunctionType); !isFn && !containsFunction(t) {
			var imp interpreter.StaticType
			if p, _, _ := mc.Guard(func() { imp = runtime.ImportType(nil, ct) }); p {
				// runtime.ImportType has no case for some exported types (attachment types:
				// it panics "cannot import type of type *cadence.AttachmentType"). Importing is
				// not part of the sentence (checker <-> run-time form, IDs): don't-care.
				importUnsupported.Add(1)
				return
			}
			if imp == nil || !imp.Equal(st) || string(imp.ID()) != semaID {
				class, detail = "exported-to-static-differs", fmt.Sprintf("%s vs %v", semaID, imp)
				return
			}
		}
	})
	if p {
		return "panic:" + panicClass(pv), trunc(fmt.Sprint(pv), 300)
	}
	return
}

func containsFunction(t sema.Type) bool {
	found := false
	var walk func(t sema.Type)
	walk = func(t sema.Type) {
		switch t := t.(type) {
		case *sema.FunctionType:
			found = true
		case *sema.OptionalType:
			walk(t.Type)
		case *sema.VariableSizedType:
			walk(t.Type)
		case *sema.ConstantSizedType:
			walk(t.Type)
		case *sema.DictionaryType:
			walk(t.KeyType)
			walk(t.ValueType)
		case *sema.ReferenceType:
			walk(t.Type)
		case *sema.CapabilityType:
			if t.BorrowType != nil {
				walk(t.BorrowType)
			}
		}
	}
	walk(t)
	return found
}

// judgeTwin: the same type with set members in another insertion order must
// have the same ID and be equal in every representation.
func judgeTwin(t, twin sema.Type) (class, detail string) {
	p, pv, _ := mc.Guard(func() {
		if t.ID() != twin.ID() {
			class, detail = "sema-id-depends-on-set-order", fmt.Sprintf("%s vs %s", t.ID(), twin.ID())
			return
		}
		if !t.Equal(twin) || !twin.Equal(t) {
			class, detail = "sema-equal-depends-on-set-order", string(t.ID())
			return
		}
		s1, s2 := interpreter.ConvertSemaToStaticType(nil, t), interpreter.ConvertSemaToStaticType(nil, twin)
		if s1.ID() != s2.ID() {
			class, detail = "static-id-depends-on-set-order", fmt.Sprintf("%s vs %s", s1.ID(), s2.ID())
			return
		}
		if !s1.Equal(s2) || !s2.Equal(s1) {
			class, detail = "static-equal-depends-on-set-order", string(s1.ID())
			return
		}
		c1 := runtime.ExportType(t, map[sema.TypeID]cadence.Type{})
		c2 := runtime.ExportType(twin, map[sema.TypeID]cadence.Type{})
		if c1.ID() != c2.ID() {
			class, detail = "exported-id-depends-on-set-order", fmt.Sprintf("%s vs %s", c1.ID(), c2.ID())
			return
		}
	})
	if p {
		return "panic:" + panicClass(pv), trunc(fmt.Sprint(pv), 300)
	}
	return
}

// ---------------------------------------------------------------------------
// Part B: DecodeTypeID

type locCase struct {
	Kind string `json:"kind"`
	Loc  string `json:"loc"`
	QID  string `json:"qid"`
	loc  common.Location
}

func locCases() []locCase {
	var out []locCase
	add := func(kind string, l common.Location, qids ...string) {
		for _, q := range qids {
			out = append(out, locCase{Kind: kind, Loc: fmt.Sprintf("%#v", l), QID: q, loc: l})
		}
	}
	addrs := []common.Address{{0, 0, 0, 0, 0, 0, 0, 1}, {}, {0xff, 0xff, 0xff, 0xff, 0xff, 0xff, 0xff, 0xff}}
	for _, a := range addrs {
		add("AddressLocation", common.AddressLocation{Address: a, Name: "A"}, "A", "A.B", "A.B.c_2")
		add("AddressLocation", common.AddressLocation{Address: a, Name: "a_1"}, "a_1", "a_1.B")
	}
	for _, s := range []string{"test", "a_1", "A"} {
		add("StringLocation", common.StringLocation(s), "A", "A.B", "a_1")
		add("IdentifierLocation", common.IdentifierLocation(s), "A", "A.B", "a_1")
	}
	var h0, h1, hf [32]byte
	h1[31] = 1
	for i := range hf {
		hf[i] = 0xff
	}
	for _, h := range [][32]byte{h0, h1, hf} {
		add("TransactionLocation", common.TransactionLocation(h), "A", "A.B", "a_1")
		add("ScriptLocation", common.ScriptLocation(h), "A", "A.B", "a_1")
	}
	add("REPLLocation", common.REPLLocation{}, "A", "A.B", "a_1")
	add("FlowLocation", stdlib.FlowLocation{}, "AccountCreated", "A.B", "a_1")
	// built-in types have no location; their names never start with a location prefix
	add("nil", nil, "PublicKey", "Account.Storage", "a_1")
	return out
}

func judgeLoc(c locCase) (class, detail string) {
	p, pv, _ := mc.Guard(func() {
		id := common.NewTypeIDFromQualifiedName(nil, c.loc, c.QID)
		if c.loc != nil {
			if id2 := c.loc.TypeID(nil, c.QID); id2 != id {
				class, detail = "type-id-constructors-disagree", fmt.Sprintf("%s vs %s", id, id2)
				return
			}
		}
		loc, qid, err := common.DecodeTypeID(nil, string(id))
		if err != nil {
			class, detail = "decode-error", fmt.Sprintf("%s: %v", id, err)
			return
		}
		if loc != c.loc {
			class, detail = "location-differs", fmt.Sprintf("%s: built from %#v, decoded %#v", id, c.loc, loc)
			return
		}
		if qid != c.QID {
			class, detail = "qualified-identifier-differs", fmt.Sprintf("%s: built from %q, decoded %q", id, c.QID, qid)
			return
		}
	})
	if p {
		return "panic:" + panicClass(pv), trunc(fmt.Sprint(pv), 300)
	}
	return
}

// ---------------------------------------------------------------------------
// Part C: run-time type constructors in scripts

type srcType struct {
	src string // type syntax without the leading @
	res bool
}

func (t srcType) ann() string {
	if t.res {
		return "@" + t.src
	}
	return t.src
}

type ctorCheck struct {
	Ctor string `json:"ctor"`
	LHS  string `json:"lhs"`
	RHS  string `json:"rhs"`
	T    string `json:"type"`
}

const pfx = "A.0000000000000001."

func ctorChecks() []ctorCheck {
	atoms := []srcType{
		{"Int", false}, {"String", false}, {"AnyStruct", false}, {"Address", false}, {"UInt8", false},
		{"C.S", false}, {"C.Node", false}, {"C.R", true}, {"C.En", false}, {"{C.I}", false}, {"{C.I, C.I2}", false},
		{"[Int]", false}, {"Int?", false}, {"{String: C.S}", false}, {"[C.R]", true}, {"&C.S", false}, {"Capability<&C.S>", false},
		{"fun(Int): Void", false},
	}
	var out []ctorCheck
	for _, t := range atoms {
		ty := "Type<" + t.ann() + ">()"
		add := func(ctor, lhs, rhsType string) {
			out = append(out, ctorCheck{Ctor: ctor, LHS: lhs, RHS: "Type<" + rhsType + ">()", T: t.ann()})
		}
		isFun := strings.HasPrefix(t.src, "fun")
		paren := t.src
		if isFun || strings.HasPrefix(t.src, "&") || strings.HasSuffix(t.src, "?") {
			paren = "(" + t.src + ")"
		}
		at := ""
		if t.res {
			at = "@"
		}
		add("OptionalType", "OptionalType("+ty+")", at+paren+"?")
		add("VariableSizedArrayType", "VariableSizedArrayType("+ty+")", at+"["+t.src+"]")
		add("ConstantSizedArrayType", "ConstantSizedArrayType(type: "+ty+", size: 3)", at+"["+t.src+"; 3]")
		add("DictionaryType", "DictionaryType(key: Type<String>(), value: "+ty+")!", at+"{String: "+t.src+"}")
		if !isFun {
			// (a type value of a function type cannot be an array element: arrays store their
			// elements and function types are not storable – a user error unrelated to C45)
			add("FunctionType", "FunctionType(parameters: ["+ty+"], return: Type<Void>())", "fun("+t.ann()+"): Void")
		}
		add("FunctionType", "FunctionType(parameters: [], return: "+ty+")", "fun(): "+t.ann())
		switch {
		case strings.HasSuffix(t.src, "?"):
			// a reference to an optional type cannot be written as a static type
			// ("invalid reference to optional type"): nothing to compare with
		case !strings.HasPrefix(t.src, "&"):
			add("ReferenceType", "ReferenceType(entitlements: [], type: "+ty+")!", "&"+paren)
			add("ReferenceType", "ReferenceType(entitlements: [\""+pfx+"C.E\"], type: "+ty+")!", "auth(C.E) &"+paren)
			add("ReferenceType", "ReferenceType(entitlements: [\""+pfx+"C.E\", \""+pfx+"C.H\"], type: "+ty+")!", "auth(C.E, C.H) &"+paren)
			add("ReferenceType", "ReferenceType(entitlements: [\""+pfx+"C.H\", \""+pfx+"C.E\"], type: "+ty+")!", "auth(C.E, C.H) &"+paren)
			add("ReferenceType", "ReferenceType(entitlements: [\""+pfx+"C.Gg\", \""+pfx+"C.H\"], type: "+ty+")!", "auth(C.H, C.Gg) &"+paren)
			add("ReferenceType", "ReferenceType(entitlements: [\"Mutate\", \"Insert\"], type: "+ty+")!", "auth(Insert, Mutate) &"+paren)
			add("CapabilityType", "CapabilityType(ReferenceType(entitlements: [], type: "+ty+")!)!", "Capability<&"+paren+">")
		default:
			add("CapabilityType", "CapabilityType("+ty+")!", "Capability<"+t.src+">")
		}
	}
	one := func(ctor, lhs, rhsType string) {
		out = append(out, ctorCheck{Ctor: ctor, LHS: lhs, RHS: "Type<" + rhsType + ">()", T: rhsType})
	}
	for _, c := range []struct{ id, ann string }{
		{"C.S", "C.S"}, {"C.S2", "C.S2"}, {"C.Node", "C.Node"}, {"C.R", "@C.R"}, {"C.RBox", "@C.RBox"}, {"C.En", "C.En"}, {"C.Ev", "C.Ev"}, {"C", "C"},
	} {
		one("CompositeType", "CompositeType(\""+pfx+c.id+"\")!", c.ann)
	}
	one("IntersectionType", "IntersectionType(types: [\""+pfx+"C.I\"])!", "{C.I}")
	one("IntersectionType", "IntersectionType(types: [\""+pfx+"C.I\", \""+pfx+"C.I2\"])!", "{C.I, C.I2}")
	one("IntersectionType", "IntersectionType(types: [\""+pfx+"C.I2\", \""+pfx+"C.I\"])!", "{C.I, C.I2}")
	one("IntersectionType", "IntersectionType(types: [\""+pfx+"C.J\", \""+pfx+"C.I2\", \""+pfx+"C.I\"])!", "{C.I, C.I2, C.J}")
	one("IntersectionType", "IntersectionType(types: [\""+pfx+"C.RI\"])!", "@{C.RI}")
	for _, n := range []string{"Int", "Int8", "UInt8", "Int128", "UInt256", "Word64", "Word256", "UInt"} {
		one("InclusiveRangeType", "InclusiveRangeType(Type<"+n+">())!", "InclusiveRange<"+n+">")
	}
	return out
}

// runCtorChecks evaluates a batch of checks in one script: for each, whether
// the constructed type equals the static one and whether their identifiers agree.
func runCtorChecks(l *rt.Ledger, checks []ctorCheck, useVM bool) (res []string, err string) {
	var sb strings.Builder
	sb.WriteString("import C from 0x1\naccess(all) fun main(): [String] {\n  let r: [String] = []\n")
	for _, c := range checks {
		fmt.Fprintf(&sb, "  if true { let a = %s; let b = %s; r.append((a == b ? \"eq\" : \"ne\").concat(\"|\").concat(a.identifier).concat(\"|\").concat(b.identifier)) }\n", c.LHS, c.RHS)
	}
	sb.WriteString("  return r\n}\n")
	r := rt.Run(l, rt.Tx{Source: sb.String(), Script: true, UseVM: useVM})
	if !r.OK() {
		return nil, r.Class + ": " + r.ErrString()
	}
	arr, ok := r.Value.(cadence.Array)
	if !ok {
		return nil, fmt.Sprintf("unexpected result %T", r.Value)
	}
	for _, v := range arr.Values {
		res = append(res, string(v.(cadence.String)))
	}
	return res, ""
}

func judgeCtor(l *rt.Ledger, c ctorCheck, useVM bool) (class, detail string) {
	res, err := runCtorChecks(l, []ctorCheck{c}, useVM)
	if err != "" {
		return "script-failed", err
	}
	return judgeCtorResult(res[0])
}

func judgeCtorResult(r string) (class, detail string) {
	parts := strings.SplitN(r, "|", 3)
	if len(parts) != 3 {
		return "bad-result", r
	}
	if parts[1] != parts[2] {
		return "identifier-differs", fmt.Sprintf("constructed %q, static %q", parts[1], parts[2])
	}
	if parts[0] != "eq" {
		return "not-equal", fmt.Sprintf("constructed and static type have identifier %q but are not ==", parts[1])
	}
	return "", ""
}

func ctorLedger(useVM bool) *rt.Ledger {
	l := rt.NewLedger()
	rt.Deploy(l, rt.Addr(1), "C", cdcval.PreludeContract, useVM)
	return l
}

// ---------------------------------------------------------------------------

type c45Case struct {
	Part  string     `json:"part"`
	Depth int        `json:"depth,omitempty"`
	Index int        `json:"index,omitempty"`
	Name  string     `json:"name,omitempty"`
	Loc   *locCase   `json:"loc,omitempty"`
	Ctor  *ctorCheck `json:"ctor,omitempty"`
	VM    bool       `json:"vm,omitempty"`
}

func engine(vm bool) string {
	if vm {
		return "vm"
	}
	return "interpreter"
}

func runC45(env *mc.Env) {
	depth := mc.Pick(env, 2, 3)
	u, err := newSemaUni()
	if err != nil {
		env.R.HarnessError("prelude: %v", err)
		return
	}
	// harness self-check: the cadence types of gen/cdcval are what the real contract exports
	checkPreludeConsistency(env, u)

	cases := u.cases(depth)
	env.R.Set("sema_types", len(cases))
	importUnsupported.Store(0)
	defer func() {
		if n := importUnsupported.Load(); n > 0 {
			env.R.DontCare.Add(n)
			env.R.ClassN("dontcare:exported-type-not-importable", n)
		}
	}()
	mc.ParallelFor(env, len(cases), func(i int) {
		c := cases[i]
		storage := interpreter.NewInMemoryStorage(nil, nil)
		inter := newC44Inter(storage)
		class, detail := judgeSema(inter, c.T)
		env.R.Eval()
		if class != "" {
			env.R.Violation("type-id|"+semaKind(c.T)+"|"+class, c45Case{Part: "sema", Depth: depth, Index: i, Name: c.Name}, c.Name+": "+detail)
		} else {
			env.R.Nontrivial("sema|" + string(c.T.ID()))
			env.R.Class("ids-agree:"+semaKind(c.T), func() any { return string(c.T.ID()) })
		}
		if c.Twin != nil {
			class, detail := judgeTwin(c.T, c.Twin)
			env.R.Eval()
			if class != "" {
				env.R.Violation("type-id|"+semaKind(c.T)+"|"+class, c45Case{Part: "twin", Depth: depth, Index: i, Name: c.Name}, c.Name+": "+detail)
			} else {
				env.R.Nontrivial("twin|" + c.Name)
				env.R.Class("set-order-independent:"+semaKind(c.T), nil)
			}
		}
	})

	for _, c := range locCases() {
		c := c
		class, detail := judgeLoc(c)
		env.R.Eval()
		if class != "" {
			env.R.Violation("DecodeTypeID|"+c.Kind+"|"+class, c45Case{Part: "loc", Loc: &c}, detail)
		} else {
			env.R.Nontrivial("loc|" + c.Loc + "|" + c.QID)
			env.R.Class("type-id-decodes:"+c.Kind, nil)
		}
	}

	checks := ctorChecks()
	env.R.Set("constructor_checks", len(checks))
	for _, vm := range []bool{false, true} {
		vm := vm
		l := ctorLedger(vm)
		const batch = 24
		nb := (len(checks) + batch - 1) / batch
		mc.ParallelFor(env, nb, func(b int) {
			lo, hi := b*batch, (b+1)*batch
			if hi > len(checks) {
				hi = len(checks)
			}
			res, errStr := runCtorChecks(l.Clone(), checks[lo:hi], vm)
			if errStr != "" {
				// find the offending check individually
				for i := lo; i < hi; i++ {
					c := checks[i]
					class, detail := judgeCtor(l.Clone(), c, vm)
					env.R.Eval()
					if class != "" {
						env.R.Violation("runtime-constructor|"+c.Ctor+"|"+engine(vm)+"|"+class, c45Case{Part: "ctor", Ctor: &c, VM: vm}, c.LHS+" vs "+c.RHS+": "+detail)
					}
				}
				return
			}
			for i, r := range res {
				c := checks[lo+i]
				class, detail := judgeCtorResult(r)
				env.R.Eval()
				if class != "" {
					env.R.Violation("runtime-constructor|"+c.Ctor+"|"+engine(vm)+"|"+class, c45Case{Part: "ctor", Ctor: &c, VM: vm}, c.LHS+" vs "+c.RHS+": "+detail)
				} else {
					env.R.Nontrivial("ctor|" + engine(vm) + "|" + c.LHS)
					env.R.Class("constructor-agrees:"+c.Ctor+":"+engine(vm), func() any { return c.LHS + " == " + c.RHS })
				}
			}
		})
	}
	env.R.BoundCompleted(fmt.Sprintf("sema types depth %d (%d), %d location cases, %d constructor checks x 2 engines", depth, len(cases), len(locCases()), len(checks)))
}

// checkPreludeConsistency compares what the runtime exports for the prelude's
// nominal types with the hand-written cadence types of gen/cdcval.
func checkPreludeConsistency(env *mc.Env, u *semaUni) {
	p := cdcval.ThePrelude()
	pairs := []struct {
		n string
		c cadence.Type
	}{
		{"C.S", p.S}, {"C.S2", p.S2}, {"C.Node", p.Node}, {"C.Box", p.Box}, {"C.W", p.W}, {"C.R", p.R}, {"C.RBox", p.RBox},
		{"C.Ev", p.Ev}, {"C.En", p.En}, {"C.A", p.A}, {"C", p.Ct},
		{"C.A0", p.A0}, {"C.A2", p.A2}, {"C.AR", p.AR}, {"C.AR0", p.AR0}, {"C.Leaf", p.Leaf},
	}
	for _, m := range p.Mix {
		pairs = append(pairs, struct {
			n string
			c cadence.Type
		}{m.QualifiedIdentifier, m})
	}
	var diffs []string
	for _, pr := range pairs {
		exp := runtime.ExportType(u.comp[pr.n], map[sema.TypeID]cadence.Type{})
		a := cdcval.DumpType(exp, cdcval.TInline, false)
		b := cdcval.DumpType(pr.c, cdcval.TInline, false)
		if a != b {
			diffs = append(diffs, fmt.Sprintf("%s: exported %s, cdcval %s", pr.n, a, b))
		}
	}
	env.R.Set("prelude_types_matching_contract", len(pairs)-len(diffs))
	if len(diffs) > 0 {
		env.R.HarnessError("gen/cdcval's nominal types differ from what the prelude contract exports:\n%s", strings.Join(diffs, "\n"))
	}
}

func replayC45(env *mc.Env, raw json.RawMessage) (bool, string) {
	var c c45Case
	if err := json.Unmarshal(raw, &c); err != nil {
		return false, err.Error()
	}
	switch c.Part {
	case "sema", "twin":
		u, err := newSemaUni()
		if err != nil {
			return false, err.Error()
		}
		cases := u.cases(c.Depth)
		if c.Index >= len(cases) || cases[c.Index].Name != c.Name {
			return false, "case not found"
		}
		sc := cases[c.Index]
		if c.Part == "twin" {
			class, detail := judgeTwin(sc.T, sc.Twin)
			return class != "", class + ": " + detail
		}
		inter := newC44Inter(interpreter.NewInMemoryStorage(nil, nil))
		class, detail := judgeSema(inter, sc.T)
		return class != "", class + ": " + detail
	case "loc":
		for _, lc := range locCases() {
			if lc.Kind == c.Loc.Kind && lc.Loc == c.Loc.Loc && lc.QID == c.Loc.QID {
				class, detail := judgeLoc(lc)
				return class != "", class + ": " + detail
			}
		}
		return false, "location case not found"
	case "ctor":
		class, detail := judgeCtor(ctorLedger(c.VM), *c.Ctor, c.VM)
		return class != "", class + ": " + detail
	}
	return false, "unknown part"
}

func init() {
	mc.Register(&mc.Check{
		ID: "C45",
		Rule: "every sema type of a depth-d universe built over the checked prelude contract (all primitives, every nominal kind, every constructor incl. references with every authorization kind and intersections, each set in two insertion orders) is converted sema->static->sema, exported and re-imported, and the IDs of all representations are compared; " +
			"every location kind x {3 addresses / hashes / names} x qualified identifiers is turned into a type ID and decoded; every run-time type constructor is applied to 18 argument types in scripts on both engines and compared (== and identifier) with Type<T>(); non-trivial = distinct type / location case / constructor call that was compared",
		Assumptions: []string{
			"the prelude contract (gen/cdcval/prelude.go) is checked by the real checker; its nominal sema types are the universe's atoms",
			"function types are not importable (runtime.ImportType), so exported->static is not compared for them",
			"built-in (nil location) qualified identifiers do not start with a registered location prefix",
		},
		Run:    runC45,
		Replay: replayC45,
	})
}

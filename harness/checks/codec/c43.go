package codec

import (
	"encoding/json"
	"fmt"
	"sort"

	"github.com/onflow/cadence"

	"verif/gen/cdcval"
	"verif/mc"
)

// C43 — JSON-Cadence and CCF decode to the same value.
//
//	"For every value v with complete type information, decoding v's JSON-Cadence
//	 encoding and decoding v's CCF encoding yield equal values once the static
//	 type information JSON-Cadence does not carry is erased, and the two decoded
//	 values have equal type IDs."
//
// Erasure: static types of containers and field types of composites are
// dropped (TNone); capability borrow types are compared on what *both* formats
// carry (CCF carries an inline type: no initializers, interface types by ID);
// types carried as data (type values, function values) are compared in full.
// Dictionary entries are compared as a set (CCF sorts them, JSON keeps the
// order). Type IDs are compared at every node at which both decoded values
// have a complete type (a JSON-decoded container has none: don't-care).

var c43Mode = cdcval.Mode{Static: cdcval.TNone, Borrow: cdcval.TInline, DictSet: true, SetTypes: true}

// typeIDMismatch walks both values in parallel and returns the first node at
// which both have a type ID and the IDs differ.
func typeIDMismatch(a, b cadence.Value, path string, compared *int) string {
	ida, oka := cdcval.SafeTypeID(a)
	idb, okb := cdcval.SafeTypeID(b)
	if oka && okb {
		*compared++
		if ida != idb {
			return fmt.Sprintf("%s: json-decoded has type ID %q, ccf-decoded %q", path, ida, idb)
		}
	}
	if _, isDict := a.(cadence.Dictionary); isDict {
		return "" // entry order differs between the codecs; entries are compared by the dump
	}
	ca, cb := cdcval.Children(a), cdcval.Children(b)
	if len(ca) != len(cb) {
		return ""
	}
	for i := range ca {
		if ca[i] == nil || cb[i] == nil {
			continue
		}
		if m := typeIDMismatch(ca[i], cb[i], fmt.Sprintf("%s/%d", path, i), compared); m != "" {
			return m
		}
	}
	return ""
}

func agree(v cadence.Value) (class string, detail string) {
	je := jsonEnc(v)
	ce := ccfEnc(false, v)
	if !je.ok() || !ce.ok() {
		return "dontcare:no-encoding", "json: " + je.describe() + " ccf: " + ce.describe()
	}
	jd := jsonDec(je.bytes)
	cd := ccfDec(false, ce.bytes)
	if !jd.ok() || !cd.ok() {
		// a decoder rejecting its own encoding is C41's / C42's finding, not a disagreement
		return "dontcare:no-decoding", "json: " + jd.describe() + " ccf: " + cd.describe()
	}
	a, b := cdcval.Dump(jd.val, c43Mode), cdcval.Dump(cd.val, c43Mode)
	if a != b {
		flat := c43Mode
		flat.NilFlat = true
		if cdcval.Dump(jd.val, flat) == cdcval.Dump(cd.val, flat) {
			// nil of a nested optional type: CCF decodes some(nil), JSON decodes nil; the
			// language does not distinguish them (see C42): don't-care.
			return "dontcare:nil-of-nested-optional-type", a + " vs " + b
		}
		return "values-differ", fmt.Sprintf("json-decoded %s\nccf-decoded  %s", trunc(a, 500), trunc(b, 500))
	}
	// the types carried as data must also be equal by the library's own notion
	// (two authorization sets with one member have the same ID but may differ in kind)
	var ta, tb []cadence.Type
	embeddedTypes(jd.val, &ta)
	embeddedTypes(cd.val, &tb)
	if len(ta) == len(tb) {
		key := func(t cadence.Type) string { return cdcval.DumpType(t, cdcval.TInline, true) }
		sort.SliceStable(ta, func(i, j int) bool { return key(ta[i]) < key(ta[j]) })
		sort.SliceStable(tb, func(i, j int) bool { return key(tb[i]) < key(tb[j]) })
		for i := range ta {
			if eq, _ := typesEqualAPI(ta[i], tb[i]); !eq {
				return "embedded-types-not-Equal", fmt.Sprintf("json-decoded %s\nccf-decoded  %s", trunc(key(ta[i]), 300), trunc(key(tb[i]), 300))
			}
		}
	}
	n := 0
	if m := typeIDMismatch(jd.val, cd.val, "", &n); m != "" {
		return "type-ids-differ", m
	}
	if n == 0 {
		// values agree; the type-ID clause has nothing to compare: a JSON-decoded container
		// carries no static type ("the two decoded values have equal type IDs" is undefined here)
		return "", "no-comparable-type-id"
	}
	return "", ""
}

func runC43(env *mc.Env) {
	depth := mc.Pick(env, 2, 3)
	vals := cdcval.Values(depth)
	env.R.Set("values", len(vals))
	mc.ParallelFor(env, len(vals), func(i int) {
		v := vals[i]
		class, detail := agree(v)
		env.R.Eval()
		switch {
		case class == "":
			env.R.Nontrivial(cdcval.Shape(v))
			env.R.Class("agree:"+cdcval.Kind(v), func() any { return trunc(cdcval.Dump(v, c43Mode), 200) })
			if detail == "no-comparable-type-id" {
				env.R.DontCare.Add(1)
				env.R.Class("dontcare(type-id clause only):json-decoded-container-has-no-type:"+cdcval.Kind(v), nil)
			}
		case len(class) > 9 && class[:9] == "dontcare:":
			env.R.DontCare.Add(1)
			env.R.Class(class+":"+cdcval.Kind(v), nil)
		default:
			where := culprit(v, class, func(x cadence.Value) string { c, _ := agree(x); return c })
			env.R.Violation("json-vs-ccf|"+where+"|"+class, mkCase(depth, i, "agree", v), detail)
		}
	})
	env.R.BoundCompleted(fmt.Sprintf("Values(%d)", depth))
}

func replayC43(env *mc.Env, raw json.RawMessage) (bool, string) {
	var c valueCase
	if err := json.Unmarshal(raw, &c); err != nil {
		return false, err.Error()
	}
	v, err := c.value()
	if err != nil {
		return false, err.Error()
	}
	class, detail := agree(v)
	return class != "" && (len(class) < 9 || class[:9] != "dontcare:"), class + ": " + detail
}

func init() {
	mc.Register(&mc.Check{
		ID:   "C43",
		Rule: "every value of cdcval.Values(d) (d=2 quick, 3 thorough) is encoded and decoded by both codecs; the two decoded values are compared after erasure (canonical dump) and their type IDs are compared at every node where both carry a complete type; non-trivial = distinct value shape on which both decodings existed and were compared",
		Assumptions: []string{
			"values one of the codecs cannot encode or decode (reported by C41/C42) are don't-care here",
			"capability borrow types are compared on the projection both formats carry (no initializers, interfaces by ID)",
		},
		Run:    runC43,
		Replay: replayC43,
	})
}

package codec

import (
	"bytes"
	"encoding/hex"
	"encoding/json"
	"fmt"
	"strings"
	"sync"

	"github.com/onflow/cadence"

	"verif/gen/cdcval"
	"verif/mc"
)

// C42 — CCF round-trips, is canonical in deterministic mode, and never crashes.
//
//	"For every value with complete type information, decoding its CCF encoding
//	 yields an equal value of an equal type. In deterministic mode the encoding
//	 does not depend on the order of dictionary entries or of types in
//	 intersection and entitlement sets, and the strict decoder accepts it; the
//	 strict decoder rejects encodings with unsorted entries. Decoding arbitrary
//	 bytes never crashes."
//
// What "equal" is taken to mean (see notes/C42.md): structural equality of
// value and static types restricted to what a CCF message carries for a value
// (composite types: ID + fields; interface types: ID; no initializers) and full
// equality of types carried as data (type values, function values); dictionary
// entries, intersection members and entitlement sets are sets. In deterministic
// mode composite fields are compared by name (the mode sorts them). In
// addition cadence.Type.Equal must hold between the two values' types.

var (
	ccfPlainMode = cdcval.Mode{Static: cdcval.TInline, Borrow: cdcval.TInline, DictSet: true, SetTypes: true}
	ccfCanonMode = cdcval.Mode{Static: cdcval.TInline, Borrow: cdcval.TInline, Canon: true}
)

// ccfRoundTrip judges one value in one mode.
// class "" = fine, "dontcare:…" = outside the property, anything else = violation.
func ccfRoundTrip(v cadence.Value, det bool) (class string, detail string) {
	tag := "plain"
	mode := ccfPlainMode
	if det {
		tag = "det"
		mode = ccfCanonMode
	}
	enc := ccfEnc(det, v)
	if !enc.ok() {
		if enc.err != nil && isAttachmentRefusal(enc.err) {
			// The encoder documents (AttachmentFieldNotSupportedEncodingError) that it
			// refuses composites carrying attachments; the sentence "decoding its CCF
			// encoding yields …" presupposes an encoding, so this is a don't-care cell.
			return "dontcare:encoder-refuses-attachment-field", enc.describe()
		}
		return tag + ":encode-" + enc.failClass(), enc.describe()
	}
	dec := ccfDec(det, enc.bytes)
	if !dec.ok() {
		if dec.panicV != nil {
			return tag + ":decode-own-encoding-panic", dec.describe()
		}
		return tag + ":decode-own-encoding-rejected", dec.describe() + " | ccf: " + trunc(hex.EncodeToString(enc.bytes), 300)
	}
	want, got := cdcval.Dump(v, mode), cdcval.Dump(dec.val, mode)
	if want != got {
		flat := mode
		flat.NilFlat = true
		if cdcval.Dump(v, flat) == cdcval.Dump(dec.val, flat) {
			// A nil of type T?? is decoded as some(nil) (decode.go:newNilOptionalValue builds the
			// nil at the innermost optional level on purpose), while the exporter produces a
			// plain nil. The language does not distinguish the two (optionals are flattened:
			// some(nil) cannot be constructed), and the sentence "yields an equal value" does
			// not say which Go representation of nil is meant: don't-care.
			return "dontcare:nil-of-nested-optional-type", fmt.Sprintf("want %s\ngot  %s", trunc(want, 300), trunc(got, 300))
		}
		return tag + ":value-differs", fmt.Sprintf("want %s\ngot  %s", trunc(want, 500), trunc(got, 500))
	}
	wid, ok1 := cdcval.SafeTypeID(v)
	gid, ok2 := cdcval.SafeTypeID(dec.val)
	if !ok1 || !ok2 || wid != gid {
		return tag + ":type-id-differs", fmt.Sprintf("want %q got %q", wid, gid)
	}
	eq, p := typesEqualAPI(v.Type(), dec.val.Type())
	if p {
		return tag + ":type-Equal-panics", wid
	}
	if !eq {
		return equalSignature(v.Type()), "the decoded value's type is structurally identical to the original's but not cadence.Type.Equal to it: " + wid
	}
	var a, b []cadence.Type
	embeddedTypes(v, &a)
	embeddedTypes(dec.val, &b)
	if len(a) == len(b) {
		for i := range a {
			if eq, _ := typesEqualAPI(a[i], b[i]); !eq {
				return equalSignature(a[i]), "the decoded type is structurally identical to the original but not cadence.Type.Equal to it: " + trunc(cdcval.DumpType(a[i], cdcval.TInline, false), 300)
			}
		}
	}
	if det {
		re := ccfEnc(true, dec.val)
		if !re.ok() {
			return tag + ":reencode-" + re.failClass(), re.describe()
		}
		if !bytes.Equal(re.bytes, enc.bytes) {
			return tag + ":reencode-differs", fmt.Sprintf("%x\n%x", enc.bytes, re.bytes)
		}
	}
	return "", ""
}

// siteKinds names the permutable sites of a value in traversal order
// (dictionary / intersection / entitlements) for signatures.
func permJudge(v cadence.Value, w cadence.Value, detV []byte) (class string, detail string) {
	encW := ccfEnc(true, w)
	if !encW.ok() {
		return "det:encode-permuted-" + encW.failClass(), encW.describe()
	}
	if !bytes.Equal(encW.bytes, detV) {
		return "det:encoding-depends-on-order", fmt.Sprintf("original order: %x\npermuted order: %x", detV, encW.bytes)
	}
	// the unsorted variant: the same permuted value without sorting
	plain := ccfEnc(false, w)
	if !plain.ok() {
		return "", ""
	}
	if bytes.Equal(plain.bytes, detV) {
		return "", "sorted"
	}
	d := ccfDec(true, plain.bytes)
	if d.panicV != nil {
		return "strict:decode-unsorted-panic", d.describe()
	}
	if d.err == nil {
		return "strict:accepts-unsorted", fmt.Sprintf("canonical: %x\naccepted:  %x", detV, plain.bytes)
	}
	return "", "unsorted-rejected"
}

// siteKind says what kind of site number s of v is.
func siteKind(v cadence.Value, s int) string {
	k := cdcval.SiteKinds(v)
	if s < 0 || s >= len(k) {
		return "all-sites"
	}
	return k[s]
}

var (
	c42CorpusOnce sync.Once
	c42DocsV      [][]byte
)

func c42Corpus(env *mc.Env) [][]byte {
	c42CorpusOnce.Do(func() {
		cdepth := mc.Pick(env, 1, 2)
		seen := map[string]bool{}
		for _, v := range cdcval.Values(cdepth) {
			for _, det := range []bool{false, true} {
				o := ccfEnc(det, v)
				if o.ok() && !seen[string(o.bytes)] {
					seen[string(o.bytes)] = true
					c42DocsV = append(c42DocsV, o.bytes)
				}
			}
		}
	})
	return c42DocsV
}

var c42Job = robustJob{
	codec: "ccf",
	docs:  c42Corpus,
	edits: func(env *mc.Env, i int, doc []byte, f func(kind string, input []byte)) {
		byteEdits(doc, mc.Pick(env, 4, 6), func(m []byte) { f("byte-edit", m) })
	},
	decode: func(kind string, input []byte, st *robustStats, report func(sig string, c valueCase, detail string)) {
		for _, strict := range []bool{false, true} {
			o := ccfDec(strict, input)
			st.evals++
			switch {
			case o.panicV != nil:
				name, codec := "ccf.Decode", "ccf"
				if strict {
					name, codec = "ccf.Decode[strict]", "ccf-strict"
				}
				report(name+"|"+kind+"|panic:"+panicClass(o.panicV),
					valueCase{Part: "robust", Codec: codec, Hex: hex.EncodeToString(input)}, o.describe())
			case o.err != nil:
				st.errDec++
			default:
				st.okDec++
			}
		}
	},
}

func runC42(env *mc.Env) {
	if robustDispatch(env, c42Job) {
		return
	}
	depth := mc.Pick(env, 2, 3)
	vals := cdcval.Values(depth)
	env.R.Set("values", len(vals))
	env.R.Set("depth", depth)

	// Part A: round trips in both modes; Part B: permutations
	mc.ParallelFor(env, len(vals), func(i int) {
		v := vals[i]
		env.R.Nontrivial("rt|" + cdcval.Shape(v))
		for _, det := range []bool{false, true} {
			class, detail := ccfRoundTrip(v, det)
			env.R.Eval()
			stop := false
			switch {
			case class == "":
				env.R.Class(fmt.Sprintf("roundtrip-ok[det=%v]:%s", det, cdcval.Kind(v)), nil)
			case strings.HasPrefix(class, "dontcare:"):
				env.R.DontCare.Add(1)
				env.R.Class(class, func() any { return trunc(cdcval.Dump(v, cdcval.Erased), 200) })
				stop = true
			case strings.HasPrefix(class, equalSigPrefix):
				env.R.Violation(class, mkCase(depth, i, "roundtrip", v), detail)
				stop = true
			default:
				det := det
				where := culprit(v, class, func(x cadence.Value) string { c, _ := ccfRoundTrip(x, det); return c })
				env.R.Violation("ccf|"+where+"|"+class, mkCase(depth, i, "roundtrip", v), detail)
				stop = true
			}
			if stop {
				// the deterministic mode is judged only where the default mode is fine,
				// so that one defect has one signature
				break
			}
		}
		sites := cdcval.Sites(v)
		if len(sites) == 0 {
			return
		}
		detV := ccfEnc(true, v)
		if !detV.ok() {
			return // reported above (or don't-care)
		}
		try := func(site int, perm []int, w cadence.Value) {
			class, detail := permJudge(v, w, detV.bytes)
			env.R.Eval()
			if class == "" {
				env.R.Class("perm:"+detail, nil)
				if detail == "unsorted-rejected" {
					env.R.Nontrivial(fmt.Sprintf("perm|%s|%d|%v", cdcval.Shape(v), site, perm))
				}
				return
			}
			c := mkCase(depth, i, "perm", v)
			c.Site, c.Perm = site+1, perm
			if site == -2 {
				c.Site = -1
			}
			env.R.Violation("ccf|"+siteKind(v, site)+"|"+class, c, detail)
		}
		for s, n := range sites {
			for _, p := range cdcval.Perms(n) {
				try(s, p, cdcval.Permute(v, s, p))
			}
		}
		if len(sites) > 1 {
			try(-2, nil, cdcval.Permute(v, -2, nil))
		}
		// the value as generated, encoded without sorting, is itself an unsorted
		// variant whenever it differs from the canonical bytes
		if plain := ccfEnc(false, v); plain.ok() && !bytes.Equal(plain.bytes, detV.bytes) {
			d := ccfDec(true, plain.bytes)
			env.R.Eval()
			if d.ok() {
				env.R.Violation("ccf|unsorted-as-generated|strict:accepts-unsorted", mkCase(depth, i, "plain-vs-strict", v),
					fmt.Sprintf("canonical: %x\naccepted:  %x", detV.bytes, plain.bytes))
			}
		}
		// dictionaries: swap adjacent entries of the canonical encoding
		if _, isDict := v.(cadence.Dictionary); isDict {
			for k, m := range swapDictPairs(detV.bytes) {
				d := ccfDec(true, m)
				env.R.Eval()
				switch {
				case d.panicV != nil:
					env.R.Violation("ccf.Decode[strict]|dictionary|panic:"+panicClass(d.panicV),
						valueCase{Part: "robust", Codec: "ccf-strict", Hex: hex.EncodeToString(m)}, d.describe())
				case d.err == nil:
					c := mkCase(depth, i, "dict-swap", v)
					c.Site = k + 1
					c.Hex = hex.EncodeToString(m)
					env.R.Violation("ccf|dictionary|strict:accepts-unsorted-keys", c, fmt.Sprintf("canonical: %x\naccepted:  %x", detV.bytes, m))
				default:
					env.R.Class("dict-swap:rejected", nil)
					env.R.Nontrivial(fmt.Sprintf("swap|%s|%d", cdcval.Shape(v), k))
				}
			}
		}
	})

	// Part C: robustness on edited encodings, in worker subprocesses
	cdepth := mc.Pick(env, 1, 2)
	docs := c42Corpus(env)
	pairs := mc.Pick(env, 4, 6)
	env.R.Set("robust_corpus_docs", len(docs))
	tot := runRobust(env, c42Job)
	env.R.EvalN(tot.evals)
	env.R.ClassN("edited-input:decoded", tot.okDec)
	env.R.ClassN("edited-input:error", tot.errDec)
	env.R.Set("robust_edits", tot.evals)
	env.R.BoundCompleted(fmt.Sprintf("round trips and permutations: Values(%d); edits: every single byte edit, truncation, deletion and every pair of edits in the first %d bytes of %d encodings of Values(%d), both decoders", depth, pairs, len(docs), cdepth))
}

func replayC42(env *mc.Env, raw json.RawMessage) (bool, string) {
	var c valueCase
	if err := json.Unmarshal(raw, &c); err != nil {
		return false, err.Error()
	}
	switch c.Part {
	case "robust-fatal":
		return replayFatal(env, c)
	case "robust":
		o := ccfDec(c.Codec == "ccf-strict", c.bytes())
		return o.panicV != nil, o.describe()
	case "dict-swap":
		o := ccfDec(true, c.bytes())
		return o.ok(), "strict decoder on swapped entries: " + o.describe()
	}
	base := c
	base.Site, base.Perm = 0, nil
	v, err := base.value()
	if err != nil {
		return false, err.Error()
	}
	switch c.Part {
	case "roundtrip":
		for _, det := range []bool{false, true} {
			class, detail := ccfRoundTrip(v, det)
			if class != "" && !strings.HasPrefix(class, "dontcare:") {
				return true, class + ": " + detail
			}
		}
		return false, "round trip fine"
	case "perm":
		detV := ccfEnc(true, v)
		if !detV.ok() {
			return false, "cannot encode"
		}
		var w cadence.Value
		if c.Site == -1 {
			w = cdcval.Permute(v, -2, nil)
		} else {
			w = cdcval.Permute(v, c.Site-1, c.Perm)
		}
		class, detail := permJudge(v, w, detV.bytes)
		return class != "", class + ": " + detail
	case "plain-vs-strict":
		detV := ccfEnc(true, v)
		plain := ccfEnc(false, v)
		if !detV.ok() || !plain.ok() || bytes.Equal(detV.bytes, plain.bytes) {
			return false, "no unsorted variant"
		}
		d := ccfDec(true, plain.bytes)
		return d.ok(), d.describe()
	}
	return false, "unknown part " + c.Part
}

func init() {
	mc.Register(&mc.Check{
		ID: "C42",
		Rule: "every value of cdcval.Values(d) (d=2 quick, 3 thorough) is CCF-encoded and decoded in default and in deterministic/strict mode and compared; for every permutable site (dictionary entries, intersection members, entitlement sets, anywhere in the value or its types) every permutation (n<=3: all) must give byte-identical deterministic encodings and its unsorted plain encoding must be rejected by the strict decoder; adjacent dictionary entries of canonical encodings are swapped at CBOR level; " +
			"every single-byte edit, truncation, deletion and header edit pair of every encoding of Values(d-1) is decoded by both decoders under recover(); non-trivial = distinct value shape, and distinct (shape, site, permutation) whose unsorted form was rejected",
		Assumptions: []string{
			"equality = structural equality of a canonical dump restricted to what a CCF message carries (gen/cdcval/dump.go, TInline) plus cadence.Type.Equal",
			"composites that carry attachments are refused by the encoder with a documented user error: don't-care",
			"byte-edit decoding runs in worker subprocesses so that an unrecoverable fatal error is attributed to its input and reported as a violation",
		},
		Run:    runC42,
		Replay: replayC42,
	})
}

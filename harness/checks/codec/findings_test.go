package codec

import (
	"testing"

	"github.com/onflow/cadence"
	"github.com/onflow/cadence/common"
	"github.com/onflow/cadence/encoding/ccf"
	jsoncdc "github.com/onflow/cadence/encoding/json"

	"verif/rt"
)

// Each test shows one finding of C41/C42 through the public entry points
// (a script executed by the runtime, then the exported value through the codec).
// They log, they do not fail: the checks are the judges.

const findingsContract = `
access(all) contract C {
    access(all) struct S { access(all) let x: Int; init(x: Int) { self.x = x } }
    access(all) resource R { access(all) let s: S; init(s: S) { self.s = s } }
    access(all) attachment A for S { access(all) let y: Int; init() { self.y = 7 } }
    access(all) struct interface I {}
    access(all) struct T: I {}
    access(all) fun mk(): S { return attach A() to S(x: 1) }
}`

func runScript(t *testing.T, src string) cadence.Value {
	l := rt.NewLedger()
	rt.Deploy(l, rt.Addr(1), "C", findingsContract, false)
	r := rt.Run(l, rt.Tx{Source: "import C from 0x1\n" + src, Script: true})
	if !r.OK() {
		t.Fatalf("script failed: %s", r.ErrString())
	}
	return r.Value
}

func TestFindingInitializerBeforeFields(t *testing.T) {
	v := runScript(t, `access(all) fun main(): Type { return Type<@C.R>() }`)
	b, err := jsoncdc.Encode(v)
	if err != nil {
		t.Fatal(err)
	}
	t.Logf("%s", b)
	_, err = jsoncdc.Decode(nil, b)
	t.Logf("Type<@C.R>() where R has field s: S and init(s: S): decode error = %v", err)
}

func TestFindingAttachment(t *testing.T) {
	v := runScript(t, `access(all) fun main(): C.S { return C.mk() }`)
	b, err := jsoncdc.Encode(v)
	if err != nil {
		t.Fatal(err)
	}
	t.Logf("%s", b)
	_, err = jsoncdc.Decode(nil, b)
	t.Logf("struct with attachment: json decode error = %v", err)
	_, err = ccf.Encode(v)
	t.Logf("struct with attachment: ccf encode error = %v", err)
}

func TestFindingUnboundedTypeParameter(t *testing.T) {
	ft := cadence.NewFunctionType(cadence.FunctionPurityImpure, []cadence.TypeParameter{{Name: "T"}}, nil, cadence.VoidType)
	b, err := jsoncdc.Encode(cadence.NewTypeValue(ft))
	if err != nil {
		t.Fatal(err)
	}
	_, err = jsoncdc.Decode(nil, b)
	t.Logf("%s\ndecode error = %v", b, err)
	// through a script: the type of a generic built-in function
	l := rt.NewLedger()
	r := rt.Run(l, rt.Tx{Source: `access(all) fun main(): Type { return getAccount(0x1).capabilities.borrow.getType() }`, Script: true})
	t.Logf("script: %v %s", r.Value, r.ErrString())
	if r.OK() {
		b, err := jsoncdc.Encode(r.Value)
		t.Logf("%s %v", b, err)
		if err == nil {
			_, err = jsoncdc.Decode(nil, b)
			t.Logf("decode error = %v", err)
		}
	}
}

func TestFindingRestrictionPanics(t *testing.T) {
	defer func() {
		t.Logf("json.Decode panicked: %v", recover())
	}()
	_, err := jsoncdc.Decode(nil, []byte(`{"type":"Type","value":{"staticType":{"kind":"Restriction","typeID":"","type":"","restrictions":[]}}}`))
	t.Logf("no panic, err = %v", err)
}

func TestFindingIntersectionEqual(t *testing.T) {
	loc := common.AddressLocation{Address: common.Address{1}, Name: "C"}
	a := cadence.NewIntersectionType([]cadence.Type{cadence.NewStructInterfaceType(loc, "C.I", nil, nil)})
	b := cadence.NewIntersectionType([]cadence.Type{cadence.NewStructInterfaceType(loc, "C.I", nil, nil)})
	t.Logf("members Equal: %v; intersections Equal: %v; IDs %s == %s", a.Types[0].Equal(b.Types[0]), a.Equal(b), a.ID(), b.ID())
	v := runScript(t, `access(all) fun main(): Type { return Type<{C.I}>() }`)
	enc, _ := jsoncdc.Encode(v)
	d, _ := jsoncdc.Decode(nil, enc)
	t.Logf("Type<{C.I}>() decoded from its own JSON: Equal = %v", v.(cadence.TypeValue).StaticType.Equal(d.(cadence.TypeValue).StaticType))
}

func TestFindingCCFFunctionValue(t *testing.T) {
	l := rt.NewLedger()
	r := rt.Run(l, rt.Tx{Source: `access(all) fun f(_ a: Int): Int { return a }
access(all) fun main(): AnyStruct { return f }`, Script: true})
	t.Logf("script: %v %s", r.Value, r.ErrString())
	v := cadence.Value(cadence.NewFunction(cadence.NewFunctionType(cadence.FunctionPurityImpure, nil, []cadence.Parameter{{Identifier: "a", Type: cadence.IntType}}, cadence.IntType)))
	if r.OK() {
		v = r.Value
	}
	b, err := ccf.Encode(v)
	if err != nil {
		t.Fatal(err)
	}
	_, err = ccf.Decode(nil, b)
	t.Logf("ccf %x decode error = %v", b, err)
}

// Package codec holds the checks of the encoding family:
// C41 (JSON-Cadence), C42 (CCF), C43 (the two agree), C44 (stored-value
// encodings), C45 (type identity across representations).
package codec

import (
	"encoding/hex"
	"errors"
	"fmt"
	"reflect"
	goRuntime "runtime"
	"strings"

	"github.com/onflow/cadence"
	"github.com/onflow/cadence/encoding/ccf"
	jsoncdc "github.com/onflow/cadence/encoding/json"

	"verif/gen/cdcval"
	"verif/mc"
)

// outcome of one guarded codec call
type outcome struct {
	val    cadence.Value
	bytes  []byte
	err    error
	panicV any
	stack  string
}

func (o outcome) ok() bool { return o.err == nil && o.panicV == nil }

// failClass is "", "error" or "panic".
func (o outcome) failClass() string {
	switch {
	case o.panicV != nil:
		return "panic"
	case o.err != nil:
		return "error"
	}
	return ""
}

func (o outcome) describe() string {
	switch {
	case o.panicV != nil:
		return fmt.Sprintf("PANIC %s: %v", panicClass(o.panicV), trunc(fmt.Sprint(o.panicV), 300))
	case o.err != nil:
		return "error: " + trunc(o.err.Error(), 300)
	}
	return "ok"
}

func trunc(s string, n int) string {
	if len(s) > n {
		return s[:n] + "…"
	}
	return s
}

// panicClass is a structural class of a recovered panic value: the Go type,
// and for Go run-time errors the kind of error without the concrete numbers.
func panicClass(p any) string {
	if p == nil {
		return ""
	}
	if re, ok := p.(goRuntime.Error); ok {
		msg := re.Error()
		switch {
		case strings.Contains(msg, "nil pointer"):
			return "go-runtime:nil-pointer"
		case strings.Contains(msg, "index out of range"):
			return "go-runtime:index-out-of-range"
		case strings.Contains(msg, "slice bounds"):
			return "go-runtime:slice-bounds"
		case strings.Contains(msg, "makeslice"), strings.Contains(msg, "len out of range"), strings.Contains(msg, "cap out of range"):
			return "go-runtime:makeslice"
		case strings.Contains(msg, "interface conversion"):
			return "go-runtime:interface-conversion"
		case strings.Contains(msg, "divide"):
			return "go-runtime:divide"
		}
		return "go-runtime:other"
	}
	t := reflect.TypeOf(p)
	if str, ok := p.(string); ok {
		// a non-error panic value: name the site by the message with the variable parts removed
		return "string:" + messageClass(str)
	}
	if _, ok := p.(error); !ok {
		return t.String() + ":" + messageClass(fmt.Sprint(p))
	}
	return t.String()
}

// messageClass keeps the first words of a message and drops digits, quotes and
// everything after the first colon, so that it names the panic site, not the input.
func messageClass(s string) string {
	if i := strings.IndexAny(s, ":\n"); i >= 0 {
		s = s[:i]
	}
	var b strings.Builder
	for _, r := range s {
		switch {
		case r >= '0' && r <= '9':
		case r == ' ':
			b.WriteByte('-')
		case r == '`' || r == '"' || r == '\'':
		default:
			b.WriteRune(r)
		}
		if b.Len() >= 48 {
			break
		}
	}
	return b.String()
}

func guard(f func() ([]byte, cadence.Value, error)) (o outcome) {
	panicked, pv, stack := mc.Guard(func() {
		o.bytes, o.val, o.err = f()
	})
	if panicked {
		o.panicV = pv
		o.stack = stack
	}
	return
}

func jsonEnc(v cadence.Value) outcome {
	return guard(func() ([]byte, cadence.Value, error) {
		b, err := jsoncdc.Encode(v)
		return b, nil, err
	})
}

func jsonDec(b []byte) outcome {
	return guard(func() ([]byte, cadence.Value, error) {
		v, err := jsoncdc.Decode(nil, b)
		return nil, v, err
	})
}

var (
	ccfDetEnc = func() ccf.EncMode {
		m, err := ccf.EncOptions{
			SortCompositeFields:   ccf.SortBytewiseLexical,
			SortIntersectionTypes: ccf.SortBytewiseLexical,
			SortEntitlementTypes:  ccf.SortBytewiseLexical,
		}.EncMode()
		if err != nil {
			panic(err)
		}
		return m
	}()
	ccfStrictDec = func() ccf.DecMode {
		m, err := ccf.DecOptions{
			EnforceSortCompositeFields:   ccf.EnforceSortBytewiseLexical,
			EnforceSortIntersectionTypes: ccf.EnforceSortBytewiseLexical,
			EnforceSortEntitlementTypes:  ccf.EnforceSortBytewiseLexical,
		}.DecMode()
		if err != nil {
			panic(err)
		}
		return m
	}()
)

// ccfEnc encodes in the default mode (no sorting of fields / set members) or
// in deterministic mode.
func ccfEnc(det bool, v cadence.Value) outcome {
	return guard(func() ([]byte, cadence.Value, error) {
		var b []byte
		var err error
		if det {
			b, err = ccfDetEnc.Encode(v)
		} else {
			b, err = ccf.Encode(v)
		}
		return b, nil, err
	})
}

func ccfDec(strict bool, b []byte) outcome {
	return guard(func() ([]byte, cadence.Value, error) {
		var v cadence.Value
		var err error
		if strict {
			v, err = ccfStrictDec.Decode(nil, b)
		} else {
			v, err = ccf.Decode(nil, b)
		}
		return nil, v, err
	})
}

// isAttachmentRefusal: the CCF encoder documents that composite values that
// carry attachments are refused with a dedicated user error.
func isAttachmentRefusal(err error) bool {
	var e ccf.AttachmentFieldNotSupportedEncodingError
	return errors.As(err, &e)
}

// ---------------------------------------------------------------------------
// Replayable cases

// valueCase identifies a generated value (and optionally a permutation of
// it) by its position in the deterministic enumeration; Print is the exact
// dump for the reader and for a consistency check at replay.
type valueCase struct {
	Depth int    `json:"depth"`
	Index int    `json:"index"`
	Site  int    `json:"site,omitempty"` // permuted site + 1 (0 = none, -1 = all reversed)
	Perm  []int  `json:"perm,omitempty"`
	Part  string `json:"part"`
	Print string `json:"value"`
	// Hex is set for byte-level cases: the exact input of the decoder.
	Hex   string `json:"hex,omitempty"`
	Codec string `json:"codec,omitempty"`
}

func (c valueCase) value() (cadence.Value, error) {
	vs := cdcval.Values(c.Depth)
	if c.Index < 0 || c.Index >= len(vs) {
		return nil, fmt.Errorf("index %d out of range for Values(%d)", c.Index, c.Depth)
	}
	v := vs[c.Index]
	switch {
	case c.Site > 0:
		v = cdcval.Permute(v, c.Site-1, c.Perm)
	case c.Site == -1:
		v = cdcval.Permute(v, -2, nil)
	}
	if c.Print != "" && trunc(cdcval.Dump(v, cdcval.Exact), 1500) != c.Print {
		return nil, fmt.Errorf("generator changed: value %d of depth %d no longer matches the recorded dump", c.Index, c.Depth)
	}
	return v, nil
}

func mkCase(depth, index int, part string, v cadence.Value) valueCase {
	return valueCase{Depth: depth, Index: index, Part: part, Print: trunc(cdcval.Dump(v, cdcval.Exact), 1500)}
}

func (c valueCase) bytes() []byte {
	b, _ := hex.DecodeString(c.Hex)
	return b
}

// ---------------------------------------------------------------------------
// Culprit localisation for signatures

// subValues are the values one level below v for the purpose of finding the
// innermost failing part: real children, and for type-carrying values a type
// value of each component type.
func subValues(v cadence.Value) []cadence.Value {
	out := append([]cadence.Value(nil), cdcval.Children(v)...)
	addT := func(t cadence.Type) {
		for _, c := range typeParts(t) {
			out = append(out, cadence.NewTypeValue(c))
		}
	}
	switch v := v.(type) {
	case cadence.TypeValue:
		addT(v.StaticType)
	case cadence.Capability:
		if v.BorrowType != nil {
			out = append(out, cadence.NewTypeValue(v.BorrowType))
		}
	case cadence.Function:
		if v.FunctionType != nil {
			out = append(out, cadence.NewTypeValue(v.FunctionType))
		}
	}
	return out
}

func typeParts(t cadence.Type) []cadence.Type {
	out := cdcval.TypeChildren(t)
	switch t := t.(type) {
	case cadence.CompositeType:
		for _, f := range cdcval.Fields(t) {
			if f.Type != nil {
				out = append(out, f.Type)
			}
		}
	case cadence.InterfaceType:
		for _, f := range cdcval.InterfaceFields(t) {
			if f.Type != nil {
				out = append(out, f.Type)
			}
		}
	}
	return out
}

// culprit descends into v while some part still fails with the same class and
// returns the structural kind of the innermost failing part.
func culprit(v cadence.Value, class string, test func(cadence.Value) string) string {
	for depth := 0; depth < 12; depth++ {
		next := cadence.Value(nil)
		for _, c := range subValues(v) {
			if c == nil {
				continue
			}
			if test(c) == class {
				next = c
				break
			}
		}
		if next == nil {
			break
		}
		v = next
	}
	return kindOf(v)
}

func kindOf(v cadence.Value) string {
	switch v := v.(type) {
	case cadence.TypeValue:
		return "Type<" + cdcval.TypeKind(v.StaticType) + ">"
	case cadence.Capability:
		return "Capability<" + cdcval.TypeKind(v.BorrowType) + ">"
	}
	return cdcval.Kind(v)
}

// embeddedTypes lists, in traversal order, the types a value carries as data
// (type values, capability borrow types, function types).
func embeddedTypes(v cadence.Value, out *[]cadence.Type) {
	switch v := v.(type) {
	case nil:
		return
	case cadence.TypeValue:
		*out = append(*out, v.StaticType)
	case cadence.Capability:
		*out = append(*out, v.BorrowType)
	case cadence.Function:
		if v.FunctionType != nil {
			*out = append(*out, v.FunctionType)
		} else {
			*out = append(*out, nil)
		}
	default:
		for _, c := range cdcval.Children(v) {
			embeddedTypes(c, out)
		}
	}
}

// typesEqualAPI applies cadence's own Type.Equal in both directions, guarded.
func typesEqualAPI(a, b cadence.Type) (eq bool, panicked bool) {
	if a == nil || b == nil {
		return a == nil && b == nil, false
	}
	p, _, _ := mc.Guard(func() { eq = a.Equal(b) && b.Equal(a) })
	return eq, p
}

// equalCulprit returns the kind of the innermost component of t that is not
// cadence.Type.Equal to a structural copy of itself ("" if t is).
func equalCulprit(t cadence.Type) string {
	bad := func(x cadence.Type) bool {
		if x == nil {
			return false
		}
		eq, p := typesEqualAPI(x, cdcval.CloneType(x))
		return p || !eq
	}
	if !bad(t) {
		return ""
	}
	for depth := 0; depth < 12; depth++ {
		var next cadence.Type
		for _, c := range typeParts(t) {
			if bad(c) {
				next = c
				break
			}
		}
		if next == nil {
			break
		}
		t = next
	}
	return cdcval.TypeKind(t)
}

const equalSigPrefix = "cadence.Type.Equal|"

func equalSignature(t cadence.Type) string {
	k := equalCulprit(t)
	if k == "" {
		k = "decoded-" + cdcval.TypeKind(t)
	}
	return equalSigPrefix + k + "|structural-copy-not-Equal"
}

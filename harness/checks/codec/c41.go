package codec

import (
	"bytes"
	"encoding/hex"
	"encoding/json"
	"fmt"
	"strings"
	"sync"

	"github.com/onflow/cadence"

	"verif/gen/cdcval"
	"verif/mc"
)

// C41 — JSON-Cadence round-trips and the decoder is robust.
//
//	"For every exportable value (all value kinds …), decoding its JSON-Cadence
//	 encoding yields a value that re-encodes to the same JSON and equals the
//	 original once the static type information JSON-Cadence does not carry is
//	 erased (declared field types of composites, element types of containers);
//	 every type embedded in a value decodes to an equal type. Decoding arbitrary
//	 bytes never crashes: it returns a value or an error."

// jsonRoundTrip judges one value. It returns "" or a failure class, and a detail.
func jsonRoundTrip(v cadence.Value) (class string, detail string) {
	enc := jsonEnc(v)
	if !enc.ok() {
		return "encode-" + enc.failClass(), enc.describe()
	}
	dec := jsonDec(enc.bytes)
	if !dec.ok() {
		if dec.panicV != nil {
			return "decode-own-encoding-panic", dec.describe()
		}
		return "decode-own-encoding-rejected", dec.describe() + " | json: " + trunc(string(enc.bytes), 400)
	}
	re := jsonEnc(dec.val)
	if !re.ok() {
		return "reencode-" + re.failClass(), re.describe()
	}
	if !bytes.Equal(re.bytes, enc.bytes) {
		return "reencode-differs", fmt.Sprintf("first:  %s\nsecond: %s", trunc(string(enc.bytes), 400), trunc(string(re.bytes), 400))
	}
	want, got := cdcval.Dump(v, cdcval.Erased), cdcval.Dump(dec.val, cdcval.Erased)
	if want != got {
		return "erased-value-differs", fmt.Sprintf("want %s\ngot  %s", trunc(want, 400), trunc(got, 400))
	}
	// every embedded type decodes to an equal type – by the library's own notion of type equality
	var a, b []cadence.Type
	embeddedTypes(v, &a)
	embeddedTypes(dec.val, &b)
	if len(a) != len(b) {
		return "embedded-type-count-differs", fmt.Sprintf("%d vs %d", len(a), len(b))
	}
	for i := range a {
		eq, p := typesEqualAPI(a[i], b[i])
		if p {
			return "embedded-type-Equal-panics", cdcval.DumpType(a[i], cdcval.TFull, false)
		}
		if !eq {
			return equalSignature(a[i]), fmt.Sprintf("the decoded type is structurally identical to the original but not cadence.Type.Equal to it: %s", trunc(cdcval.DumpType(a[i], cdcval.TFull, false), 300))
		}
	}
	return "", ""
}

type robustStats struct {
	evals    int64
	okDec    int64
	errDec   int64
	docs     int64
	rtErrors int64 // errors that wrap a recovered Go run-time error
}

var (
	c41CorpusOnce sync.Once
	c41DocsV      [][]byte
	c41ByteLevel  []bool
)

// c41Corpus: the distinct encodings of Values(cdepth); byte-level edits are
// applied only to those that are also encodings of Values(cdepth-1).
func c41Corpus(env *mc.Env) ([][]byte, []bool) {
	c41CorpusOnce.Do(func() {
		cdepth := mc.Pick(env, 1, 2)
		inSmall := map[string]bool{}
		for _, v := range cdcval.Values(cdepth - 1) {
			if o := jsonEnc(v); o.ok() {
				inSmall[string(o.bytes)] = true
			}
		}
		seen := map[string]bool{}
		for _, v := range cdcval.Values(cdepth) {
			o := jsonEnc(v)
			if o.ok() && !seen[string(o.bytes)] {
				seen[string(o.bytes)] = true
				c41ByteLevel = append(c41ByteLevel, inSmall[string(o.bytes)])
				c41DocsV = append(c41DocsV, bytes.TrimSpace(o.bytes))
			}
		}
	})
	return c41DocsV, c41ByteLevel
}

var c41Job = robustJob{
	codec: "json",
	docs: func(env *mc.Env) [][]byte {
		d, _ := c41Corpus(env)
		return d
	},
	edits: func(env *mc.Env, i int, doc []byte, f func(kind string, input []byte)) {
		_, byteLevel := c41Corpus(env)
		if byteLevel[i] {
			byteEdits(doc, 0, func(m []byte) { f("byte-edit", m) })
		}
		jsonStructuralEdits(doc, func(m []byte) { f("structural-edit", m) })
	},
	decode: func(kind string, input []byte, st *robustStats, report func(sig string, c valueCase, detail string)) {
		o := jsonDec(input)
		st.evals++
		switch {
		case o.panicV != nil:
			report("json.Decode|"+kind+"|panic:"+panicClass(o.panicV),
				valueCase{Part: "robust", Codec: "json", Hex: hex.EncodeToString(input), Print: trunc(string(input), 600)},
				o.describe())
		case o.err != nil:
			st.errDec++
		default:
			st.okDec++
		}
	},
}

func runC41(env *mc.Env) {
	if robustDispatch(env, c41Job) {
		return
	}
	depth := mc.Pick(env, 2, 3)
	vals := cdcval.Values(depth)
	env.R.Set("values", len(vals))
	env.R.Set("depth", depth)

	// Part A: round trips
	mc.ParallelFor(env, len(vals), func(i int) {
		v := vals[i]
		class, detail := jsonRoundTrip(v)
		env.R.Eval()
		env.R.Nontrivial(cdcval.Shape(v))
		if class == "" {
			env.R.Class("roundtrip-ok:"+cdcval.Kind(v), func() any { return trunc(cdcval.Dump(v, cdcval.Erased), 200) })
			return
		}
		if strings.HasPrefix(class, equalSigPrefix) {
			env.R.Violation(class, mkCase(depth, i, "roundtrip", v), detail)
			return
		}
		where := culprit(v, class, func(x cadence.Value) string { c, _ := jsonRoundTrip(x); return c })
		env.R.Violation("json|"+where+"|"+class, mkCase(depth, i, "roundtrip", v), detail)
	})

	// Part B: robustness of the decoder on edited encodings, in worker subprocesses
	cdepth := mc.Pick(env, 1, 2)
	docs, byteLevel := c41Corpus(env)
	nByte := 0
	for _, b := range byteLevel {
		if b {
			nByte++
		}
	}
	env.R.Set("robust_corpus_docs", len(docs))
	env.R.Set("robust_corpus_docs_byte_level", nByte)
	tot := runRobust(env, c41Job)
	env.R.EvalN(tot.evals)
	env.R.ClassN("edited-input:decoded", tot.okDec)
	env.R.ClassN("edited-input:error", tot.errDec)
	env.R.Set("robust_edits", tot.evals)
	env.R.BoundCompleted(fmt.Sprintf("round trips: Values(%d); edits: every single structural edit of %d encodings of Values(%d), every single byte edit of the %d encodings of Values(%d); decoding isolated in worker processes", depth, len(docs), cdepth, nByte, cdepth-1))
}

func replayC41(env *mc.Env, raw json.RawMessage) (bool, string) {
	var c valueCase
	if err := json.Unmarshal(raw, &c); err != nil {
		return false, err.Error()
	}
	if c.Part == "robust-fatal" {
		return replayFatal(env, c)
	}
	if c.Part == "robust" {
		o := jsonDec(c.bytes())
		return o.panicV != nil, o.describe()
	}
	v, err := c.value()
	if err != nil {
		return false, err.Error()
	}
	class, detail := jsonRoundTrip(v)
	return class != "", class + ": " + detail
}

func init() {
	mc.Register(&mc.Check{
		ID: "C41",
		Rule: "every value of cdcval.Values(d) (d=2 quick, 3 thorough: every cadence.Value kind, every cadence.Type kind inside type values/capabilities/functions, nested) is encoded, decoded, re-encoded and compared after erasing what JSON-Cadence does not carry; " +
			"every single-byte edit (10-byte alphabet, ±1), truncation, deletion and every single structural edit (replace/delete/duplicate/wrap a node, every type/kind/ID string alphabet) of every encoding of Values(d-1) is decoded under recover(); non-trivial = distinct value shape",
		Assumptions: []string{
			"encoding/json of the Go standard library is trusted for re-serialising edited documents",
			"equality after erasure is structural equality of a canonical dump (gen/cdcval/dump.go); embedded types are additionally compared with cadence.Type.Equal",
			"a Go panic that the decoder itself converts into a returned error counts as 'returns an error'",
		},
		Run:    runC41,
		Replay: replayC41,
	})
}

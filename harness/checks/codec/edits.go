package codec

import (
	"bytes"
	"encoding/json"
	"sort"
)

// ---------------------------------------------------------------------------
// Byte-level edits

var editAlphabet = []byte{0x00, 0x01, 0x17, 0x18, 0x7f, 0x80, 0x9f, 0xbf, 0xf6, 0xff}

// byteEdits calls f with every single-byte substitution over the edit
// alphabet and b±1 at every position, every proper truncation, every
// single-byte deletion, and (pairs > 0) every pair of substitutions within
// the first `pairs` bytes. The slice passed to f is reused.
func byteEdits(b []byte, pairs int, f func(m []byte)) {
	buf := make([]byte, len(b)+1)
	subs := func(orig byte) []byte {
		out := make([]byte, 0, len(editAlphabet)+2)
		seen := map[byte]bool{orig: true}
		for _, c := range append(append([]byte{}, editAlphabet...), orig+1, orig-1) {
			if !seen[c] {
				seen[c] = true
				out = append(out, c)
			}
		}
		return out
	}
	for i := range b {
		for _, c := range subs(b[i]) {
			m := buf[:len(b)]
			copy(m, b)
			m[i] = c
			f(m)
		}
	}
	for n := 0; n < len(b); n++ {
		m := buf[:n]
		copy(m, b[:n])
		f(m)
	}
	for i := range b {
		m := buf[:len(b)-1]
		copy(m, b[:i])
		copy(m[i:], b[i+1:])
		f(m)
	}
	if pairs > len(b) {
		pairs = len(b)
	}
	for i := 0; i < pairs; i++ {
		for j := i + 1; j < pairs; j++ {
			for _, ci := range subs(b[i]) {
				for _, cj := range subs(b[j]) {
					m := buf[:len(b)]
					copy(m, b)
					m[i], m[j] = ci, cj
					f(m)
				}
			}
		}
	}
}

// ---------------------------------------------------------------------------
// Minimal CBOR item walker (definite lengths only, as CCF requires)

// cborHead decodes the head at off: major type, argument, and the offset
// after the head.
func cborHead(b []byte, off int) (major byte, arg uint64, next int, ok bool) {
	if off >= len(b) {
		return 0, 0, 0, false
	}
	ib := b[off]
	major = ib >> 5
	ai := ib & 0x1f
	off++
	switch {
	case ai < 24:
		return major, uint64(ai), off, true
	case ai == 24:
		if off+1 > len(b) {
			return 0, 0, 0, false
		}
		return major, uint64(b[off]), off + 1, true
	case ai == 25:
		if off+2 > len(b) {
			return 0, 0, 0, false
		}
		return major, uint64(b[off])<<8 | uint64(b[off+1]), off + 2, true
	case ai == 26:
		if off+4 > len(b) {
			return 0, 0, 0, false
		}
		var v uint64
		for i := 0; i < 4; i++ {
			v = v<<8 | uint64(b[off+i])
		}
		return major, v, off + 4, true
	case ai == 27:
		if off+8 > len(b) {
			return 0, 0, 0, false
		}
		var v uint64
		for i := 0; i < 8; i++ {
			v = v<<8 | uint64(b[off+i])
		}
		return major, v, off + 8, true
	}
	return 0, 0, 0, false
}

// cborSkip returns the offset after the item starting at off.
func cborSkip(b []byte, off int) (int, bool) {
	major, arg, next, ok := cborHead(b, off)
	if !ok {
		return 0, false
	}
	switch major {
	case 0, 1, 7:
		return next, true
	case 2, 3:
		if arg > uint64(len(b)-next) {
			return 0, false
		}
		return next + int(arg), true
	case 4, 5:
		n := arg
		if major == 5 {
			n *= 2
		}
		if n > uint64(len(b)) {
			return 0, false
		}
		for i := uint64(0); i < n; i++ {
			next, ok = cborSkip(b, next)
			if !ok {
				return 0, false
			}
		}
		return next, true
	case 6:
		return cborSkip(b, next)
	}
	return 0, false
}

// ccfTopLevelValueOffset returns the offset of the `value` item of a CCF
// message (ccf-type-and-value-message or ccf-typedef-and-value-message).
func ccfTopLevelValueOffset(b []byte) (int, bool) {
	major, tag, off, ok := cborHead(b, 0)
	if !ok || major != 6 {
		return 0, false
	}
	switch tag {
	case 129: // typedef-and-value: [typedefs, [type, value]]
		m, n, next, ok := cborHead(b, off)
		if !ok || m != 4 || n != 2 {
			return 0, false
		}
		next, ok = cborSkip(b, next)
		if !ok {
			return 0, false
		}
		off = next
	case 130:
	default:
		return 0, false
	}
	m, n, next, ok := cborHead(b, off)
	if !ok || m != 4 || n != 2 {
		return 0, false
	}
	next, ok = cborSkip(b, next) // the inline type
	if !ok {
		return 0, false
	}
	return next, true
}

// swapDictPairs returns, for a CCF message whose top-level value is a
// dictionary with n >= 2 entries, every variant with two adjacent entries
// swapped.
func swapDictPairs(b []byte) [][]byte {
	off, ok := ccfTopLevelValueOffset(b)
	if !ok {
		return nil
	}
	major, n, next, ok := cborHead(b, off)
	if !ok || major != 4 || n < 4 || n%2 != 0 {
		return nil
	}
	type span struct{ lo, hi int }
	var pairs []span
	for i := uint64(0); i < n/2; i++ {
		lo := next
		var ok bool
		next, ok = cborSkip(b, next) // key
		if !ok {
			return nil
		}
		next, ok = cborSkip(b, next) // value
		if !ok {
			return nil
		}
		pairs = append(pairs, span{lo, next})
	}
	if next != len(b) {
		return nil
	}
	var out [][]byte
	for i := 0; i+1 < len(pairs); i++ {
		var m []byte
		m = append(m, b[:pairs[i].lo]...)
		m = append(m, b[pairs[i+1].lo:pairs[i+1].hi]...)
		m = append(m, b[pairs[i].lo:pairs[i].hi]...)
		m = append(m, b[pairs[i+1].hi:]...)
		if !bytes.Equal(m, b) {
			out = append(out, m)
		}
	}
	return out
}

// ---------------------------------------------------------------------------
// JSON structural edits

var jsonValueTypes = []string{
	"Void", "Optional", "Bool", "Character", "String", "Address", "Int", "Int8", "Int16", "Int32", "Int64", "Int128", "Int256",
	"UInt", "UInt8", "UInt16", "UInt32", "UInt64", "UInt128", "UInt256", "Word8", "Word16", "Word32", "Word64", "Word128", "Word256",
	"Fix64", "Fix128", "UFix64", "UFix128", "Array", "Dictionary", "Struct", "Resource", "Attachment", "Event", "Contract", "Path", "Type",
	"Capability", "Enum", "Function", "InclusiveRange", "Link", "", "x",
}

var jsonKinds = []string{
	"Optional", "VariableSizedArray", "ConstantSizedArray", "Dictionary", "InclusiveRange", "Reference", "Intersection", "Restriction",
	"Capability", "Function", "Struct", "Resource", "Event", "Contract", "StructInterface", "ResourceInterface", "ContractInterface", "Enum",
	"Attachment", "Int", "Bytes", "Never", "Any", "AnyStruct", "Unauthorized", "EntitlementMapAuthorization", "EntitlementConjunctionSet",
	"EntitlementDisjunctionSet", "Entitlement", "EntitlementMap", "", "x",
}

var jsonStringAlphabets = map[string][]string{
	"type":       jsonValueTypes,
	"kind":       jsonKinds,
	"value":      {"", "0", "-0", "1", "-1", "+1", " 1", "1.0", "1e3", "0x10", "256", "-129", "99999999999999999999999999999999999999999999999999999999999999999999999999999999", "0.000000001", "-92233720368.54775809", "١", "a", "0x", "0x01", "0xzz", "0x000000000000000001"},
	"id":         {"", "A", "A.1", "A.0000000000000001", "A.0000000000000001.C", "A.zz.C.S", "A.00000000000000000001.C.S", "S.", "S.test.Emp", "I.x", "I.x.Y", "t.00", "t.00.X", "s.zz.A", "PublicKey", "flow.X", "0", "x"},
	"typeID":     {"", "A", "A.1", "A.0000000000000001", "A.zz.C.S", "S.", "I.x.Y", "t.00.X", "s.zz.A", "PublicKey", "flow.X", "A.0000000000000001.C.Node"},
	"address":    {"", "0x", "0x1", "0x01", "0xzz", "1", "0X01", "0x000000000000000001"},
	"domain":     {"storage", "public", "private", "", "x"},
	"purity":     {"view", "impure", ""},
	"identifier": {"", "x"},
	"name":       {"", "x"},
	"label":      {"", "x"},
}

func jsonReplacements() []any {
	return []any{
		nil, true, json.Number("0"), json.Number("-1"), json.Number("1.5"), json.Number("1e19"), "", "x",
		[]any{}, map[string]any{}, []any{nil}, map[string]any{"type": "Void"},
		map[string]any{"type": "Optional", "value": nil}, map[string]any{"kind": "Int"},
	}
}

type jstep struct {
	key string
	idx int
	arr bool
}

func jsonClone(n any) any {
	switch n := n.(type) {
	case map[string]any:
		m := make(map[string]any, len(n))
		for k, v := range n {
			m[k] = jsonClone(v)
		}
		return m
	case []any:
		a := make([]any, len(n))
		for i, v := range n {
			a[i] = jsonClone(v)
		}
		return a
	}
	return n
}

// jsonPaths lists the path of every node below the root in a fixed order.
func jsonPaths(n any, cur []jstep, out *[][]jstep) {
	switch n := n.(type) {
	case map[string]any:
		keys := make([]string, 0, len(n))
		for k := range n {
			keys = append(keys, k)
		}
		sort.Strings(keys)
		for _, k := range keys {
			p := append(append([]jstep{}, cur...), jstep{key: k})
			*out = append(*out, p)
			jsonPaths(n[k], p, out)
		}
	case []any:
		for i := range n {
			p := append(append([]jstep{}, cur...), jstep{idx: i, arr: true})
			*out = append(*out, p)
			jsonPaths(n[i], p, out)
		}
	}
}

func jsonGet(root any, p []jstep) any {
	n := root
	for _, s := range p {
		if s.arr {
			n = n.([]any)[s.idx]
		} else {
			n = n.(map[string]any)[s.key]
		}
	}
	return n
}

// jsonWith returns a deep copy of root in which the node at p was transformed
// by f, which receives the (copied) parent and the last step.
func jsonWith(root any, p []jstep, f func(parent any, last jstep) any) any {
	c := jsonClone(root)
	if len(p) == 1 {
		return f(c, p[0])
	}
	parent := jsonGet(c, p[:len(p)-1])
	last := p[len(p)-1]
	np := f(parent, last)
	// re-attach the (possibly re-allocated) parent
	gp := jsonGet(c, p[:len(p)-2])
	ps := p[len(p)-2]
	if ps.arr {
		gp.([]any)[ps.idx] = np
	} else {
		gp.(map[string]any)[ps.key] = np
	}
	return c
}

// jsonStructuralEdits calls f with the serialisation of every single
// structural edit of the document: replace a node by each replacement, by
// each string of the key's alphabet, delete it, duplicate it (arrays), wrap
// it, and add an unknown key to every object.
func jsonStructuralEdits(doc []byte, f func(m []byte)) {
	dec := json.NewDecoder(bytes.NewReader(doc))
	dec.UseNumber()
	var root any
	if err := dec.Decode(&root); err != nil {
		return
	}
	emit := func(n any) {
		b, err := json.Marshal(n)
		if err == nil {
			f(b)
		}
	}
	var paths [][]jstep
	jsonPaths(root, nil, &paths)
	set := func(parent any, last jstep, v any) any {
		if last.arr {
			parent.([]any)[last.idx] = v
		} else {
			parent.(map[string]any)[last.key] = v
		}
		return parent
	}
	repl := jsonReplacements()
	// top level
	for _, r := range repl {
		emit(r)
	}
	if obj, ok := root.(map[string]any); ok {
		c := jsonClone(obj).(map[string]any)
		c["extra"] = json.Number("1")
		emit(c)
	}
	for _, p := range paths {
		p := p
		node := jsonGet(root, p)
		last := p[len(p)-1]
		apply := func(fn func(parent any, last jstep) any) {
			if len(p) == 1 {
				emit(fn(jsonClone(root), last))
			} else {
				emit(jsonWith(root, p, fn))
			}
		}
		for _, r := range repl {
			r := r
			apply(func(parent any, last jstep) any { return set(parent, last, jsonClone(r)) })
		}
		// delete
		apply(func(parent any, last jstep) any {
			if last.arr {
				a := parent.([]any)
				return append(append([]any{}, a[:last.idx]...), a[last.idx+1:]...)
			}
			delete(parent.(map[string]any), last.key)
			return parent
		})
		if last.arr {
			// duplicate
			apply(func(parent any, last jstep) any {
				a := parent.([]any)
				out := append([]any{}, a[:last.idx+1]...)
				out = append(out, jsonClone(a[last.idx]))
				return append(out, a[last.idx+1:]...)
			})
		}
		// wrap
		apply(func(parent any, last jstep) any {
			return set(parent, last, map[string]any{"type": "Optional", "value": jsonClone(node)})
		})
		apply(func(parent any, last jstep) any { return set(parent, last, []any{jsonClone(node)}) })
		switch n := node.(type) {
		case map[string]any:
			apply(func(parent any, last jstep) any {
				c := jsonClone(n).(map[string]any)
				c["extra"] = json.Number("1")
				return set(parent, last, c)
			})
		case string:
			if !last.arr {
				for _, s := range jsonStringAlphabets[last.key] {
					if s == n {
						continue
					}
					s := s
					apply(func(parent any, last jstep) any { return set(parent, last, s) })
				}
			}
		case json.Number:
			for _, s := range []string{"0", "-1", "1.5", "1e19", "18446744073709551616", "4294967296"} {
				s := s
				apply(func(parent any, last jstep) any { return set(parent, last, json.Number(s)) })
			}
		}
	}
}

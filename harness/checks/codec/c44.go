package codec

import (
	"bufio"
	"bytes"
	"compress/gzip"
	"encoding/base64"
	"encoding/json"
	"fmt"
	"math"
	"math/big"
	"os"
	"path/filepath"
	"sort"
	"strings"
	"sync/atomic"

	"github.com/onflow/atree"

	"github.com/onflow/cadence"
	"github.com/onflow/cadence/common"
	"github.com/onflow/cadence/interpreter"
	"github.com/onflow/cadence/runtime"

	"verif/gen/cdcval"
	"verif/mc"
	"verif/num"
)

// C44 — stored-value encodings round-trip and stay stable across versions.
//
//	"Every storable value and static type decodes from its storage encoding to an
//	 equal value, and re-encoding yields identical bytes. Bytes written by the
//	 pinned version of this codebase keep decoding to the same values, so tags,
//	 field orders and type encodings never silently change meaning."
//
// Three kinds of cases:
//
//	static   a static type through StaticTypeToBytes / StaticTypeFromBytes
//	storable a non-container value through Storable().Encode / DecodeStorable
//	slabs    a container (array, dictionary, composite; nested) built in a fresh
//	         in-memory storage; every slab through atree.EncodeSlab / DecodeSlab
//	         with cadence's storable and type-info decoders, then the value is
//	         loaded from the decoded slabs
//
// Golden corpus: /verif/corpus/c44/golden.jsonl.gz was written once by
// `--sub gen-golden` from the pinned tree by the same enumerator. Every run
// decodes every golden entry with the current code and compares the decoded
// value (a structural rendering that uses exported fields and type IDs only)
// with the recorded one.

var c44SkippedTypes atomic.Int64

var c44Owner = common.Address{0, 0, 0, 0, 0, 0, 0, 0x42}

type c44Case struct {
	Name   string
	Kind   string // static | storable | slabs
	Class  string // structural class for signatures
	static interpreter.StaticType
	leaf   func() interpreter.Value
	build  func(inter *interpreter.Interpreter) interpreter.Value
}

func newC44Inter(storage interpreter.Storage) *interpreter.Interpreter {
	// the checked prelude contract supplies the declarations of the nominal types
	program, err := cdcval.PreludeProgram()
	if err != nil {
		panic(err)
	}
	inter, err := interpreter.NewInterpreter(program, cdcval.LocC, &interpreter.Config{Storage: storage})
	if err != nil {
		panic(err)
	}
	return inter
}

// ---------------------------------------------------------------------------
// structural rendering of interpreter values (exported fields + type IDs only)

func stID(t interpreter.StaticType) string {
	if t == nil {
		return "niltype"
	}
	return string(t.ID())
}

func dumpIV(inter *interpreter.Interpreter, v interpreter.Value) string {
	switch v := v.(type) {
	case nil:
		return "nilvalue"
	case interpreter.NilValue:
		return "Nil"
	case interpreter.VoidValue:
		return "Void"
	case interpreter.BoolValue:
		return fmt.Sprintf("Bool(%v)", bool(v))
	case *interpreter.StringValue:
		return fmt.Sprintf("String(%q)", v.Str)
	case interpreter.CharacterValue:
		return fmt.Sprintf("Character(%q)", v.Str)
	case interpreter.AddressValue:
		return fmt.Sprintf("Address(%x)", [8]byte(v))
	case interpreter.PathValue:
		return fmt.Sprintf("Path(%s,%q)", v.Domain.Identifier(), v.Identifier)
	case *interpreter.SomeValue:
		return "Some(" + dumpIV(inter, v.InnerValue()) + ")"
	case interpreter.TypeValue:
		return "Type(" + stID(v.Type) + ")"
	case *interpreter.IDCapabilityValue:
		return fmt.Sprintf("Cap(%d,%s,%s)", uint64(v.ID), dumpIV(inter, v.Address()), stID(v.BorrowType))
	case *interpreter.PathCapabilityValue: //nolint:staticcheck
		return fmt.Sprintf("PathCap(%s,%s,%s)", dumpIV(inter, v.Address()), dumpIV(inter, v.Path), stID(v.BorrowType))
	case *interpreter.PublishedValue:
		return fmt.Sprintf("Published(%s,%s)", dumpIV(inter, v.Recipient), dumpIV(inter, v.Value))
	case *interpreter.StorageCapabilityControllerValue:
		return fmt.Sprintf("StorageCapCon(%s,%d,%s)", stID(v.BorrowType), uint64(v.CapabilityID), dumpIV(inter, v.TargetPath))
	case *interpreter.AccountCapabilityControllerValue:
		return fmt.Sprintf("AccountCapCon(%s,%d)", stID(v.BorrowType), uint64(v.CapabilityID))
	case interpreter.PathLinkValue: //nolint:staticcheck
		return fmt.Sprintf("PathLink(%s,%s)", dumpIV(inter, v.TargetPath), stID(v.Type))
	case interpreter.AccountLinkValue: //nolint:staticcheck
		return "AccountLink"
	case *interpreter.ArrayValue:
		var sb strings.Builder
		sb.WriteString("Array<" + stID(v.Type) + ">[")
		n := v.Count()
		for i := 0; i < n; i++ {
			if i > 0 {
				sb.WriteByte(',')
			}
			sb.WriteString(dumpIV(inter, v.Get(inter, i)))
		}
		sb.WriteByte(']')
		return sb.String()
	case *interpreter.DictionaryValue:
		var ent []string
		v.Iterate(inter, func(key, value interpreter.Value) bool {
			ent = append(ent, dumpIV(inter, key)+"=>"+dumpIV(inter, value))
			return true
		})
		sort.Strings(ent)
		return "Dict<" + stID(v.Type) + ">{" + strings.Join(ent, ",") + "}"
	case *interpreter.CompositeValue:
		var ent []string
		v.ForEachField(inter, func(name string, value interpreter.Value) bool {
			ent = append(ent, fmt.Sprintf("%q=%s", name, dumpIV(inter, value)))
			return true
		})
		sort.Strings(ent)
		return fmt.Sprintf("Composite<%s %s>{%s}", v.Kind.Name(), v.TypeID(), strings.Join(ent, ","))
	}
	if n, ok := v.(interpreter.NumberValue); ok {
		return fmt.Sprintf("%T(%s)", v, num.Raw(n).String())
	}
	return fmt.Sprintf("?%T", v)
}

// ---------------------------------------------------------------------------
// enumeration

func c44StaticTypes(depth int) []interpreter.StaticType {
	var out []interpreter.StaticType
	// every defined primitive static type, deprecated ones included: stored data may still carry them
	for ty := interpreter.PrimitiveStaticType(1); ty < interpreter.PrimitiveStaticType_Count; ty++ {
		if ty.IsDefined() && ty.IsDeprecated() { //nolint:staticcheck
			out = append(out, ty)
		}
	}
	for _, t := range cdcval.Types(depth) {
		var st interpreter.StaticType
		if p, _, _ := mc.Guard(func() { st = runtime.ImportType(nil, t) }); p || st == nil {
			c44SkippedTypes.Add(1)
			continue // Bytes, attachments-as-types etc. have no static counterpart
		}
		out = append(out, st)
	}
	// intersection with a legacy (pre-1.0 restricted) type, capability without borrow type
	i1 := &interpreter.InterfaceStaticType{Location: cdcval.LocC, QualifiedIdentifier: "C.I", TypeID: "A.0000000000000001.C.I"}
	legacy := &interpreter.IntersectionStaticType{
		Types:      []*interpreter.InterfaceStaticType{i1},
		LegacyType: interpreter.PrimitiveStaticTypeAnyStruct,
	}
	// (a reference with the Inaccessible authorization has no type ID – Inaccessible.ID() is
	// unreachable – so it is not a storable type and is not generated)
	out = append(out, legacy, &interpreter.CapabilityStaticType{})
	return out
}

func staticClass(t interpreter.StaticType) string {
	s := fmt.Sprintf("%T", t)
	s = strings.TrimPrefix(s, "*")
	s = strings.TrimPrefix(s, "interpreter.")
	if r, ok := t.(*interpreter.ReferenceStaticType); ok {
		s += fmt.Sprintf("[%T]", r.Authorization)
	}
	return s
}

func c44Numbers() []interpreter.Value {
	var out []interpreter.Value
	for _, t := range num.Types {
		var raws []*big.Int
		if t.Min != nil {
			raws = append(raws, t.Min)
		} else {
			raws = append(raws, new(big.Int).Neg(new(big.Int).Lsh(big.NewInt(1), 200)))
		}
		if t.Signed() {
			raws = append(raws, big.NewInt(-1))
		}
		raws = append(raws, big.NewInt(1))
		if t.Max != nil {
			raws = append(raws, t.Max)
		} else {
			raws = append(raws, new(big.Int).Add(new(big.Int).Lsh(big.NewInt(1), 64), big.NewInt(1)))
		}
		for _, r := range raws {
			if t.InRange(r) {
				out = append(out, t.Make(r))
			}
		}
	}
	return out
}

func c44BorrowTypes() []interpreter.StaticType {
	var out []interpreter.StaticType
	p := cdcval.ThePrelude()
	for _, t := range []cadence.Type{
		cadence.NewReferenceType(cdcval.Authorizations()[0], cadence.IntType),
		cadence.NewReferenceType(cdcval.Authorizations()[5], p.R),
		cadence.NewReferenceType(cdcval.Authorizations()[7], cadence.NewIntersectionType([]cadence.Type{p.I2, p.I})),
		cadence.NewReferenceType(cdcval.Authorizations()[1], cadence.NewVariableSizedArrayType(p.S)),
	} {
		out = append(out, runtime.ImportType(nil, t))
	}
	return out
}

func c44Leaves(depth int) []interpreter.Value {
	var out []interpreter.Value
	out = append(out, c44Numbers()...)
	long := strings.Repeat("long string é ", 40)
	out = append(out,
		interpreter.Nil, interpreter.Void, interpreter.TrueValue, interpreter.FalseValue,
		interpreter.NewUnmeteredStringValue(""), interpreter.NewUnmeteredStringValue("a"),
		interpreter.NewUnmeteredStringValue("Zoë ✓ \"q\" \x00 \U0001F1EB\U0001F1F7"), interpreter.NewUnmeteredStringValue(long),
		interpreter.NewUnmeteredCharacterValue("a"), interpreter.NewUnmeteredCharacterValue("é"), interpreter.NewUnmeteredCharacterValue("\U0001F1EB\U0001F1F7"),
		interpreter.NewUnmeteredAddressValueFromBytes([]byte{}), interpreter.NewUnmeteredAddressValueFromBytes([]byte{1}),
		interpreter.NewUnmeteredAddressValueFromBytes([]byte{0xff, 0xff, 0xff, 0xff, 0xff, 0xff, 0xff, 0xff}),
		interpreter.NewUnmeteredPathValue(common.PathDomainStorage, "a"),
		interpreter.NewUnmeteredPathValue(common.PathDomainPublic, "foo_1"),
		interpreter.NewUnmeteredPathValue(common.PathDomainPrivate, "p"),
	)
	a1 := interpreter.NewUnmeteredAddressValueFromBytes([]byte{1})
	borrows := c44BorrowTypes()
	for i, b := range borrows {
		out = append(out,
			interpreter.NewUnmeteredCapabilityValue(interpreter.UInt64Value(i), a1, b),
			interpreter.NewUnmeteredCapabilityValue(interpreter.UInt64Value(math.MaxUint64), a1, b),
			interpreter.NewUnmeteredPathCapabilityValue(b, a1, interpreter.NewUnmeteredPathValue(common.PathDomainPublic, "x")), //nolint:staticcheck
			interpreter.NewPublishedValue(nil, a1, interpreter.NewUnmeteredCapabilityValue(interpreter.UInt64Value(7), a1, b)),
			interpreter.NewUnmeteredStorageCapabilityControllerValue(b.(*interpreter.ReferenceStaticType), interpreter.UInt64Value(i+1), interpreter.NewUnmeteredPathValue(common.PathDomainStorage, "t")),
			interpreter.NewUnmeteredAccountCapabilityControllerValue(b.(*interpreter.ReferenceStaticType), interpreter.UInt64Value(i+1)),
			interpreter.PathLinkValue{TargetPath: interpreter.NewUnmeteredPathValue(common.PathDomainStorage, "t"), Type: b}, //nolint:staticcheck
		)
	}
	// (an ID capability always has a borrow type since Cadence 1.0; only the deprecated path capability may lack one)
	out = append(out,
		interpreter.NewUnmeteredPathCapabilityValue(nil, a1, interpreter.NewUnmeteredPathValue(common.PathDomainPrivate, "y")), //nolint:staticcheck
		interpreter.AccountLinkValue{}, //nolint:staticcheck
		interpreter.NewUnmeteredTypeValue(nil),
	)
	for _, st := range c44StaticTypes(depth) {
		out = append(out, interpreter.NewUnmeteredTypeValue(st))
	}
	// optionals: 1-3 levels around a few leaves
	some := func(v interpreter.Value, n int) interpreter.Value {
		for i := 0; i < n; i++ {
			v = interpreter.NewUnmeteredSomeValueNonCopying(v)
		}
		return v
	}
	for _, inner := range []interpreter.Value{
		interpreter.NewUnmeteredInt8Value(-1), interpreter.NewUnmeteredStringValue("s"),
		interpreter.NewUnmeteredCapabilityValue(1, a1, borrows[1]), interpreter.NewUnmeteredTypeValue(borrows[2]),
	} {
		for n := 1; n <= 3; n++ {
			out = append(out, some(inner, n))
		}
	}
	return out
}

func leafClass(v interpreter.Value) string {
	s := fmt.Sprintf("%T", v)
	s = strings.TrimPrefix(s, "*")
	s = strings.TrimPrefix(s, "interpreter.")
	s = strings.TrimPrefix(s, "values.")
	switch v := v.(type) {
	case *interpreter.SomeValue:
		n := 0
		var inner interpreter.Value = v
		for {
			sv, ok := inner.(*interpreter.SomeValue)
			if !ok {
				break
			}
			n++
			inner = sv.InnerValue()
		}
		return fmt.Sprintf("SomeValue[%d levels]", n)
	case interpreter.TypeValue:
		if v.Type == nil {
			return "TypeValue(nil)"
		}
		return "TypeValue(" + staticClass(v.Type) + ")"
	}
	return s
}

type builder struct {
	name  string
	build func(inter *interpreter.Interpreter) interpreter.Value
}

func c44Containers(depth int) []builder {
	anyS := interpreter.PrimitiveStaticTypeAnyStruct
	intT := interpreter.PrimitiveStaticTypeInt
	strT := interpreter.PrimitiveStaticTypeString
	a1 := interpreter.NewUnmeteredAddressValueFromBytes([]byte{1})
	borrow := c44BorrowTypes()[1]

	leafs := []builder{
		{"Int", func(*interpreter.Interpreter) interpreter.Value { return interpreter.NewUnmeteredIntValueFromInt64(-7) }},
		{"String", func(*interpreter.Interpreter) interpreter.Value { return interpreter.NewUnmeteredStringValue("hello") }},
		{"LongString", func(*interpreter.Interpreter) interpreter.Value {
			return interpreter.NewUnmeteredStringValue(strings.Repeat("0123456789", 60))
		}},
		{"Nil", func(*interpreter.Interpreter) interpreter.Value { return interpreter.Nil }},
		{"SomeUFix64", func(*interpreter.Interpreter) interpreter.Value {
			return interpreter.NewUnmeteredSomeValueNonCopying(interpreter.NewUnmeteredUFix64Value(150000000))
		}},
		{"Cap", func(*interpreter.Interpreter) interpreter.Value {
			return interpreter.NewUnmeteredCapabilityValue(5, a1, borrow)
		}},
		{"Type", func(*interpreter.Interpreter) interpreter.Value { return interpreter.NewUnmeteredTypeValue(borrow) }},
		{"Path", func(*interpreter.Interpreter) interpreter.Value {
			return interpreter.NewUnmeteredPathValue(common.PathDomainStorage, "p")
		}},
		{"Address", func(*interpreter.Interpreter) interpreter.Value { return a1 }},
	}

	arr := func(t interpreter.ArrayStaticType, elems ...builder) func(*interpreter.Interpreter) interpreter.Value {
		return func(inter *interpreter.Interpreter) interpreter.Value {
			vs := make([]interpreter.Value, len(elems))
			for i, e := range elems {
				vs[i] = e.build(inter)
			}
			return interpreter.NewArrayValue(inter, t, c44Owner, vs...)
		}
	}
	dict := func(t *interpreter.DictionaryStaticType, kv ...builder) func(*interpreter.Interpreter) interpreter.Value {
		return func(inter *interpreter.Interpreter) interpreter.Value {
			vs := make([]interpreter.Value, len(kv))
			for i, e := range kv {
				vs[i] = e.build(inter)
			}
			return interpreter.NewDictionaryValueWithAddress(inter, t, c44Owner, vs...)
		}
	}
	comp := func(kind common.CompositeKind, qid string, fields ...any) func(*interpreter.Interpreter) interpreter.Value {
		return func(inter *interpreter.Interpreter) interpreter.Value {
			var fs []interpreter.CompositeField
			for i := 0; i+1 < len(fields); i += 2 {
				fs = append(fs, interpreter.NewUnmeteredCompositeField(fields[i].(string), fields[i+1].(builder).build(inter)))
			}
			return interpreter.NewCompositeValue(inter, cdcval.LocC, qid, kind, fs, c44Owner)
		}
	}
	key := func(s string) builder {
		return builder{"k", func(*interpreter.Interpreter) interpreter.Value { return interpreter.NewUnmeteredStringValue(s) }}
	}
	ikey := func(i int64) builder {
		return builder{"k", func(*interpreter.Interpreter) interpreter.Value { return interpreter.NewUnmeteredIntValueFromInt64(i) }}
	}

	full := func(x builder) []builder {
		vat := &interpreter.VariableSizedStaticType{Type: anyS}
		out := []builder{
			{"VArr[" + x.name + "]", arr(vat, x)},
			{"VArr[" + x.name + "x3]", arr(vat, x, x, x)},
			{"CArr2[" + x.name + "]", arr(&interpreter.ConstantSizedStaticType{Type: anyS, Size: 2}, x, x)},
			{"VArrOpt[" + x.name + "]", arr(&interpreter.VariableSizedStaticType{Type: &interpreter.OptionalStaticType{Type: anyS}},
				builder{"some", func(inter *interpreter.Interpreter) interpreter.Value {
					v := x.build(inter)
					if _, isNil := v.(interpreter.NilValue); isNil {
						return v
					}
					return interpreter.NewUnmeteredSomeValueNonCopying(v)
				}})},
			{"Dict{String:" + x.name + "}", dict(&interpreter.DictionaryStaticType{KeyType: strT, ValueType: anyS}, key("b"), x, key("aa"), x, key("ab"), x)},
			{"Dict{Int:" + x.name + "}", dict(&interpreter.DictionaryStaticType{KeyType: intT, ValueType: anyS}, ikey(256), x, ikey(-1), x)},
			{"Struct{" + x.name + "}", comp(common.CompositeKindStructure, "C.Box", "v", x)},
			{"Resource{" + x.name + "}", comp(common.CompositeKindResource, "C.RBox", "uuid", builder{"u", func(*interpreter.Interpreter) interpreter.Value { return interpreter.NewUnmeteredUInt64Value(9) }}, "r", x)},
			{"Event{" + x.name + "}", comp(common.CompositeKindEvent, "C.EvA", "v", x)},
			{"Attachment{" + x.name + "}", comp(common.CompositeKindAttachment, "C.A", "x", x)},
			{"Contract{" + x.name + "}", comp(common.CompositeKindContract, "C", "n", x)},
		}
		return out
	}
	reduced := func(x builder) []builder {
		vat := &interpreter.VariableSizedStaticType{Type: anyS}
		return []builder{
			{"VArr[" + x.name + "]", arr(vat, x, x)},
			{"Dict{String:" + x.name + "}", dict(&interpreter.DictionaryStaticType{KeyType: strT, ValueType: anyS}, key("a"), x)},
			{"Struct{" + x.name + "}", comp(common.CompositeKindStructure, "C.Box", "v", x)},
		}
	}

	var out []builder
	// specials
	big := func(n int) func(*interpreter.Interpreter) interpreter.Value {
		return func(inter *interpreter.Interpreter) interpreter.Value {
			vs := make([]interpreter.Value, n)
			for i := range vs {
				vs[i] = interpreter.NewUnmeteredIntValueFromInt64(int64(i))
			}
			return interpreter.NewArrayValue(inter, &interpreter.VariableSizedStaticType{Type: intT}, c44Owner, vs...)
		}
	}
	out = append(out,
		builder{"VArr[]", arr(&interpreter.VariableSizedStaticType{Type: intT})},
		builder{"CArr0[]", arr(&interpreter.ConstantSizedStaticType{Type: intT, Size: 0})},
		builder{"VArr[Int x120]", big(120)},
		builder{"VArr[Int x400]", big(400)},
		builder{"Dict{}", dict(&interpreter.DictionaryStaticType{KeyType: strT, ValueType: intT})},
		builder{"Dict{Int x150}", func(inter *interpreter.Interpreter) interpreter.Value {
			var kv []interpreter.Value
			for i := 0; i < 150; i++ {
				kv = append(kv, interpreter.NewUnmeteredIntValueFromInt64(int64(i)), interpreter.NewUnmeteredStringValue(fmt.Sprint(i)))
			}
			return interpreter.NewDictionaryValueWithAddress(inter, &interpreter.DictionaryStaticType{KeyType: intT, ValueType: strT}, c44Owner, kv...)
		}},
		builder{"Struct{}", comp(common.CompositeKindStructure, "C.Emp")},
		builder{"Enum{rawValue}", comp(common.CompositeKindEnum, "C.En", "rawValue", builder{"u8", func(*interpreter.Interpreter) interpreter.Value { return interpreter.NewUnmeteredUInt8Value(2) }})},
		builder{"Struct{x,y}", comp(common.CompositeKindStructure, "C.S", "x", leafs[0], "y", leafs[1])},
	)
	level := leafs
	for k := 1; k <= depth; k++ {
		var next []builder
		for _, x := range level {
			out = append(out, full(x)...)
			next = append(next, reduced(x)...)
		}
		level = next
	}
	return out
}

func c44Cases(depth int) []c44Case {
	var out []c44Case
	for i, st := range c44StaticTypes(depth) {
		st := st
		out = append(out, c44Case{Name: fmt.Sprintf("static/%d/%s", i, st.ID()), Kind: "static", Class: staticClass(st), static: st})
	}
	for i, v := range c44Leaves(depth) {
		v := v
		out = append(out, c44Case{Name: fmt.Sprintf("storable/%d/%s", i, leafClass(v)), Kind: "storable", Class: leafClass(v), leaf: func() interpreter.Value { return v }})
	}
	for i, b := range c44Containers(depth) {
		b := b
		cls := b.name
		if j := strings.IndexAny(cls, "[{"); j > 0 {
			cls = cls[:j]
		}
		out = append(out, c44Case{Name: fmt.Sprintf("slabs/%d/%s", i, b.name), Kind: "slabs", Class: cls, build: b.build})
	}
	return out
}

// ---------------------------------------------------------------------------
// encodings

type c44Encoding struct {
	Name  string     `json:"name"`
	Kind  string     `json:"kind"`
	Class string     `json:"class"`
	Enc   string     `json:"enc,omitempty"`   // base64, static / storable
	Slabs [][]string `json:"slabs,omitempty"` // [slab id hex, base64], sorted by slab id
	Root  string     `json:"root,omitempty"`  // slab id hex
	Print string     `json:"print"`
}

func encodeStorable(s atree.Storable) ([]byte, error) {
	var buf bytes.Buffer
	enc := atree.NewEncoder(&buf, interpreter.CBOREncMode)
	if err := s.Encode(enc); err != nil {
		return nil, err
	}
	if err := enc.CBOR.Flush(); err != nil {
		return nil, err
	}
	return buf.Bytes(), nil
}

func slabIDHex(id atree.SlabID) string {
	var b [atree.SlabIDLength]byte
	_, _ = id.ToRawBytes(b[:])
	return fmt.Sprintf("%x", b[:])
}

func slabIDFromHex(s string) (atree.SlabID, error) {
	var b []byte
	if _, err := fmt.Sscanf(s, "%x", &b); err != nil {
		return atree.SlabID{}, err
	}
	return atree.NewSlabIDFromRawBytes(b)
}

// encodeCase produces the encoding of a case with the current code.
// err != "" is a failure class.
func encodeCase(c c44Case) (e c44Encoding, class string, detail string) {
	e = c44Encoding{Name: c.Name, Kind: c.Kind, Class: c.Class}
	switch c.Kind {
	case "static":
		b, err := interpreter.StaticTypeToBytes(c.static)
		if err != nil {
			return e, "encode-error", err.Error()
		}
		e.Enc = base64.StdEncoding.EncodeToString(b)
		e.Print = stID(c.static)
	case "storable":
		storage := interpreter.NewInMemoryStorage(nil, nil)
		inter := newC44Inter(storage)
		v := c.leaf()
		st, err := v.Storable(storage, atree.Address(c44Owner), math.MaxUint32)
		if err != nil {
			return e, "storable-error", err.Error()
		}
		b, err := encodeStorable(st)
		if err != nil {
			return e, "encode-error", err.Error()
		}
		e.Enc = base64.StdEncoding.EncodeToString(b)
		e.Print = dumpIV(inter, v)
	case "slabs":
		storage := interpreter.NewInMemoryStorage(nil, nil)
		inter := newC44Inter(storage)
		v := c.build(inter)
		var root atree.SlabID
		switch v := v.(type) {
		case *interpreter.ArrayValue:
			root = v.SlabID()
		case *interpreter.DictionaryValue:
			root = v.SlabID()
		case *interpreter.CompositeValue:
			root = v.SlabID()
		default:
			return e, "not-a-container", fmt.Sprintf("%T", v)
		}
		enc, err := storage.BasicSlabStorage.Encode()
		if err != nil {
			return e, "encode-error", err.Error()
		}
		for id, b := range enc {
			e.Slabs = append(e.Slabs, []string{slabIDHex(id), base64.StdEncoding.EncodeToString(b)})
		}
		sort.Slice(e.Slabs, func(i, j int) bool { return e.Slabs[i][0] < e.Slabs[j][0] })
		e.Root = slabIDHex(root)
		e.Print = dumpIV(inter, v)
	}
	return e, "", ""
}

// decodeEncoding decodes an encoding with the current code, renders the
// decoded value and re-encodes it. class "" = decoded.
func decodeEncoding(e c44Encoding) (print string, reenc c44Encoding, eqCheck func(orig any) string, class string, detail string) {
	reenc = c44Encoding{Name: e.Name, Kind: e.Kind, Class: e.Class, Root: e.Root}
	switch e.Kind {
	case "static":
		b, err := base64.StdEncoding.DecodeString(e.Enc)
		if err != nil {
			return "", reenc, nil, "corpus-corrupt", err.Error()
		}
		st, err := interpreter.StaticTypeFromBytes(b)
		if err != nil {
			return "", reenc, nil, "decode-error", err.Error()
		}
		rb, err := interpreter.StaticTypeToBytes(st)
		if err != nil {
			return "", reenc, nil, "reencode-error", err.Error()
		}
		reenc.Enc = base64.StdEncoding.EncodeToString(rb)
		eq := func(orig any) string {
			o := orig.(interpreter.StaticType)
			if !o.Equal(st) || !st.Equal(o) {
				return "decoded static type is not Equal to the original"
			}
			return ""
		}
		return stID(st), reenc, eq, "", ""
	case "storable":
		b, err := base64.StdEncoding.DecodeString(e.Enc)
		if err != nil {
			return "", reenc, nil, "corpus-corrupt", err.Error()
		}
		storage := interpreter.NewInMemoryStorage(nil, nil)
		inter := newC44Inter(storage)
		dec := interpreter.CBORDecMode.NewByteStreamDecoder(b)
		st, err := interpreter.DecodeStorable(dec, atree.SlabID{}, nil, nil)
		if err != nil {
			return "", reenc, nil, "decode-error", err.Error()
		}
		if dec.NumBytesDecoded() != len(b) {
			return "", reenc, nil, "decode-trailing-bytes", fmt.Sprintf("%d of %d bytes consumed", dec.NumBytesDecoded(), len(b))
		}
		v := interpreter.StoredValue(nil, st, storage)
		rb, err := encodeStorable(st)
		if err != nil {
			return "", reenc, nil, "reencode-error", err.Error()
		}
		reenc.Enc = base64.StdEncoding.EncodeToString(rb)
		eq := func(orig any) string {
			o, ok := orig.(interpreter.EquatableValue)
			d, ok2 := v.(interpreter.EquatableValue)
			if !ok || !ok2 {
				return ""
			}
			if !o.Equal(inter, orig.(interpreter.Value)) {
				// not even equal to itself: a type value of an unknown (nil) type is
				// "never equal to another type" by language definition
				return ""
			}
			if !o.Equal(inter, v) || !d.Equal(inter, orig.(interpreter.Value)) {
				return "decoded value is not Equal to the original"
			}
			return ""
		}
		return dumpIV(inter, v), reenc, eq, "", ""
	case "slabs":
		storage := interpreter.NewInMemoryStorage(nil, nil)
		inter := newC44Inter(storage)
		for _, s := range e.Slabs {
			id, err := slabIDFromHex(s[0])
			if err != nil {
				return "", reenc, nil, "corpus-corrupt", err.Error()
			}
			b, err := base64.StdEncoding.DecodeString(s[1])
			if err != nil {
				return "", reenc, nil, "corpus-corrupt", err.Error()
			}
			slab, err := atree.DecodeSlab(id, b, interpreter.CBORDecMode, storage.BasicSlabStorage.DecodeStorable, storage.BasicSlabStorage.DecodeTypeInfo)
			if err != nil {
				return "", reenc, nil, "decode-error", fmt.Sprintf("slab %s: %v", s[0], err)
			}
			rb, err := atree.EncodeSlab(slab, interpreter.CBOREncMode)
			if err != nil {
				return "", reenc, nil, "reencode-error", err.Error()
			}
			reenc.Slabs = append(reenc.Slabs, []string{s[0], base64.StdEncoding.EncodeToString(rb)})
			if err := storage.BasicSlabStorage.Store(id, slab); err != nil {
				return "", reenc, nil, "store-error", err.Error()
			}
		}
		root, err := slabIDFromHex(e.Root)
		if err != nil {
			return "", reenc, nil, "corpus-corrupt", err.Error()
		}
		v := interpreter.StoredValue(nil, atree.SlabIDStorable(root), storage)
		return dumpIV(inter, v), reenc, nil, "", ""
	}
	return "", reenc, nil, "unknown-kind", e.Kind
}

func sameEncoding(a, b c44Encoding) bool {
	if a.Enc != b.Enc || len(a.Slabs) != len(b.Slabs) {
		return false
	}
	for i := range a.Slabs {
		if a.Slabs[i][0] != b.Slabs[i][0] || a.Slabs[i][1] != b.Slabs[i][1] {
			return false
		}
	}
	return true
}

// judgeCase: encode with the current code, decode, compare, re-encode.
func judgeCase(c c44Case) (e c44Encoding, class string, detail string) {
	var p bool
	var pv any
	p, pv, _ = mc.Guard(func() {
		e, class, detail = encodeCase(c)
		if class != "" {
			if c.Kind == "static" && strings.Contains(detail, "non-storable") || strings.Contains(detail, "cannot store non-storable") {
				class = "dontcare:non-storable-static-type"
			}
			return
		}
		print, re, eq, cl, det := decodeEncoding(e)
		if cl != "" {
			class, detail = "own-encoding-"+cl, det
			return
		}
		if print != e.Print {
			class, detail = "decoded-value-differs", fmt.Sprintf("want %s\ngot  %s", trunc(e.Print, 400), trunc(print, 400))
			return
		}
		if eq != nil {
			var orig any
			if c.Kind == "static" {
				orig = c.static
			} else {
				orig = c.leaf()
			}
			if m := eq(orig); m != "" {
				class, detail = "decoded-not-Equal", m+": "+trunc(e.Print, 300)
				return
			}
		}
		if !sameEncoding(e, re) {
			class, detail = "reencoding-differs", fmt.Sprintf("%v\n%v", trunc(fmt.Sprint(e.Enc, e.Slabs), 300), trunc(fmt.Sprint(re.Enc, re.Slabs), 300))
		}
	})
	if p {
		return e, "panic:" + panicClass(pv), trunc(fmt.Sprint(pv), 400)
	}
	return
}

func goldenPath(env *mc.Env) string {
	return filepath.Join(env.Root, "corpus", "c44", "golden.jsonl.gz")
}

func readGolden(path string) ([]c44Encoding, error) {
	f, err := os.Open(path)
	if err != nil {
		return nil, err
	}
	defer f.Close()
	zr, err := gzip.NewReader(f)
	if err != nil {
		return nil, err
	}
	var out []c44Encoding
	sc := bufio.NewScanner(zr)
	sc.Buffer(make([]byte, 1<<20), 64<<20)
	for sc.Scan() {
		var e c44Encoding
		if err := json.Unmarshal(sc.Bytes(), &e); err != nil {
			return nil, err
		}
		out = append(out, e)
	}
	return out, sc.Err()
}

func writeGolden(path string, es []c44Encoding) error {
	if err := os.MkdirAll(filepath.Dir(path), 0o755); err != nil {
		return err
	}
	var buf bytes.Buffer
	zw, _ := gzip.NewWriterLevel(&buf, gzip.BestCompression)
	// gzip header ModTime stays zero: reproducible output
	for _, e := range es {
		b, err := json.Marshal(e)
		if err != nil {
			return err
		}
		zw.Write(b)
		zw.Write([]byte("\n"))
	}
	if err := zw.Close(); err != nil {
		return err
	}
	return os.WriteFile(path, buf.Bytes(), 0o644)
}

const c44GoldenDepth = 2

func runC44(env *mc.Env) {
	if env.Sub == "gen-golden" {
		path := goldenPath(env)
		if _, err := os.Stat(path); err == nil && os.Getenv("VERIF_C44_OVERWRITE") != "1" {
			env.R.HarnessError("%s exists; the golden corpus is written once from the pinned tree (set VERIF_C44_OVERWRITE=1 to replace it deliberately)", path)
			return
		}
		cases := c44Cases(c44GoldenDepth)
		es := make([]c44Encoding, len(cases))
		ok := make([]bool, len(cases))
		mc.ParallelFor(env, len(cases), func(i int) {
			e, class, _ := judgeCase(cases[i])
			env.R.Eval()
			if class == "" {
				es[i], ok[i] = e, true
			}
		})
		var keep []c44Encoding
		for i := range es {
			if ok[i] {
				keep = append(keep, es[i])
			}
		}
		if err := writeGolden(path, keep); err != nil {
			env.R.HarnessError("writing golden corpus: %v", err)
		}
		env.R.Set("golden_written", len(keep))
		fmt.Printf("wrote %d golden entries to %s\n", len(keep), path)
		return
	}

	if env.Sub == "extend-golden" {
		// Append-only: entries already in the corpus are kept byte for byte; cases of the
		// current enumerator whose encoding is not in the corpus yet are appended.
		path := goldenPath(env)
		golden, err := readGolden(path)
		if err != nil {
			env.R.HarnessError("golden corpus unreadable: %v", err)
			return
		}
		key := func(e c44Encoding) string { return e.Kind + "|" + e.Enc + "|" + fmt.Sprint(e.Slabs) }
		have := map[string]bool{}
		names := map[string]bool{}
		for _, g := range golden {
			have[key(g)] = true
			names[g.Name] = true
		}
		cases := c44Cases(c44GoldenDepth)
		es := make([]c44Encoding, len(cases))
		ok := make([]bool, len(cases))
		mc.ParallelFor(env, len(cases), func(i int) {
			e, class, _ := judgeCase(cases[i])
			env.R.Eval()
			if class == "" {
				es[i], ok[i] = e, true
			}
		})
		added := 0
		for i := range es {
			if ok[i] && !have[key(es[i])] {
				e := es[i]
				for names[e.Name] {
					e.Name += "+"
				}
				names[e.Name] = true
				have[key(e)] = true
				golden = append(golden, e)
				added++
			}
		}
		if added > 0 {
			if err := writeGolden(path, golden); err != nil {
				env.R.HarnessError("writing golden corpus: %v", err)
			}
		}
		fmt.Printf("appended %d entries; corpus now has %d\n", added, len(golden))
		return
	}

	depth := mc.Pick(env, 2, 3)
	c44SkippedTypes.Store(0)
	cases := c44Cases(depth)
	env.R.Set("cases", len(cases))
	env.R.Set("cadence_types_without_static_counterpart_skipped", c44SkippedTypes.Load()/2) // the enumerator runs twice (types, type values)
	current := make(map[string]c44Encoding, len(cases))
	encs := make([]c44Encoding, len(cases))
	mc.ParallelFor(env, len(cases), func(i int) {
		c := cases[i]
		e, class, detail := judgeCase(c)
		env.R.Eval()
		switch {
		case class == "":
			encs[i] = e
			env.R.Nontrivial(c.Kind + "|" + c.Class + "|" + e.Print)
			env.R.Class("roundtrip-ok:"+c.Kind+":"+c.Class, func() any { return trunc(c.Name+" "+e.Print, 200) })
		case strings.HasPrefix(class, "dontcare:"):
			// "Every storable value and static type": a function type is not storable by design
			env.R.DontCare.Add(1)
			env.R.Class(class, nil)
		default:
			env.R.Violation("stored|"+c.Kind+":"+c.Class+"|"+class, c44Replay{Part: "roundtrip", Depth: depth, Index: i, Name: c.Name}, detail)
		}
	})
	// informational: is a golden encoding still what the encoder produces for some current case?
	encKey := func(e c44Encoding) string { return e.Kind + "|" + e.Enc + "|" + fmt.Sprint(e.Slabs) }
	for _, e := range encs {
		if e.Name != "" {
			current[encKey(e)] = e
		}
	}

	// golden corpus
	golden, err := readGolden(goldenPath(env))
	if err != nil {
		env.R.HarnessError("golden corpus unreadable (%v): generate it once from the pinned tree with `<binary> C44 --sub gen-golden`", err)
		return
	}
	env.R.Set("golden_entries", len(golden))
	var sameBytes, changedBytes, unmatched int64
	results := make([]int, len(golden))
	mc.ParallelFor(env, len(golden), func(i int) {
		g := golden[i]
		var print, class, detail string
		p, pv, _ := mc.Guard(func() { print, _, _, class, detail = decodeEncoding(g) })
		env.R.Eval()
		switch {
		case p:
			env.R.Violation("golden|"+g.Kind+":"+g.Class+"|panic:"+panicClass(pv), c44Replay{Part: "golden", Index: i, Name: g.Name}, trunc(fmt.Sprint(pv), 300))
		case class != "":
			env.R.Violation("golden|"+g.Kind+":"+g.Class+"|"+class, c44Replay{Part: "golden", Index: i, Name: g.Name}, detail)
		case print != g.Print:
			env.R.Violation("golden|"+g.Kind+":"+g.Class+"|decodes-to-a-different-value", c44Replay{Part: "golden", Index: i, Name: g.Name},
				fmt.Sprintf("recorded %s\nnow      %s", trunc(g.Print, 400), trunc(print, 400)))
		default:
			env.R.Nontrivial("golden|" + g.Name)
			if _, ok := current[encKey(g)]; ok {
				results[i] = 1
			} else {
				results[i] = 3
			}
		}
	})
	for _, r := range results {
		switch r {
		case 1:
			sameBytes++
		case 2:
			changedBytes++
		case 3:
			unmatched++
		}
	}
	// informational only: the sentence requires old bytes to keep decoding, not the encoder to be frozen
	env.R.ClassN("golden:decodes-same-value,encoder-output-unchanged", sameBytes)
	if changedBytes > 0 {
		env.R.ClassN("golden:decodes-same-value,encoder-output-changed", changedBytes)
	}
	if unmatched > 0 {
		env.R.ClassN("golden:decodes-same-value,not-an-encoding-of-the-current-enumerator", unmatched)
	}
	env.R.BoundCompleted(fmt.Sprintf("depth %d: %d cases; %d golden entries", depth, len(cases), len(golden)))
}

type c44Replay struct {
	Part  string `json:"part"`
	Depth int    `json:"depth"`
	Index int    `json:"index"`
	Name  string `json:"name"`
}

func replayC44(env *mc.Env, raw json.RawMessage) (bool, string) {
	var c c44Replay
	if err := json.Unmarshal(raw, &c); err != nil {
		return false, err.Error()
	}
	if c.Part == "golden" {
		golden, err := readGolden(goldenPath(env))
		if err != nil || c.Index >= len(golden) || golden[c.Index].Name != c.Name {
			return false, "golden entry not found"
		}
		g := golden[c.Index]
		var print, class, detail string
		p, pv, _ := mc.Guard(func() { print, _, _, class, detail = decodeEncoding(g) })
		if p {
			return true, fmt.Sprint(pv)
		}
		if class != "" {
			return true, class + ": " + detail
		}
		return print != g.Print, fmt.Sprintf("recorded %s now %s", trunc(g.Print, 300), trunc(print, 300))
	}
	cases := c44Cases(c.Depth)
	if c.Index >= len(cases) || cases[c.Index].Name != c.Name {
		return false, "case not found (enumerator changed)"
	}
	_, class, detail := judgeCase(cases[c.Index])
	return class != "" && !strings.HasPrefix(class, "dontcare:"), class + ": " + detail
}

func init() {
	mc.Register(&mc.Check{
		ID:   "C44",
		Rule: "every static type obtained from cdcval.Types(d) (plus deprecated primitives, legacy intersection, inaccessible authorization), every non-container storable (all number types at their bounds, strings, characters, addresses, paths, capabilities, path capabilities, published values, both controller kinds, links, a type value per static type, 1-3 nested optionals) and every container case (arrays, dictionaries, all composite kinds, nested to depth d, small and multi-slab) is encoded, decoded, compared and re-encoded with the real storage codec; every entry of the golden corpus written by the pinned tree is decoded and compared with its recorded value; non-trivial = distinct (kind, class, value)",
		Assumptions: []string{
			"atree's slab encoding is exercised through atree.EncodeSlab/DecodeSlab with cadence's storable and type-info decoders; atree itself is trusted",
			"decoded values are compared by a structural rendering that uses exported fields, element iteration and static type IDs, and by the values' own Equal",
			"stability is relative to the pinned snapshot that wrote corpus/c44/golden.jsonl.gz; a changed encoder output whose old bytes still decode to the same value is reported as an outcome class, not a violation",
		},
		Run:    runC44,
		Replay: replayC44,
	})
}

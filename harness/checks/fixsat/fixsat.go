// Package fixsat is the fixed-point part of C13 (saturating arithmetic clamps to
// the type's range). It registers nothing: package arith, which owns C13, calls
// RunFixedSaturating from its Run function and ReplayFixedSaturating from its
// Replay function.
//
// Property sentence (the law):
//
//	"For every numeric type that provides saturating operations, saturatingAdd,
//	 saturatingSubtract, saturatingMultiply and saturatingDivide return the exact result
//	 (truncated as for the plain operator) clamped to the type's minimum and maximum. They
//	 never fail except for division by zero."
//
// Enumerated: for Fix64, UFix64, Fix128, UFix128, every saturating member the sema type
// declares (sema.SaturatingArithmeticType — not hard-coded) on every ordered pair of the
// fixed-point lattice (direct calls of the value methods), and a reduced lattice through
// scripts (`a.saturatingAdd(b)` …) in both engines. Reference: math/big on the raw scaled
// integers: exact result truncated toward zero to the scale, then clamped.
package fixsat

import (
	"encoding/json"
	"fmt"
	"math/big"
	"runtime"
	"sort"
	"strings"

	"github.com/onflow/cadence"
	"github.com/onflow/cadence/fixedpoint"
	"github.com/onflow/cadence/interpreter"
	"github.com/onflow/cadence/sema"
	fix "github.com/onflow/fixed-point"

	"verif/mc"
	"verif/num"
	"verif/rt"
)

// Case is the replayable case. Family marks it as belonging to this package.
type Case struct {
	Family string `json:"family"` // always "fixsat"
	Layer  string `json:"layer"`  // "direct" | "script"
	Engine string `json:"engine,omitempty"`
	Type   string `json:"type"`
	Op     string `json:"op"` // SaturatingPlus | SaturatingMinus | SaturatingMul | SaturatingDiv
	A      string `json:"a"`  // raw scaled integers
	B      string `json:"b"`
}

var member = map[string]string{
	"SaturatingPlus":  sema.NumericTypeSaturatingAddFunctionName,
	"SaturatingMinus": sema.NumericTypeSaturatingSubtractFunctionName,
	"SaturatingMul":   sema.NumericTypeSaturatingMultiplyFunctionName,
	"SaturatingDiv":   sema.NumericTypeSaturatingDivideFunctionName,
}

// Ops returns the saturating members the sema type of t declares.
func Ops(t *num.Type) []string {
	st, ok := t.Sema.(sema.SaturatingArithmeticType)
	if !ok {
		return nil
	}
	var ops []string
	if st.SupportsSaturatingAdd() {
		ops = append(ops, "SaturatingPlus")
	}
	if st.SupportsSaturatingSubtract() {
		ops = append(ops, "SaturatingMinus")
	}
	if st.SupportsSaturatingMultiply() {
		ops = append(ops, "SaturatingMul")
	}
	if st.SupportsSaturatingDivide() {
		ops = append(ops, "SaturatingDiv")
	}
	return ops
}

var bigOne = big.NewInt(1)

func pow10(n int) *big.Int { return new(big.Int).Exp(big.NewInt(10), big.NewInt(int64(n)), nil) }

func bi(s string) *big.Int {
	x, ok := new(big.Int).SetString(s, 10)
	if !ok {
		panic("bad int " + s)
	}
	return x
}

// expect: the clamped exact result; divzero=true means the call must fail.
func expect(t *num.Type, op string, a, b *big.Int) (want *big.Int, class string, divzero bool) {
	one := pow10(t.Scale)
	var exact *big.Int
	inexact := false
	switch op {
	case "SaturatingPlus":
		exact = new(big.Int).Add(a, b)
	case "SaturatingMinus":
		exact = new(big.Int).Sub(a, b)
	case "SaturatingMul":
		r := new(big.Int)
		exact, r = new(big.Int).QuoRem(new(big.Int).Mul(a, b), one, r) // truncated toward zero, as `*`
		inexact = r.Sign() != 0
	case "SaturatingDiv":
		if b.Sign() == 0 {
			return nil, "divzero", true
		}
		r := new(big.Int)
		exact, r = new(big.Int).QuoRem(new(big.Int).Mul(a, one), b, r) // truncated toward zero, as `/`
		inexact = r.Sign() != 0
	default:
		panic("fixsat: unknown op " + op)
	}
	switch {
	case exact.Cmp(t.Max) > 0:
		return t.Max, "clamped-max", false
	case exact.Cmp(t.Min) < 0:
		return t.Min, "clamped-min", false
	case inexact && exact.Sign() == 0:
		return exact, "truncated-to-zero", false
	case inexact:
		return exact, "truncated", false
	}
	return exact, "exact", false
}

type observation struct {
	ok      bool
	val     *big.Int
	typ     string
	failure bool // controlled failure (Cadence error / user-level script error)
	text    string
}

func judge(t *num.Type, op string, a, b *big.Int, o observation) (bad, class, detail string) {
	want, class, divzero := expect(t, op, a, b)
	if !o.ok && !o.failure {
		return "crash", class, "not a controlled failure: " + o.text
	}
	if divzero {
		if o.ok {
			return "no-failure-divzero", class, "division by zero must fail, got " + o.text
		}
		return "", class, ""
	}
	if !o.ok {
		return "failed", class, fmt.Sprintf("saturating op must not fail; expected %s, got %s", want, o.text)
	}
	if o.val.Cmp(want) != 0 {
		return "wrong-value", class, fmt.Sprintf("expected %s, got %s", want, o.text)
	}
	if o.typ != t.Name {
		return "wrong-type", class, "result type " + o.typ
	}
	return "", class, ""
}

func newInter() *interpreter.Interpreter {
	inter, err := interpreter.NewInterpreter(nil, nil, &interpreter.Config{
		Storage: interpreter.NewInMemoryStorage(nil, nil),
	})
	if err != nil {
		panic(err)
	}
	return inter
}

func callDirect(inter *interpreter.Interpreter, t *num.Type, op string, a, b *big.Int) (o observation) {
	av, bv := t.Make(a), t.Make(b)
	defer func() {
		if p := recover(); p != nil {
			_, isRuntime := p.(runtime.Error)
			_, isErr := p.(error)
			o = observation{failure: isErr && !isRuntime, text: "error(" + num.ErrClass(p) + ")"}
		}
	}()
	var out interpreter.Value
	switch op {
	case "SaturatingPlus":
		out = av.SaturatingPlus(inter, bv)
	case "SaturatingMinus":
		out = av.SaturatingMinus(inter, bv)
	case "SaturatingMul":
		out = av.SaturatingMul(inter, bv)
	case "SaturatingDiv":
		out = av.SaturatingDiv(inter, bv)
	default:
		panic("fixsat: unknown op " + op)
	}
	raw, typ := num.Raw(out), string(out.StaticType(inter).ID())
	return observation{ok: true, val: raw, typ: typ, text: raw.String() + ":" + typ}
}

func literal(t *num.Type, raw *big.Int) string {
	one := pow10(t.Scale)
	ip, fp := new(big.Int).QuoRem(new(big.Int).Abs(raw), one, new(big.Int))
	s := fmt.Sprintf("%s.%0*s", ip, t.Scale, fp)
	if raw.Sign() < 0 {
		s = "-" + s
	}
	return "(" + s + " as " + t.Name + ")"
}

func expr(t *num.Type, op string, a, b *big.Int) string {
	return literal(t, a) + "." + member[op] + "(" + literal(t, b) + ")"
}

func cadRaw(v cadence.Value) (*big.Int, string, bool) {
	switch v := v.(type) {
	case cadence.Fix64:
		return big.NewInt(int64(v)), "Fix64", true
	case cadence.UFix64:
		return new(big.Int).SetUint64(uint64(v)), "UFix64", true
	case cadence.Fix128:
		return fixedpoint.Fix128ToBigInt(fix.Fix128(v)), "Fix128", true
	case cadence.UFix128:
		return fixedpoint.UFix128ToBigInt(fix.UFix128(v)), "UFix128", true
	}
	return nil, fmt.Sprintf("%T", v), false
}

func obsOf(res *rt.Result, v cadence.Value) observation {
	if !res.OK() {
		s := res.ErrString()
		if i := strings.Index(s, "error: "); i >= 0 {
			s = s[i:]
		}
		if len(s) > 100 {
			s = s[:100]
		}
		return observation{failure: res.Class == "user", text: "error(" + res.Class + ": " + strings.ReplaceAll(s, "\n", " ") + ")"}
	}
	raw, typ, ok := cadRaw(v)
	if !ok {
		return observation{text: "not a fixed-point value: " + typ}
	}
	return observation{ok: true, val: raw, typ: typ, text: raw.String() + ":" + typ}
}

func oneScript(vm bool, t *num.Type, e string) observation {
	res := rt.Run(rt.NewLedger(), rt.Tx{Source: "access(all) fun main(): " + t.Name + " { return " + e + " }", Script: true, UseVM: vm})
	return obsOf(res, res.Value)
}

func engineName(vm bool) string {
	if vm {
		return "vm"
	}
	return "interpreter"
}

func sig(c Case, bad, class string) string {
	site := c.Type + "." + c.Op
	if c.Layer == "script" {
		site = "script/" + c.Engine + ":" + site
	}
	return site + "|" + bad + "|" + class
}

func describe(c Case, d string) string {
	where := c.Layer
	if c.Engine != "" {
		where += "/" + c.Engine
	}
	return fmt.Sprintf("[%s] %s: raw %s .%s( raw %s ): %s", where, c.Type, c.A, member[c.Op], c.B, d)
}

func sortedSet(set map[string]*big.Int) []*big.Int {
	out := make([]*big.Int, 0, len(set))
	for _, v := range set {
		out = append(out, v)
	}
	sort.Slice(out, func(i, j int) bool { return out[i].Cmp(out[j]) < 0 })
	return out
}

// lattice: B(T) on the raw scaled integer (num.Lattice) plus ±k.0, ±k.5, the
// integer parts of the bounds, floor(sqrt(max*10^scale))±1 (a*a straddles max),
// max/3, max/10 (a/b and a*b straddle the range).
func lattice(t *num.Type, thorough bool) []*big.Int {
	set := map[string]*big.Int{}
	put := func(x *big.Int) {
		if t.InRange(x) {
			set[x.String()] = new(big.Int).Set(x)
		}
	}
	putPM := func(x *big.Int) {
		put(x)
		put(new(big.Int).Neg(x))
	}
	for _, v := range num.Lattice(t, thorough) {
		put(v)
	}
	one := pow10(t.Scale)
	for k := int64(1); k <= 3; k++ {
		kk := new(big.Int).Mul(one, big.NewInt(k))
		putPM(kk)
		putPM(new(big.Int).Sub(kk, new(big.Int).Rsh(one, 1)))
		putPM(new(big.Int).Add(kk, bigOne))
		putPM(new(big.Int).Sub(kk, bigOne))
	}
	for _, b := range []*big.Int{t.Min, t.Max} {
		ip := new(big.Int).Quo(b, one)
		for d := int64(-1); d <= 1; d++ {
			put(new(big.Int).Add(ip, big.NewInt(d)))
			put(new(big.Int).Add(new(big.Int).Mul(ip, one), big.NewInt(d)))
		}
		put(new(big.Int).Quo(b, big.NewInt(10)))
		put(new(big.Int).Quo(b, big.NewInt(3)))
	}
	s := new(big.Int).Sqrt(new(big.Int).Mul(t.Max, one))
	for d := int64(-1); d <= 1; d++ {
		putPM(new(big.Int).Add(s, big.NewInt(d)))
	}
	return sortedSet(set)
}

// reduced: the script-layer lattice.
func reduced(t *num.Type, thorough bool) []*big.Int {
	set := map[string]*big.Int{}
	put := func(x *big.Int) {
		if t.InRange(x) {
			set[x.String()] = new(big.Int).Set(x)
		}
	}
	putPM := func(x *big.Int) {
		put(x)
		put(new(big.Int).Neg(x))
	}
	one := pow10(t.Scale)
	put(big.NewInt(0))
	putPM(bigOne)
	putPM(big.NewInt(3))
	putPM(one)
	putPM(new(big.Int).Lsh(one, 1))
	putPM(new(big.Int).Rsh(one, 1))
	put(t.Min)
	put(t.Max)
	put(new(big.Int).Add(t.Min, bigOne))
	put(new(big.Int).Sub(t.Max, bigOne))
	s := new(big.Int).Sqrt(new(big.Int).Mul(t.Max, one))
	putPM(s)
	putPM(new(big.Int).Add(s, bigOne))
	if thorough {
		putPM(new(big.Int).Rsh(t.Max, 1))
		putPM(new(big.Int).Add(new(big.Int).Rsh(t.Max, 1), bigOne))
		putPM(new(big.Int).Quo(t.Max, one))
		putPM(new(big.Int).Add(one, bigOne))
		putPM(new(big.Int).Sub(one, bigOne))
	}
	return sortedSet(set)
}

// RunFixedSaturating enumerates the fixed-point part of C13 and reports through env.R
// (evaluations, non-trivial cases, outcome classes prefixed "fixed:", violations).
func RunFixedSaturating(env *mc.Env) {
	type job struct {
		t      *num.Type
		op     string
		as, bs []*big.Int
	}
	var jobs []job
	declared := map[string][]string{}
	for _, t := range num.FixedPoints() {
		ops := Ops(t)
		declared[t.Name] = ops
		L := lattice(t, env.Thorough())
		for _, op := range ops {
			for lo := 0; lo < len(L); lo += 32 {
				hi := lo + 32
				if hi > len(L) {
					hi = len(L)
				}
				jobs = append(jobs, job{t, op, L[lo:hi], L})
			}
		}
	}
	env.R.Set("fixed_point_saturating_members", declared)
	mc.ParallelFor(env, len(jobs), func(i int) {
		j := jobs[i]
		inter := newInter()
		classes := map[string]int64{}
		var n int64
		for _, a := range j.as {
			for _, b := range j.bs {
				o := callDirect(inter, j.t, j.op, a, b)
				n++
				c := Case{Family: "fixsat", Layer: "direct", Type: j.t.Name, Op: j.op, A: a.String(), B: b.String()}
				bad, class, detail := judge(j.t, j.op, a, b, o)
				if bad != "" {
					env.R.Violation(sig(c, bad, class), c, describe(c, detail))
					continue
				}
				key := "fixed:" + j.t.Name + "." + j.op + ":" + class
				if _, seen := classes[key]; !seen {
					kk, cc := key, c
					env.R.Class(kk, func() any { return cc })
					classes[key] = 0
				} else {
					classes[key]++
				}
				if class != "exact" {
					env.R.Nontrivial(fmt.Sprintf("%s|%s|%s", key, a, b))
				}
			}
		}
		env.R.EvalN(n)
		for k, v := range classes {
			if v > 0 {
				env.R.ClassN(k, v)
			}
		}
	})

	// script layer: a.saturatingAdd(b) etc. in both engines. Saturating members only fail on
	// division by zero, so everything else is batched into array-returning scripts.
	type sjob struct {
		t  *num.Type
		op string
		vm bool
	}
	var sjobs []sjob
	for _, t := range num.FixedPoints() {
		for _, op := range Ops(t) {
			for _, vm := range []bool{false, true} {
				sjobs = append(sjobs, sjob{t, op, vm})
			}
		}
	}
	mc.ParallelFor(env, len(sjobs), func(i int) {
		j := sjobs[i]
		R := reduced(j.t, env.Thorough())
		var cases []Case
		for _, a := range R {
			for _, b := range R {
				cases = append(cases, Case{Family: "fixsat", Layer: "script", Engine: engineName(j.vm), Type: j.t.Name, Op: j.op, A: a.String(), B: b.String()})
			}
		}
		obs := make([]observation, len(cases))
		var batch []int
		var scripts int64
		flush := func() {
			if len(batch) == 0 {
				return
			}
			var sb strings.Builder
			sb.WriteString("access(all) fun main(): [" + j.t.Name + "] { return [\n")
			for k, ci := range batch {
				if k > 0 {
					sb.WriteString(",\n")
				}
				sb.WriteString(expr(j.t, j.op, bi(cases[ci].A), bi(cases[ci].B)))
			}
			sb.WriteString("\n] }")
			res := rt.Run(rt.NewLedger(), rt.Tx{Source: sb.String(), Script: true, UseVM: j.vm})
			scripts++
			if arr, ok := res.Value.(cadence.Array); res.OK() && ok && len(arr.Values) == len(batch) {
				for k, ci := range batch {
					obs[ci] = obsOf(res, arr.Values[k])
				}
			} else {
				for _, ci := range batch {
					obs[ci] = oneScript(j.vm, j.t, expr(j.t, j.op, bi(cases[ci].A), bi(cases[ci].B)))
					scripts++
				}
			}
			batch = batch[:0]
		}
		for ci, c := range cases {
			if _, _, divzero := expect(j.t, j.op, bi(c.A), bi(c.B)); divzero {
				obs[ci] = oneScript(j.vm, j.t, expr(j.t, j.op, bi(c.A), bi(c.B)))
				scripts++
				continue
			}
			batch = append(batch, ci)
			if len(batch) == 100 {
				flush()
			}
		}
		flush()
		env.R.Add("fixed_scripts_executed", scripts)
		env.R.EvalN(int64(len(cases)))
		for ci, c := range cases {
			a, b := bi(c.A), bi(c.B)
			bad, class, detail := judge(j.t, j.op, a, b, obs[ci])
			if bad != "" {
				// a literal that is not read back as intended is not a C13 matter
				misread := ""
				for _, x := range []*big.Int{a, b} {
					if o := oneScript(j.vm, j.t, literal(j.t, x)); !o.ok || o.val.Cmp(x) != 0 {
						misread = fmt.Sprintf("literal %s did not evaluate to raw %s: %s", literal(j.t, x), x, o.text)
					}
				}
				if misread != "" {
					env.R.HarnessError("C13 fixed-point script layer: %s", misread)
					continue
				}
				env.R.Violation(sig(c, bad, class), c, describe(c, detail+" ; expression: "+expr(j.t, j.op, a, b)))
				continue
			}
			key := "fixed:script/" + c.Engine + ":" + c.Type + "." + c.Op + ":" + class
			cc := c
			env.R.Class(key, func() any { return cc })
			if class != "exact" {
				env.R.Nontrivial(fmt.Sprintf("%s|%s|%s", key, c.A, c.B))
			}
		}
	})
}

// ReplayFixedSaturating re-runs one recorded case. mine=false means the case
// was not produced by this package (the caller should use its own replay).
func ReplayFixedSaturating(env *mc.Env, raw json.RawMessage) (violated bool, detail string, mine bool) {
	var c Case
	if err := json.Unmarshal(raw, &c); err != nil || c.Family != "fixsat" {
		return false, "", false
	}
	t := num.ByName[c.Type]
	if t == nil || !t.IsFixed() || member[c.Op] == "" {
		return false, "fixsat: malformed case", true
	}
	a, b := bi(c.A), bi(c.B)
	var o observation
	if c.Layer == "script" {
		o = oneScript(c.Engine == "vm", t, expr(t, c.Op, a, b))
	} else {
		o = callDirect(newInter(), t, c.Op, a, b)
	}
	bad, class, d := judge(t, c.Op, a, b, o)
	return bad != "", describe(c, fmt.Sprintf("%s [%s %s]", d, bad, class)), true
}

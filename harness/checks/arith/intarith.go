package arith

import (
	"encoding/json"
	"fmt"
	"math/big"

	"github.com/onflow/cadence/interpreter"
	"github.com/onflow/cadence/sema"

	"verif/checks/fixsat"
	"verif/mc"
	"verif/num"
)

// C11–C14: direct calls of the value methods on all pairs of the boundary
// lattice (all 256x256 pairs for 8-bit types; every 16-bit value against every lattice value,
// both ways round, in the thorough tier), against a math/big reference.

type arithCase struct {
	Type string `json:"type"`
	Op   string `json:"op"`
	A    string `json:"a"`
	B    string `json:"b"`
}

func newInter() *interpreter.Interpreter {
	inter, err := interpreter.NewInterpreter(nil, nil, &interpreter.Config{
		Storage: interpreter.NewInMemoryStorage(nil, nil),
	})
	if err != nil {
		panic(err)
	}
	return inter
}

type arithResult struct {
	val *big.Int
	typ string
	err string // "", overflow, underflow, divzero, negshift, other:...
}

func callArith(inter *interpreter.Interpreter, t *num.Type, op string, a, b *big.Int) (res arithResult) {
	av := t.Make(a)
	var bv interpreter.NumberValue
	if b != nil {
		bv = t.Make(b)
	}
	defer func() {
		if p := recover(); p != nil {
			res = arithResult{err: num.ErrClass(p)}
		}
	}()
	var out interpreter.Value
	switch op {
	case "Plus":
		out = av.Plus(inter, bv)
	case "Minus":
		out = av.Minus(inter, bv)
	case "Mul":
		out = av.Mul(inter, bv)
	case "Div":
		out = av.Div(inter, bv)
	case "Mod":
		out = av.Mod(inter, bv)
	case "Negate":
		out = av.Negate(inter)
	case "SaturatingPlus":
		out = av.SaturatingPlus(inter, bv)
	case "SaturatingMinus":
		out = av.SaturatingMinus(inter, bv)
	case "SaturatingMul":
		out = av.SaturatingMul(inter, bv)
	case "SaturatingDiv":
		out = av.SaturatingDiv(inter, bv)
	case "Or":
		out = av.(interpreter.IntegerValue).BitwiseOr(inter, bv.(interpreter.IntegerValue))
	case "Xor":
		out = av.(interpreter.IntegerValue).BitwiseXor(inter, bv.(interpreter.IntegerValue))
	case "And":
		out = av.(interpreter.IntegerValue).BitwiseAnd(inter, bv.(interpreter.IntegerValue))
	case "Shl":
		out = av.(interpreter.IntegerValue).BitwiseLeftShift(inter, bv.(interpreter.IntegerValue))
	case "Shr":
		out = av.(interpreter.IntegerValue).BitwiseRightShift(inter, bv.(interpreter.IntegerValue))
	default:
		panic("unknown op " + op)
	}
	return arithResult{val: num.Raw(out), typ: string(out.StaticType(inter).ID())}
}

// exactInt computes the mathematical result of an integer op; ok=false means division by zero.
func exactInt(op string, a, b *big.Int) (*big.Int, bool) {
	r := new(big.Int)
	switch op {
	case "Plus", "SaturatingPlus":
		return r.Add(a, b), true
	case "Minus", "SaturatingMinus":
		return r.Sub(a, b), true
	case "Mul", "SaturatingMul":
		return r.Mul(a, b), true
	case "Div", "SaturatingDiv":
		if b.Sign() == 0 {
			return nil, false
		}
		return r.Quo(a, b), true // truncated toward zero
	case "Mod":
		if b.Sign() == 0 {
			return nil, false
		}
		return r.Rem(a, b), true // sign of the dividend
	case "Negate":
		return r.Neg(a), true
	}
	panic(op)
}

func modN(x *big.Int, bits int) *big.Int {
	m := new(big.Int).Lsh(big.NewInt(1), uint(bits))
	r := new(big.Int).Mod(x, m) // Euclidean: always >= 0
	return r
}

// toSigned interprets an n-bit pattern as two's complement.
func toSigned(x *big.Int, bits int) *big.Int {
	x = modN(x, bits)
	if x.Bit(bits-1) == 1 {
		return x.Sub(x, new(big.Int).Lsh(big.NewInt(1), uint(bits)))
	}
	return x
}

// judgeC11 returns "" if res is acceptable for the exact-or-fail rule.
func judgeExactOrFail(t *num.Type, op string, a, b *big.Int, res arithResult) (string, string) {
	exact, ok := exactInt(op, a, b)
	if !ok {
		if res.err != "divzero" {
			return "divzero-expected", fmt.Sprintf("expected division-by-zero error, got %s", showRes(res))
		}
		return "", "divzero"
	}
	if t.InRange(exact) {
		if res.err != "" {
			return "spurious-" + res.err, fmt.Sprintf("exact result %s is representable but got %s", exact, showRes(res))
		}
		if res.val.Cmp(exact) != 0 {
			return "wrong-value", fmt.Sprintf("exact %s, got %s", exact, showRes(res))
		}
		if res.typ != t.Name {
			return "wrong-type", fmt.Sprintf("result type %s", res.typ)
		}
		return "", "exact"
	}
	if res.err != "overflow" && res.err != "underflow" {
		return "no-failure-out-of-range", fmt.Sprintf("exact result %s is out of range but got %s", exact, showRes(res))
	}
	return "", "rangefail"
}

func showRes(r arithResult) string {
	if r.err != "" {
		return "error(" + r.err + ")"
	}
	return r.val.String() + ":" + r.typ
}

func bi(s string) *big.Int {
	x, ok := new(big.Int).SetString(s, 10)
	if !ok {
		panic("bad int " + s)
	}
	return x
}

type arithProp struct {
	id    string
	types func() []*num.Type
	ops   func(t *num.Type) []string
	judge func(t *num.Type, op string, a, b *big.Int, res arithResult) (sigClass string, class string)
	// operandsB lets the property widen the second operand (shift amounts)
	operandsB func(t *num.Type, op string, base []*big.Int) []*big.Int
	// bType is the type used to build b (shift amount has the same type in Cadence)
}

func saturatingOps(t *num.Type) []string {
	st, ok := t.Sema.(sema.SaturatingArithmeticType)
	if !ok {
		return nil
	}
	var ops []string
	if st.SupportsSaturatingAdd() {
		ops = append(ops, "SaturatingPlus")
	}
	if st.SupportsSaturatingSubtract() {
		ops = append(ops, "SaturatingMinus")
	}
	if st.SupportsSaturatingMultiply() {
		ops = append(ops, "SaturatingMul")
	}
	if st.SupportsSaturatingDivide() {
		ops = append(ops, "SaturatingDiv")
	}
	return ops
}

func intTypes(kinds ...num.Kind) func() []*num.Type {
	return func() []*num.Type {
		var out []*num.Type
		for _, t := range num.Integers() {
			for _, k := range kinds {
				if t.Kind == k {
					out = append(out, t)
				}
			}
		}
		return out
	}
}

var arithProps = map[string]*arithProp{
	"C11": {
		id:    "C11",
		types: intTypes(num.Int, num.UInt),
		ops: func(t *num.Type) []string {
			ops := []string{"Plus", "Minus", "Mul", "Div", "Mod"}
			if t.Signed() {
				ops = append(ops, "Negate")
			}
			return ops
		},
		judge: judgeExactOrFail,
	},
	"C12": {
		id:    "C12",
		types: intTypes(num.Word),
		ops:   func(t *num.Type) []string { return []string{"Plus", "Minus", "Mul", "Div", "Mod"} },
		judge: func(t *num.Type, op string, a, b *big.Int, res arithResult) (string, string) {
			exact, ok := exactInt(op, a, b)
			if !ok {
				if res.err != "divzero" {
					return "divzero-expected", "expected division-by-zero error, got " + showRes(res)
				}
				return "", "divzero"
			}
			want := modN(exact, t.Bits)
			if res.err != "" {
				return "failed-" + res.err, fmt.Sprintf("Word arithmetic must not fail; expected %s got %s", want, showRes(res))
			}
			if res.val.Cmp(want) != 0 {
				return "wrong-value", fmt.Sprintf("expected %s (exact %s mod 2^%d), got %s", want, exact, t.Bits, showRes(res))
			}
			if res.typ != t.Name {
				return "wrong-type", "result type " + res.typ
			}
			if t.InRange(exact) {
				return "", "exact"
			}
			return "", "wrapped"
		},
	},
	"C13": {
		id: "C13",
		types: func() []*num.Type {
			var out []*num.Type
			for _, t := range num.Integers() {
				if len(saturatingOps(t)) > 0 {
					out = append(out, t)
				}
			}
			return out
		},
		ops: saturatingOps,
		judge: func(t *num.Type, op string, a, b *big.Int, res arithResult) (string, string) {
			exact, ok := exactInt(op, a, b)
			if !ok {
				if res.err != "divzero" {
					return "divzero-expected", "expected division-by-zero error, got " + showRes(res)
				}
				return "", "divzero"
			}
			want := exact
			class := "exact"
			if t.Min != nil && exact.Cmp(t.Min) < 0 {
				want, class = t.Min, "clamped-min"
			}
			if t.Max != nil && exact.Cmp(t.Max) > 0 {
				want, class = t.Max, "clamped-max"
			}
			if res.err != "" {
				return "failed-" + res.err, fmt.Sprintf("saturating op must not fail; expected %s got %s", want, showRes(res))
			}
			if res.val.Cmp(want) != 0 {
				return "wrong-value-" + class, fmt.Sprintf("expected %s (exact %s), got %s", want, exact, showRes(res))
			}
			if res.typ != t.Name {
				return "wrong-type", "result type " + res.typ
			}
			return "", class
		},
	},
	"C14": {
		id:    "C14",
		types: intTypes(num.Int, num.UInt, num.Word),
		ops:   func(t *num.Type) []string { return []string{"Or", "Xor", "And", "Shl", "Shr"} },
		operandsB: func(t *num.Type, op string, base []*big.Int) []*big.Int {
			if op != "Shl" && op != "Shr" {
				return base
			}
			set := map[string]*big.Int{}
			put := func(x *big.Int) {
				if t.InRange(x) {
					set[x.String()] = x
				}
			}
			w := t.Bits
			if w == 0 {
				w = 256
			}
			for i := 0; i <= w+1; i++ {
				put(big.NewInt(int64(i)))
			}
			ks := []uint{31, 32, 63, 64}
			if t.Bits == 0 && op == "Shl" {
				// a left shift of an unbounded integer allocates n bits: keep n small, or beyond uint64 (must fail or be trivial)
				ks = nil
				for _, n := range []int64{1000, 4096, 65536} {
					put(big.NewInt(n))
				}
				p := new(big.Int).Lsh(big.NewInt(1), 64)
				put(p)
				put(new(big.Int).Add(p, big.NewInt(1)))
			}
			for _, k := range ks {
				p := new(big.Int).Lsh(big.NewInt(1), k)
				for d := int64(-1); d <= 1; d++ {
					put(new(big.Int).Add(p, big.NewInt(d)))
				}
			}
			for _, d := range []int64{-1, -2, -128} {
				put(big.NewInt(d))
			}
			if t.Min != nil {
				put(t.Min)
			}
			if t.Max != nil {
				put(t.Max)
			}
			if t.Bits == 0 {
				put(new(big.Int).Lsh(big.NewInt(1), 100))
			}
			var out []*big.Int
			for _, v := range set {
				out = append(out, v)
			}
			sortBig(out)
			return out
		},
		judge: judgeBitwise,
	},
}

func sortBig(xs []*big.Int) {
	for i := 1; i < len(xs); i++ {
		for j := i; j > 0 && xs[j-1].Cmp(xs[j]) > 0; j-- {
			xs[j-1], xs[j] = xs[j], xs[j-1]
		}
	}
}

func judgeBitwise(t *num.Type, op string, a, b *big.Int, res arithResult) (string, string) {
	fits := func(x *big.Int) *big.Int { // reduce to the type's width and signedness
		if t.Bits == 0 {
			return x
		}
		if t.Signed() {
			return toSigned(x, t.Bits)
		}
		return modN(x, t.Bits)
	}
	var want *big.Int
	class := "bitop"
	switch op {
	case "Or", "Xor", "And":
		// math/big implements two's-complement semantics with infinite sign extension,
		// which restricted to the width is the operation at the type's width.
		r := new(big.Int)
		switch op {
		case "Or":
			r.Or(a, b)
		case "Xor":
			r.Xor(a, b)
		case "And":
			r.And(a, b)
		}
		want = fits(r)
	case "Shl", "Shr":
		if b.Sign() < 0 {
			if res.err != "negshift" {
				return "negshift-expected", "negative shift amount must fail, got " + showRes(res)
			}
			return "", "negshift"
		}
		if t.Bits == 0 && !b.IsUint64() && res.err == "overflow" {
			// unbounded types may fail with overflow when n does not fit in 64 bits
			return "", "huge-shift-overflow"
		}
		var n uint
		huge := true
		if b.IsUint64() && b.Uint64() <= 1<<21 {
			n, huge = uint(b.Uint64()), false
		}
		if op == "Shl" {
			class = "shl"
			switch {
			case !huge:
				want = fits(new(big.Int).Lsh(a, n))
			case t.Bits > 0 || a.Sign() == 0:
				want = big.NewInt(0)
			default:
				// the enumerator never asks an unbounded type for a result of more than 2^21 bits
				return "", "huge-shift-skipped"
			}
		} else {
			class = "shr"
			if huge {
				if a.Sign() < 0 {
					want = big.NewInt(-1)
				} else {
					want = big.NewInt(0)
				}
			} else {
				want = new(big.Int).Rsh(a, n) // floor division (arithmetic shift)
			}
		}
		if huge || (t.Bits > 0 && n >= uint(t.Bits)) {
			class += "-ge-width"
		}
	}
	if res.err != "" {
		return "failed-" + res.err, fmt.Sprintf("expected %s, got %s", want, showRes(res))
	}
	if res.val.Cmp(want) != 0 {
		return "wrong-value-" + class, fmt.Sprintf("expected %s, got %s", want, showRes(res))
	}
	if res.typ != t.Name {
		return "wrong-type", "result type " + res.typ
	}
	return "", class
}

func runArith(p *arithProp) func(env *mc.Env) {
	return func(env *mc.Env) {
		type job struct {
			t  *num.Type
			op string
			as []*big.Int
			bs []*big.Int
			lo int // slice of as handled by this job
			hi int
		}
		var jobs []job
		for _, t := range p.types() {
			lattice := num.Lattice(t, env.Thorough())
			// thorough tier, 16-bit types: every value of the type against every lattice value, both ways round
			// (all 2^32 pairs would be 10^11 calls over the family; the cross with the lattice is 10^7 per operator)
			var full []*big.Int
			if t.Bits == 16 && env.Thorough() {
				lo, hi := int64(0), int64(65535)
				if t.Signed() {
					lo, hi = -32768, 32767
				}
				for i := lo; i <= hi; i++ {
					full = append(full, big.NewInt(i))
				}
			}
			for _, op := range p.ops(t) {
				addJobs := func(as, bs []*big.Int) {
					if p.operandsB != nil && (op == "Shl" || op == "Shr") {
						bs = p.operandsB(t, op, lattice)
					}
					if op == "Negate" {
						bs = []*big.Int{nil}
					}
					chunk := 64
					if len(as) > 4096 {
						chunk = 2048
					}
					for lo := 0; lo < len(as); lo += chunk {
						hi := lo + chunk
						if hi > len(as) {
							hi = len(as)
						}
						jobs = append(jobs, job{t, op, as, bs, lo, hi})
					}
				}
				addJobs(lattice, lattice)
				if full != nil {
					addJobs(full, lattice)
					if op != "Negate" && op != "Shl" && op != "Shr" {
						addJobs(lattice, full)
					}
				}
			}
		}
		mc.ParallelFor(env, len(jobs), func(i int) {
			j := jobs[i]
			inter := newInter()
			classes := map[string]int64{}
			var n int64
			for _, a := range j.as[j.lo:j.hi] {
				for _, b := range j.bs {
					res := callArith(inter, j.t, j.op, a, b)
					n++
					bad, class := p.judge(j.t, j.op, a, b, res)
					if bad != "" {
						c := arithCase{Type: j.t.Name, Op: j.op, A: a.String()}
						if b != nil {
							c.B = b.String()
						}
						env.R.Violation(fmt.Sprintf("%s.%s|%s", j.t.Name, j.op, bad), c,
							fmt.Sprintf("%s.%s(%s, %v): %s", j.t.Name, j.op, a, b, class))
						continue
					}
					key := j.t.Name + "." + j.op + ":" + class
					classes[key]++
					if class != "exact" && class != "bitop" {
						if len(j.as) > 4096 || len(j.bs) > 4096 {
							// complete 16-bit sweeps: distinct by (class, the swept operand) to bound memory
							env.R.Nontrivial(fmt.Sprintf("%s|%v|sweep", key, a))
						} else {
							env.R.Nontrivial(fmt.Sprintf("%s|%s|%v", key, a, b))
						}
					}
				}
			}
			env.R.EvalN(n)
			for k, v := range classes {
				kk := k
				aa, bb := j.as[j.lo], j.bs[0]
				env.R.Class(kk, func() any { return fmt.Sprintf("%s a=%v b=%v (first pair of the block)", kk, aa, bb) })
				env.R.ClassN(kk, v-1)
			}
		})
	}
}

func replayArith(p *arithProp) func(env *mc.Env, raw json.RawMessage) (bool, string) {
	return func(env *mc.Env, raw json.RawMessage) (bool, string) {
		var c arithCase
		if err := json.Unmarshal(raw, &c); err != nil {
			return false, err.Error()
		}
		t := num.ByName[c.Type]
		var b *big.Int
		if c.B != "" {
			b = bi(c.B)
		}
		a := bi(c.A)
		res := callArith(newInter(), t, c.Op, a, b)
		bad, class := p.judge(t, c.Op, a, b, res)
		return bad != "", fmt.Sprintf("%s.%s(%s,%s) -> %s [%s %s]", c.Type, c.Op, c.A, c.B, showRes(res), bad, class)
	}
}

func init() {
	rules := map[string]string{
		"C11": "every (type, op, a, b) with a,b from the boundary lattice B(T) (all 256x256 pairs for 8-bit types; every 16-bit value x every lattice value, both ways round, in the thorough tier) on Plus/Minus/Mul/Div/Mod/Negate of Int8..Int256, UInt8..UInt256, Int, UInt, compared with math/big; non-trivial = distinct case whose exact result is out of range or divides by zero",
		"C12": "every (Word type, op, a, b) over the lattice (complete for Word8; every Word16 value x lattice in thorough), compared with math/big reduced mod 2^n; non-trivial = wrapped or division by zero",
		"C13": "every (type, saturating op, a, b) over the lattice for every integer AND fixed-point type whose sema type declares the member (integers: this package; Fix64/UFix64/Fix128/UFix128: package fixsat, classes prefixed fixed:); non-trivial = clamped or division by zero",
		"C14": "every (type, bit op, a, b) over the lattice, shift amounts 0..width+1, around 2^31/2^32/2^63/2^64, negatives, type max; non-trivial = shift or negative-shift cases",
	}
	for id, p := range arithProps {
		run, replay := runArith(p), replayArith(p)
		if id == "C13" {
			// the fixed-point saturating members (Fix64, UFix64, Fix128, UFix128) live in package fixsat
			intRun, intReplay := run, replay
			run = func(env *mc.Env) {
				intRun(env)
				fixsat.RunFixedSaturating(env)
			}
			replay = func(env *mc.Env, raw json.RawMessage) (bool, string) {
				if v, d, mine := fixsat.ReplayFixedSaturating(env, raw); mine {
					return v, d
				}
				return intReplay(env, raw)
			}
		}
		mc.Register(&mc.Check{
			ID:          id,
			Rule:        rules[id],
			Assumptions: []string{"math/big is the reference arithmetic", "value methods called directly with a fresh interpreter context; operator dispatch from programs is covered by the script layer of C34/C52"},
			Run:         run,
			Replay:      replay,
		})
	}
}

package front

import (
	"encoding/json"
	"fmt"
	"sort"
	"strings"

	"github.com/onflow/cadence/ast"
	"github.com/onflow/cadence/formatter"
	"github.com/onflow/cadence/parser"
	"github.com/onflow/cadence/parser/lexer"

	"verif/gen/srcgen"
	"verif/mc"
)

// C39: for every source the parser accepts, formatter.Format either reports an
// error or returns a source that (1) parses to the same AST apart from
// positions (imports may be reordered), (2) contains every comment of the
// input exactly once with its text unchanged, (3) is a fixed point.

type fmtOpts struct {
	Width     int  `json:"w"`
	Tab       bool `json:"tab,omitempty"`
	Sort      bool `json:"sort,omitempty"`
	Strip     bool `json:"strip,omitempty"`
	KeepBlank int  `json:"keep"`
}

func (o fmtOpts) options() formatter.Options {
	opts := formatter.Default()
	opts.LineWidth = o.Width
	if o.Tab {
		opts.IndentCharacter, opts.IndentCount = "\t", 1
	}
	opts.SortImports = o.Sort
	opts.StripSemicolons = o.Strip
	opts.KeepBlankLines = o.KeepBlank
	return opts
}

var defaultFmtOpts = fmtOpts{Width: 100, Sort: true, Strip: true, KeepBlank: 1}

type c39Case struct {
	Src  string  `json:"src"`
	Opts fmtOpts `json:"opts"`
	// Ctx is the structural class of the case computed by the enumerator
	// (node kinds around the inserted comment), kept for the signature.
	Ctx string `json:"ctx,omitempty"`
}

// scanComments is an independent comment scanner for Cadence source: line
// comments, nested block comments, string literals with escapes and (nested)
// template interpolations. Returns the exact comment texts in order.
func scanComments(src string) []string {
	var out []string
	var interp []int // open-paren depth of each active interpolation
	i, n := 0, len(src)
	inStringBody := false
	for i < n {
		if inStringBody {
			c := src[i]
			switch {
			case c == '\\' && i+1 < n && src[i+1] == '(':
				interp = append(interp, 1)
				inStringBody = false
				i += 2
			case c == '\\' && i+1 < n:
				i += 2
			case c == '"' || c == '\n':
				inStringBody = false
				i++
			default:
				i++
			}
			continue
		}
		c := src[i]
		switch {
		case c == '"':
			inStringBody = true
			i++
		case c == '/' && i+1 < n && src[i+1] == '/':
			j := i
			for j < n && src[j] != '\n' {
				j++
			}
			out = append(out, strings.TrimRight(src[i:j], " \t\r"))
			i = j
		case c == '/' && i+1 < n && src[i+1] == '*':
			depth := 1
			j := i + 2
			for j < n && depth > 0 {
				if src[j] == '/' && j+1 < n && src[j+1] == '*' {
					depth++
					j += 2
				} else if src[j] == '*' && j+1 < n && src[j+1] == '/' {
					depth--
					j += 2
				} else {
					j++
				}
			}
			out = append(out, src[i:j])
			i = j
		case c == '(' && len(interp) > 0:
			interp[len(interp)-1]++
			i++
		case c == ')' && len(interp) > 0:
			interp[len(interp)-1]--
			if interp[len(interp)-1] == 0 {
				interp = interp[:len(interp)-1]
				inStringBody = true
			}
			i++
		default:
			i++
		}
	}
	return out
}

func sortedCopy(xs []string) []string {
	ys := append([]string{}, xs...)
	sort.Strings(ys)
	return ys
}

// normalizeImports puts the import declarations of a stripped program tree in
// canonical order at the positions imports occupy ("imports may be reordered").
func normalizeImports(tree any) {
	m, ok := tree.(map[string]any)
	if !ok {
		return
	}
	decls, ok := m["Declarations"].([]any)
	if !ok {
		return
	}
	var idx []int
	var imps []any
	for i, d := range decls {
		if dm, ok := d.(map[string]any); ok && dm["Type"] == "ImportDeclaration" {
			idx = append(idx, i)
			imps = append(imps, d)
		}
	}
	sort.SliceStable(imps, func(i, j int) bool { return canon(imps[i]) < canon(imps[j]) })
	for k, i := range idx {
		decls[i] = imps[k]
	}
}

type c39Outcome struct {
	class  string // "rejected" | "format-error:..." | "ok" | violation kind | "dontcare:..."
	sig    string
	detail string
	out    string
}

func errClass(err error) string {
	s := err.Error()
	switch {
	case strings.Contains(s, "orphaned comments"):
		return "orphaned-comments"
	case strings.Contains(s, "round-trip verification failed"):
		return "verify-failed"
	case strings.Contains(s, "rewrite failed"):
		return "rewrite-failed"
	case strings.HasPrefix(s, "parse error"):
		return "parse"
	}
	return "other"
}

// c39One runs the formatter on one source and judges the result. ctx is the
// enumerator's structural class for the signature ("" = derive from the AST).
func c39One(src string, o fmtOpts, ctx string) c39Outcome {
	// the formatter parses with the default configuration; so does the oracle
	prog, err := parseProg(src, parser.Config{})
	if err != nil {
		return c39Outcome{class: "rejected"}
	}
	opts := o.options()
	var outB []byte
	var ferr error
	panicked, val, stack := mc.Guard(func() { outB, ferr = formatter.Format([]byte(src), opts) })
	mkctx := func(kind string) string {
		if ctx != "" {
			return kind + "|" + ctx
		}
		label, _ := localize(prog, canonicalPrint)
		if label == "Program" {
			label = programShape(prog)
		}
		return kind + "|" + label
	}
	if panicked {
		// "either reports an error or returns a source": a panic is neither
		return c39Outcome{class: "format-panics", sig: mkctx("format-panics"),
			detail: fmt.Sprintf("Format panicked: %v\nsource: %q\n%s", val, src, trunc(stack, 1500))}
	}
	if ferr != nil {
		return c39Outcome{class: "format-error:" + errClass(ferr)}
	}
	out := string(outB)
	prog2, err2 := parseProg(out, parser.Config{})
	if err2 != nil {
		return c39Outcome{class: "output-does-not-parse", sig: mkctx("output-does-not-parse"), out: out,
			detail: fmt.Sprintf("source %q formats (opts %+v) to %q which does not parse: %s", src, o, out, errKinds(err2))}
	}
	same, d, terr := sameAST(prog, prog2, normalizeImports)
	if terr != nil {
		return c39Outcome{class: "harness", detail: fmt.Sprintf("cannot marshal AST: %v", terr)}
	}
	if !same {
		return c39Outcome{class: "ast-differs", sig: mkctx("ast-differs"), out: out,
			detail: fmt.Sprintf("source %q formats (opts %+v) to %q which parses to a different AST: %s", src, o, out, d)}
	}
	// comments: multiset of exact texts
	cin, cout := sortedCopy(scanComments(src)), sortedCopy(scanComments(out))
	if strings.Join(cin, "\x00") != strings.Join(cout, "\x00") {
		kind := "comment-changed"
		switch {
		case len(cout) < len(cin):
			kind = "comment-lost"
		case len(cout) > len(cin):
			kind = "comment-duplicated"
		}
		return c39Outcome{class: kind, sig: mkctx(kind), out: out,
			detail: fmt.Sprintf("source %q formats (opts %+v) to %q: comments %q became %q", src, o, out, cin, cout)}
	}
	// fixed point
	var out2B []byte
	var ferr2 error
	panicked, val, _ = mc.Guard(func() { out2B, ferr2 = formatter.Format(outB, opts) })
	if panicked {
		return c39Outcome{class: "second-format-panics", sig: mkctx("second-format-panics"), out: out,
			detail: fmt.Sprintf("formatting the formatter's own output %q panicked: %v", out, val)}
	}
	if ferr2 != nil {
		return c39Outcome{class: "second-format-errors", sig: mkctx("second-format-errors:" + errClass(ferr2)), out: out,
			detail: fmt.Sprintf("source %q formats (opts %+v) to %q, which the formatter then rejects: %s", src, o, out, trunc(ferr2.Error(), 300))}
	}
	if string(out2B) != out {
		return c39Outcome{class: "not-idempotent", sig: mkctx("not-idempotent:" + layoutClass(out, string(out2B))), out: out,
			detail: fmt.Sprintf("source %q formats (opts %+v) to %q, and that formats to %q", src, o, out, string(out2B))}
	}
	return c39Outcome{class: "ok", out: out}
}

// layoutClass says how the second formatting pass differs from the first.
func layoutClass(a, b string) string {
	squash := func(s string) string { return strings.Join(strings.Fields(s), "") }
	if squash(a) != squash(b) {
		return "tokens-move"
	}
	na, nb := strings.Count(a, "\n"), strings.Count(b, "\n")
	switch {
	case nb < na:
		return "lines-join"
	case nb > na:
		return "lines-split"
	}
	return "spacing"
}

// programShape names the kinds of the top-level declarations (collapsed).
func programShape(p *ast.Program) string {
	var ks []string
	for _, d := range p.Declarations() {
		k := elemKind(d)
		if len(ks) == 0 || ks[len(ks)-1] != k {
			ks = append(ks, k)
		}
	}
	if len(ks) > 3 {
		ks = ks[:3]
	}
	return "Program[" + strings.Join(ks, ",") + "]"
}

// ---------------------------------------------------------------------------
// token gaps

type gap struct {
	Offset int
	Prev   string // token class before the gap
	Next   string // token class after the gap
}

var gapKeywords = map[string]bool{}

func init() {
	for _, k := range strings.Fields("if else while break continue return true false nil let var fun as create destroy for in emit auth access all self init contract account import from pre post event struct resource interface entitlement mapping transaction prepare execute case switch default enum view attachment attach remove to require include guard") {
		gapKeywords[k] = true
	}
}

func tokenClass(t lexer.Token, src []byte) string {
	switch t.Type {
	case lexer.TokenIdentifier:
		w := string(t.Source(src))
		if gapKeywords[w] {
			return w
		}
		return "ident"
	case lexer.TokenSpace:
		return "space"
	case lexer.TokenEOF:
		return "EOF"
	case lexer.TokenString:
		return "string"
	case lexer.TokenDecimalIntegerLiteral, lexer.TokenBinaryIntegerLiteral, lexer.TokenOctalIntegerLiteral,
		lexer.TokenHexadecimalIntegerLiteral, lexer.TokenUnknownBaseIntegerLiteral, lexer.TokenFixedPointNumberLiteral:
		return "number"
	}
	return strings.Trim(t.Type.String(), "`")
}

// tokenGaps returns the offsets at the start of every non-space token (and at
// end of input) where a comment may be inserted without landing inside a
// string literal's text. Prev/Next are the neighbouring non-space tokens.
func tokenGaps(src string) []gap {
	b := []byte(src)
	ts, err := lexer.Lex(b, nil)
	if err != nil {
		return nil
	}
	defer ts.Reclaim()
	var gaps []gap
	prev := "BOF"
	for {
		t := ts.Next()
		if t.Type == lexer.TokenError {
			continue
		}
		if t.Type == lexer.TokenSpace {
			continue
		}
		cls := tokenClass(t, b)
		inString := false
		if t.Type == lexer.TokenStringTemplate {
			inString = true
		}
		if t.Type == lexer.TokenString && t.StartPos.Offset < len(b) && b[t.StartPos.Offset] != '"' {
			inString = true // continuation of a template after `)`
		}
		off := t.StartPos.Offset
		if t.Type == lexer.TokenEOF {
			off = len(b)
		}
		if !inString {
			gaps = append(gaps, gap{Offset: off, Prev: prev, Next: cls})
		}
		if t.Type == lexer.TokenEOF {
			break
		}
		prev = cls
	}
	return gaps
}

// gapClass is the structural class of a comment position: "template" when
// the gap lies inside a string-template interpolation; otherwise the kind of
// the innermost enclosing statement / declaration, with expressions and types
// collapsed to "expr" / "type" under it (e.g. "expr<ReturnStatement").
func gapClass(p *ast.Program, off int) string {
	var chain []ast.Element
	var rec func(e ast.Element)
	rec = func(e ast.Element) {
		hp, ok := e.(ast.HasPosition)
		if !ok {
			return
		}
		s, en := hp.StartPosition().Offset, hp.EndPosition(nil).Offset
		if off < s || off > en+1 {
			return
		}
		chain = append(chain, e)
		n := len(chain)
		for _, c := range children(e) {
			rec(c)
			if len(chain) > n {
				return
			}
		}
	}
	for _, d := range p.Declarations() {
		rec(d)
		if len(chain) > 0 {
			break
		}
	}
	if len(chain) == 0 {
		return "Program"
	}
	for _, e := range chain {
		if e.ElementType() == ast.ElementTypeStringTemplateExpression {
			return "template"
		}
	}
	// innermost statement/declaration-like element
	host := "Program"
	inner := ""
	for _, e := range chain {
		switch e.(type) {
		case ast.Declaration, ast.Statement:
			host, inner = elemKind(e), ""
			continue
		}
		switch e.(type) {
		case ast.Expression:
			if inner == "" {
				inner = "expr"
			}
		case ast.Type, *ast.TypeAnnotation:
			if inner == "" || inner == "expr" {
				inner = "type"
			}
		default:
			k := elemKind(e)
			if k == "Block" || k == "FunctionBlock" || k == "Argument" {
				continue
			}
			host, inner = k, ""
		}
	}
	if inner != "" {
		return inner + "<" + host
	}
	return host
}

// comment spellings inserted at a gap; %s is the unique marker
var commentKinds = []struct{ name, class, text string }{
	{"block", "block", "/*%s*/"},
	{"line", "line", "//%s\n"},
	{"ownline", "line", "\n//%s\n"},
	{"ownblock", "block", "\n/*%s*/\n"},
	// two comment groups at one gap, separated by a blank line (the second group is a
	// "leftover" for the attachment pass when the gap follows the last child of a container)
	{"groups-line", "line", "\n//%[1]s\n\n//%[1]sB\n"},
	{"groups-block", "block", "\n/*%[1]s*/\n\n/*%[1]sB*/\n"},
	// a same-line comment directly followed by an own-line comment (two groups at one gap, no blank line)
	{"same+own-block-line", "block+line", "/*%[1]s*/\n//%[1]sB\n"},
	{"same+own-line-line", "line+line", "//%[1]s\n//%[1]sB\n"},
	{"same+own-block-block", "block+block", "/*%[1]s*/\n/*%[1]sB*/\n"},
	{"same2+own-block", "blocks+block", "/*%[1]s*/ /*%[1]sB*/\n/*%[1]sC*/"},
	{"doc", "docline", "///%s\n"},
	{"docblock", "docblock", "/**%s*/"},
}

// sameOwnHalves: the single-comment kinds (indices into commentKinds) a same-line + own-line kind is made of.
var sameOwnHalves = map[string][2]int{
	"same+own-block-line":  {0, 2},
	"same+own-line-line":   {1, 2},
	"same+own-block-block": {0, 3},
	"same2+own-block":      {0, 3},
}

// afterSeparator: token classes after which list elements / members / statements start.
var afterSeparator = map[string]bool{",": true, "(": true, "[": true, "{": true, ":": true, ";": true, "<": true}

func insertAt(src string, off int, text string) string {
	return src[:off] + text + src[off:]
}

// ---------------------------------------------------------------------------

// pairCtx is the (deliberately coarse) class of a two-comment case whose
// single-comment halves both pass: the two comment classes and whether the
// first comment sits in a declaration, a statement, or a string template.
func pairCtx(a, b string) string {
	ca, pa, _ := strings.Cut(a, "|")
	cb, _, _ := strings.Cut(b, "|")
	host := pa
	if i := strings.IndexByte(host, '<'); i >= 0 {
		host = host[i+1:]
	}
	switch {
	case host == "template":
	case strings.HasSuffix(host, "Statement"):
		host = "stmt"
	default:
		host = "decl"
	}
	return "pair|" + ca + "+" + cb + "|" + host
}

type c39Job struct {
	src  string
	opts fmtOpts
	ctx  string
	fam  string
	// alts are simpler cases this one is built from (a single comment of a
	// pair, the same source under default options). If the job violates the
	// property and one of its alts does too, the violation is attributed to
	// that alt's signature: it carries no new information.
	alts []c39Job
}

func runC39(env *mc.Env) {
	thorough := env.Thorough()
	full := srcgen.All(srcgen.Config{Depth: 2, TypeDepth: 2})
	small := srcgen.All(srcgen.Config{Depth: 1, TypeDepth: 1, Small: !thorough})
	env.R.Set("corpus_full", len(full))

	var jobs []c39Job

	// (a) every corpus program, no comment, default options
	for _, p := range full {
		jobs = append(jobs, c39Job{src: p.Src, opts: defaultFmtOpts, fam: "plain"})
	}

	// (b) a comment at every token gap of the (smaller) corpus, every spelling
	nKinds := mc.Pick(env, 10, len(commentKinds))
	var accepted []srcgen.Program
	single := func(p srcgen.Program, prog *ast.Program, g gap, k int, marker string) c39Job {
		ck := commentKinds[k]
		ctx := fmt.Sprintf("%s|%s", ck.class, gapClass(prog, g.Offset))
		return c39Job{src: insertAt(p.Src, g.Offset, fmt.Sprintf(ck.text, marker)), opts: defaultFmtOpts, ctx: ctx, fam: "comment1:" + ck.name}
	}
	for _, p := range small {
		prog, err := parseProg(p.Src, parser.Config{})
		if err != nil {
			continue
		}
		accepted = append(accepted, p)
		for gi, g := range tokenGaps(p.Src) {
			for k := 0; k < nKinds; k++ {
				if !thorough && k >= 2 && gi%3 != 0 && !(k >= 6 && afterSeparator[g.Prev]) {
					// quick tier: own-line spellings at every third gap; the same-line + own-line
					// pairs additionally at every gap that follows a separator or an opener
					continue
				}
				j := single(p, prog, g, k, "c1")
				if halves, ok := sameOwnHalves[commentKinds[k].name]; ok {
					// coarse position class, as for comment pairs: declaration / statement / template
					_, host, _ := strings.Cut(pairCtx(j.ctx, j.ctx), "|")
					_, host, _ = strings.Cut(host, "|")
					j.ctx = "sameown|" + commentKinds[k].class + "|" + host
					// a same-line + own-line pair that fails is attributed to one of its
					// single-comment halves if that half fails alone (it carries no new information)
					j.alts = []c39Job{single(p, prog, g, halves[0], "c1"), single(p, prog, g, halves[1], "c1B")}
				}
				jobs = append(jobs, j)
			}
		}
	}
	env.R.Set("corpus_commented", len(accepted))

	// (c) comments at every pair of gaps, for the 200 smallest programs (spread over the families)
	var smallest []srcgen.Program
	for _, p := range accepted {
		if len(tokenGaps(p.Src)) <= 12 {
			smallest = append(smallest, p)
		}
	}
	sort.SliceStable(smallest, func(i, j int) bool { return len(smallest[i].Src) < len(smallest[j].Src) })
	smallest = spread(smallest, mc.Pick(env, 200, 600)) // at most 12 gaps each: <= 91 pairs
	for _, p := range smallest {
		prog, err := parseProg(p.Src, parser.Config{})
		if err != nil {
			continue
		}
		gs := tokenGaps(p.Src)
		for i := 0; i < len(gs); i++ {
			for j := i; j < len(gs); j++ {
				for k, pair := range [][2]int{{0, 0}, {1, 0}, {0, 1}, {1, 1}} {
					if !thorough && k == 3 {
						continue
					}
					a, b := single(p, prog, gs[i], pair[0], "c1"), single(p, prog, gs[j], pair[1], "c2")
					// insert the later one first so offsets stay valid
					s := insertAt(p.Src, gs[j].Offset, fmt.Sprintf(commentKinds[pair[1]].text, "c2"))
					s = insertAt(s, gs[i].Offset, fmt.Sprintf(commentKinds[pair[0]].text, "c1"))
					jobs = append(jobs, c39Job{src: s, opts: defaultFmtOpts, ctx: pairCtx(a.ctx, b.ctx), fam: "comment2", alts: []c39Job{a, b}})
				}
			}
		}
	}

	// (d) blank-line / semicolon variants at every statement and declaration boundary
	seps := []struct{ name, text string }{
		{"nl", "\n"}, {"blank1", "\n\n"}, {"blank2", "\n\n\n"}, {"semi", ";"}, {"semi-sp", "; "}, {"semi-nl", ";\n"},
		{"semi-blank", ";\n\n"}, {"sp-semi-nl", " ;\n"}, {"semi-semi", ";;"}, {"nl-semi-nl", "\n;\n"},
		{"blank-line-comment-blank", "\n\n//c1\n\n"}, {"semi-line-comment", ";//c1\n"}, {"semi-block-comment", "; /*c1*/ "}, {"block-comment-blank", "\n/*c1*/\n\n"},
	}
	stmts := srcgen.Statements()
	for i, s1 := range stmts {
		for j, s2 := range stmts {
			if !thorough && (i*31+j)%29 != 0 {
				continue // a fixed 1/29 slice of the pairs in the quick tier
			}
			for _, sep := range seps {
				jobs = append(jobs, c39Job{src: "fun f() {\n" + s1 + sep.text + s2 + "\n}", opts: defaultFmtOpts, ctx: "sep:" + sep.name + "|stmt", fam: "separator:stmt"})
			}
		}
	}
	decls := []string{"let x = a", "fun f() {}", "struct S {}", "import X from 0x1", "#p", "event Ev()", "entitlement E", "transaction {}", "access(all) var y: T = b", "enum En: T { case a }"}
	for _, d1 := range decls {
		for _, d2 := range decls {
			for _, sep := range seps {
				jobs = append(jobs, c39Job{src: d1 + sep.text + d2 + "\n", opts: defaultFmtOpts, ctx: "sep:" + sep.name + "|decl", fam: "separator:decl"})
				jobs = append(jobs, c39Job{src: "contract C {\n" + d1 + sep.text + d2 + "\n}", opts: defaultFmtOpts, ctx: "sep:" + sep.name + "|member", fam: "separator:member"})
			}
		}
	}

	// (e) option grid over a reduced corpus plus commented whole programs and import blocks
	var grid []fmtOpts
	for _, w := range []int{20, 100} {
		for _, tab := range []bool{false, true} {
			for _, srt := range []bool{false, true} {
				for _, strip := range []bool{false, true} {
					for _, keep := range []int{0, 1} {
						o := fmtOpts{Width: w, Tab: tab, Sort: srt, Strip: strip, KeepBlank: keep}
						if o != defaultFmtOpts {
							grid = append(grid, o)
						}
					}
				}
			}
		}
	}
	var gridCorpus []c39Job // default-option jobs; each is run under every non-default option set
	for i, p := range accepted {
		if thorough || i%8 == 0 {
			gridCorpus = append(gridCorpus, c39Job{src: p.Src, ctx: "plain"})
		}
	}
	for _, w := range srcgen.WholePrograms() {
		gridCorpus = append(gridCorpus, c39Job{src: w, ctx: "plain"})
		prog, err := parseProg(w, parser.Config{})
		if err != nil {
			continue
		}
		for gi, g := range tokenGaps(w) {
			if gi%7 == 0 || thorough {
				gridCorpus = append(gridCorpus,
					c39Job{src: insertAt(w, g.Offset, "/*c1*/"), ctx: "block|" + gapClass(prog, g.Offset)},
					c39Job{src: insertAt(w, g.Offset, "//c1\n"), ctx: "line|" + gapClass(prog, g.Offset)})
			}
		}
	}
	for _, src := range []string{
		"import B from 0x2\nimport A from 0x1\n", "import \"b\"\nimport \"a\"\nimport C from 0x1\nimport Crypto\n",
		"import B from 0x2 // c1\nimport A from 0x1 // c2\n", "// c1\nimport B from 0x2\n// c2\nimport A from 0x1\n",
		"import B from 0x2\n\nlet x = a\nimport A from 0x1\n", "import A, B from 0x2\nimport A from 0x2\nimport A from 0x2\n",
		"import B from 0x2; import A from 0x1\n", "/* c1 */ import B from 0x2 /* c2 */\n/* c3 */ import A from 0x1 /* c4 */\n",
		"fun f() {\n    a;\n    b;\n\n\n    c\n}\n", "let x = a;\n\n\nlet y = b;\n",
		"fun f() {\n    return aaaaaaaaaa + bbbbbbbbbb * cccccccccc - dddddddddd / eeeeeeeeee\n}\n",
		"let x = f(aaaaaaaaaa, bbbbbbbbbb, cccccccccc, [dddddddddd, eeeeeeeeee], {ffffffffff: gggggggggg})\n",
		"let s = \"aaaaaaaaaaaaaaaaaaaaaaaaa \\(bbbbbbbbbb + cccccccccc) dddddddddddd \\(eeeeeeee.ffffffff(gggggggg))\"\n",
	} {
		gridCorpus = append(gridCorpus, c39Job{src: src, ctx: "imports-and-layout"})
	}
	singles := []struct {
		name string
		o    fmtOpts
	}{
		{"width20", fmtOpts{Width: 20, Sort: true, Strip: true, KeepBlank: 1}},
		{"tab", fmtOpts{Width: 100, Tab: true, Sort: true, Strip: true, KeepBlank: 1}},
		{"nosort", fmtOpts{Width: 100, Strip: true, KeepBlank: 1}},
		{"keepsemi", fmtOpts{Width: 100, Sort: true, KeepBlank: 1}},
		{"keepblank0", fmtOpts{Width: 100, Sort: true, Strip: true}},
	}
	for _, base := range gridCorpus {
		// under default options (the attribution target of every option case)
		def := c39Job{src: base.src, opts: defaultFmtOpts, ctx: base.ctx, fam: "options-default"}
		jobs = append(jobs, def)
		alts := []c39Job{def}
		for _, sg := range singles {
			alts = append(alts, c39Job{src: base.src, opts: sg.o, ctx: "opts:" + sg.name + "|" + base.ctx})
		}
		for _, o := range grid {
			var diff []string
			for _, sg := range singles {
				if (sg.name == "width20" && o.Width == 20) || (sg.name == "tab" && o.Tab) || (sg.name == "nosort" && !o.Sort) ||
					(sg.name == "keepsemi" && !o.Strip) || (sg.name == "keepblank0" && o.KeepBlank == 0) {
					diff = append(diff, sg.name)
				}
			}
			jobs = append(jobs, c39Job{src: base.src, opts: o, ctx: "opts:" + strings.Join(diff, "+") + "|" + base.ctx, fam: "options", alts: alts})
		}
	}

	env.R.Set("cases_generated", len(jobs))
	famCount := map[string]int{}
	for _, j := range jobs {
		famCount[j.fam]++
	}
	env.R.Set("cases_by_family", famCount)
	const chunk = 256
	n := (len(jobs) + chunk - 1) / chunk
	mc.ParallelFor(env, n, func(i int) {
		lo, hi := i*chunk, (i+1)*chunk
		if hi > len(jobs) {
			hi = len(jobs)
		}
		classes := map[string]int64{}
		firstOf := map[string]string{}
		var evals int64
		for _, j := range jobs[lo:hi] {
			o := c39One(j.src, j.opts, j.ctx)
			key := j.fam + ":" + o.class
			classes[key]++
			if _, ok := firstOf[key]; !ok {
				firstOf[key] = j.src
			}
			switch {
			case o.class == "rejected":
			case o.class == "harness":
				env.R.HarnessError("%s: %q", o.detail, j.src)
			case strings.HasPrefix(o.class, "format-error"):
				// allowed by the property
				evals++
			case o.class == "ok":
				evals++
				if j.fam != "plain" {
					env.R.Nontrivial(j.src + "|" + j.ctx)
				}
			default:
				evals++
				env.R.Nontrivial(j.src + "|" + j.ctx)
				c, sig, detail := c39Case{Src: j.src, Opts: j.opts, Ctx: j.ctx}, o.sig, o.detail
				for _, alt := range j.alts {
					ao := c39One(alt.src, alt.opts, alt.ctx)
					evals++
					if ao.sig != "" {
						c, sig, detail = c39Case{Src: alt.src, Opts: alt.opts, Ctx: alt.ctx}, ao.sig, ao.detail
						break
					}
				}
				violation(env, sig, c, detail)
			}
		}
		env.R.EvalN(evals)
		for k, v := range classes {
			kk, s := k, firstOf[k]
			env.R.Class(kk, func() any { return s })
			env.R.ClassN(kk, v-1)
		}
	})
	flushViolations(env)
	env.R.BoundCompleted(fmt.Sprintf("%d cases", len(jobs)))
}

// spread picks n programs, the smallest of each family round-robin.
func spread(ps []srcgen.Program, n int) []srcgen.Program {
	by := map[string][]srcgen.Program{}
	var fams []string
	for _, p := range ps {
		if _, ok := by[p.Family]; !ok {
			fams = append(fams, p.Family)
		}
		by[p.Family] = append(by[p.Family], p)
	}
	sort.Strings(fams)
	var out []srcgen.Program
	for len(out) < n {
		progress := false
		for _, f := range fams {
			if len(by[f]) > 0 && len(out) < n {
				out = append(out, by[f][0])
				by[f] = by[f][1:]
				progress = true
			}
		}
		if !progress {
			break
		}
	}
	return out
}

func replayC39(env *mc.Env, raw json.RawMessage) (bool, string) {
	var c c39Case
	if err := json.Unmarshal(raw, &c); err != nil {
		return false, err.Error()
	}
	o := c39One(c.Src, c.Opts, c.Ctx)
	bad := o.sig != ""
	return bad, o.sig + " " + o.detail
}

func init() {
	mc.Register(&mc.Check{
		ID:   "C39",
		Rule: "formatter.Format on (a) every program of the srcgen corpus (depth 2) without comments; (b) every program of the reduced corpus x a comment at every token gap x comment spelling {inline block, trailing line, own-line line, own-line block [, ///, /** */ thorough]}; (c) comments at every pair of gaps of the 200 [600] smallest programs; (d) every separator {newline, blank lines, ;, ;newline, ;;, comment-bearing separators} between statement pairs / declaration pairs / member pairs; (e) the 31 non-default option combinations (LineWidth {20,100} x indent {4 spaces, tab} x SortImports x StripSemicolons x KeepBlankLines {0,1}) over a reduced corpus, commented whole programs and import blocks. Oracle: Format error allowed; else output parses (default parser config) to the same position-free AST JSON (import declarations compared as a multiset at the import positions), the multiset of comment texts found by an independent scanner is unchanged, and Format(out)==out. non-trivial = case with a comment, separator variant or non-default options whose Format succeeded",
		Assumptions: []string{
			"comment texts are extracted by the harness's own scanner (strings, template interpolation nesting, nested block comments)",
			"a line comment's text excludes trailing blanks",
			"DocString fields are not compared in the AST (they are comment-derived; the comment multiset covers them)",
		},
		Run:    runC39,
		Replay: replayC39,
	})
}

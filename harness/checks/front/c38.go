package front

import (
	"encoding/json"
	"fmt"
	"strings"

	"github.com/onflow/cadence/ast"

	"verif/gen/srcgen"
	"verif/mc"
)

// C38: parse(print(parse(src))) == parse(src) as AST JSON with positions erased.
//
// "Canonical pretty-printed form" is ast.Prettier / (*ast.Program).String(),
// the one printer the ast package exports.

type c38Case struct {
	Src string `json:"src"`
}

type c38Outcome struct {
	class   string // "rejected" | "ok" | violation kind
	sig     string
	detail  string
	printed string
}

func c38One(src string) (out c38Outcome) {
	prog, err := parseProg(src, fullConfig)
	if err != nil {
		return c38Outcome{class: "rejected"}
	}
	var printed string
	panicked, val, _ := mc.Guard(func() { printed = prog.String() })
	if panicked {
		label, _ := localize(prog, canonicalPrint)
		return c38Outcome{class: "print-panics", sig: "print-panics|" + label,
			detail: fmt.Sprintf("printing panicked: %v\nsource: %q", val, src)}
	}
	prog2, err2 := parseProg(printed, fullConfig)
	if err2 != nil {
		label, _ := localize(prog, canonicalPrint)
		return c38Outcome{class: "reparse-fails", sig: "reparse-fails|" + label, printed: printed,
			detail: fmt.Sprintf("source %q prints as %q which does not parse: %s", src, printed, errKinds(err2))}
	}
	same, d, terr := sameAST(prog, prog2, nil)
	if terr != nil {
		return c38Outcome{class: "harness", detail: "cannot marshal AST: " + terr.Error()}
	}
	if !same {
		label, _ := localize(prog, canonicalPrint)
		return c38Outcome{class: "ast-differs", sig: "ast-differs|" + label, printed: printed,
			detail: fmt.Sprintf("source %q prints as %q which parses to a different AST: %s", src, printed, d)}
	}
	return c38Outcome{class: "ok", printed: printed}
}

// shapeOf is a coarse description of which syntax a program exercises, used
// for the non-triviality count: the printer had to make a decision (drop or
// keep a parenthesis, escape a string, lay out a modifier).
func c38Nontrivial(src, printed string) bool {
	norm := func(s string) string { return strings.Join(strings.Fields(s), " ") }
	return norm(src) != norm(printed)
}

func runC38(env *mc.Env) {
	cfg := srcgen.Config{Depth: mc.Pick(env, 2, 3), TypeDepth: mc.Pick(env, 2, 3)}
	progs := srcgen.All(cfg)
	env.R.Set("generated_programs", len(progs))
	fam := srcgen.FamilyCounts(progs)
	env.R.Set("families", fam)
	const chunk = 512
	n := (len(progs) + chunk - 1) / chunk
	mc.ParallelFor(env, n, func(i int) {
		lo, hi := i*chunk, (i+1)*chunk
		if hi > len(progs) {
			hi = len(progs)
		}
		classes := map[string]int64{}
		firstOf := map[string]string{}
		var evals int64
		for _, p := range progs[lo:hi] {
			o := c38One(p.Src)
			key := p.Family + ":" + o.class
			classes[key]++
			if _, ok := firstOf[key]; !ok {
				firstOf[key] = p.Src
			}
			switch o.class {
			case "rejected":
				continue
			case "ok":
				evals++
				if c38Nontrivial(p.Src, o.printed) {
					env.R.Nontrivial(p.Src)
				}
			case "harness":
				env.R.HarnessError("%s: %q", o.detail, p.Src)
			default:
				evals++
				env.R.Nontrivial(p.Src)
				violation(env, o.sig, c38Case{Src: p.Src}, o.detail)
			}
		}
		env.R.EvalN(evals)
		for k, v := range classes {
			kk, s := k, firstOf[k]
			env.R.Class(kk, func() any { return s })
			env.R.ClassN(kk, v-1)
		}
	})
	flushViolations(env)
	env.R.BoundCompleted(fmt.Sprintf("expression context depth %d, type depth %d", cfg.Depth, cfg.TypeDepth))
}

func replayC38(env *mc.Env, raw json.RawMessage) (bool, string) {
	var c c38Case
	if err := json.Unmarshal(raw, &c); err != nil {
		return false, err.Error()
	}
	o := c38One(c.Src)
	return o.class != "ok" && o.class != "rejected" && o.class != "harness", o.sig + " " + o.detail
}

var _ = ast.Prettier

func init() {
	mc.Register(&mc.Check{
		ID:   "C38",
		Rule: "every program of the srcgen grammar corpus (all one-hole expression contexts composed to depth 2 [3 thorough] in parenthesized and bare spelling = every ordered pair [triple] of binary operators x both nestings, unary/cast/conditional/??/force/optional-chaining/index/member/call/template contexts; every literal kind incl. escapes and nested templates; every type constructor chain to depth 2 [3] in every type position; every statement form; function forms x access/static/native/view modifier grid; composite kinds x conformances x member forms x member access) that the parser accepts is printed with (*ast.Program).String() and re-parsed; AST JSON with position objects and DocString erased must be equal. non-trivial = accepted program whose printed form differs from its source modulo whitespace (the printer made a parenthesization/escaping/layout decision)",
		Assumptions: []string{
			"the AST's own MarshalJSON is the observation (a field it omits is not compared)",
			"canonical printed form = ast.Prettier (Doc flattened, width 80); other widths are exercised through the formatter in C39",
			"parser run with static/native/type-parameter syntax enabled on both sides",
		},
		Run:    runC38,
		Replay: replayC38,
	})
}

package front

import (
	"bufio"
	"bytes"
	"encoding/json"
	"fmt"
	"os"
	"os/exec"
	"regexp"
	"runtime"
	"strings"
	"unicode/utf8"

	"github.com/onflow/cadence/ast"
	"github.com/onflow/cadence/common"
	cdcerrors "github.com/onflow/cadence/errors"
	"github.com/onflow/cadence/parser"
	"github.com/onflow/cadence/parser/lexer"
	"github.com/onflow/cadence/sema"

	"verif/gen/srcgen"
	"verif/mc"
)

// C37: lexing, parsing and checking are total and report in-range positions.
//
// Clauses of the sentence and how each is judged:
//   T  "terminate without crashing or raising an internal error": no Go panic
//      escapes lexer.Lex / parser.ParseProgram / Checker.Check, every returned
//      error is a user (syntax / semantic) error; unrecoverable crashes (stack
//      overflow) are observed in worker subprocesses.
//   P  "every reported error position lies inside the input": 0 <= offset <= len,
//      1 <= line <= number of lines + 1, column >= 0, for start and end.
//   L1 "tokens cover the input contiguously in order": non-error tokens start at
//      0, each starts where the previous one ended, up to len(input) unless the
//      lexer stopped at an error token (don't-care: an unterminated block
//      comment's tail, which the lexer leaves to the parser).
//   L2 "each token's line and column match its byte offset": line = 1 + number
//      of '\n' before the offset; column = distance from the line start, counted
//      either in bytes (ast.Position's documentation) or in runes (what the
//      lexer's endPos computes) - one convention per input, see columnRule.
//   L3 "whatever text was lexed earlier in the process": lexing B after A
//      (pooled lexer reused, A fully / partly consumed) equals lexing B fresh.

type c37Case struct {
	Kind      string `json:"kind"` // "input" | "pool" | "ladder"
	Input     []byte `json:"input,omitempty"`
	Prev      []byte `json:"prev,omitempty"`    // pool: lexed before Input
	Consume   int    `json:"consume,omitempty"` // pool: tokens of Prev consumed before Reclaim (-1 = all)
	Construct string `json:"construct,omitempty"`
	N         int    `json:"n,omitempty"`
}

type c37Finding struct {
	sig    string
	detail string
}

var frameRe = regexp.MustCompile(`github\.com/onflow/cadence/([A-Za-z0-9_./]+(?:\(\*?[A-Za-z0-9_]+\))?[A-Za-z0-9_.]*)`)

// panicSite names the innermost cadence function on a panic stack (the call site for the signature).
func panicSite(stack string) string {
	lines := strings.Split(stack, "\n")
	seenPanic := false
	for _, l := range lines {
		if strings.HasPrefix(l, "panic(") {
			seenPanic = true
			continue
		}
		if !seenPanic {
			continue
		}
		if m := frameRe.FindStringSubmatch(l); m != nil && !strings.HasPrefix(l, "\t") {
			return m[1]
		}
	}
	for _, l := range lines {
		if m := frameRe.FindStringSubmatch(l); m != nil && !strings.HasPrefix(l, "\t") {
			return m[1]
		}
	}
	return "?"
}

// internalErrorSite names the function that created an internal error (first
// cadence frame outside the errors package on the recorded stack).
func internalErrorSite(stack string) string {
	for _, l := range strings.Split(stack, "\n") {
		if strings.HasPrefix(l, "\t") {
			continue
		}
		if m := frameRe.FindStringSubmatch(l); m != nil && !strings.HasPrefix(m[1], "errors.") {
			return m[1]
		}
	}
	return "?"
}

func panicKind(v any) string {
	switch x := v.(type) {
	case runtime.Error:
		s := x.Error()
		switch {
		case strings.Contains(s, "nil pointer"):
			return "nil-deref"
		case strings.Contains(s, "index out of range"), strings.Contains(s, "slice bounds"):
			return "out-of-range"
		}
		return "runtime-error"
	case cdcerrors.InternalError:
		return fmt.Sprintf("%T", v)
	case error:
		return fmt.Sprintf("%T", v)
	}
	return fmt.Sprintf("%T", v)
}

type posStats struct {
	lines int
}

func posInRange(p ast.Position, n int, lines int) string {
	switch {
	case p.Offset < 0:
		return "offset<0"
	case p.Offset > n:
		return "offset>len"
	case p.Line < 1:
		return "line<1"
	case p.Line > lines+1:
		return "line>lines"
	case p.Column < 0:
		return "column<0"
	}
	return ""
}

// lexTokens drains a token stream (bounded), returning the tokens including EOF.
func lexTokens(ts lexer.TokenStream, limit int) []lexer.Token {
	var out []lexer.Token
	for i := 0; i <= limit; i++ {
		t := ts.Next()
		out = append(out, t)
		if t.Type == lexer.TokenEOF {
			break
		}
	}
	return out
}

// judgeTokens checks L1 and L2 on a drained token list.
func judgeTokens(input []byte, toks []lexer.Token, lexErr error) (fs []c37Finding, dontCare int, class string) {
	n := len(input)
	nl := bytes.Count(input, []byte{'\n'})
	// incremental line / column bookkeeping at increasing offsets. Runes are
	// delimited as utf8.DecodeRune does (an invalid byte is a rune of width 1);
	// the rune column of an offset is the index, within its line, of the rune
	// that contains that byte.
	curLine, lineStart := 1, 0
	runeStart, runeCol := 0, 0 // the rune containing the cursor and its column
	advance := func(off int) {
		for runeStart < n {
			_, w := utf8.DecodeRune(input[runeStart:])
			if w <= 0 {
				w = 1
			}
			if off < runeStart+w {
				return
			}
			if input[runeStart] == '\n' {
				curLine++
				lineStart = runeStart + 1
				runeCol = 0
			} else {
				runeCol++
			}
			runeStart += w
		}
	}
	byteOK, runeOK := true, true
	var firstColBad string
	// firstDeviation is the structural class of the first position whose column is not
	// the plain ASCII answer: "end of <token>" or "start after <previous token>[(empty)]"
	var firstDeviation string
	lastChecked := -1
	checkPos := func(p ast.Position, what string, where string) {
		if p.Offset < lastChecked || p.Offset > n {
			return // non-monotone / out-of-range positions are reported by the other clauses
		}
		lastChecked = p.Offset
		advance(p.Offset)
		if p.Line != curLine {
			fs = append(fs, c37Finding{"lex|line-mismatch", fmt.Sprintf("%s at offset %d: line %d, expected %d", what, p.Offset, p.Line, curLine)})
			return
		}
		bc := p.Offset - lineStart
		rc := runeCol
		if p.Column != bc {
			byteOK = false
		}
		if p.Column != rc {
			runeOK = false
		}
		if (p.Column != bc || p.Column != rc) && firstDeviation == "" {
			firstDeviation = where
		}
		if p.Column != bc && p.Column != rc && firstColBad == "" {
			firstColBad = fmt.Sprintf("%s at offset %d: column %d, expected %d (bytes) or %d (runes)", what, p.Offset, p.Column, bc, rc)
		}
	}
	expect := 0
	sawError := false
	depth := 0
	class = "clean"
	prevType := "start"
	for i, t := range toks {
		for _, p := range []ast.Position{t.StartPos, t.EndPos} {
			if r := posInRange(p, n, nl); r != "" {
				fs = append(fs, c37Finding{fmt.Sprintf("lex|token-position-out-of-range|%s|%s after %s", r, t.Type, prevType),
					fmt.Sprintf("token %d (%s) has position %+v, input length %d", i, t.Type, p, n)})
			}
		}
		switch t.Type {
		case lexer.TokenError:
			sawError = true
			class = "error-token"
			continue
		case lexer.TokenEOF:
			continue
		case lexer.TokenBlockCommentStart:
			depth++
		case lexer.TokenBlockCommentEnd:
			depth--
		}
		if t.StartPos.Offset != expect {
			fs = append(fs, c37Finding{"lex|tokens-not-contiguous", fmt.Sprintf("token %d (%s) starts at offset %d, previous token ended at %d", i, t.Type, t.StartPos.Offset, expect)})
		}
		if t.EndPos.Offset < t.StartPos.Offset-1 {
			// (end = start-1 is the inclusive-end spelling of an empty token, e.g. the empty string segment after `\(a)` at end of input)
			fs = append(fs, c37Finding{"lex|token-range-reversed", fmt.Sprintf("token %d (%s) range %d..%d", i, t.Type, t.StartPos.Offset, t.EndPos.Offset)})
		}
		checkPos(t.StartPos, fmt.Sprintf("start of token %d (%s)", i, t.Type), "start after "+prevType)
		checkPos(t.EndPos, fmt.Sprintf("end of token %d (%s)", i, t.Type), "end of "+t.Type.String())
		expect = t.EndPos.Offset + 1
		prevType = t.Type.String()
		if t.EndPos.Offset < t.StartPos.Offset {
			prevType += "(empty)"
		}
	}
	if len(toks) == 0 || toks[len(toks)-1].Type != lexer.TokenEOF {
		if lexErr == nil {
			fs = append(fs, c37Finding{"lex|no-EOF-token", fmt.Sprintf("token stream of %d tokens does not end with EOF", len(toks))})
		}
	}
	if expect != n {
		switch {
		case sawError || lexErr != nil:
			// the lexer stops at the first unrecognized character / at its token limit
		case depth > 0:
			// don't-care: "tokens cover the input": the tail of an unterminated block
			// comment is not emitted as a token; the parser reports the unterminated comment.
			dontCare++
			class = "unterminated-comment"
		default:
			fs = append(fs, c37Finding{"lex|input-not-covered|after " + prevType, fmt.Sprintf("tokens cover [0,%d) of %d bytes and no error token was emitted", expect, n)})
		}
	}
	// L2, column convention: bytes (documented) or runes (implemented); the
	// sentence says "match its byte offset", which both do on ASCII. A token
	// list that fits neither convention as a whole is a violation.
	if !byteOK && !runeOK {
		d := firstColBad
		if d == "" {
			d = "some tokens use byte columns and others rune columns"
		}
		cls := "ascii"
		for _, c := range input {
			if c >= 0x80 {
				cls = "non-ascii"
				break
			}
		}
		fs = append(fs, c37Finding{"lex|column-mismatch|" + cls + "|" + firstDeviation, d})
	} else if !byteOK || !runeOK {
		if class == "clean" {
			class = "non-ascii-columns"
		}
	}
	return
}

func sameFindingSig(fs []c37Finding) []c37Finding {
	seen := map[string]bool{}
	var out []c37Finding
	for _, f := range fs {
		if !seen[f.sig] {
			seen[f.sig] = true
			out = append(out, f)
		}
	}
	return out
}

func lexOnce(input []byte) (toks []lexer.Token, lexErr error, f *c37Finding) {
	var ts lexer.TokenStream
	panicked, val, stack := mc.Guard(func() {
		ts, lexErr = lexer.Lex(input, nil)
		if ts != nil {
			toks = lexTokens(ts, 1<<20)
			ts.Reclaim()
		}
	})
	if panicked {
		return nil, nil, &c37Finding{"lex|panic:" + panicKind(val) + "|" + panicSite(stack), fmt.Sprintf("lexer.Lex panicked: %v", val)}
	}
	if lexErr != nil && !cdcerrors.IsUserError(lexErr) {
		return toks, lexErr, &c37Finding{"lex|non-user-error:" + fmt.Sprintf("%T", lexErr), fmt.Sprintf("lexer.Lex returned %v", lexErr)}
	}
	return toks, lexErr, nil
}

var checkerConfig = &sema.Config{
	AccessCheckMode:         sema.AccessCheckModeNotSpecifiedUnrestricted,
	AllowNativeDeclarations: true,
	AllowStaticDeclarations: true,
}

type errPositions interface {
	StartPosition() ast.Position
	EndPosition(common.MemoryGauge) ast.Position
}

func judgeErrors(stage string, errs []error, n, lines int) (fs []c37Finding) {
	for _, e := range errs {
		if cdcerrors.IsInternalError(e) || !cdcerrors.IsUserError(e) {
			site := "?"
			if ue, ok := e.(cdcerrors.UnexpectedError); ok {
				if strings.Contains(string(ue.Stack), "\npanic(") {
					site = panicSite(string(ue.Stack))
				} else {
					site = internalErrorSite(string(ue.Stack))
				}
			}
			fs = append(fs, c37Finding{stage + "|internal-error:" + fmt.Sprintf("%T", e) + "|" + site, fmt.Sprintf("%s reported a non-user error (raised in %s): %s", stage, site, trunc(e.Error(), 200))})
			continue
		}
		var ps []ast.Position
		panicked, val, stack := mc.Guard(func() {
			if hp, ok := e.(errPositions); ok {
				ps = append(ps, hp.StartPosition(), hp.EndPosition(nil))
			}
		})
		if panicked {
			fs = append(fs, c37Finding{stage + "|error-position-panics|" + fmt.Sprintf("%T", e), fmt.Sprintf("computing the position of %T panicked: %v at %s", e, val, panicSite(stack))})
			continue
		}
		for i, p := range ps {
			if r := posInRange(p, n, lines); r != "" {
				which := "start"
				if i == 1 {
					which = "end"
				}
				fs = append(fs, c37Finding{fmt.Sprintf("%s|error-position-out-of-range|%T|%s:%s", stage, e, which, r),
					fmt.Sprintf("%T reports %s position %+v for an input of %d bytes / %d lines: %s", e, which, p, n, lines+1, trunc(e.Error(), 120))})
			}
		}
	}
	return
}

// frontOnce runs lexer, parser and (if the parse succeeded) checker on one input.
func frontOnce(input []byte, cfg parser.Config, doLex bool) (fs []c37Finding, class string, dontCare int) {
	return frontOnceOpt(input, cfg, doLex, true)
}

func frontOnceOpt(in []byte, cfg parser.Config, doLex bool, doCheck bool) (fs []c37Finding, class string, dontCare int) {
	// exact-capacity copy: a read past the end of the input must fault the same
	// way in the enumeration and in the replay, whatever buffer the case came from
	input := make([]byte, len(in))
	copy(input, in)
	n := len(input)
	lines := bytes.Count(input, []byte{'\n'})
	class = "lex-error"
	if doLex {
		toks, lexErr, f := lexOnce(input)
		if f != nil {
			fs = append(fs, *f)
		} else {
			tf, dc, _ := judgeTokens(input, toks, lexErr)
			fs = append(fs, tf...)
			dontCare += dc
		}
	}
	var prog *ast.Program
	var perr error
	panicked, val, stack := mc.Guard(func() { prog, perr = parser.ParseProgram(nil, input, cfg) })
	if panicked {
		fs = append(fs, c37Finding{"parse|panic:" + panicKind(val) + "|" + panicSite(stack), fmt.Sprintf("parser.ParseProgram panicked: %v", val)})
		return sameFindingSig(fs), "parse-panic", dontCare
	}
	if perr != nil {
		class = "syntax-error"
		if pe, ok := perr.(parser.Error); ok {
			fs = append(fs, judgeErrors("parse", pe.Errors, n, lines)...)
		} else {
			fs = append(fs, judgeErrors("parse", []error{perr}, n, lines)...)
		}
		return sameFindingSig(fs), class, dontCare
	}
	if prog == nil {
		fs = append(fs, c37Finding{"parse|nil-program-without-error", "ParseProgram returned neither a program nor an error"})
		return sameFindingSig(fs), "nil-program", dontCare
	}
	if !doCheck {
		return sameFindingSig(fs), "parsed-ok", dontCare
	}
	// check
	var cerr error
	panicked, val, stack = mc.Guard(func() {
		checker, err := sema.NewChecker(prog, common.StringLocation("test"), nil, checkerConfig)
		if err != nil {
			cerr = err
			return
		}
		cerr = checker.Check()
	})
	if panicked {
		fs = append(fs, c37Finding{"check|panic:" + panicKind(val) + "|" + panicSite(stack), fmt.Sprintf("Checker.Check panicked: %v", trunc(fmt.Sprint(val), 300))})
		return sameFindingSig(fs), "check-panic", dontCare
	}
	class = "checked-ok"
	if cerr != nil {
		class = "semantic-error"
		if ce, ok := cerr.(*sema.CheckerError); ok {
			fs = append(fs, judgeErrors("check", ce.Errors, n, lines)...)
		} else if ce, ok := cerr.(sema.CheckerError); ok {
			fs = append(fs, judgeErrors("check", ce.Errors, n, lines)...)
		} else {
			fs = append(fs, judgeErrors("check", []error{cerr}, n, lines)...)
		}
	}
	return sameFindingSig(fs), class, dontCare
}

// ---------------------------------------------------------------------------
// alphabets

func tokenAlphabet() []string {
	toks := []string{
		// punctuation: every token type of the lexer
		"+", "-", "*", "/", "%", "??", "(", ")", "{", "}", "[", "]", "?", "?.", ",", ":", ".", ";",
		"<-", "<-!", "->", "<->", "<", "<=", "<<", ">", ">=", "=", "==", "!", "!=", "&", "&&", "^", "|", "||", "@", "as!", "as?", "#",
		// literals / identifiers / comments / strings
		"0", "1", "0x1", "0b1", "0o7", "0z1", "1.0", "1.", "a", "_", "T", "\"s\"", "\"\\(a)\"", "\"", "\"\\(", "/*c*/", "/*", "*/", "//c\n", "\n", "\\",
		// multi-line block comments: content ending in a newline, doc comment, nested
		"/* a\n*/", "/**d\n*/", "/* a /* b\n*/ c\n*/",
		"/storage/a",
	}
	// keywords
	toks = append(toks, strings.Fields("if else while break continue return true false nil let var fun as create destroy for in emit auth access all self init contract account import from pre post event struct resource interface entitlement mapping transaction prepare execute case switch default enum view attachment attach remove to require static native pub priv include guard try type is")...)
	return toks
}

var editInserts = [][]byte{{0x80}, {0xC0}, {0xFF}, {0xED, 0xA0, 0x80}, {0x00}, []byte("\\("), []byte("/*"), []byte("\"")}

// commentInserts are inserted at every token gap of every edit-corpus program
// (comments between every pair of tokens): single- and multi-line, content
// ending in a newline, nested, doc comments, line comments.
var commentInserts = [][]byte{
	[]byte("/*c*/"), []byte("/* a\n*/"), []byte("/** d\n*/"), []byte("/*\n*/"), []byte("/* a\nb */"),
	[]byte("/* a /* b\n*/ c */"), []byte("/* a /* b */\n*/"), []byte("//c\n"), []byte("///d\n"), []byte("\n/* a\n*/\n"),
}

func editCorpus(thorough bool) []string {
	var out []string
	for _, s := range srcgen.Statements() {
		out = append(out, "fun f() { "+s+" }")
	}
	out = append(out, srcgen.OtherDeclarations()...)
	for i, l := range srcgen.Literals() {
		if thorough || i%3 == 0 {
			out = append(out, "let x = "+l)
		}
	}
	for i, f := range srcgen.FunctionForms() {
		if thorough || i%2 == 0 {
			out = append(out, "access(all) view "+f)
		}
	}
	for i, m := range srcgen.Members() {
		if thorough || i%2 == 0 {
			out = append(out, "access(all) resource R: I { "+m+" }")
		}
	}
	ti := 0
	srcgen.Types(1, func(src, _ string) {
		ti++
		if thorough || ti%4 == 0 {
			out = append(out, "let x: "+src+" = a")
		}
	})
	ei := 0
	srcgen.Expressions(1, func(src, _ string) {
		ei++
		if thorough || ei%4 == 0 {
			out = append(out, "let x = "+src)
		}
	})
	ws := srcgen.WholePrograms()
	if !thorough {
		ws = ws[2:]
	}
	out = append(out, ws...)
	return out
}

// tokenSpans returns the [start,end) byte spans of the non-space tokens of src.
func tokenSpans(src []byte) [][2]int {
	ts, err := lexer.Lex(src, nil)
	if err != nil {
		return nil
	}
	defer ts.Reclaim()
	var out [][2]int
	for i := 0; i < 1<<20; i++ {
		t := ts.Next()
		if t.Type == lexer.TokenEOF {
			break
		}
		if t.Type == lexer.TokenError || t.Type == lexer.TokenSpace {
			continue
		}
		s, e := t.StartPos.Offset, t.EndPos.Offset+1
		if s >= 0 && e <= len(src) && s < e {
			out = append(out, [2]int{s, e})
		}
	}
	return out
}

// ---------------------------------------------------------------------------
// nesting ladders (worker subprocess)

type ladderDef struct {
	name string
	gen  func(n int) string
}

func ladders() []ladderDef {
	rep := strings.Repeat
	expr := func(f func(n int) string) func(n int) string {
		return func(n int) string { return "let x = " + f(n) }
	}
	typ := func(f func(n int) string) func(n int) string {
		return func(n int) string { return "let x: " + f(n) + " = a" }
	}
	stmt := func(f func(n int) string) func(n int) string {
		return func(n int) string { return "fun f() { " + f(n) + " }" }
	}
	raw := func(f func(n int) string) func(n int) string { return f }
	return []ladderDef{
		{"expr-paren", expr(func(n int) string { return rep("(", n) + "a" + rep(")", n) })},
		{"expr-array", expr(func(n int) string { return rep("[", n) + "a" + rep("]", n) })},
		{"expr-dict", expr(func(n int) string { return rep("{a:", n) + "a" + rep("}", n) })},
		{"expr-minus", expr(func(n int) string { return rep("-", n) + "a" })},
		{"expr-not", expr(func(n int) string { return rep("!", n) + "a" })},
		{"expr-move", expr(func(n int) string { return rep("<-", n) + "a" })},
		{"expr-deref", expr(func(n int) string { return rep("*", n) + "a" })},
		{"expr-ref", expr(func(n int) string { return rep("& ", n) + "a" })},
		{"expr-force", expr(func(n int) string { return "a" + rep("!", n) })},
		{"expr-member", expr(func(n int) string { return "a" + rep(".b", n) })},
		{"expr-optmember", expr(func(n int) string { return "a" + rep("?.b", n) })},
		{"expr-index", expr(func(n int) string { return "a" + rep("[0]", n) })},
		{"expr-call", expr(func(n int) string { return "a" + rep("()", n) })},
		{"expr-callarg", expr(func(n int) string { return rep("f(", n) + "a" + rep(")", n) })},
		{"expr-plus-chain", expr(func(n int) string { return "a" + rep(" + a", n) })},
		{"expr-plus-right", expr(func(n int) string { return rep("a + (", n) + "a" + rep(")", n) })},
		{"expr-coalesce", expr(func(n int) string { return "a" + rep(" ?? a", n) })},
		{"expr-or-chain", expr(func(n int) string { return "a" + rep(" || a", n) })},
		{"expr-cond-else", expr(func(n int) string { return rep("a ? a : ", n) + "a" })},
		{"expr-cond-then", expr(func(n int) string { return rep("a ? ", n) + "a" + rep(" : a", n) })},
		{"expr-cast", expr(func(n int) string { return "a" + rep(" as T", n) })},
		{"expr-cast-opt", expr(func(n int) string { return "a as T" + rep("?", n) })},
		{"expr-less", expr(func(n int) string { return "a" + rep(" < a", n) })},
		{"expr-shift", expr(func(n int) string { return "a" + rep(" >> a", n) })},
		{"expr-typeargs", expr(func(n int) string { return "a" + rep("<a", n) + rep(">", n) + "()" })},
		{"expr-create", expr(func(n int) string { return rep("create ", n) + "a()" })},
		{"expr-destroy", expr(func(n int) string { return rep("destroy ", n) + "a" })},
		{"expr-attach", expr(func(n int) string { return rep("attach A() to ", n) + "a" })},
		{"expr-template", expr(func(n int) string {
			s := "a"
			for i := 0; i < n && len(s) < 1<<22; i++ {
				s = "\"\\(" + s + ")\""
			}
			return s
		})},
		{"expr-template-paren", expr(func(n int) string { return "\"\\(" + rep("(", n) + "a" + rep(")", n) + ")\"" })},
		{"expr-template-many", expr(func(n int) string { return "\"" + rep("\\(a)", n) + "\"" })},
		{"expr-fun", expr(func(n int) string { return rep("fun (): T { return ", n) + "a" + rep(" }", n) })},
		{"expr-array-wide", expr(func(n int) string { return "[" + rep("a, ", n) + "a]" })},
		{"expr-args-wide", expr(func(n int) string { return "f(" + rep("a, ", n) + "a)" })},
		{"type-optional", typ(func(n int) string { return "T" + rep("?", n) })},
		{"type-array", typ(func(n int) string { return rep("[", n) + "T" + rep("]", n) })},
		{"type-dict", typ(func(n int) string { return rep("{T:", n) + "T" + rep("}", n) })},
		{"type-ref", typ(func(n int) string { return rep("& ", n) + "T" })},
		{"type-authref", typ(func(n int) string { return rep("auth(E) &", n) + "T" })},
		{"type-fun-param", typ(func(n int) string { return rep("fun(", n) + "T" + rep(")", n) })},
		{"type-fun-ret", typ(func(n int) string { return rep("fun(): ", n) + "T" })},
		{"type-inst", typ(func(n int) string { return rep("G<", n) + "T" + rep(">", n) })},
		{"type-paren", typ(func(n int) string { return rep("(", n) + "T" + rep(")", n) })},
		{"type-resource", typ(func(n int) string { return rep("@", n) + "T" })},
		{"type-qualified", typ(func(n int) string { return "A" + rep(".B", n) })},
		{"type-intersection-wide", typ(func(n int) string { return "{" + rep("I, ", n) + "J}" })},
		{"stmt-block", stmt(func(n int) string { return rep("{", n) + rep("}", n) })},
		{"stmt-if", stmt(func(n int) string { return rep("if a { ", n) + "b" + rep(" }", n) })},
		{"stmt-else-if", stmt(func(n int) string { return "if a {}" + rep(" else if a {}", n) })},
		{"stmt-while", stmt(func(n int) string { return rep("while a { ", n) + "b" + rep(" }", n) })},
		{"stmt-for", stmt(func(n int) string { return rep("for x in a { ", n) + "b" + rep(" }", n) })},
		{"stmt-switch", stmt(func(n int) string { return rep("switch a { case b: ", n) + "c" + rep(" }", n) })},
		{"stmt-fun", stmt(func(n int) string { return rep("fun g() { ", n) + rep(" }", n) })},
		{"stmt-seq-newline", stmt(func(n int) string { return rep("a\n", n) })},
		{"stmt-seq-semicolon", stmt(func(n int) string { return rep("a;", n) })},
		{"stmt-assign-chain", stmt(func(n int) string { return "a" + rep(" = a", n) })},
		{"stmt-guard", stmt(func(n int) string { return rep("guard a else { ", n) + "return" + rep(" }", n) })},
		{"decl-composite", raw(func(n int) string { return rep("struct S { ", n) + rep(" }", n) })},
		{"decl-seq", raw(func(n int) string { return rep("let x = a\n", n) })},
		{"decl-access", raw(func(n int) string { return rep("access(all) ", n) + "let x = a" })},
		{"decl-view", raw(func(n int) string { return rep("view ", n) + "fun f() {}" })},
		{"decl-import-wide", raw(func(n int) string { return "import " + rep("A, ", n) + "B from 0x1" })},
		{"decl-params-wide", raw(func(n int) string { return "fun f(" + rep("a: T, ", n) + "b: T) {}" })},
		{"decl-conformances-wide", raw(func(n int) string { return "struct S: " + rep("I, ", n) + "J {}" })},
		{"decl-enum-cases", raw(func(n int) string { return "enum E: T { " + rep("case a\n", n) + "}" })},
		{"decl-pragma-nest", raw(func(n int) string { return "#a" + rep("(b", n) + rep(")", n) })},
		{"decl-pragma-seq", raw(func(n int) string { return rep("#a\n", n) })},
		{"decl-access-conj", raw(func(n int) string { return "access(" + rep("E, ", n) + "F) let x = a" })},
		{"decl-access-disj", raw(func(n int) string { return "access(" + rep("E | ", n) + "F) let x = a" })},
		{"decl-mapping", raw(func(n int) string { return "entitlement mapping M { " + rep("E -> F\n", n) + "}" })},
		{"decl-conditions", raw(func(n int) string { return "fun f() { pre { " + rep("a\n", n) + "} }" })},
		{"decl-transaction-fields", raw(func(n int) string { return "transaction { " + rep("let x: T\n", n) + "}" })},
		{"lex-block-comment", raw(func(n int) string { return rep("/*", n) + rep("*/", n) })},
		{"lex-block-comment-open", raw(func(n int) string { return rep("/*", n) })},
		{"lex-long-identifier", expr(func(n int) string { return rep("a", n) })},
		{"lex-long-integer", expr(func(n int) string { return rep("9", n) })},
		{"lex-long-hex", expr(func(n int) string { return "0x" + rep("f", n) })},
		{"lex-long-fixed", expr(func(n int) string { return "1." + rep("9", n) })},
		{"lex-long-string", expr(func(n int) string { return "\"" + rep("a", n) + "\"" })},
		{"lex-long-escapes", expr(func(n int) string { return "\"" + rep("\\n", n) + "\"" })},
		{"lex-long-unicode-escapes", expr(func(n int) string { return "\"" + rep("\\u{1F600}", n) + "\"" })},
		{"lex-multibyte", expr(func(n int) string { return "\"" + rep("é", n) + "\"" })},
		{"lex-open-parens", raw(func(n int) string { return rep("(", n) })},
		{"lex-open-brackets", raw(func(n int) string { return "let x = " + rep("[", n) })},
		{"lex-open-braces", raw(func(n int) string { return "fun f() " + rep("{", n) })},
		{"lex-open-mixed", raw(func(n int) string { return "let x = " + rep("([{", n) })},
		{"lex-less-chain", raw(func(n int) string { return "let x = a" + rep("<", n) })},
		{"lex-closers", raw(func(n int) string { return rep(")", n) })},
		{"lex-quotes", raw(func(n int) string { return rep("\"", n) })},
		{"lex-template-open", raw(func(n int) string { return "let x = " + rep("\"\\(", n) })},
		{"lex-backslashes", raw(func(n int) string { return rep("\\", n) })},
		{"lex-newlines", raw(func(n int) string { return rep("\n", n) })},
		{"lex-invalid-utf8", raw(func(n int) string { return rep("\xff", n) })},
	}
}

func ladderSizes(thorough bool) []int {
	max := 1 << 14
	if thorough {
		max = 1 << 18
	}
	var out []int
	for n := 1; n <= max; n *= 2 {
		out = append(out, n)
	}
	return out
}

type ladderResult struct {
	Index    int      `json:"i"`
	Class    string   `json:"class"`
	Sigs     []string `json:"sigs,omitempty"`
	Details  []string `json:"details,omitempty"`
	DontCare int      `json:"dc,omitempty"`
}

type ladderCase struct {
	construct string
	n         int
}

func ladderCases(thorough bool) []ladderCase {
	var out []ladderCase
	for _, l := range ladders() {
		for _, n := range ladderSizes(thorough) {
			out = append(out, ladderCase{l.name, n})
		}
	}
	return out
}

func ladderInput(construct string, n int) ([]byte, bool) {
	for _, l := range ladders() {
		if l.name == construct {
			return []byte(l.gen(n)), true
		}
	}
	return nil, false
}

// ladderWorker runs cases [from, to) in this process, announcing each one
// before executing it, and exits. Selector: "ladder:<tier>:<from>:<to>".
func ladderWorker(sub string) {
	var tier string
	var from, to int
	parts := strings.Split(sub, ":")
	if len(parts) != 4 && len(parts) != 5 {
		fmt.Println("BAD selector", sub)
		os.Exit(3)
	}
	tier = parts[1]
	fmt.Sscan(parts[2], &from)
	fmt.Sscan(parts[3], &to)
	stride := 1
	if len(parts) == 5 {
		fmt.Sscan(parts[4], &stride)
	}
	cases := ladderCases(tier == "thorough")
	w := bufio.NewWriter(os.Stdout)
	for i := from; i < to && i < len(cases); i += stride {
		c := cases[i]
		fmt.Fprintf(w, "START %d\n", i)
		w.Flush()
		if os.Getenv("VERIF_C37_SELFTEST_CRASH_AT") == fmt.Sprint(i) {
			// self-test of the crash attribution: a real, unrecoverable stack overflow
			var f func(int) int
			f = func(x int) int { return f(x+1) + 1 }
			f(0)
		}
		input, _ := ladderInput(c.construct, c.n)
		// the checker is quadratic in the nesting depth for several constructs:
		// rungs above 2^11 exercise lexer and parser only (stated in the rule)
		fs, class, dc := frontOnceOpt(input, fullConfig, true, c.n <= 1<<11)
		r := ladderResult{Index: i, Class: class, DontCare: dc}
		for _, f := range fs {
			r.Sigs = append(r.Sigs, f.sig)
			r.Details = append(r.Details, trunc(f.detail, 400))
		}
		b, _ := json.Marshal(r)
		fmt.Fprintf(w, "RESULT %s\n", b)
		w.Flush()
	}
	w.Flush()
	os.Exit(0)
}

// runLadderRange spawns a worker for [from,to); returns results and, if the
// worker died, the index it was working on plus the tail of its stderr.
func runLadderRange(tier string, from, to int) (results []ladderResult, crashed int, stderrTail string, err error) {
	return runLadderStride(tier, from, to, 1)
}

// runLadderStride runs cases from, from+stride, ... < to in one worker process.
func runLadderStride(tier string, from, to, stride int) (results []ladderResult, crashed int, stderrTail string, err error) {
	crashed = -1
	cmd := exec.Command(os.Args[0], "C37", "--tier", tier, "--sub", fmt.Sprintf("ladder:%s:%d:%d:%d", tier, from, to, stride))
	cmd.Env = append(os.Environ(), "GOMAXPROCS=2", "GOTRACEBACK=single")
	var stdout, stderr bytes.Buffer
	cmd.Stdout = &stdout
	cmd.Stderr = &limitedWriter{max: 1 << 16, buf: &stderr}
	runErr := cmd.Run()
	started := -1
	sc := bufio.NewScanner(&stdout)
	sc.Buffer(make([]byte, 1<<20), 1<<24)
	for sc.Scan() {
		line := sc.Text()
		switch {
		case strings.HasPrefix(line, "START "):
			fmt.Sscan(line[6:], &started)
		case strings.HasPrefix(line, "RESULT "):
			var r ladderResult
			if json.Unmarshal([]byte(line[7:]), &r) == nil {
				results = append(results, r)
				if r.Index == started {
					started = -1
				}
			}
		}
	}
	if runErr != nil {
		if started >= 0 {
			return results, started, stderr.String(), nil
		}
		return results, -1, stderr.String(), fmt.Errorf("ladder worker failed outside a case: %v: %s", runErr, trunc(stderr.String(), 500))
	}
	return results, -1, "", nil
}

type limitedWriter struct {
	max int
	buf *bytes.Buffer
}

func (l *limitedWriter) Write(p []byte) (int, error) {
	if room := l.max - l.buf.Len(); room > 0 {
		if len(p) > room {
			l.buf.Write(p[:room])
		} else {
			l.buf.Write(p)
		}
	}
	return len(p), nil
}

func crashClass(stderr string) string {
	switch {
	case strings.Contains(stderr, "stack overflow") || strings.Contains(stderr, "goroutine stack exceeds"):
		return "stack-overflow"
	case strings.Contains(stderr, "out of memory"):
		return "out-of-memory"
	case strings.Contains(stderr, "fatal error"):
		return "fatal-error"
	case strings.Contains(stderr, "signal: killed") || strings.Contains(stderr, "SIGKILL"):
		return "killed"
	}
	return "process-died"
}

func crashSite(stderr string) string {
	// the frame that repeats in a stack overflow trace: first cadence frame
	for _, l := range strings.Split(stderr, "\n") {
		if m := frameRe.FindStringSubmatch(l); m != nil && !strings.HasPrefix(l, "\t") {
			return m[1]
		}
	}
	return "?"
}

// ---------------------------------------------------------------------------
// pool histories

func poolInputs() [][]byte {
	ins := []string{
		"", "a", "let x = 1", "a\nb\nc", "\n\n\n", "\"abc\"", "\"a\\(b)c\"", "\"a\\(", "\"a\\((", "\"a\\(b", "\"unterminated", "/* open", "/* /* nested */",
		"/* a */ b", "// line\nx", "// line", "1.", "0x", "0b2", "\\", "a \\ b", "é", "\"é\" x", "/*é*/ x", "/*éa*/ x", "x\xff", "\xff", "as? as! as",
		"fun f() {\n  return 1\n}\n", "a ?? b ?. c <-> d <-! e", "a<b<c>>(d)", "\"\\(\"\\(a)\")\"", "\"\\(a))\" b", "((((", "))))", "a\r\nb",
	}
	var out [][]byte
	for _, s := range ins {
		out = append(out, []byte(s))
	}
	return out
}

type tokDump struct {
	Type  lexer.TokenType
	Range ast.Range
	Extra string
}

func dumpTokens(toks []lexer.Token) []tokDump {
	out := make([]tokDump, len(toks))
	for i, t := range toks {
		out[i] = tokDump{Type: t.Type, Range: t.Range}
		switch x := t.SpaceOrError.(type) {
		case error:
			out[i].Extra = x.Error()
		case nil:
		default:
			out[i].Extra = fmt.Sprintf("%v", x)
		}
	}
	return out
}

func sameDump(a, b []tokDump) (bool, string) {
	if len(a) != len(b) {
		return false, fmt.Sprintf("%d tokens vs %d tokens", len(a), len(b))
	}
	for i := range a {
		if a[i] != b[i] {
			return false, fmt.Sprintf("token %d: %+v vs %+v", i, a[i], b[i])
		}
	}
	return true, ""
}

// drainLexerPool empties the lexer pool (sync.Pool drops its contents after two GCs).
func drainLexerPool() {
	runtime.GC()
	runtime.GC()
}

// freshLex lexes input with a lexer that was not used before (pool drained by two GCs).
func freshLex(input []byte) (d []tokDump, lexErr string) {
	runtime.GC()
	runtime.GC()
	ts, err := lexer.Lex(input, nil)
	if err != nil {
		lexErr = err.Error()
	}
	if ts != nil {
		d = dumpTokens(lexTokens(ts, 1<<20))
		// do not Reclaim: keep this lexer out of the pool
	}
	return
}

// poolOnce lexes prev (consuming `consume` tokens, -1 = all), reclaims it, then
// lexes input and compares with the fresh result.
func poolOnce(prev, input []byte, consume int, want []tokDump, wantErr string) (f *c37Finding, reused bool) {
	runtime.LockOSThread()
	defer runtime.UnlockOSThread()
	// The pool is empty on entry (see below), so the lexer that serves `input`
	// has exactly the history [prev]: the case replays on its own.
	ts1, _ := lexer.Lex(prev, nil)
	if ts1 != nil {
		if consume < 0 {
			lexTokens(ts1, 1<<20)
		} else {
			for i := 0; i < consume; i++ {
				ts1.Next()
			}
		}
		ts1.Reclaim()
	}
	ts2, err := lexer.Lex(input, nil)
	gotErr := ""
	if err != nil {
		gotErr = err.Error()
	}
	var got []tokDump
	if ts2 != nil {
		reused = ts1 == ts2
		got = dumpTokens(lexTokens(ts2, 1<<20))
		// ts2 is deliberately not reclaimed: the pool stays empty for the next pair
		if !reused {
			drainLexerPool()
		}
	}
	if gotErr != wantErr {
		return &c37Finding{"lex|history-dependent-error", fmt.Sprintf("lexing %q after %q returns error %q, fresh: %q", input, prev, gotErr, wantErr)}, reused
	}
	if ok, d := sameDump(want, got); !ok {
		return &c37Finding{"lex|history-dependent-tokens", fmt.Sprintf("lexing %q after %q (consumed %d) differs from a fresh lex: %s", input, prev, consume, d)}, reused
	}
	return nil, reused
}

// takeLexerOut removes the most recently reclaimed lexer from the pool (it is not given back).
func takeLexerOut() {
	ts, _ := lexer.Lex(nil, nil)
	_ = ts
}

// parseHistoryOnce: ParseProgram(input) after ParseProgram(prev) equals a fresh ParseProgram(input).
func parseDump(input []byte) string {
	runtimeProg, err := parser.ParseProgram(nil, input, fullConfig)
	var sb strings.Builder
	if runtimeProg != nil {
		b, _ := json.Marshal(runtimeProg)
		sb.Write(b)
	}
	if err != nil {
		if pe, ok := err.(parser.Error); ok {
			for _, e := range pe.Errors {
				fmt.Fprintf(&sb, "|%T:%s", e, e.Error())
				if hp, ok := e.(errPositions); ok {
					fmt.Fprintf(&sb, "@%v-%v", hp.StartPosition(), hp.EndPosition(nil))
				}
			}
		} else {
			sb.WriteString("|" + err.Error())
		}
	}
	return sb.String()
}

// ---------------------------------------------------------------------------

func runC37(env *mc.Env) {
	if strings.HasPrefix(env.Sub, "ladder:") {
		ladderWorker(env.Sub)
		return
	}
	thorough := env.Thorough()
	// development aid: "--sub part:bytes,tokens,edits,ladders,pool" runs only the named parts
	part := func(name string) bool {
		if !strings.HasPrefix(env.Sub, "part:") {
			return true
		}
		for _, p := range strings.Split(env.Sub[5:], ",") {
			if p == name {
				return true
			}
		}
		return false
	}
	report := func(fs []c37Finding, c c37Case, family string) {
		for _, f := range fs {
			violation(env, f.sig, c, f.detail+" ["+family+"]")
		}
	}

	// (a1) all byte strings of length <= 2
	if part("bytes") {
		const total = 1 + 256 + 65536
		const chunk = 2048
		mc.ParallelFor(env, (total+chunk-1)/chunk, func(ci int) {
			classes := map[string]int64{}
			var dc int64
			for k := ci * chunk; k < (ci+1)*chunk && k < total; k++ {
				var in []byte
				switch {
				case k == 0:
					in = []byte{}
				case k <= 256:
					in = []byte{byte(k - 1)}
				default:
					v := k - 257
					in = []byte{byte(v >> 8), byte(v)}
				}
				fs, class, d := frontOnce(in, fullConfig, true)
				dc += int64(d)
				classes["bytes:"+class]++
				if len(fs) > 0 {
					report(fs, c37Case{Kind: "input", Input: in}, "bytes2")
				}
				if class != "lex-error" && class != "syntax-error" {
					env.R.Nontrivial(string(in))
				}
			}
			flushClasses(env, classes, dc)
		})
	}

	// (a2) all token sequences of length <= 3 over the token alphabet
	alpha := tokenAlphabet()
	env.R.Set("token_alphabet", len(alpha))
	if part("tokens") {
		na := len(alpha)
		maxLen := 3
		// work items: (first token) x everything after it, plus the short ones
		mc.ParallelFor(env, na, func(i int) {
			classes := map[string]int64{}
			var dc int64
			run := func(seq string) {
				in := []byte(seq)
				fs, class, d := frontOnce(in, fullConfig, true)
				dc += int64(d)
				classes["tokens:"+class]++
				if len(fs) > 0 {
					report(fs, c37Case{Kind: "input", Input: in}, "tokens")
				}
				if class == "checked-ok" || class == "semantic-error" {
					env.R.Nontrivial(seq)
				}
			}
			a := alpha[i]
			run(a)
			for j := 0; j < na; j++ {
				ab := a + " " + alpha[j]
				run(ab)
				run(a + alpha[j]) // adjacent spelling: tokens may fuse
				if maxLen >= 3 {
					for k := 0; k < na; k++ {
						run(ab + " " + alpha[k])
					}
				}
			}
			flushClasses(env, classes, dc)
		})
		if thorough {
			// length 4 over the punctuation / literal subset (no keywords)
			sub := alpha[:62]
			ns := len(sub)
			mc.ParallelFor(env, ns*ns, func(ij int) {
				classes := map[string]int64{}
				var dc int64
				pre := sub[ij/ns] + " " + sub[ij%ns]
				for k := 0; k < ns; k++ {
					for l := 0; l < ns; l++ {
						in := []byte(pre + " " + sub[k] + " " + sub[l])
						fs, class, d := frontOnce(in, fullConfig, true)
						dc += int64(d)
						classes["tokens4:"+class]++
						if len(fs) > 0 {
							report(fs, c37Case{Kind: "input", Input: in}, "tokens")
						}
					}
				}
				flushClasses(env, classes, dc)
			})
		}
	}

	// (a3) all sequences of <= 3 tokens over a non-ASCII token alphabet (column bookkeeping)
	if part("tokens") {
		mb := []string{"/* a\n*/", "/**é\n*/", "/* a /* b\n*/ c */", "\"é\"", "/*é*/", "/*éa*/", "//é\n", "x", " ", "\"\\(a)é\"", "\"日本\"", "\n", "/*\U0001F600*/"}
		classes := map[string]int64{}
		var dc int64
		run := func(seq string) {
			in := []byte(seq)
			fs, class, d := frontOnce(in, fullConfig, true)
			dc += int64(d)
			classes["multibyte:"+class]++
			if len(fs) > 0 {
				report(fs, c37Case{Kind: "input", Input: in}, "multibyte")
			}
			env.R.Nontrivial(seq)
		}
		for _, a := range mb {
			run(a)
			for _, b := range mb {
				run(a + b)
				for _, c := range mb {
					run(a + b + c)
				}
			}
		}
		flushClasses(env, classes, dc)
	}

	// (b) every single edit of every corpus program
	corpus := editCorpus(thorough)
	env.R.Set("edit_corpus", len(corpus))
	if part("edits") {
		var alphaB [][]byte
		for _, a := range alpha {
			alphaB = append(alphaB, []byte(a))
		}
		mc.ParallelFor(env, len(corpus), func(pi int) {
			src := []byte(corpus[pi])
			classes := map[string]int64{}
			var dc int64
			run := func(in []byte, edit string) {
				fs, class, d := frontOnce(in, fullConfig, true)
				dc += int64(d)
				classes["edit:"+class]++
				if len(fs) > 0 {
					report(fs, c37Case{Kind: "input", Input: append([]byte{}, in...)}, "edit:"+edit)
				}
				if class == "checked-ok" || class == "semantic-error" {
					env.R.Nontrivial(string(in))
				}
			}
			splice := func(s, e int, repl []byte) []byte {
				out := make([]byte, 0, len(src)+len(repl))
				out = append(out, src[:s]...)
				out = append(out, repl...)
				return append(out, src[e:]...)
			}
			run(src, "none")
			spans := tokenSpans(src)
			for _, sp := range spans {
				run(splice(sp[0], sp[1], nil), "delete-token")
				run(splice(sp[1], sp[1], append([]byte(" "), src[sp[0]:sp[1]]...)), "duplicate-token")
				for _, a := range alphaB {
					run(splice(sp[0], sp[1], a), "replace-token")
				}
			}
			for _, sp := range spans {
				for _, ins := range commentInserts {
					run(splice(sp[0], sp[0], ins), "insert-comment")
				}
			}
			for _, ins := range commentInserts {
				run(splice(len(src), len(src), ins), "insert-comment")
			}
			for i := 0; i <= len(src); i++ {
				run(src[:i], "truncate")
				for _, ins := range editInserts {
					run(splice(i, i, ins), "insert-bytes")
				}
			}
			flushClasses(env, classes, dc)
		})
	}

	// (c) nesting ladders, in worker subprocesses
	if part("ladders") {
		tier := env.Tier
		cases := ladderCases(thorough)
		env.R.Set("ladder_cases", len(cases))
		// 16 worker processes, cases dealt round-robin (the big rungs of a construct are
		// spread over the workers); a crash restarts the worker after the crashing case
		const stride = 16
		var ranges [][2]int
		for k := 0; k < stride && k < len(cases); k++ {
			ranges = append(ranges, [2]int{k, len(cases)})
		}
		mc.ParallelFor(env, len(ranges), func(ri int) {
			from, to := ranges[ri][0], ranges[ri][1]
			classes := map[string]int64{}
			var dc int64
			for from < to {
				results, crashed, stderrTail, err := runLadderStride(tier, from, to, stride)
				for _, r := range results {
					c := cases[r.Index]
					classes["ladder:"+r.Class]++
					dc += int64(r.DontCare)
					if c.n >= 32 {
						env.R.Nontrivial(fmt.Sprintf("%s/%d", c.construct, c.n))
					}
					for k, sig := range r.Sigs {
						violation(env, sig, c37Case{Kind: "ladder", Construct: c.construct, N: c.n}, fmt.Sprintf("ladder %s n=%d: %s", c.construct, c.n, r.Details[k]))
					}
				}
				if err != nil {
					env.R.HarnessError("%v", err)
					return
				}
				if crashed < 0 {
					break
				}
				c := cases[crashed]
				classes["ladder:crash"]++
				env.R.Nontrivial(fmt.Sprintf("%s/%d", c.construct, c.n))
				violation(env, "crash:"+crashClass(stderrTail)+"|"+crashSite(stderrTail)+"|ladder:"+c.construct,
					c37Case{Kind: "ladder", Construct: c.construct, N: c.n},
					fmt.Sprintf("worker process died on %s with n=%d (%d bytes of input): %s", c.construct, c.n, len(mustLadder(c)), trunc(stderrTail, 600)))
				from = crashed + stride
			}
			flushClasses(env, classes, dc)
		})
	}

	// (d) lexer-pool histories: all ordered pairs, prev fully / partly consumed
	if part("pool") {
		ins := poolInputs()
		env.R.Set("pool_inputs", len(ins))
		classes := map[string]int64{}
		var reusedN int64
		fresh := make([][]tokDump, len(ins))
		freshErr := make([]string, len(ins))
		for i, b := range ins {
			fresh[i], freshErr[i] = freshLex(b)
		}
		drainLexerPool()
		for _, a := range ins {
			for bi, b := range ins {
				for _, consume := range []int{-1, 0, 1, 2} {
					f, reused := poolOnce(a, b, consume, fresh[bi], freshErr[bi])
					if reused {
						reusedN++
					}
					env.R.Nontrivial(fmt.Sprintf("pool|%q|%q|%d", a, b, consume))
					classes["pool:compared"]++
					if f != nil {
						violation(env, f.sig, c37Case{Kind: "pool", Prev: a, Input: b, Consume: consume}, f.detail)
					}
				}
				// parser level: parse b after parsing a equals a fresh parse of b
				want := parseDump(b)
				takeLexerOut() // the parser reclaimed its lexer: remove it, so that the history below is [a, b]
				parseDump(a)
				got := parseDump(b)
				takeLexerOut()
				if got != want {
					violation(env, "parse|history-dependent", c37Case{Kind: "pool", Prev: a, Input: b, Consume: -2},
						fmt.Sprintf("parsing %q after %q differs from parsing it first", b, a))
				}
				classes["pool:parse-compared"]++
			}
		}
		env.R.Set("pool_pairs_with_reused_lexer", reusedN)
		flushClasses(env, classes, 0)
	}

	flushViolations(env)
	env.R.BoundCompleted(fmt.Sprintf("bytes<=2, token sequences<=3 over %d tokens, single edits of %d programs, ladders to 2^%d, %d pool inputs",
		len(alpha), len(corpus), mc.Pick(env, 14, 18), len(poolInputs())))
}

func mustLadder(c ladderCase) []byte {
	b, _ := ladderInput(c.construct, c.n)
	return b
}

func flushClasses(env *mc.Env, classes map[string]int64, dc int64) {
	var n int64
	for k, v := range classes {
		n += v
		kk := k
		env.R.Class(kk, nil)
		env.R.ClassN(kk, v-1)
	}
	env.R.EvalN(n)
	if dc > 0 {
		env.R.DontCare.Add(dc)
	}
}

func replayC37(env *mc.Env, raw json.RawMessage) (bool, string) {
	var c c37Case
	if err := json.Unmarshal(raw, &c); err != nil {
		return false, err.Error()
	}
	switch c.Kind {
	case "input":
		fs, class, _ := frontOnce(c.Input, fullConfig, true)
		if len(fs) > 0 {
			return true, fmt.Sprintf("%q: %s: %s (%s)", c.Input, fs[0].sig, fs[0].detail, class)
		}
		return false, class
	case "pool":
		drainLexerPool()
		if c.Consume == -2 {
			want := parseDump(c.Input)
			drainLexerPool()
			parseDump(c.Prev)
			return parseDump(c.Input) != want, "parse history"
		}
		want, wantErr := freshLex(c.Input)
		f, _ := poolOnce(c.Prev, c.Input, c.Consume, want, wantErr)
		if f != nil {
			return true, f.detail
		}
		return false, "same as fresh"
	case "ladder":
		cases := ladderCases(true)
		idx := -1
		for i, lc := range cases {
			if lc.construct == c.Construct && lc.n == c.N {
				idx = i
			}
		}
		if idx < 0 {
			return false, "unknown ladder case"
		}
		results, crashed, stderrTail, err := runLadderRange("thorough", idx, idx+1)
		if err != nil {
			return false, err.Error()
		}
		if crashed == idx {
			return true, "worker died: " + crashClass(stderrTail) + " at " + crashSite(stderrTail)
		}
		for _, r := range results {
			if len(r.Sigs) > 0 {
				return true, r.Sigs[0] + ": " + r.Details[0]
			}
		}
		return false, "ok"
	}
	return false, "unknown case kind"
}

func init() {
	mc.Register(&mc.Check{
		ID:   "C37",
		Rule: "lexer.Lex + parser.ParseProgram (+ sema Checker.Check when the parse succeeds) on (a) every byte string of length <= 2 and every sequence of <= 3 tokens [<= 4 over the 62 non-keyword tokens, thorough] over the full token alphabet (every lexer token type, every keyword, literal / comment / string-template fragments), space-separated and adjacent; (b) every single edit (delete / duplicate / replace-by-each-alphabet-token at every token, truncate at every byte, insert each of {80, C0, FF, ED A0 80, NUL, \\(, /*, \"} at every byte, insert each of 10 single-/multi-line/nested/doc comments at every token gap) of every program of the edit corpus; (c) nesting ladders n = 1,2,4..2^14 [2^18] for ~95 nesting / repetition constructs (checker only up to 2^11: it is quadratic in nesting depth), run in worker subprocesses so that an unrecoverable crash is attributed to its input; (d) all ordered pairs of 36 inputs lexed back-to-back through the pooled lexer (previous stream consumed fully / 0 / 1 / 2 tokens) vs lexed fresh, and parsed back-to-back vs parsed first. Oracle: no panic, only user errors; every token and error position inside the input; tokens contiguous from 0 to len (up to the first error token); token line = 1 + newlines before the offset and column = distance from line start in one convention (bytes or runes) per input; history-independence. non-trivial = input that reached the checker / ladder rungs with n >= 32 / pool pairs where the pooled lexer object was observably reused",
		Assumptions: []string{
			"checker run without a standard library (base activations only), access check mode 'not specified unrestricted', native/static declarations allowed",
			"error positions are read through StartPosition/EndPosition of each reported error",
			"column convention: bytes or runes accepted, but one convention per input",
		},
		Run:    runC37,
		Replay: replayC37,
	})
}

// Package front holds the front-end checks: C37 (lexer/parser/checker totality
// and positions), C38 (printer round trip), C39 (formatter), C35 (compiler
// determinism and bytecode codecs).
package front

import (
	"bytes"
	"encoding/json"
	"fmt"
	"os"
	"reflect"
	"sort"
	"strings"
	"sync"

	"github.com/onflow/cadence/ast"
	"github.com/onflow/cadence/parser"

	"verif/mc"
)

// fullConfig enables every optional syntax so that every declaration form ×
// modifier combination of the generator is reachable.
var fullConfig = parser.Config{
	StaticModifierEnabled: true,
	NativeModifierEnabled: true,
	TypeParametersEnabled: true,
}

func parseProg(src string, cfg parser.Config) (*ast.Program, error) {
	return parser.ParseProgram(nil, []byte(src), cfg)
}

// ---------------------------------------------------------------------------
// AST JSON with positions erased

// isPosition reports whether m is an ast.Position object.
func isPosition(m map[string]any) bool {
	if len(m) != 3 {
		return false
	}
	_, a := m["Offset"]
	_, b := m["Line"]
	_, c := m["Column"]
	return a && b && c
}

// strip removes every position object (whatever the key is called) and the
// comment-derived DocString fields from a decoded JSON tree.
func strip(v any) any {
	switch x := v.(type) {
	case map[string]any:
		for k, c := range x {
			if k == "DocString" {
				delete(x, k)
				continue
			}
			// don't-care cells (the sentence says "same ... conditions" / "same declarations"):
			// an empty `pre {}` / `post {}` block holds no condition, and an empty
			// transaction parameter list `transaction() {}` holds no parameter; whether
			// the AST records the empty container or nothing is not meaning.
			if (k == "PreConditions" || k == "PostConditions" || k == "ParameterList") && (c == nil || isEmptyContainer(c)) {
				delete(x, k)
				continue
			}
			if cm, ok := c.(map[string]any); ok && isPosition(cm) {
				delete(x, k)
				continue
			}
			x[k] = strip(c)
		}
		return x
	case []any:
		for i := range x {
			x[i] = strip(x[i])
		}
		return x
	}
	return v
}

func isEmptyContainer(c any) bool {
	m, ok := c.(map[string]any)
	if !ok {
		return false
	}
	for k, v := range m {
		if cm, ok := v.(map[string]any); ok && isPosition(cm) {
			continue
		}
		if k != "Conditions" && k != "Parameters" {
			return false
		}
		if l, ok := v.([]any); v != nil && !(ok && len(l) == 0) {
			return false
		}
	}
	return true
}

// astTree returns the position-free JSON tree of any AST element.
func astTree(e any) (any, error) {
	b, err := json.Marshal(e)
	if err != nil {
		return nil, err
	}
	var v any
	dec := json.NewDecoder(bytes.NewReader(b))
	dec.UseNumber()
	if err := dec.Decode(&v); err != nil {
		return nil, err
	}
	return strip(v), nil
}

// fastStrip removes every `"Key":{"Offset":..,"Line":..,"Column":..}` member from
// AST JSON at the byte level (no decoding). Equal outputs imply equal
// position-free trees; unequal outputs are decided by the slow path (astTree),
// which also applies the don't-care normalisations.
func fastStrip(b []byte) []byte {
	out := make([]byte, 0, len(b)/2+16)
	marker := []byte(`{"Offset":`)
	i := 0
	for i < len(b) {
		if b[i] == '{' && bytes.HasPrefix(b[i:], marker) && len(out) >= 4 && out[len(out)-1] == ':' && out[len(out)-2] == '"' {
			j := bytes.IndexByte(b[i:], '}')
			q := bytes.LastIndexByte(out[:len(out)-2], '"')
			if j > 0 && q >= 0 {
				out = out[:q]
				i += j + 1
				if n := len(out); n > 0 && out[n-1] == ',' {
					out = out[:n-1]
				} else if i < len(b) && b[i] == ',' {
					i++
				}
				continue
			}
		}
		out = append(out, b[i])
		i++
	}
	return out
}

// sameAST compares two AST elements modulo positions; diff describes the first difference.
// norm (optional) is applied to both stripped trees on the slow path.
func sameAST(a, b any, norm func(any)) (same bool, diff string, err error) {
	ja, err := json.Marshal(a)
	if err != nil {
		return false, "", err
	}
	jb, err := json.Marshal(b)
	if err != nil {
		return false, "", err
	}
	if bytes.Equal(fastStrip(ja), fastStrip(jb)) {
		return true, "", nil
	}
	ta, err := astTree(a)
	if err != nil {
		return false, "", err
	}
	tb, err := astTree(b)
	if err != nil {
		return false, "", err
	}
	if norm != nil {
		norm(ta)
		norm(tb)
	}
	d := firstDiff(ta, tb, nil)
	return d == "", d, nil
}

// canon renders a stripped tree canonically (encoding/json sorts map keys).
func canon(v any) string {
	b, _ := json.Marshal(v)
	return string(b)
}

func astCanon(e any) (string, error) {
	t, err := astTree(e)
	if err != nil {
		return "", err
	}
	return canon(t), nil
}

// firstDiff describes the first difference of two stripped trees: the chain
// of node types leading to it and what differs.
func firstDiff(a, b any, chain []string) string {
	if reflect.DeepEqual(a, b) {
		return ""
	}
	am, aok := a.(map[string]any)
	bm, bok := b.(map[string]any)
	if aok && bok {
		at, _ := am["Type"].(string)
		bt, _ := bm["Type"].(string)
		if at != bt {
			return fmt.Sprintf("%s: node %s became %s", strings.Join(chain, ">"), at, bt)
		}
		keys := map[string]struct{}{}
		for k := range am {
			keys[k] = struct{}{}
		}
		for k := range bm {
			keys[k] = struct{}{}
		}
		var ks []string
		for k := range keys {
			ks = append(ks, k)
		}
		sort.Strings(ks)
		for _, k := range ks {
			av, ain := am[k]
			bv, bin := bm[k]
			if ain != bin {
				return fmt.Sprintf("%s: key %s present %v/%v", strings.Join(chain, ">"), k, ain, bin)
			}
			name := at
			if name == "" {
				name = "?"
			}
			if d := firstDiff(av, bv, append(chain, name+"."+k)); d != "" {
				return d
			}
		}
		return ""
	}
	as, aok := a.([]any)
	bs, bok := b.([]any)
	if aok && bok {
		if len(as) != len(bs) {
			return fmt.Sprintf("%s: %d elements became %d", strings.Join(chain, ">"), len(as), len(bs))
		}
		for i := range as {
			if d := firstDiff(as[i], bs[i], chain); d != "" {
				return d
			}
		}
		return ""
	}
	return fmt.Sprintf("%s: %s became %s", strings.Join(chain, ">"), trunc(canon(a), 80), trunc(canon(b), 80))
}

func trunc(s string, n int) string {
	if len(s) > n {
		return s[:n] + "…"
	}
	return s
}

// ---------------------------------------------------------------------------
// Localisation of a round-trip failure to the deepest AST element that
// exhibits it on its own; the element's kind (plus operator / child kinds) is
// the structural class used in signatures.

// printFn renders one element; ok=false: not printable on its own; panicked: the printer crashed.
type printFn func(e ast.Element) (text string, panicked bool, ok bool)

// elemRoundTripFails re-parses the printed form of one element in isolation.
// ok=false means the element kind cannot be parsed in isolation. gotType is
// the node type of the re-parsed root (when it parsed).
func elemRoundTripFails(e ast.Element, print printFn) (fails bool, kind string, gotType string, ok bool) {
	switch e.(type) {
	case ast.Expression, ast.Declaration, ast.Statement, ast.Type:
	default:
		return false, "", "", false
	}
	text, panicked, pok := print(e)
	if panicked {
		return true, "print-panics", "", true
	}
	if !pok || strings.TrimSpace(text) == "" {
		// e.g. the synthesized empty return type of `fun(T)`: not an element of the source
		return false, "", "", false
	}
	want, err := astCanon(e)
	if err != nil {
		return false, "", "", false
	}
	var got any
	var errs []error
	switch e.(type) {
	case ast.Expression:
		var x ast.Expression
		x, errs = parser.ParseExpression(nil, []byte(text), fullConfig)
		got = x
	case ast.Declaration:
		switch e.ElementType() {
		case ast.ElementTypeFieldDeclaration, ast.ElementTypeSpecialFunctionDeclaration, ast.ElementTypeEnumCaseDeclaration:
			return false, "", "", false
		}
		var xs []ast.Declaration
		xs, errs = parser.ParseDeclarations(nil, []byte(text), fullConfig)
		if len(errs) == 0 && len(xs) != 1 {
			return true, "ast-differs", "", true
		}
		if len(xs) == 1 {
			got = xs[0]
		}
	case ast.Statement:
		var xs []ast.Statement
		xs, errs = parser.ParseStatements(nil, []byte(text), fullConfig)
		if len(errs) == 0 && len(xs) != 1 {
			return true, "ast-differs", "", true
		}
		if len(xs) == 1 {
			got = xs[0]
		}
	case ast.Type:
		var x ast.Type
		x, errs = parser.ParseType(nil, []byte(text), fullConfig)
		got = x
	}
	if len(errs) > 0 {
		return true, "reparse-fails", "", true
	}
	gotC, err := astCanon(got)
	if err != nil {
		return false, "", "", false
	}
	if gotC != want {
		if ge, isElem := got.(ast.Element); isElem && !isNilElement(ge) {
			gotType = elemKind(ge)
		}
		return true, "ast-differs", gotType, true
	}
	return false, "", "", true
}

func isNilElement(e ast.Element) bool {
	if e == nil {
		return true
	}
	v := reflect.ValueOf(e)
	return v.Kind() == reflect.Ptr && v.IsNil()
}

func elemKind(e ast.Element) string {
	return strings.TrimPrefix(e.ElementType().String(), "ElementType")
}

// elemLabel names an element by kind, plus the operator for operator nodes.
func elemLabel(e ast.Element) string {
	if isNilElement(e) {
		return "nil"
	}
	s := elemKind(e)
	switch x := e.(type) {
	case *ast.UnaryExpression:
		s += "(" + x.Operation.Symbol() + ")"
	case *ast.CastingExpression:
		s += "(" + x.Operation.Symbol() + ")"
	case *ast.IntegerExpression:
		if x.Value != nil && x.Value.Sign() < 0 {
			s += "(negative)"
		}
	case *ast.FixedPointExpression:
		if x.Negative {
			s += "(negative)"
		}
	}
	return s
}

func children(e ast.Element) (out []ast.Element) {
	defer func() { recover() }()
	e.Walk(func(c ast.Element) {
		if !isNilElement(c) {
			out = append(out, c)
		}
	})
	return
}

// localize finds the deepest element under root whose isolated round trip
// fails and returns a structural label.
//
//   - if the re-parsed element has the node kind of one of its children (the
//     child swallowed its parent: a missing parenthesis), the label names that
//     child: "operand:<child>" — one class per under-parenthesized node kind;
//   - otherwise Elem[child,child,...] (operators reduced to precedence classes).
func localize(root ast.Element, print printFn) (label string, kind string) {
	var best ast.Element
	bestKind, bestGot := "", ""
	bestDepth := -1
	var rec func(e ast.Element, depth int)
	rec = func(e ast.Element, depth int) {
		if depth > 40 {
			return
		}
		fails, k, got, ok := elemRoundTripFails(e, print)
		if ok && fails && depth > bestDepth {
			best, bestKind, bestGot, bestDepth = e, k, got, depth
		}
		for _, c := range children(e) {
			rec(c, depth+1)
		}
	}
	for _, c := range children(root) {
		rec(c, 0)
	}
	if best == nil {
		return "Program", ""
	}
	var cs []string
	kids := children(best)
	if rt, ok := best.(*ast.ReferenceType); ok {
		// the authorization's entitlement names are not structure
		kids = []ast.Element{rt.Type}
	}
	for _, c := range kids {
		l := elemLabel(c)
		if bestGot != "" && bestGot != elemKind(best) &&
			(elemKind(c) == bestGot || (bestGot == "UnaryExpression" && strings.HasSuffix(l, "(negative)"))) {
			return "operand:" + l, bestKind
		}
		cs = append(cs, l)
	}
	// Keep signatures of different defects apart: when the failing element
	// contains one of the node kinds whose own printing is known to need
	// parentheses (prefix forms that extend to the right, negative literals,
	// references, function expressions), name them; otherwise the failure is
	// about the operators themselves, so name the operators.
	culprits := map[string]struct{}{}
	var scan func(e ast.Element, depth int)
	scan = func(e ast.Element, depth int) {
		if depth > 4 {
			return
		}
		switch x := e.(type) {
		case *ast.DestroyExpression, *ast.AttachExpression, *ast.ReferenceExpression, *ast.FunctionExpression:
			culprits[elemKind(e)] = struct{}{}
		case *ast.UnaryExpression:
			if x.Operation.Symbol() == "<-" {
				culprits["UnaryExpression(<-)"] = struct{}{}
			}
		case *ast.IntegerExpression, *ast.FixedPointExpression:
			if strings.HasSuffix(elemLabel(e), "(negative)") {
				culprits["negative-literal"] = struct{}{}
			}
		}
		for _, c := range children(e) {
			scan(c, depth+1)
		}
	}
	for _, c := range kids {
		scan(c, 1)
	}
	if len(culprits) > 0 {
		var names []string
		for k := range culprits {
			names = append(names, k)
		}
		sort.Strings(names)
		return elemKind(best) + "[" + strings.Join(cs, ",") + "]+has(" + strings.Join(names, ",") + ")", bestKind
	}
	opLabel := func(e ast.Element) string {
		if b, ok := e.(*ast.BinaryExpression); ok {
			return elemKind(e) + "(" + b.Operation.Symbol() + ")"
		}
		return elemLabel(e)
	}
	cs = cs[:0]
	for _, c := range kids {
		cs = append(cs, opLabel(c))
	}
	return opLabel(best) + "[" + strings.Join(cs, ",") + "]", bestKind
}

func canonicalPrint(e ast.Element) (s string, panicked bool, ok bool) {
	p, isPretty := e.(ast.Pretty)
	if !isPretty {
		return "", false, false
	}
	defer func() {
		if r := recover(); r != nil {
			panicked, ok = true, false
		}
	}()
	return ast.Prettier(p), false, true
}

// errKinds summarises the Go types of parse errors.
func errKinds(err error) string {
	if err == nil {
		return ""
	}
	var names []string
	if pe, ok := err.(parser.Error); ok {
		for _, e := range pe.Errors {
			names = append(names, fmt.Sprintf("%T", e))
		}
	} else {
		names = append(names, fmt.Sprintf("%T", err))
	}
	if len(names) > 3 {
		names = names[:3]
	}
	return strings.Join(names, ",")
}

// Violations are collected per signature and reported at the end of the run
// with the *smallest* case (shortest JSON, then lexicographic), so that the
// recorded replay case does not depend on goroutine scheduling.
type pendingViolation struct {
	n      int64
	caseJS string
	c      any
	detail string
}

var pendMu sync.Mutex
var pending = map[string]*pendingViolation{}

func violation(env *mc.Env, sig string, c any, detail string) {
	b, _ := json.Marshal(c)
	js := string(b)
	pendMu.Lock()
	defer pendMu.Unlock()
	e := pending[sig]
	if e == nil {
		pending[sig] = &pendingViolation{n: 1, caseJS: js, c: c, detail: detail}
		return
	}
	e.n++
	if len(js) < len(e.caseJS) || (len(js) == len(e.caseJS) && js < e.caseJS) {
		e.caseJS, e.c, e.detail = js, c, detail
	}
}

func flushViolations(env *mc.Env) {
	pendMu.Lock()
	defer pendMu.Unlock()
	var ks []string
	for k := range pending {
		ks = append(ks, k)
	}
	sort.Strings(ks)
	for _, k := range ks {
		e := pending[k]
		for i := int64(0); i < e.n; i++ {
			env.R.Violation(k, e.c, e.detail)
		}
		if os.Getenv("VERIF_FRONT_DEBUG") != "" {
			fmt.Fprintf(os.Stderr, "DBG %5d %s\n      %s\n", e.n, k, trunc(e.detail, 700))
		}
	}
	pending = map[string]*pendingViolation{}
}

func dumpDebug() {}

package front

import (
	"bufio"
	"bytes"
	"crypto/sha256"
	"encoding/hex"
	"encoding/json"
	"fmt"
	"math"
	"math/big"
	"os"
	"os/exec"
	"reflect"
	"sort"
	"strings"

	"github.com/onflow/cadence/activations"
	"github.com/onflow/cadence/bbq"
	"github.com/onflow/cadence/bbq/commons"
	"github.com/onflow/cadence/bbq/compiler"
	"github.com/onflow/cadence/bbq/leb128"
	"github.com/onflow/cadence/bbq/opcode"
	"github.com/onflow/cadence/common"
	"github.com/onflow/cadence/interpreter"
	"github.com/onflow/cadence/parser"
	"github.com/onflow/cadence/sema"
	"github.com/onflow/cadence/stdlib"

	"verif/gen/srcgen"
	"verif/mc"
)

// C35: compilation is deterministic; instruction and LEB128 encodings round-trip.
//
// (The map-iteration-order exploration of the design needs an overlay build
// and lives in another family; this check does the in-process and
// fresh-process determinism and the exhaustive codec round trips.)

type c35Case struct {
	Kind string `json:"kind"` // "compile" | "instr" | "bytes" | "leb"
	Src  string `json:"src,omitempty"`
	// instr / bytes
	Code []byte `json:"code,omitempty"`
	// leb
	Type  string `json:"type,omitempty"`
	Value string `json:"value,omitempty"`
	Len   int    `json:"len,omitempty"`
}

// ---------------------------------------------------------------------------
// deterministic dump of arbitrary Go values (follows pointers, sorts map keys)

func dumpValue(sb *strings.Builder, v reflect.Value, depth int) {
	if depth > 60 {
		sb.WriteString("<deep>")
		return
	}
	if !v.IsValid() {
		sb.WriteString("<invalid>")
		return
	}
	switch v.Kind() {
	case reflect.Ptr, reflect.Interface:
		if v.IsNil() {
			sb.WriteString("nil")
			return
		}
		if v.CanInterface() {
			switch x := v.Interface().(type) {
			case interpreter.StaticType:
				// static types point into the (cyclic) sema type graph: identity is the type ID
				sb.WriteString("T(" + string(x.ID()) + ")")
				return
			case *big.Int:
				sb.WriteString("big(" + x.String() + ")")
				return
			case common.Location:
				sb.WriteString("L(" + x.String() + ")")
				return
			case fmt.Stringer:
				if v.Kind() == reflect.Ptr && v.Elem().Kind() == reflect.Struct && strings.Contains(v.Type().String(), "sema.") {
					sb.WriteString("S(" + x.String() + ")")
					return
				}
			}
		}
		if v.Kind() == reflect.Interface {
			sb.WriteString(v.Elem().Type().String())
			sb.WriteByte(':')
		} else {
			sb.WriteByte('&')
		}
		dumpValue(sb, v.Elem(), depth+1)
	case reflect.Struct:
		// values that know how to print themselves deterministically
		if v.CanInterface() {
			if st, ok := v.Interface().(interpreter.StaticType); ok && st != nil {
				sb.WriteString("T(" + string(st.ID()) + ")")
				return
			}
		}
		sb.WriteString(v.Type().Name())
		sb.WriteByte('{')
		for i := 0; i < v.NumField(); i++ {
			sb.WriteString(v.Type().Field(i).Name)
			sb.WriteByte('=')
			dumpValue(sb, v.Field(i), depth+1)
			sb.WriteByte(';')
		}
		sb.WriteByte('}')
	case reflect.Slice, reflect.Array:
		if v.Kind() == reflect.Slice && v.Type().Elem().Kind() == reflect.Uint8 {
			sb.WriteString("x" + hex.EncodeToString(v.Bytes()))
			return
		}
		sb.WriteByte('[')
		for i := 0; i < v.Len(); i++ {
			dumpValue(sb, v.Index(i), depth+1)
			sb.WriteByte(',')
		}
		sb.WriteByte(']')
	case reflect.Map:
		keys := v.MapKeys()
		strs := make([]string, len(keys))
		for i, k := range keys {
			var kb, vb strings.Builder
			dumpValue(&kb, k, depth+1)
			dumpValue(&vb, v.MapIndex(k), depth+1)
			strs[i] = kb.String() + "->" + vb.String()
		}
		sort.Strings(strs)
		sb.WriteString("map[" + strings.Join(strs, ",") + "]")
	case reflect.String:
		fmt.Fprintf(sb, "%q", v.String())
	case reflect.Bool:
		fmt.Fprintf(sb, "%v", v.Bool())
	case reflect.Int, reflect.Int8, reflect.Int16, reflect.Int32, reflect.Int64:
		fmt.Fprintf(sb, "%d", v.Int())
	case reflect.Uint, reflect.Uint8, reflect.Uint16, reflect.Uint32, reflect.Uint64, reflect.Uintptr:
		fmt.Fprintf(sb, "%d", v.Uint())
	case reflect.Float32, reflect.Float64:
		fmt.Fprintf(sb, "%v", v.Float())
	case reflect.Func, reflect.Chan, reflect.UnsafePointer:
		if v.IsNil() {
			sb.WriteString("nil")
		} else {
			sb.WriteString("<" + v.Kind().String() + ">")
		}
	default:
		fmt.Fprintf(sb, "<%s>", v.Kind())
	}
}

func dumpAny(x any) string {
	var sb strings.Builder
	dumpValue(&sb, reflect.ValueOf(x), 0)
	return sb.String()
}

// ---------------------------------------------------------------------------
// parse + check + compile

var stdlibValues = stdlib.VMDefaultScriptStandardLibraryValues(nil)

func c35BaseValueActivation(common.Location) *sema.VariableActivation {
	activation := sema.NewVariableActivation(sema.BaseValueActivation)
	for _, v := range stdlibValues {
		activation.DeclareValue(v)
	}
	return activation
}

var c35Globals = func() *activations.Activation[compiler.GlobalImport] {
	g := activations.NewActivation[compiler.GlobalImport](nil, compiler.DefaultBuiltinGlobals())
	for _, v := range stdlibValues {
		g.Set(v.Name, compiler.NewGlobalImport(v.Name))
		for _, f := range compiler.CommonBuiltinTypeBoundFunctions {
			q := commons.TypeQualifiedName(v.Type, f.Name)
			g.Set(q, compiler.NewGlobalImport(q))
		}
	}
	return g
}()

func c35Check(src string) (*sema.Checker, string) {
	prog, err := parser.ParseProgram(nil, []byte(src), parser.Config{})
	if err != nil {
		return nil, "syntax-error"
	}
	var checker *sema.Checker
	var cerr error
	panicked, _, _ := mc.Guard(func() {
		checker, cerr = sema.NewChecker(prog, common.StringLocation("test"), nil, &sema.Config{
			AccessCheckMode:            sema.AccessCheckModeStrict,
			BaseValueActivationHandler: c35BaseValueActivation,
		})
		if cerr == nil {
			cerr = checker.Check()
		}
	})
	if panicked {
		return nil, "checker-panic"
	}
	if cerr != nil {
		return nil, "semantic-error"
	}
	return checker, ""
}

type compiled struct {
	bytecode    string // dump of the bytecode program
	instr       string // dump of the instruction program
	instrProg   *bbq.InstructionProgram
	bytecodeFns [][]byte
}

func c35Compile(checker *sema.Checker, peephole bool) (c compiled, failure string) {
	cfg := func() *compiler.Config {
		return &compiler.Config{
			BuiltinGlobalsProvider: func(common.Location) *activations.Activation[compiler.GlobalImport] {
				return c35Globals
			},
			PeepholeOptimizationsEnabled: peephole,
		}
	}
	// the bytecode generator cannot encode every static type (e.g. function types in
	// the type table): where it refuses, only the instruction generator is compared
	panicked, _, _ := mc.Guard(func() {
		p1 := compiler.NewBytecodeCompiler(interpreter.ProgramFromChecker(checker), checker.Location, cfg()).Compile()
		c.bytecode = dumpAny(p1)
		for _, f := range p1.Functions {
			c.bytecodeFns = append(c.bytecodeFns, f.Code)
		}
	})
	if panicked {
		c.bytecode, c.bytecodeFns = "bytecode-generator-refused", nil
	}
	panicked, val, stack := mc.Guard(func() {
		p2 := compiler.NewInstructionCompilerWithConfig(interpreter.ProgramFromChecker(checker), checker.Location, cfg()).Compile()
		c.instr = dumpAny(p2)
		c.instrProg = p2
	})
	if panicked {
		return c, fmt.Sprintf("compiler panicked: %v at %s", trunc(fmt.Sprint(val), 200), panicSite(stack))
	}
	return c, ""
}

func hashStr(ss ...string) string {
	h := sha256.New()
	for _, s := range ss {
		h.Write([]byte(s))
		h.Write([]byte{0})
	}
	return hex.EncodeToString(h.Sum(nil))[:24]
}

// c35ProgramHash compiles src from scratch (both code generators, peephole off
// and on) and returns a hash of all four outputs; "" if the program is not accepted.
func c35ProgramHash(src string) (hash string, class string) {
	checker, why := c35Check(src)
	if checker == nil {
		return "", why
	}
	a, f1 := c35Compile(checker, false)
	if f1 != "" {
		return "", "compile-failed"
	}
	b, f2 := c35Compile(checker, true)
	if f2 != "" {
		return "", "compile-failed"
	}
	return hashStr(a.bytecode, a.instr, b.bytecode, b.instr), "compiled"
}

// diffAt returns a short window around the first difference of two dumps.
func diffAt(a, b string) string {
	n := len(a)
	if len(b) < n {
		n = len(b)
	}
	i := 0
	for i < n && a[i] == b[i] {
		i++
	}
	lo := i - 80
	if lo < 0 {
		lo = 0
	}
	wa, wb := a[lo:], b[lo:]
	return fmt.Sprintf("at byte %d: ...%s... vs ...%s...", i, trunc(wa, 200), trunc(wb, 200))
}

// c35Determinism compiles one program repeatedly and compares everything.
func c35Determinism(src string, reps int) (findings []c37Finding, class string, prog *bbq.InstructionProgram, fns [][]byte, hash string) {
	checker, why := c35Check(src)
	if checker == nil {
		return nil, why, nil, nil, ""
	}
	var dumps []string
	for _, peephole := range []bool{false, true} {
		first, fail := c35Compile(checker, peephole)
		if fail != "" {
			// a compiler panic on a checked program is not what this property is about
			// (C01 / C34 judge that); it only makes the program unusable here
			return nil, "compile-failed", nil, nil, ""
		}
		dumps = append(dumps, first.bytecode, first.instr)
		if !peephole {
			prog, fns = first.instrProg, first.bytecodeFns
		}
		if first.bytecode == "bytecode-generator-refused" {
			class = "compiled-instructions-only"
		}
		// same checked program, compiled again
		for r := 1; r < reps; r++ {
			again, fail := c35Compile(checker, peephole)
			if fail != "" {
				findings = append(findings, c37Finding{"compile|fails-on-repeat", fail})
				break
			}
			if again.bytecode != first.bytecode {
				findings = append(findings, c37Finding{"compile|nondeterministic|bytecode",
					fmt.Sprintf("compilation %d of the same checked program differs (peephole=%v): %s", r+1, peephole, diffAt(first.bytecode, again.bytecode))})
				break
			}
			if again.instr != first.instr {
				findings = append(findings, c37Finding{"compile|nondeterministic|instructions",
					fmt.Sprintf("compilation %d of the same checked program differs (peephole=%v): %s", r+1, peephole, diffAt(first.instr, again.instr))})
				break
			}
		}
		// re-parsed and re-checked, then compiled
		checker2, _ := c35Check(src)
		if checker2 == nil {
			findings = append(findings, c37Finding{"check|nondeterministic-verdict", "the same source was accepted and then rejected"})
			continue
		}
		fresh, fail := c35Compile(checker2, peephole)
		if fail != "" {
			findings = append(findings, c37Finding{"compile|fails-on-repeat", fail})
			continue
		}
		if fresh.bytecode != first.bytecode {
			findings = append(findings, c37Finding{"compile|nondeterministic-after-recheck|bytecode",
				fmt.Sprintf("re-checking and re-compiling gives a different program (peephole=%v): %s", peephole, diffAt(first.bytecode, fresh.bytecode))})
		} else if fresh.instr != first.instr {
			findings = append(findings, c37Finding{"compile|nondeterministic-after-recheck|instructions",
				fmt.Sprintf("re-checking and re-compiling gives a different program (peephole=%v): %s", peephole, diffAt(first.instr, fresh.instr))})
		}
	}
	if class == "" {
		class = "compiled"
	}
	return findings, class, prog, fns, hashStr(dumps...)
}

// ---------------------------------------------------------------------------
// instruction codec

func normInstr(i opcode.Instruction) string {
	// empty and nil slices are the same instruction
	return dumpAnyNormalized(reflect.ValueOf(i))
}

func dumpAnyNormalized(v reflect.Value) string {
	var sb strings.Builder
	var rec func(v reflect.Value)
	rec = func(v reflect.Value) {
		switch v.Kind() {
		case reflect.Struct:
			sb.WriteString(v.Type().Name() + "{")
			for i := 0; i < v.NumField(); i++ {
				sb.WriteString(v.Type().Field(i).Name + "=")
				rec(v.Field(i))
				sb.WriteByte(';')
			}
			sb.WriteByte('}')
		case reflect.Slice:
			sb.WriteByte('[')
			for i := 0; i < v.Len(); i++ {
				rec(v.Index(i))
				sb.WriteByte(',')
			}
			sb.WriteByte(']')
		case reflect.Interface, reflect.Ptr:
			if v.IsNil() {
				sb.WriteString("nil")
			} else {
				rec(v.Elem())
			}
		case reflect.Bool:
			fmt.Fprintf(&sb, "%v", v.Bool())
		case reflect.Uint, reflect.Uint8, reflect.Uint16, reflect.Uint32, reflect.Uint64:
			fmt.Fprintf(&sb, "%d", v.Uint())
		case reflect.Int, reflect.Int8, reflect.Int16, reflect.Int32, reflect.Int64:
			fmt.Fprintf(&sb, "%d", v.Int())
		case reflect.String:
			fmt.Fprintf(&sb, "%q", v.String())
		default:
			fmt.Fprintf(&sb, "<%s>", v.Kind())
		}
	}
	rec(v)
	return sb.String()
}

// instrRoundTrip: Decode(Encode(i)) == i, consuming exactly the encoding.
func instrRoundTrip(i opcode.Instruction) *c37Finding {
	var code []byte
	name := reflect.TypeOf(i).Name()
	panicked, val, _ := mc.Guard(func() { i.Encode(&code) })
	if panicked {
		return &c37Finding{"instr|encode-panics|" + name, fmt.Sprintf("%s.Encode panicked: %v (%s)", name, val, normInstr(i))}
	}
	if len(code) > math.MaxUint16 {
		return nil // not addressable by the uint16 instruction pointer: outside the codec's domain (don't-care, counted by the caller)
	}
	var back opcode.Instruction
	var ip uint16
	padded := append(append([]byte{}, code...), 0xAA, 0xAA, 0xAA, 0xAA)
	panicked, val, _ = mc.Guard(func() { back = opcode.DecodeInstruction(&ip, padded) })
	if panicked {
		return &c37Finding{"instr|decode-panics|" + name, fmt.Sprintf("decoding the encoding %x of %s panicked: %v", code, normInstr(i), val)}
	}
	if int(ip) != len(code) {
		return &c37Finding{"instr|decode-consumes-wrong-length|" + name, fmt.Sprintf("%s encodes to %d bytes (%x) but decoding consumes %d", normInstr(i), len(code), code, ip)}
	}
	if normInstr(back) != normInstr(i) {
		return &c37Finding{"instr|decodes-to-different-instruction|" + name, fmt.Sprintf("%s encodes to %x which decodes to %s", normInstr(i), code, normInstr(back))}
	}
	return nil
}

var byteAlphabet = []byte{0x00, 0x01, 0x7f, 0x80, 0xff}

// u16Alphabet: every uint16 whose two bytes are from the byte alphabet.
func u16Alphabet() []uint16 {
	var out []uint16
	for _, hi := range byteAlphabet {
		for _, lo := range byteAlphabet {
			out = append(out, uint16(hi)<<8|uint16(lo))
		}
	}
	return out
}

// fieldValues enumerates the values used for an operand of the given type.
func fieldValues(t reflect.Type, reduced bool) []reflect.Value {
	u16 := u16Alphabet()
	if reduced {
		u16 = []uint16{0, 1, 0x7f, 0x80, 0xff, 0x100, 0x7fff, 0x8000, 0xffff}
	}
	var out []reflect.Value
	switch t.Kind() {
	case reflect.Bool:
		out = append(out, reflect.ValueOf(false), reflect.ValueOf(true))
	case reflect.Uint16:
		for _, x := range u16 {
			out = append(out, reflect.ValueOf(x).Convert(t))
		}
	case reflect.Uint8:
		for _, x := range byteAlphabet {
			out = append(out, reflect.ValueOf(x).Convert(t))
		}
	case reflect.Uint, reflect.Uint32, reflect.Uint64, reflect.Int, reflect.Int32, reflect.Int64:
		for _, x := range u16 {
			out = append(out, reflect.ValueOf(x).Convert(t))
		}
	case reflect.Slice:
		elem := fieldValues(t.Elem(), true)
		for _, n := range []int{0, 1, 2, 3, 255, 256, 1000} {
			s := reflect.MakeSlice(t, n, n)
			for i := 0; i < n; i++ {
				s.Index(i).Set(elem[(i*7+n)%len(elem)])
			}
			out = append(out, s)
		}
	case reflect.Struct:
		// product over the struct's fields (Upvalue{TargetIndex, IsLocal})
		cur := []reflect.Value{reflect.New(t).Elem()}
		for f := 0; f < t.NumField(); f++ {
			vals := fieldValues(t.Field(f).Type, true)
			var next []reflect.Value
			for _, c := range cur {
				for _, v := range vals {
					n := reflect.New(t).Elem()
					n.Set(c)
					n.Field(f).Set(v)
					next = append(next, n)
				}
			}
			cur = next
		}
		out = cur
	default:
		out = append(out, reflect.Zero(t))
	}
	return out
}

// instructionsOfOpcode builds, by reflection on the type the decoder returns for
// this opcode, every instruction whose operands are drawn from the alphabets.
func instructionsOfOpcode(op byte, yield func(opcode.Instruction)) (name string, ok bool) {
	var probe opcode.Instruction
	code := append([]byte{op}, make([]byte, 64)...)
	var ip uint16
	panicked, _, _ := mc.Guard(func() { probe = opcode.DecodeInstruction(&ip, code) })
	if panicked || probe == nil {
		return "", false
	}
	t := reflect.TypeOf(probe)
	if t.Name() == "InstructionUnknown" && op != 0 {
		return t.Name(), false
	}
	nf := t.NumField()
	reduced := nf > 3
	vals := make([][]reflect.Value, nf)
	for f := 0; f < nf; f++ {
		vals[f] = fieldValues(t.Field(f).Type, reduced)
	}
	idx := make([]int, nf)
	for {
		v := reflect.New(t).Elem()
		for f := 0; f < nf; f++ {
			v.Field(f).Set(vals[f][idx[f]])
		}
		yield(v.Interface().(opcode.Instruction))
		f := nf - 1
		for f >= 0 {
			idx[f]++
			if idx[f] < len(vals[f]) {
				break
			}
			idx[f] = 0
			f--
		}
		if f < 0 {
			break
		}
	}
	return t.Name(), true
}

// tryDecode decodes one instruction, turning a decoder panic into ok=false (no stack capture: this is hot).
func tryDecode(code []byte) (ins opcode.Instruction, ip uint16, ok bool) {
	defer func() {
		if recover() != nil {
			ok = false
		}
	}()
	ins = opcode.DecodeInstruction(&ip, code)
	return ins, ip, true
}

// bytesRoundTrip decodes one instruction from raw bytes and checks that the
// decoded instruction round-trips; reports whether the raw bytes were canonical.
func bytesRoundTrip(code []byte) (f *c37Finding, canonical bool, name string) {
	ins, ip, ok := tryDecode(code)
	if !ok || ins == nil {
		return nil, false, "" // not enough operand bytes for this opcode / unassigned opcode: not an encoding
	}
	name = reflect.TypeOf(ins).Name()
	if f := instrRoundTrip(ins); f != nil {
		return f, false, name
	}
	var re []byte
	ins.Encode(&re)
	return nil, int(ip) <= len(code) && bytes.Equal(re, code[:ip]), name
}

// ---------------------------------------------------------------------------
// LEB128

func lebRoundTrip(typ string, v int64, u uint64) *c37Finding {
	var enc []byte
	var gotU uint64
	var gotS int64
	var n int
	var err error
	var valStr string
	panicked, val, _ := mc.Guard(func() {
		switch typ {
		case "u32":
			enc = leb128.AppendUint32(nil, uint32(u))
			var r uint32
			r, n, err = leb128.ReadUint32(append(append([]byte{}, enc...), 0x80, 0x80))
			gotU, valStr = uint64(r), fmt.Sprint(uint32(u))
		case "u64":
			enc = leb128.AppendUint64(nil, u)
			gotU, n, err = leb128.ReadUint64(append(append([]byte{}, enc...), 0x80, 0x80))
			valStr = fmt.Sprint(u)
		case "i32":
			enc = leb128.AppendInt32(nil, int32(v))
			var r int32
			r, n, err = leb128.ReadInt32(append(append([]byte{}, enc...), 0x80, 0x80))
			gotS, valStr = int64(r), fmt.Sprint(int32(v))
		case "i64":
			enc = leb128.AppendInt64(nil, v)
			gotS, n, err = leb128.ReadInt64(append(append([]byte{}, enc...), 0x80, 0x80))
			valStr = fmt.Sprint(v)
		}
	})
	if panicked {
		return &c37Finding{"leb128|panic|" + typ, fmt.Sprintf("%s value %d/%d: %v", typ, v, u, val)}
	}
	if err != nil {
		return &c37Finding{"leb128|read-fails|" + typ, fmt.Sprintf("%s %s encodes to %x, reading it back fails: %v", typ, valStr, enc, err)}
	}
	ok := false
	switch typ {
	case "u32":
		ok = gotU == uint64(uint32(u))
	case "u64":
		ok = gotU == u
	case "i32":
		ok = gotS == int64(int32(v))
	case "i64":
		ok = gotS == v
	}
	if !ok {
		return &c37Finding{"leb128|wrong-value|" + typ, fmt.Sprintf("%s %s encodes to %x which reads back as %d/%d", typ, valStr, enc, gotS, gotU)}
	}
	if n != len(enc) {
		return &c37Finding{"leb128|wrong-length|" + typ, fmt.Sprintf("%s %s encodes to %d bytes (%x) but the reader reports %d", typ, valStr, len(enc), enc, n)}
	}
	return nil
}

func lebFixedRoundTrip(u uint32, length int) (f *c37Finding, accepted bool) {
	var enc []byte
	var err error
	panicked, val, _ := mc.Guard(func() { enc, err = leb128.AppendUint32FixedLength(nil, u, length) })
	if panicked {
		return &c37Finding{"leb128|panic|u32fixed", fmt.Sprintf("AppendUint32FixedLength(%d, %d) panicked: %v", u, length, val)}, false
	}
	if err != nil {
		return nil, false // the encoder may refuse a length that is too small
	}
	r, n, rerr := leb128.ReadUint32(append(append([]byte{}, enc...), 0x80))
	if rerr != nil {
		return &c37Finding{"leb128|read-fails|u32fixed", fmt.Sprintf("%d in %d bytes encodes to %x, reading fails: %v", u, length, enc, rerr)}, true
	}
	if r != u {
		return &c37Finding{"leb128|wrong-value|u32fixed", fmt.Sprintf("%d in %d bytes encodes to %x which reads back as %d", u, length, enc, r)}, true
	}
	if n != len(enc) || len(enc) != length {
		return &c37Finding{"leb128|wrong-length|u32fixed", fmt.Sprintf("%d in %d bytes encodes to %x (%d bytes), reader reports %d", u, length, enc, len(enc), n)}, true
	}
	return nil, true
}

func lebValues() (us []uint64, ss []int64) {
	for i := 0; i < 1<<16; i++ {
		us = append(us, uint64(i))
		ss = append(ss, int64(i), int64(i)-(1<<16))
	}
	for k := 1; k <= 9; k++ {
		p := uint64(1) << (7 * uint(k))
		us = append(us, p-1, p, p+1)
		ss = append(ss, int64(p-1), int64(p), int64(p+1), -int64(p-1), -int64(p), -int64(p)-1)
		h := uint64(1) << (7*uint(k) - 1) // sign-bit boundary of a k-byte signed encoding
		ss = append(ss, int64(h-1), int64(h), int64(h+1), -int64(h)-1, -int64(h), -int64(h)+1)
	}
	us = append(us, math.MaxUint32-1, math.MaxUint32, math.MaxUint32+1, math.MaxUint64-1, math.MaxUint64, 1<<63, 1<<63-1, 1<<31, 1<<31-1)
	ss = append(ss, math.MaxInt32-1, math.MaxInt32, math.MaxInt32+1, math.MinInt32+1, math.MinInt32, math.MinInt32-1,
		math.MaxInt64-1, math.MaxInt64, math.MinInt64, math.MinInt64+1)
	return
}

// ---------------------------------------------------------------------------
// fresh-process worker

func c35Corpus(thorough bool) []srcgen.Program {
	cfg := srcgen.Config{Depth: 2}
	ps := srcgen.AllTyped(cfg)
	// prelude-free programs: the bytecode generator cannot encode function types in
	// the type table, which the prelude's enum/attachment constructors introduce
	ps = append(ps, srcgen.PlainTypedPrograms()...)
	return ps
}

// compileWorker: "compile:<tier>:<from>:<to>" prints "HASH <i> <hash|class>".
func compileWorker(sub string) {
	parts := strings.Split(sub, ":")
	if len(parts) != 4 {
		os.Exit(3)
	}
	var from, to int
	fmt.Sscan(parts[2], &from)
	fmt.Sscan(parts[3], &to)
	ps := c35Corpus(parts[1] == "thorough")
	w := bufio.NewWriter(os.Stdout)
	for i := from; i < to && i < len(ps); i++ {
		h, class := c35ProgramHash(ps[i].Src)
		if h == "" {
			h = class
		}
		fmt.Fprintf(w, "HASH %d %s\n", i, h)
	}
	w.Flush()
	os.Exit(0)
}

func runCompileWorker(tier string, from, to int) (map[int]string, error) {
	cmd := exec.Command(os.Args[0], "C35", "--tier", tier, "--sub", fmt.Sprintf("compile:%s:%d:%d", tier, from, to))
	cmd.Env = append(os.Environ(), "GOMAXPROCS=2")
	var stdout, stderr bytes.Buffer
	cmd.Stdout, cmd.Stderr = &stdout, &stderr
	if err := cmd.Run(); err != nil {
		return nil, fmt.Errorf("compile worker %d..%d: %v: %s", from, to, err, trunc(stderr.String(), 400))
	}
	out := map[int]string{}
	sc := bufio.NewScanner(&stdout)
	for sc.Scan() {
		var i int
		var h string
		if n, _ := fmt.Sscanf(sc.Text(), "HASH %d %s", &i, &h); n == 2 {
			out[i] = h
		}
	}
	return out, nil
}

// ---------------------------------------------------------------------------

func runC35(env *mc.Env) {
	if strings.HasPrefix(env.Sub, "compile:") {
		compileWorker(env.Sub)
		return
	}
	thorough := env.Thorough()
	part := func(name string) bool {
		if !strings.HasPrefix(env.Sub, "part:") {
			return true
		}
		for _, p := range strings.Split(env.Sub[5:], ",") {
			if p == name {
				return true
			}
		}
		return false
	}

	// (1) determinism, in process: every accepted program compiled `reps` times from
	// the same checked program, and once more after re-parsing and re-checking;
	// both code generators; peephole off and on.
	ps := c35Corpus(thorough)
	env.R.Set("typed_corpus", len(ps))
	reps := mc.Pick(env, 2, 6)
	hashes := make([]string, len(ps))
	var seenInstr = struct {
		m map[string]opcode.Instruction
	}{m: map[string]opcode.Instruction{}}
	var seenMu = make(chan struct{}, 1)
	seenMu <- struct{}{}
	if part("compile") {
		const chunk = 16
		mc.ParallelFor(env, (len(ps)+chunk-1)/chunk, func(ci int) {
			classes := map[string]int64{}
			local := map[string]opcode.Instruction{}
			for i := ci * chunk; i < (ci+1)*chunk && i < len(ps); i++ {
				p := ps[i]
				fs, class, prog, fns, hash := c35Determinism(p.Src, reps)
				classes["compile:"+p.Family+":"+class]++
				for _, f := range fs {
					violation(env, f.sig, c35Case{Kind: "compile", Src: p.Src}, f.detail)
				}
				if class != "compiled" && class != "compiled-instructions-only" {
					hashes[i] = class
					continue
				}
				env.R.EvalN(int64(2 * (reps + 1) * 2)) // compilations compared
				env.R.Nontrivial(p.Src)
				hashes[i] = hash
				// (2a) every instruction occurring in the compiled program
				for _, fn := range prog.Functions {
					for _, ins := range fn.Code {
						k := normInstr(ins)
						if _, ok := local[k]; !ok {
							local[k] = ins
						}
					}
				}
				// (2b) the bytecode generator's output decodes and re-encodes to itself
				for fi, code := range fns {
					if len(code) == 0 || len(code) > math.MaxUint16 {
						continue
					}
					var re []byte
					panicked, val, _ := mc.Guard(func() {
						for _, ins := range opcode.DecodeInstructions(code) {
							ins.Encode(&re)
						}
					})
					classes["bytecode-function"]++
					if panicked {
						violation(env, "bytecode|decode-panics", c35Case{Kind: "compile", Src: p.Src}, fmt.Sprintf("decoding function %d's bytecode panicked: %v", fi, val))
					} else if !bytes.Equal(re, code) {
						violation(env, "bytecode|reencode-differs", c35Case{Kind: "compile", Src: p.Src}, fmt.Sprintf("function %d: %x decodes and re-encodes to %x", fi, code, re))
					}
				}
			}
			<-seenMu
			for k, v := range local {
				seenInstr.m[k] = v
			}
			seenMu <- struct{}{}
			flushClasses(env, classes, 0)
		})
		// instructions of compiled programs: Decode(Encode(i)) == i
		var keys []string
		for k := range seenInstr.m {
			keys = append(keys, k)
		}
		sort.Strings(keys)
		kinds := map[string]bool{}
		for _, k := range keys {
			ins := seenInstr.m[k]
			kinds[reflect.TypeOf(ins).Name()] = true
			if f := instrRoundTrip(ins); f != nil {
				var code []byte
				mc.Guard(func() { ins.Encode(&code) })
				violation(env, f.sig, c35Case{Kind: "instr", Code: code}, f.detail)
			}
		}
		env.R.EvalN(int64(len(keys)))
		env.R.Set("distinct_instructions_in_compiled_programs", len(keys))
		env.R.Set("instruction_kinds_in_compiled_programs", len(kinds))
	}

	// (1b) determinism across fresh processes (fresh map seeds, fresh caches): two
	// workers per range must report the hash this process computed.
	if part("compile") && part("fresh") {
		const per = 400
		var ranges [][2]int
		for from := 0; from < len(ps); from += per {
			to := from + per
			if to > len(ps) {
				to = len(ps)
			}
			ranges = append(ranges, [2]int{from, to}, [2]int{from, to})
		}
		mc.ParallelFor(env, len(ranges), func(ri int) {
			r := ranges[ri]
			got, err := runCompileWorker(env.Tier, r[0], r[1])
			if err != nil {
				env.R.HarnessError("%v", err)
				return
			}
			var n int64
			for i := r[0]; i < r[1]; i++ {
				if hashes[i] == "" {
					continue
				}
				h, ok := got[i]
				if !ok {
					env.R.HarnessError("compile worker did not report program %d", i)
					continue
				}
				if len(hashes[i]) == 24 {
					n++
				}
				if h != hashes[i] {
					violation(env, "compile|differs-across-processes", c35Case{Kind: "compile", Src: ps[i].Src},
						fmt.Sprintf("this process: %s, a fresh process: %s", hashes[i], h))
				}
			}
			env.R.EvalN(n)
			env.R.Class("fresh-process-range", nil)
		})
	}

	// (3) instruction codec, constructed: every opcode x every operand combination over the alphabets
	if part("instr") {
		mc.ParallelFor(env, 256, func(op int) {
			var n, skipped int64
			name, ok := instructionsOfOpcode(byte(op), func(ins opcode.Instruction) {
				n++
				f := instrRoundTrip(ins)
				if f != nil {
					var code []byte
					mc.Guard(func() { ins.Encode(&code) })
					if len(code) > 4096 {
						code = code[:4096]
					}
					violation(env, f.sig, c35Case{Kind: "instr", Code: code}, f.detail)
				}
			})
			if !ok {
				env.R.Class("opcode:unassigned", nil)
				return
			}
			_ = skipped
			env.R.EvalN(n)
			env.R.Class("opcode:"+name, nil)
			env.R.ClassN("opcode:"+name, n-1)
			if n > 1 {
				env.R.Nontrivial("op:" + name)
			}
		})
		// raw bytes: opcode x operand bytes over {00,01,7f,80,ff}^k, k <= 6 (7 thorough), zero padded
		maxK := mc.Pick(env, 5, 7)
		mc.ParallelFor(env, 256, func(op int) {
			var n, noncanon int64
			if probe, _, ok := tryDecode(append([]byte{byte(op)}, make([]byte, 64)...)); !ok || probe == nil ||
				(op != 0 && reflect.TypeOf(probe).Name() == "InstructionUnknown") {
				return // unassigned opcode
			}
			var rec func(prefix []byte, k int)
			rec = func(prefix []byte, k int) {
				code := append(append([]byte{byte(op)}, prefix...), make([]byte, 16)...)
				f, canonical, _ := bytesRoundTrip(code)
				n++
				if f != nil {
					violation(env, f.sig+"|from-bytes", c35Case{Kind: "bytes", Code: code}, f.detail)
				} else if !canonical {
					// don't-care: the sentence requires instructions to survive encode/decode,
					// not that every byte string is a canonical encoding (a bool operand byte 0x7f decodes as false)
					noncanon++
				}
				if k == 0 {
					return
				}
				for _, b := range byteAlphabet {
					rec(append(append([]byte{}, prefix...), b), k-1)
				}
			}
			rec(nil, maxK)
			env.R.EvalN(n)
			env.R.DontCare.Add(noncanon)
		})
	}

	// (4) LEB128
	if part("leb") {
		us, ss := lebValues()
		var n int64
		for _, u := range us {
			for _, typ := range []string{"u32", "u64"} {
				if typ == "u32" && u > math.MaxUint32 {
					continue
				}
				n++
				if f := lebRoundTrip(typ, 0, u); f != nil {
					violation(env, f.sig, c35Case{Kind: "leb", Type: typ, Value: fmt.Sprint(u)}, f.detail)
				}
			}
			if u <= math.MaxUint32 {
				for length := 1; length <= 5; length++ {
					f, accepted := lebFixedRoundTrip(uint32(u), length)
					if accepted {
						n++
					}
					if f != nil {
						violation(env, f.sig, c35Case{Kind: "leb", Type: "u32fixed", Value: fmt.Sprint(u), Len: length}, f.detail)
					}
				}
			}
		}
		for _, s := range ss {
			for _, typ := range []string{"i32", "i64"} {
				if typ == "i32" && (s > math.MaxInt32 || s < math.MinInt32) {
					continue
				}
				n++
				if f := lebRoundTrip(typ, s, 0); f != nil {
					violation(env, f.sig, c35Case{Kind: "leb", Type: typ, Value: fmt.Sprint(s)}, f.detail)
				}
			}
		}
		env.R.EvalN(n)
		env.R.Class("leb128", nil)
		env.R.ClassN("leb128", n-1)
		env.R.Nontrivial("leb128-multibyte")
	}

	flushViolations(env)
	env.R.BoundCompleted(fmt.Sprintf("typed corpus of %d programs x %d compilations x 2 code generators x peephole off/on + 2 fresh processes; all opcodes x operand alphabets; raw operand bytes to length %d; LEB128 all 16-bit values + boundaries", len(ps), reps+1, mc.Pick(env, 5, 7)))
}

func replayC35(env *mc.Env, raw json.RawMessage) (bool, string) {
	var c c35Case
	if err := json.Unmarshal(raw, &c); err != nil {
		return false, err.Error()
	}
	switch c.Kind {
	case "compile":
		// in-process repeats first
		fs, class, _, fns, _ := c35Determinism(c.Src, 6)
		if len(fs) > 0 {
			return true, fs[0].sig + ": " + fs[0].detail
		}
		for _, code := range fns {
			if len(code) == 0 || len(code) > math.MaxUint16 {
				continue
			}
			var re []byte
			panicked, _, _ := mc.Guard(func() {
				for _, ins := range opcode.DecodeInstructions(code) {
					ins.Encode(&re)
				}
			})
			if panicked || !bytes.Equal(re, code) {
				return true, "bytecode does not re-encode to itself"
			}
		}
		// then a fresh process
		ps := c35Corpus(true)
		for i, p := range ps {
			if p.Src == c.Src {
				here, _ := c35ProgramHash(c.Src)
				got, err := runCompileWorker("thorough", i, i+1)
				if err != nil {
					return false, err.Error()
				}
				if got[i] != here {
					return true, fmt.Sprintf("fresh process %s vs this process %s", got[i], here)
				}
			}
		}
		return false, class
	case "instr", "bytes":
		code := append(append([]byte{}, c.Code...), make([]byte, 16)...)
		f, _, name := bytesRoundTrip(code)
		if f != nil {
			return true, f.detail
		}
		return false, name
	case "leb":
		var f *c37Finding
		switch c.Type {
		case "u32", "u64":
			var u uint64
			fmt.Sscan(c.Value, &u)
			f = lebRoundTrip(c.Type, 0, u)
		case "i32", "i64":
			var s int64
			fmt.Sscan(c.Value, &s)
			f = lebRoundTrip(c.Type, s, 0)
		case "u32fixed":
			var u uint64
			fmt.Sscan(c.Value, &u)
			f, _ = lebFixedRoundTrip(uint32(u), c.Len)
		}
		if f != nil {
			return true, f.detail
		}
		return false, "round-trips"
	}
	return false, "unknown case"
}

func init() {
	mc.Register(&mc.Check{
		ID:   "C35",
		Rule: "(1) every program of the typed srcgen corpus that the checker accepts is compiled 2 [6] times from the same checked program and once more after re-parsing/re-checking, with both code generators (bytecode, instructions) and peephole off/on, and hashed again in 2 fresh worker processes: dumps of Contracts/Imports/Functions(code, counts, line numbers)/Constants/Variables/Types/Globals must be identical; (2) every distinct instruction occurring in those programs, (3) every opcode x every operand combination over {00,01,7f,80,ff}^2 per uint16 operand (bool both, arrays of length 0,1,2,3,255,256,1000), and every opcode x raw operand bytes over {00,01,7f,80,ff}^k (k <= 5 [7]) must satisfy Decode(Encode(i)) == i consuming exactly the encoding; the bytecode generator's output must re-encode to itself; (4) LEB128 u32/u64/i32/i64: all 16-bit values (and their negatives), 2^(7k)-1/2^(7k)/2^(7k)+1 and the signed byte-length boundaries 2^(7k-1), type min/max: Read(Append(v)) == (v, len); fixed-length u32 for lengths 1..5. non-trivial = compiled program / opcode with operands / multi-byte LEB values",
		Assumptions: []string{
			"a compiled program is observed through a reflection dump of every exported and unexported field of bbq.Program (pointers followed, maps sorted, static types by ID)",
			"fresh-process comparison catches Go map-order dependence only probabilistically; the exhaustive map-order exploration is a separate (overlay) check",
			"programs on which the compiler panics are excluded (judged by C01/C34), and counted",
		},
		Run:    runC35,
		Replay: replayC35,
	})
}

package text

import (
	"encoding/hex"
	"strings"
	"sync"
	"unicode"

	"github.com/rivo/uniseg"
	"golang.org/x/text/cases"
	"golang.org/x/text/language"
	"golang.org/x/text/unicode/norm"
)

// gstr is the reference model of a Cadence String: "A String value equals the
// NFC normalization of its source text, and all its operations agree with the
// sequence of extended grapheme clusters of that form."
// Everything below is written naively on the []string of clusters.
type gstr struct {
	text string   // NFC form
	cl   []string // its extended grapheme clusters
}

func segment(t string) []string {
	var out []string
	state := -1
	for len(t) > 0 {
		var c string
		c, t, _, state = uniseg.FirstGraphemeClusterInString(t, state)
		out = append(out, c)
	}
	return out
}

// gCache memoises mkG (pure function of the source text).
var gCache sync.Map

func mkG(src string) gstr {
	if g, ok := gCache.Load(src); ok {
		return g.(gstr)
	}
	t := norm.NFC.String(src)
	g := gstr{text: t, cl: segment(t)}
	if len(src) <= 64 {
		gCache.Store(src, g)
	}
	return g
}

func (g gstr) length() int { return len(g.cl) }

// at: ok=false means the access must fail (out of range).
func (g gstr) at(i int) (string, bool) {
	if i < 0 || i >= len(g.cl) {
		return "", false
	}
	return g.cl[i], true
}

// slice: "slicing (failing exactly for out-of-range or reversed bounds)".
func (g gstr) slice(from, upTo int) (gstr, bool) {
	if from < 0 || upTo < 0 || from > len(g.cl) || upTo > len(g.cl) || from > upTo {
		return gstr{}, false
	}
	return mkG(strings.Join(g.cl[from:upTo], "")), true
}

func (g gstr) concat(o gstr) gstr { return mkG(g.text + o.text) }

func (g gstr) equal(o gstr) bool { return g.text == o.text }

// less has two defensible readings of "ordering agrees with the sequence of
// clusters": lexicographic over code points of the NFC text, or lexicographic
// over clusters (each compared by code points). They differ only when one
// cluster is a proper prefix of the other string's cluster at the same
// position; then ok=false (don't-care).
func (g gstr) less(o gstr) (res bool, ok bool) {
	byText := g.text < o.text // UTF-8 byte order is code point order
	byCluster := false
	decided := false
	for i := 0; i < len(g.cl) && i < len(o.cl); i++ {
		if g.cl[i] != o.cl[i] {
			byCluster, decided = g.cl[i] < o.cl[i], true
			break
		}
	}
	if !decided {
		byCluster = len(g.cl) < len(o.cl)
	}
	return byText, byText == byCluster
}

// indexFrom returns the first cluster index >= start at which needle's clusters occur.
func (g gstr) indexFrom(n gstr, start int) int {
	for i := start; i+len(n.cl) <= len(g.cl); i++ {
		match := true
		for k := range n.cl {
			if g.cl[i+k] != n.cl[k] {
				match = false
				break
			}
		}
		if match {
			return i
		}
	}
	return -1
}

// occurrences: left-to-right non-overlapping occurrences (the convention of every
// string library); overlapping reports whether counting overlapping occurrences
// would give a different number (then count/split/replaceAll are don't-care:
// the sentence does not say which).
func (g gstr) occurrences(n gstr) (idx []int, overlapDiffers bool) {
	if len(n.cl) == 0 {
		return nil, false
	}
	for i := g.indexFrom(n, 0); i >= 0; i = g.indexFrom(n, i+len(n.cl)) {
		idx = append(idx, i)
	}
	all := 0
	for i := g.indexFrom(n, 0); i >= 0; i = g.indexFrom(n, i+1) {
		all++
	}
	return idx, all != len(idx)
}

func (g gstr) split(n gstr) []gstr {
	idx, _ := g.occurrences(n)
	var parts []gstr
	prev := 0
	for _, i := range idx {
		parts = append(parts, mkG(strings.Join(g.cl[prev:i], "")))
		prev = i + len(n.cl)
	}
	return append(parts, mkG(strings.Join(g.cl[prev:], "")))
}

func (g gstr) replaceAll(n, with gstr) gstr {
	idx, _ := g.occurrences(n)
	var sb strings.Builder
	prev := 0
	for _, i := range idx {
		sb.WriteString(strings.Join(g.cl[prev:i], ""))
		sb.WriteString(with.text)
		prev = i + len(n.cl)
	}
	sb.WriteString(strings.Join(g.cl[prev:], ""))
	return mkG(sb.String())
}

func joinG(parts []gstr, sep gstr) gstr {
	ts := make([]string, len(parts))
	for i, p := range parts {
		ts[i] = p.text
	}
	return mkG(strings.Join(ts, sep.text))
}

// toLower: the simple per-code-point lower-case mapping; ok=false (don't-care)
// where the full, context-sensitive Unicode lower-casing differs from it.
func (g gstr) toLower() (gstr, bool) {
	simple := strings.Map(unicode.ToLower, g.text)
	full := cases.Lower(language.Und).String(g.text)
	return mkG(simple), norm.NFC.String(simple) == norm.NFC.String(full)
}

func (g gstr) utf8() []byte { return []byte(g.text) }

func (g gstr) hex() string { return hex.EncodeToString([]byte(g.text)) }

// misalignedBefore: is there a byte occurrence of n in g that is not an
// aligned occurrence and starts before the first aligned one (or there is no
// aligned one)? This is the path that needs the iterator backup.
func (g gstr) occurrenceClass(n gstr) string {
	if len(n.text) == 0 {
		return "empty-needle"
	}
	first := g.indexFrom(n, 0)
	alignedByte := -1
	if first >= 0 {
		alignedByte = len(strings.Join(g.cl[:first], ""))
	}
	b := strings.Index(g.text, n.text)
	switch {
	case b < 0:
		return "no-occurrence"
	case first < 0:
		return "only-misaligned-occurrence"
	case b < alignedByte:
		return "misaligned-before-aligned-occurrence"
	}
	return "aligned-occurrence"
}

package text

import (
	"encoding/hex"
	"encoding/json"
	"fmt"
	"strconv"
	"strings"

	"github.com/onflow/cadence/common"
	"github.com/onflow/cadence/interpreter"

	"verif/mc"
	"verif/rt"
)

// C19: "A String value equals the NFC normalization of its source text, and all
// its operations agree with the sequence of extended grapheme clusters of that
// form. That covers length, indexing, slicing (failing exactly for out-of-range
// or reversed bounds), iteration, concat, equality and ordering, and
// contains/index/count of substrings aligned to cluster boundaries, as well as
// split, replaceAll, join, toLower, utf8, and hex encoding and decoding."

// ---------------------------------------------------------------------------
// alphabet

var c19Atoms = []string{
	"a",
	"A",
	"\u00e9",                        // e-acute, composed
	"e\u0301",                       // e + combining acute (NFC: U+00E9)
	"\r\n",                          // one cluster
	"\r",                            //
	"\n",                            //
	"\U0001F1EB\U0001F1F7",          // flag: two regional indicators, one cluster
	"\U0001F1EB",                    // lone regional indicator
	"\U0001F469\u200d\U0001F467",    // ZWJ family emoji, one cluster
	"\u2764\ufe0f",                  // heart + VS16
	"\u1100",                        // Hangul L jamo
	"\u1161",                        // Hangul V jamo (L+V composes to a syllable under NFC)
	"\u11a8",                        // Hangul T jamo
	"\uac00",                        // Hangul syllable GA
	"\u0301",                        // lone combining mark
	"\u200d",                        // lone ZWJ
}

// code-point-level fragments of the multi-code-point atoms (cluster-misaligned needles)
var c19Fragments = []string{
	"e",
	"\U0001F1F7",           // second half of the flag
	"\U0001F1F7\U0001F1EB", // the misaligned pair inside two flags
	"\U0001F469",           // first person of the family
	"\U0001F467",           // last person of the family
	"\U0001F469\u200d",     // family without its last member
	"\u200d\U0001F467",     // family without its first member
	"\u2764",               // heart without VS16
	"\ufe0f",               // lone VS16
	"\uac01",               // syllable GAG = L+V+T composed
}

func stringsUpTo(atoms []string, n int) []string {
	out, _ := stringsWithLevel(atoms, n)
	return out
}

// stringsWithLevel: every distinct string of <= n atoms, and the least number of atoms that builds it.
func stringsWithLevel(atoms []string, n int) ([]string, map[string]int) {
	level := map[string]int{"": 0}
	out := []string{""}
	prev := []string{""}
	for l := 1; l <= n; l++ {
		var cur []string
		for _, p := range prev {
			for _, a := range atoms {
				cur = append(cur, p+a)
			}
		}
		for _, s := range cur {
			if _, ok := level[s]; !ok {
				level[s] = l
				out = append(out, s)
			}
		}
		prev = cur
	}
	return out, level
}

// ---------------------------------------------------------------------------
// operations

type strCall struct {
	Op string `json:"op"`
	H  string `json:"h"`           // source text of the receiver
	N  string `json:"n,omitempty"` // second string (needle / separator / other operand)
	W  string `json:"w,omitempty"` // third string (replacement / middle element of join)
	I  int    `json:"i,omitempty"`
	J  int    `json:"j,omitempty"`
}

type strCase struct {
	Via  string  `json:"via"` // "direct" | "direct-fresh" | "interpreter" | "vm"
	Call strCall `json:"call"`
}

type outcome struct {
	Fail  bool
	Class string // failure class
	Val   string
}

func (o outcome) String() string {
	if o.Fail {
		return "FAILED(" + o.Class + ")"
	}
	return o.Val
}

func hx(s string) string { return hex.EncodeToString([]byte(s)) }

func hxList(ss []string) string {
	parts := make([]string, len(ss))
	for i, s := range ss {
		parts[i] = hx(s)
	}
	return strings.Join(parts, ",")
}

// modelEval is the reference answer; dontCare = the sentence does not settle this case.
func modelEval(c strCall) (o outcome, dontCare bool) {
	h := mkG(c.H)
	n := mkG(c.N)
	w := mkG(c.W)
	fail := outcome{Fail: true}
	switch c.Op {
	case "nfc", "utf8":
		return outcome{Val: hx(h.text)}, false
	case "length":
		return outcome{Val: strconv.Itoa(h.length())}, false
	case "at":
		s, ok := h.at(c.I)
		if !ok {
			return fail, false
		}
		return outcome{Val: hx(s)}, false
	case "slice":
		s, ok := h.slice(c.I, c.J)
		if !ok {
			return fail, false
		}
		return outcome{Val: hx(s.text)}, false
	case "iterate":
		return outcome{Val: hxList(h.cl)}, false
	case "concat":
		return outcome{Val: hx(h.concat(n).text)}, false
	case "equal":
		return outcome{Val: strconv.FormatBool(h.equal(n))}, false
	case "order":
		lt, ok := h.less(n)
		gt, ok2 := n.less(h)
		eq := h.equal(n)
		return outcome{Val: fmt.Sprintf("lt=%v,le=%v,gt=%v,ge=%v", lt, lt || eq, gt, gt || eq)}, !ok || !ok2
	case "contains":
		// "contains/index/count of substrings aligned to cluster boundaries": the empty needle has
		// conventional but unspecified answers (DESIGN 1.7): don't-care
		return outcome{Val: strconv.FormatBool(h.indexFrom(n, 0) >= 0)}, len(n.cl) == 0
	case "index":
		return outcome{Val: strconv.Itoa(h.indexFrom(n, 0))}, len(n.cl) == 0
	case "count":
		idx, overlap := h.occurrences(n)
		return outcome{Val: strconv.Itoa(len(idx))}, len(n.cl) == 0 || overlap
	case "split":
		_, overlap := h.occurrences(n)
		var parts []string
		for _, p := range h.split(n) {
			parts = append(parts, p.text)
		}
		return outcome{Val: hxList(parts)}, len(n.cl) == 0 || overlap
	case "replaceAll":
		_, overlap := h.occurrences(n)
		return outcome{Val: hx(h.replaceAll(n, w).text)}, len(n.cl) == 0 || overlap
	case "join":
		return outcome{Val: hx(joinG([]gstr{h, w, h}, n).text)}, false
	case "toLower":
		l, ok := h.toLower()
		return outcome{Val: hx(l.text)}, !ok
	case "hexRoundTrip":
		// String.fromUTF8(String.encodeHex(s.utf8).decodeHex()) is s again
		return outcome{Val: h.hex() + "|" + hx(h.text)}, false
	}
	panic("unknown op " + c.Op)
}

// ---------------------------------------------------------------------------
// the real code, called directly

type directStrings struct {
	inter *interpreter.Interpreter
	cache map[string]*interpreter.StringValue // one shared value per source text: cached iterator state carries over between operations
	fresh bool
}

func newDirectStrings(fresh bool) *directStrings {
	inter, err := interpreter.NewInterpreter(nil, nil, &interpreter.Config{
		Storage: interpreter.NewInMemoryStorage(nil, nil),
	})
	if err != nil {
		panic(err)
	}
	return &directStrings{inter: inter, cache: map[string]*interpreter.StringValue{}, fresh: fresh}
}

func (d *directStrings) val(src string) *interpreter.StringValue {
	if d.fresh {
		return interpreter.NewUnmeteredStringValue(src)
	}
	v, ok := d.cache[src]
	if !ok {
		if len(d.cache) > 4096 {
			d.cache = map[string]*interpreter.StringValue{}
		}
		v = interpreter.NewUnmeteredStringValue(src)
		d.cache[src] = v
	}
	return v
}

func intVal(i int) interpreter.IntValue {
	return interpreter.NewUnmeteredIntValueFromInt64(int64(i))
}

func arrayStrings(inter *interpreter.Interpreter, a *interpreter.ArrayValue) []string {
	var out []string
	a.Iterate(inter, func(e interpreter.Value) bool {
		out = append(out, e.(*interpreter.StringValue).Str)
		return true
	}, false)
	return out
}

func (d *directStrings) eval(c strCall) (o outcome) {
	defer func() {
		if p := recover(); p != nil {
			cls := "panic"
			if e, ok := p.(error); ok {
				cls, _ = rt.Classify(e)
			}
			o = outcome{Fail: true, Class: cls + ": " + fmt.Sprint(p)}
		}
	}()
	in := d.inter
	h := d.val(c.H)
	var n, w *interpreter.StringValue
	switch c.Op {
	case "concat", "equal", "order", "contains", "index", "count", "split", "replaceAll", "join":
		n = d.val(c.N)
	}
	switch c.Op {
	case "replaceAll", "join":
		w = d.val(c.W)
	}
	switch c.Op {
	case "nfc":
		return outcome{Val: hx(h.Str)}
	case "utf8":
		bs, err := interpreter.ByteArrayValueToByteSlice(in, h.GetMember(in, "utf8", common.DeclarationKindField, nil))
		if err != nil {
			panic(err)
		}
		return outcome{Val: hex.EncodeToString(bs)}
	case "length":
		return outcome{Val: strconv.Itoa(h.Length(in))}
	case "at":
		ch := h.GetKey(in, intVal(c.I)).(interpreter.CharacterValue)
		return outcome{Val: hx(ch.Str)}
	case "slice":
		s := h.Slice(in, intVal(c.I), intVal(c.J)).(*interpreter.StringValue)
		return outcome{Val: hx(s.Str)}
	case "iterate":
		var cl []string
		it := h.Iterator(in)
		for it.HasNext(in) {
			cl = append(cl, it.Next(in).(interpreter.CharacterValue).Str)
		}
		return outcome{Val: hxList(cl)}
	case "concat":
		return outcome{Val: hx(h.Concat(in, n).(*interpreter.StringValue).Str)}
	case "equal":
		return outcome{Val: strconv.FormatBool(h.Equal(in, n))}
	case "order":
		return outcome{Val: fmt.Sprintf("lt=%v,le=%v,gt=%v,ge=%v", bool(h.Less(in, n)), bool(h.LessEqual(in, n)), bool(h.Greater(in, n)), bool(h.GreaterEqual(in, n)))}
	case "contains":
		return outcome{Val: strconv.FormatBool(bool(h.Contains(in, n)))}
	case "index":
		return outcome{Val: strconv.Itoa(h.IndexOf(in, n).ToInt())}
	case "count":
		return outcome{Val: strconv.Itoa(h.Count(in, n).ToInt())}
	case "split":
		return outcome{Val: hxList(arrayStrings(in, h.Split(in, n)))}
	case "replaceAll":
		return outcome{Val: hx(h.ReplaceAll(in, n, w).Str)}
	case "join":
		arr := interpreter.NewArrayValue(in, interpreter.VarSizedArrayOfStringType, common.ZeroAddress, h, w, h)
		return outcome{Val: hx(interpreter.StringFunctionJoin(in, arr, n).(*interpreter.StringValue).Str)}
	case "toLower":
		return outcome{Val: hx(h.ToLower(in).Str)}
	case "hexRoundTrip":
		bytes := interpreter.ByteSliceToByteArrayValue(in, []byte(h.Str))
		enc := interpreter.StringFunctionEncodeHex(in, bytes).(*interpreter.StringValue)
		dec := enc.DecodeHex(in)
		back := interpreter.StringFunctionFromUtf8(in, dec)
		some, ok := back.(*interpreter.SomeValue)
		if !ok {
			return outcome{Val: enc.Str + "|nil"}
		}
		return outcome{Val: enc.Str + "|" + hx(some.InnerValue().(*interpreter.StringValue).Str)}
	}
	panic("unknown op " + c.Op)
}

// ---------------------------------------------------------------------------
// the real code, through scripts

const c19Prelude = `access(all) fun h(_ s: String): String { return String.encodeHex(s.utf8) }
access(all) fun hs(_ a: [String]): String { var r = ""; var first = true; for x in a { if !first { r = r.concat(",") }; first = false; r = r.concat(h(x)) }; return r }
access(all) fun it(_ s: String): String { var r = ""; var first = true; for c in s { if !first { r = r.concat(",") }; first = false; r = r.concat(h(c.toString())) }; return r }
access(all) fun ord(_ a: String, _ b: String): String { return "lt=".concat(a < b ? "true" : "false").concat(",le=").concat(a <= b ? "true" : "false").concat(",gt=").concat(a > b ? "true" : "false").concat(",ge=").concat(a >= b ? "true" : "false") }
`

func callExpr(c strCall) string {
	s, n, w := quoteCadence(c.H), quoteCadence(c.N), quoteCadence(c.W)
	switch c.Op {
	case "nfc", "utf8":
		return fmt.Sprintf("h(%s)", s)
	case "length":
		return fmt.Sprintf("%s.length", s)
	case "at":
		return fmt.Sprintf("h(%s[%d].toString())", s, c.I)
	case "slice":
		return fmt.Sprintf("h(%s.slice(from: %d, upTo: %d))", s, c.I, c.J)
	case "iterate":
		return fmt.Sprintf("it(%s)", s)
	case "concat":
		return fmt.Sprintf("h(%s.concat(%s))", s, n)
	case "equal":
		return fmt.Sprintf("%s == %s", s, n)
	case "order":
		return fmt.Sprintf("ord(%s, %s)", s, n)
	case "contains":
		return fmt.Sprintf("%s.contains(%s)", s, n)
	case "index":
		return fmt.Sprintf("%s.index(of: %s)", s, n)
	case "count":
		return fmt.Sprintf("%s.count(%s)", s, n)
	case "split":
		return fmt.Sprintf("hs(%s.split(separator: %s))", s, n)
	case "replaceAll":
		return fmt.Sprintf("h(%s.replaceAll(of: %s, with: %s))", s, n, w)
	case "join":
		return fmt.Sprintf("h(String.join([%s, %s, %s], separator: %s))", s, w, s, n)
	case "toLower":
		return fmt.Sprintf("h(%s.toLower())", s)
	case "hexRoundTrip":
		return fmt.Sprintf("String.encodeHex(%s.utf8).concat(\"|\").concat(h(String.fromUTF8(String.encodeHex(%s.utf8).decodeHex())!))", s, s)
	}
	panic("unknown op " + c.Op)
}

// evalScript runs all calls in one script (one log line each); after a failing
// call the rest is run in a further script.
func evalScript(calls []strCall, vm bool) ([]outcome, string) {
	out := make([]outcome, 0, len(calls))
	rest := calls
	for len(rest) > 0 {
		var sb strings.Builder
		sb.WriteString(c19Prelude)
		sb.WriteString("access(all) fun main() {\n")
		for _, c := range rest {
			fmt.Fprintf(&sb, " log(%s)\n", callExpr(c))
		}
		sb.WriteString("}")
		res := runScript(sb.String(), vm)
		if !res.OK() && len(res.Logs) == 0 && (strings.Contains(res.Kind, "CheckerError") || strings.Contains(res.Kind, "parser.")) {
			return nil, "script rejected before running: " + res.ErrString()
		}
		if len(res.Logs) > len(rest) || (res.OK() && len(res.Logs) != len(rest)) {
			return nil, fmt.Sprintf("%d log lines for %d calls", len(res.Logs), len(rest))
		}
		for _, l := range res.Logs {
			out = append(out, outcome{Val: strings.Trim(l, `"`)})
		}
		if res.OK() {
			break
		}
		out = append(out, outcome{Fail: true, Class: res.Class + ": " + shortErr(res)})
		rest = rest[len(res.Logs)+1:]
	}
	return out, ""
}

// ---------------------------------------------------------------------------
// judging

// inputClass is the structural class of a call's input, for signatures.
func inputClass(c strCall) string {
	h := mkG(c.H)
	var parts []string
	multi := false
	for _, cl := range h.cl {
		if len([]rune(cl)) > 1 {
			multi = true
		}
	}
	switch {
	case len(h.cl) == 0:
		parts = append(parts, "empty-receiver")
	case multi:
		parts = append(parts, "multi-code-point-clusters")
	default:
		parts = append(parts, "single-code-point-clusters")
	}
	if h.text != c.H {
		parts = append(parts, "source-not-nfc")
	}
	switch c.Op {
	case "contains", "index", "count", "split", "replaceAll":
		parts = append(parts, h.occurrenceClass(mkG(c.N)))
	case "at":
		if _, ok := h.at(c.I); !ok {
			parts = append(parts, "index-out-of-range")
		}
	case "slice":
		switch {
		case c.I > c.J && c.I >= 0 && c.J >= 0 && c.I <= len(h.cl) && c.J <= len(h.cl):
			parts = append(parts, "reversed-bounds")
		case c.I < 0 || c.J < 0 || c.I > len(h.cl) || c.J > len(h.cl):
			parts = append(parts, "bound-out-of-range")
		}
	case "concat", "join":
		// does concatenation merge clusters across the seam?
		n := mkG(c.N)
		if len(h.concat(n).cl) != len(h.cl)+len(n.cl) {
			parts = append(parts, "seam-merges-clusters")
		}
	}
	return strings.Join(parts, "+")
}

// judge compares; returns signature ("" = fine), detail, outcome class.
func judgeStr(via string, c strCall, got outcome) (sig, detail, class string, dontCare bool) {
	want, dc := modelEval(c)
	if dc {
		return "", "", "dont-care:" + c.Op, true
	}
	desc := func() string {
		return fmt.Sprintf("[%s] %s on %+q (NFC clusters %q) n=%+q w=%+q i=%d j=%d: expected %s, got %s", via, c.Op, c.H, mkG(c.H).cl, c.N, c.W, c.I, c.J, want, got)
	}
	v := strings.TrimSuffix(via, "-fresh")
	switch {
	case want.Fail && !got.Fail:
		return fmt.Sprintf("String.%s|%s|%s|no-failure", c.Op, v, inputClass(c)), desc(), "", false
	case !want.Fail && got.Fail:
		cls := strings.SplitN(got.Class, ":", 2)[0]
		return fmt.Sprintf("String.%s|%s|%s|failed-%s", c.Op, v, inputClass(c), cls), desc(), "", false
	case want.Fail:
		return "", "", c.Op + ":fails-as-required", false
	case want.Val != got.Val:
		return fmt.Sprintf("String.%s|%s|%s|wrong-result", c.Op, v, inputClass(c)), desc(), "", false
	}
	class = c.Op + ":ok"
	switch c.Op {
	case "contains", "index", "count", "split", "replaceAll":
		class = c.Op + ":" + mkG(c.H).occurrenceClass(mkG(c.N))
	case "equal":
		class = "equal:" + got.Val
	}
	return "", "", class, false
}

// ---------------------------------------------------------------------------
// enumeration

func unaryCalls(h string) []strCall {
	g := mkG(h)
	n := g.length()
	calls := []strCall{{Op: "nfc", H: h}, {Op: "utf8", H: h}, {Op: "length", H: h}, {Op: "iterate", H: h}, {Op: "toLower", H: h}, {Op: "hexRoundTrip", H: h}}
	for i := -1; i <= n+1; i++ {
		calls = append(calls, strCall{Op: "at", H: h, I: i})
		for j := -1; j <= n+1; j++ {
			calls = append(calls, strCall{Op: "slice", H: h, I: i, J: j})
		}
	}
	return calls
}

var c19Replacements = []string{"", "z", "\u0301"}

func binaryCalls(h, n string) []strCall {
	calls := []strCall{
		{Op: "concat", H: h, N: n}, {Op: "equal", H: h, N: n}, {Op: "order", H: h, N: n},
		{Op: "contains", H: h, N: n}, {Op: "index", H: h, N: n}, {Op: "count", H: h, N: n}, {Op: "split", H: h, N: n},
	}
	for _, w := range c19Replacements {
		calls = append(calls, strCall{Op: "replaceAll", H: h, N: n, W: w})
	}
	calls = append(calls, strCall{Op: "join", H: h, N: n, W: "\u0301a"})
	return calls
}

func reportStr(env *mc.Env, via string, c strCall, got outcome, classes map[string]int64) {
	sig, detail, class, dc := judgeStr(via, c, got)
	if dc {
		env.R.DontCare.Add(1)
	}
	if sig != "" {
		env.R.Violation(sig, strCase{Via: via, Call: c}, detail)
		return
	}
	classes[class]++
}

func runC19(env *mc.Env) {
	hayLen := mc.Pick(env, 3, 4)
	hays, level := stringsWithLevel(c19Atoms, hayLen)
	needles := append(stringsUpTo(c19Atoms, 2), c19Fragments...)
	short := append(stringsUpTo(c19Atoms, 1), c19Fragments...)
	env.R.Set("haystacks", len(hays))
	env.R.Set("needles", len(needles))

	// --- direct calls
	const chunk = 16
	nChunks := (len(hays) + chunk - 1) / chunk
	mc.ParallelFor(env, nChunks, func(ci int) {
		lo, hi := ci*chunk, min((ci+1)*chunk, len(hays))
		shared := newDirectStrings(false)
		fresh := newDirectStrings(true)
		classes := map[string]int64{}
		var n int64
		for _, h := range hays[lo:hi] {
			hg := mkG(h)
			for _, c := range unaryCalls(h) {
				reportStr(env, "direct", c, shared.eval(c), classes)
				n++
			}
			// receivers of the longest level (3 atoms quick, 4 thorough) meet the short needles and every
			// contiguous code-point substring of their own source (the needles that can occur); shorter ones meet all needles
			ns := needles
			if level[h] >= hayLen {
				ns = append(append([]string{}, short...), ownSubstrings(h)...)
			}
			for _, nd := range ns {
				for _, c := range binaryCalls(h, nd) {
					reportStr(env, "direct", c, shared.eval(c), classes)
					n++
					switch c.Op {
					case "contains", "index", "count", "split", "replaceAll":
						// the same call on a fresh value (no cached iterator state): "alone vs after a prefix"
						reportStr(env, "direct-fresh", c, fresh.eval(c), classes)
						n++
						if cls := hg.occurrenceClass(mkG(nd)); cls != "no-occurrence" && cls != "empty-needle" {
							env.R.Nontrivial("S|" + h + "|" + nd)
						}
					}
				}
			}
		}
		env.R.EvalN(n)
		for k, c := range classes {
			kk := k
			first := hays[lo]
			env.R.Class(kk, func() any { return fmt.Sprintf("%s (block starting at %+q)", kk, first) })
			env.R.ClassN(kk, c-1)
		}
	})

	// --- scripts, both engines: every string of <= 2 atoms x the short needles
	shays := stringsUpTo(c19Atoms, 2)
	type job struct {
		h  string
		vm bool
	}
	var jobs []job
	for _, h := range shays {
		for _, vm := range []bool{false, true} {
			jobs = append(jobs, job{h, vm})
		}
	}
	mc.ParallelFor(env, len(jobs), func(i int) {
		j := jobs[i]
		via := engineName(j.vm)
		calls := unaryCalls(j.h)
		for _, nd := range short {
			calls = append(calls, binaryCalls(j.h, nd)...)
		}
		// calls the model expects to fail go last, so that the common case is one script
		var ok, failing []strCall
		for _, c := range calls {
			if w, _ := modelEval(c); w.Fail {
				failing = append(failing, c)
			} else {
				ok = append(ok, c)
			}
		}
		calls = append(ok, failing...)
		outs, herr := evalScript(calls, j.vm)
		if herr != "" {
			env.R.HarnessError("string script for %+q [%s]: %s", j.h, via, herr)
			return
		}
		classes := map[string]int64{}
		for k, c := range calls {
			reportStr(env, via, c, outs[k], classes)
		}
		env.R.EvalN(int64(len(calls)))
		for k, c := range classes {
			env.R.Class(via+":"+k, nil)
			env.R.ClassN(via+":"+k, c-1)
		}
	})
	if !env.Expired() {
		env.R.BoundCompleted(fmt.Sprintf("direct: all strings of <= %d atoms; scripts: all strings of <= 2 atoms, both engines", hayLen))
	}
}

// ownSubstrings: every contiguous code-point substring of h of at most 5 code points.
func ownSubstrings(h string) []string {
	r := []rune(h)
	seen := map[string]struct{}{}
	var out []string
	for i := 0; i < len(r); i++ {
		for j := i + 1; j <= len(r) && j-i <= 5; j++ {
			s := string(r[i:j])
			if _, ok := seen[s]; !ok {
				seen[s] = struct{}{}
				out = append(out, s)
			}
		}
	}
	return out
}

func replayC19(env *mc.Env, raw json.RawMessage) (bool, string) {
	var c strCase
	if err := json.Unmarshal(raw, &c); err != nil {
		return false, err.Error()
	}
	var got outcome
	switch c.Via {
	case "direct":
		got = newDirectStrings(false).eval(c.Call)
	case "direct-fresh":
		got = newDirectStrings(true).eval(c.Call)
	default:
		outs, herr := evalScript([]strCall{c.Call}, c.Via == "vm")
		if herr != "" || len(outs) != 1 {
			return false, "harness: " + herr
		}
		got = outs[0]
	}
	sig, detail, class, _ := judgeStr(c.Via, c.Call, got)
	return sig != "", sig + " " + detail + class
}

func init() {
	mc.Register(&mc.Check{
		ID: "C19",
		Rule: "atoms {a, A, é composed, e+U+0301, CRLF, CR, LF, flag, lone regional indicator, ZWJ family, heart+VS16, Hangul L/V/T jamo and syllable, lone combining mark, lone ZWJ}; every string of <= 3 atoms (thorough: 4) as receiver: nfc/utf8/length/iteration/toLower/hex round trip, every index -1..len+1, every (from, upTo) pair in -1..len+1; with every string of <= 2 atoms and every code-point fragment of an atom as second operand: concat, ==, < <= > >=, contains, index, count, split, replaceAll (3 replacements), join " +
			"(receivers of the longest level meet needles of <= 1 atom, the fragments, and every code-point substring of their own source); called directly on shared StringValues (cached iterator state carries over) and on fresh ones; every string of <= 2 atoms x needles of <= 1 atom + fragments again as scripts on both engines. Reference: NFC (x/text) + grapheme segmentation (uniseg) into []string, operations written naively on the slice. non-trivial = distinct (receiver, needle) with a byte occurrence.",
		Assumptions: []string{"golang.org/x/text/unicode/norm and github.com/rivo/uniseg (step API) are the trusted reference for NFC and UAX #29",
			"empty needle, overlapping occurrences, prefix-cluster ordering and context-sensitive lower-casing are don't-care cells"},
		Run:    runC19,
		Replay: replayC19,
	})
}

package text

import "testing"

func TestProbe(t *testing.T) {
	for _, src := range []string{
		`access(all) fun main() { log(Address.fromBytes([0,0,0,0,0,0,0,0,1]))}`,
		`access(all) fun main() { log(Address.fromString("0x00000000000000001"))}`,
		`access(all) fun main() { log(Address.fromString("0x0000000000000001")); log(Address.fromString("0X1")); log(Address.fromString("0xG")); log(Address.fromString("0x")); log(Address.fromString("")); log(Address.fromBytes([]))}`,
	} {
		for _, vm := range []bool{false} {
			r := runScript(src, vm)
			t.Log(vm, r.Logs, r.Class, r.Kind, r.ErrString())
		}
	}
}

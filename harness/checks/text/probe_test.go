package text

import "testing"

func TestProbe(t *testing.T) {
	for _, src := range []string{
		`access(all) fun main() { let v: Int8 = -0; log(v) }`,
		`access(all) fun main() { let v: Int8 = -1; log(v) }`,
		`access(all) fun main() { let v: Int = -0; log(v) }`,
		`access(all) fun main() { let v: Int8 = -00; log(v) }`,
		`access(all) fun main() { let v: Fix64 = -0.0; log(v) }`,
		`access(all) fun main() { let v = -0; log(v) }`,
		`access(all) fun main() { let v: Int8 = - 0; log(v) }`,
		`access(all) fun main() { let v: Int8 = -(0); log(v) }`,
	} {
		for _, vm := range []bool{false} {
			r := runScript(src, vm)
			t.Log(src, r.Logs, r.Class, r.Kind, shortErr(r), r.ErrString())
		}
	}
}

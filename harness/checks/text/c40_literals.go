package text

import (
	"encoding/hex"
	"encoding/json"
	"errors"
	"fmt"
	"math/big"
	"reflect"
	"sort"
	"strings"

	"github.com/onflow/cadence/ast"
	"github.com/onflow/cadence/parser"
	"github.com/onflow/cadence/sema"
	"golang.org/x/text/unicode/norm"

	"verif/mc"
	"verif/num"
	"verif/rt"
)

// C40: "An integer literal in any base, with any underscores, denotes its
// mathematical value, and the checker rejects it exactly when that value is
// outside the expected type's range. A fixed-point literal denotes its exact
// decimal value and is rejected exactly when it has more fractional digits than
// the type's scale or is out of range. String and character literals decode
// every escape sequence to the intended code points."

// litDecl is one literal in one typed declaration.
type litDecl struct {
	Kind string `json:"kind"` // "int" | "fix" | "str" | "char"
	Type string `json:"type"`
	Lit  string `json:"lit"` // source text of the literal (with sign)
}

type litCase struct {
	Decl litDecl `json:"decl"`
	VM   bool    `json:"vm"`
}

// litObs is what the real code did with one declaration.
type litObs struct {
	Rejected  bool
	ErrKind   string // Go type of the (first) error reported on the literal's line
	RunFailed string
	Val       string // log line
}

func (o litObs) String() string {
	switch {
	case o.Rejected:
		return "rejected(" + o.ErrKind + ")"
	case o.RunFailed != "":
		return "run failed: " + o.RunFailed
	}
	return o.Val
}

func declLine(i int, d litDecl, withLog bool) string {
	s := fmt.Sprintf(" let v%d: %s = %s", i, d.Type, d.Lit)
	if withLog {
		switch d.Kind {
		case "str":
			s += fmt.Sprintf("; log(String.encodeHex(v%d.utf8))", i)
		case "char":
			s += fmt.Sprintf("; log(String.encodeHex(v%d.toString().utf8))", i)
		default:
			s += fmt.Sprintf("; log(v%d)", i)
		}
	}
	return s + "\n"
}

// errorLines maps the errors of a rejected program to source lines; ok=false
// if some error has no usable position.
func errorLines(err error) (lines map[int]string, ok bool) {
	lines = map[int]string{}
	var list []error
	var ce *sema.CheckerError
	var pe parser.Error
	switch {
	case errors.As(err, &ce):
		list = ce.Errors
	case errors.As(err, &pe):
		list = pe.Errors
	default:
		return nil, false
	}
	for _, e := range list {
		hp, has := e.(ast.HasPosition)
		if !has {
			return nil, false
		}
		l := hp.StartPosition().Line
		if _, dup := lines[l]; !dup {
			lines[l] = reflect.TypeOf(e).String()
		}
	}
	return lines, len(list) > 0
}

// evalLiterals runs the declarations: one program with all of them tells which
// lines the parser/checker rejects; a second program with the accepted ones
// (if any were rejected) yields the values.
func evalLiterals(decls []litDecl, vm bool) (out []litObs, harness string) {
	out = make([]litObs, len(decls))
	build := func(idx []int) string {
		var sb strings.Builder
		sb.WriteString("access(all) fun main() {\n") // line 1
		for _, i := range idx {
			sb.WriteString(declLine(i, decls[i], true)) // line 2 + position
		}
		sb.WriteString("}")
		return sb.String()
	}
	all := make([]int, len(decls))
	for i := range all {
		all[i] = i
	}
	single := func() ([]litObs, string) {
		if len(decls) == 1 {
			return nil, "cannot attribute errors of a single declaration"
		}
		for i, d := range decls {
			o, h := evalLiterals([]litDecl{d}, vm)
			if h != "" {
				return nil, h
			}
			out[i] = o[0]
		}
		return out, ""
	}
	res := runScript(build(all), vm)
	accepted := all
	if !res.OK() && len(res.Logs) == 0 && isStaticError(res) {
		lines, ok := errorLines(res.Err)
		if !ok {
			if len(decls) == 1 {
				out[0] = litObs{Rejected: true, ErrKind: res.Kind}
				return out, ""
			}
			return single()
		}
		accepted = nil
		for l := range lines {
			if l < 2 || l >= 2+len(decls) {
				if len(decls) == 1 {
					out[0] = litObs{Rejected: true, ErrKind: lines[l]}
					return out, ""
				}
				return single()
			}
		}
		for i := range decls {
			if k, bad := lines[2+i]; bad {
				out[i] = litObs{Rejected: true, ErrKind: k}
			} else {
				accepted = append(accepted, i)
			}
		}
		if len(accepted) == 0 {
			return out, ""
		}
		res = runScript(build(accepted), vm)
		if !res.OK() && len(res.Logs) == 0 && isStaticError(res) {
			// removing the rejected lines made other lines fail: attribute one by one
			return single()
		}
	}
	for k, i := range accepted {
		switch {
		case k < len(res.Logs):
			out[i] = litObs{Val: strings.Trim(res.Logs[k], `"`)}
		case k == len(res.Logs):
			out[i] = litObs{RunFailed: res.Class + ": " + shortErr(res)}
		default:
			// executed after a failing declaration: run on its own
			o, h := evalLiterals([]litDecl{decls[i]}, vm)
			if h != "" {
				return nil, h
			}
			out[i] = o[0]
		}
	}
	if res.OK() && len(res.Logs) != len(accepted) {
		return nil, fmt.Sprintf("%d log lines for %d declarations", len(res.Logs), len(accepted))
	}
	return out, ""
}

func isStaticError(res *rt.Result) bool {
	var ce *sema.CheckerError
	var pe parser.Error
	return errors.As(res.Err, &ce) || errors.As(res.Err, &pe)
}

// ---------------------------------------------------------------------------
// reference

type litWant struct {
	reject   bool
	val      string // expected log line (canonical), when accepted
	dontCare bool
	class    string // structural input class for signatures
}

var intPrefix = map[int]string{2: "0b", 8: "0o", 10: "", 16: "0x"}

// intLiteralValue is the boring reference: sign, base prefix, digits with inner underscores.
func intLiteralValue(lit string) (*big.Int, int, bool) {
	neg := strings.HasPrefix(lit, "-")
	body := strings.TrimPrefix(lit, "-")
	base := 10
	switch {
	case strings.HasPrefix(body, "0b"):
		base, body = 2, body[2:]
	case strings.HasPrefix(body, "0o"):
		base, body = 8, body[2:]
	case strings.HasPrefix(body, "0x"):
		base, body = 16, body[2:]
	}
	digits := strings.ReplaceAll(body, "_", "")
	v, ok := new(big.Int).SetString(digits, base)
	if !ok {
		return nil, base, false
	}
	if neg {
		v.Neg(v)
	}
	return v, base, true
}

func wantLiteral(d litDecl) litWant {
	switch d.Kind {
	case "int":
		t := num.ByName[d.Type]
		v, base, ok := intLiteralValue(d.Lit)
		if !ok {
			panic("generator produced a bad integer literal " + d.Lit)
		}
		cls := fmt.Sprintf("base%d", base)
		if strings.HasPrefix(d.Lit, "-") {
			if v.Sign() == 0 {
				cls += "|negative-zero"
			} else {
				cls += "|negative"
			}
		}
		if strings.Contains(d.Lit, "_") {
			cls += "|underscores"
		}
		switch {
		case t.Min != nil && v.Cmp(t.Min) < 0:
			return litWant{reject: true, class: cls + "|below-min"}
		case t.Max != nil && v.Cmp(t.Max) > 0:
			return litWant{reject: true, class: cls + "|above-max"}
		}
		return litWant{val: v.String(), class: cls + "|in-range"}
	case "fix":
		t := num.ByName[d.Type]
		fd := fractionalDigits(d.Lit)
		if fd > t.Scale {
			// "rejected exactly when it has more fractional digits than the type's scale or is out of range"
			return litWant{reject: true, class: "excess-fraction-digits"}
		}
		v, ok := decimalValue(d.Lit, t.Scale)
		if !ok {
			panic("generator produced a bad fixed-point literal " + d.Lit)
		}
		if !t.InRange(v) {
			bound := t.Max
			if v.Sign() < 0 {
				bound = t.Min
			}
			by := "out-of-range-by-integer-part"
			if new(big.Int).Quo(v, pow10[t.Scale]).Cmp(new(big.Int).Quo(bound, pow10[t.Scale])) == 0 {
				by = "out-of-range-by-fraction-only"
			}
			return litWant{reject: true, class: by}
		}
		cls := "in-range"
		if fd < t.Scale {
			cls = "in-range-short-fraction"
		}
		return litWant{val: renderRaw(v, t.Scale), class: cls}
	}
	panic("wantLiteral: " + d.Kind)
}

// ---------------------------------------------------------------------------
// integer literals

var baseDigits = map[int]string{2: "01", 8: "017", 10: "019", 16: "019aF"}

// digitStrings: every digit string of length 1..n over the base's digit alphabet,
// each with every placement of single underscores in its gaps.
func digitStrings(base, n int) []string {
	alpha := baseDigits[base]
	var out []string
	var rec func(cur string)
	rec = func(cur string) {
		if len(cur) > 0 {
			gaps := len(cur) - 1
			for mask := 0; mask < 1<<gaps; mask++ {
				var sb strings.Builder
				for i := 0; i < len(cur); i++ {
					sb.WriteByte(cur[i])
					if i < gaps && mask&(1<<i) != 0 {
						sb.WriteByte('_')
					}
				}
				out = append(out, sb.String())
			}
		}
		if len(cur) == n {
			return
		}
		for i := 0; i < len(alpha); i++ {
			rec(cur + string(alpha[i]))
		}
	}
	rec("")
	return out
}

func renderInBase(v *big.Int, base int, variant int) string {
	neg := v.Sign() < 0
	a := new(big.Int).Abs(v)
	digits := a.Text(base)
	switch variant {
	case 1: // upper-case hex digits / leading zeros
		digits = "00" + strings.ToUpper(digits)
	case 2: // underscores every 3 digits from the right
		var parts []string
		for len(digits) > 3 {
			parts = append([]string{digits[len(digits)-3:]}, parts...)
			digits = digits[:len(digits)-3]
		}
		digits = strings.Join(append([]string{digits}, parts...), "_")
	}
	s := intPrefix[base] + digits
	if neg {
		s = "-" + s
	}
	return s
}

func intDecls(thorough bool) []litDecl {
	var out []litDecl
	small := []string{"Int8", "UInt8", "Word8", "Int16", "UInt16", "Word16", "Int", "UInt"}
	n := 4
	if thorough {
		n = 5
	}
	for _, base := range []int{2, 8, 10, 16} {
		for _, ds := range digitStrings(base, n) {
			lit := intPrefix[base] + ds
			for _, tn := range small {
				out = append(out, litDecl{Kind: "int", Type: tn, Lit: lit})
				if num.ByName[tn].Signed() {
					// the sign belongs to the literal for signed types (-128 is an Int8 although 128 is not)
					out = append(out, litDecl{Kind: "int", Type: tn, Lit: "-" + lit})
				}
			}
		}
	}
	// boundary values of every integer type, in every base, to every integer type
	one := big.NewInt(1)
	seen := map[string]struct{}{}
	var vals []*big.Int
	addv := func(v *big.Int) {
		if _, ok := seen[v.String()]; !ok {
			seen[v.String()] = struct{}{}
			vals = append(vals, v)
		}
	}
	for _, t := range num.Integers() {
		if t.Min != nil {
			addv(new(big.Int).Sub(t.Min, one))
			addv(t.Min)
			addv(new(big.Int).Add(t.Min, one))
		}
		if t.Max != nil {
			addv(new(big.Int).Sub(t.Max, one))
			addv(t.Max)
			addv(new(big.Int).Add(t.Max, one))
		}
	}
	// "lengths up to hundreds of digits"
	addv(new(big.Int).Exp(big.NewInt(10), big.NewInt(300), nil))
	addv(new(big.Int).Neg(new(big.Int).Exp(big.NewInt(10), big.NewInt(300), nil)))
	addv(new(big.Int).Sub(new(big.Int).Lsh(one, 1000), one))
	sort.Slice(vals, func(i, j int) bool { return vals[i].Cmp(vals[j]) < 0 })
	for _, v := range vals {
		for _, base := range []int{2, 8, 10, 16} {
			for variant := 0; variant < 3; variant++ {
				lit := renderInBase(v, base, variant)
				for _, t := range num.Integers() {
					if v.Sign() < 0 && !t.Signed() {
						// unary minus is not defined for unsigned types: "-1" is not a literal of such a type
						continue
					}
					out = append(out, litDecl{Kind: "int", Type: t.Name, Lit: lit})
				}
			}
		}
	}
	return out
}

// ---------------------------------------------------------------------------
// fixed-point literals

func fixDecls() []litDecl {
	set := map[string]struct{}{}
	add := func(s string) {
		if plainDecimal.MatchString(s) && strings.Contains(s, ".") && s[0] != '+' {
			set[s] = struct{}{}
		}
	}
	one := big.NewInt(1)
	for _, t := range num.FixedPoints() {
		unit := pow10[t.Scale]
		vals := []*big.Int{
			new(big.Int).Sub(t.Min, one), t.Min, new(big.Int).Add(t.Min, one),
			new(big.Int).Sub(t.Max, one), t.Max, new(big.Int).Add(t.Max, one),
			big.NewInt(0), big.NewInt(1), big.NewInt(-1), unit, new(big.Int).Neg(unit),
			new(big.Int).Rsh(unit, 1), new(big.Int).Add(t.Max, unit), new(big.Int).Sub(t.Min, unit),
		}
		for _, v := range vals {
			s := renderRaw(v, t.Scale)
			add(s)
			dot := strings.IndexByte(s, '.')
			for _, keep := range []int{1, 2, 7, 8, 9, t.Scale - 1} {
				if keep > t.Scale || keep < 1 {
					continue
				}
				cut := s[:dot+1+keep]
				add(cut)
				last := cut[len(cut)-1]
				if last < '9' {
					add(cut[:len(cut)-1] + string(last+1))
				}
				if last > '0' {
					add(cut[:len(cut)-1] + string(last-1))
				}
			}
			add(s[:dot] + ".9")
			add(s[:dot] + ".0")
			add(s + "0") // scale+1 digits
			add(s + "1")
			add("00" + strings.TrimPrefix(s, "-"))
		}
		// integer lattice x every number of fractional digits 1..scale+1
		ip := new(big.Int).Quo(t.Max, unit)
		for _, i := range []*big.Int{big.NewInt(0), big.NewInt(1), new(big.Int).Sub(ip, one), ip, new(big.Int).Add(ip, one)} {
			for k := 1; k <= t.Scale+1; k++ {
				for _, f := range []string{strings.Repeat("0", k), strings.Repeat("9", k), strings.Repeat("0", k-1) + "1", "5" + strings.Repeat("0", k-1)} {
					add(i.String() + "." + f)
					add("-" + i.String() + "." + f)
				}
			}
		}
	}
	lits := make([]string, 0, len(set))
	for s := range set {
		lits = append(lits, s)
	}
	sort.Strings(lits)
	var out []litDecl
	for _, lit := range lits {
		for _, t := range num.FixedPoints() {
			if strings.HasPrefix(lit, "-") && !t.Signed() {
				continue // unary minus is not defined for unsigned types
			}
			out = append(out, litDecl{Kind: "fix", Type: t.Name, Lit: lit})
		}
	}
	return out
}

// ---------------------------------------------------------------------------
// string and character literals

type strItem struct {
	src   string // source text inside the quotes
	cp    rune   // intended code point
	kind  string // structural kind for signatures
	valid bool   // is cp a Unicode scalar value?
}

func strItems(withVariants bool) []strItem {
	items := []strItem{
		{"a", 'a', "plain-ascii", true},
		{"\u00e9", 0xe9, "plain-non-ascii", true},
		{`\0`, 0, "escape-0", true},
		{`\n`, '\n', "escape-n", true},
		{`\r`, '\r', "escape-r", true},
		{`\t`, '\t', "escape-t", true},
		{`\"`, '"', "escape-quote", true},
		{`\'`, '\'', "escape-apostrophe", true},
		{`\\`, '\\', "escape-backslash", true},
	}
	for _, cp := range []rune{0, 0x7f, 0x80, 0x7ff, 0x800, 0xd7ff, 0xd800, 0xe000, 0xffff, 0x10000, 0x10ffff, 0x110000} {
		valid := cp <= 0x10ffff && !(cp >= 0xd800 && cp <= 0xdfff)
		kind := "unicode-escape"
		if !valid {
			kind = "unicode-escape-non-scalar"
		}
		items = append(items, strItem{fmt.Sprintf(`\u{%x}`, cp), cp, kind, valid})
		if withVariants {
			items = append(items, strItem{fmt.Sprintf(`\u{%X}`, cp), cp, kind + "-uppercase", valid})
			items = append(items, strItem{fmt.Sprintf(`\u{%08x}`, cp), cp, kind + "-8-digits", valid})
		}
	}
	return items
}

type strLit struct {
	decl     litDecl
	want     string // hex of the UTF-8 of the NFC of the intended code points
	dontCare bool
	class    string
}

func strLits(maxItems int) []strLit {
	var out []strLit
	var rec func(items []strItem, depth int, src string, cps []rune, kinds []string, dc bool)
	emit := func(src string, cps []rune, kinds []string, dc bool) {
		ks := append([]string{}, kinds...)
		sort.Strings(ks)
		ks = uniq(ks)
		text := norm.NFC.String(string(cps))
		l := strLit{decl: litDecl{Kind: "str", Type: "String", Lit: `"` + src + `"`}, want: hex.EncodeToString([]byte(text)), dontCare: dc, class: strings.Join(ks, ",")}
		out = append(out, l)
		// a Character literal must be exactly one grapheme cluster
		if len(segment(text)) == 1 {
			c := l
			c.decl = litDecl{Kind: "char", Type: "Character", Lit: `"` + src + `"`}
			out = append(out, c)
		}
	}
	rec = func(items []strItem, depth int, src string, cps []rune, kinds []string, dc bool) {
		emit(src, cps, kinds, dc)
		if depth == 0 {
			return
		}
		for _, it := range items {
			rec(items, depth-1, src+it.src, append(append([]rune{}, cps...), it.cp), append(append([]string{}, kinds...), it.kind), dc || !it.valid)
		}
	}
	rec(strItems(false), maxItems, "", nil, nil, false)
	// formatting variants of the escapes, alone and next to a plain character
	for _, it := range strItems(true) {
		if strings.HasSuffix(it.kind, "-uppercase") || strings.HasSuffix(it.kind, "-8-digits") {
			emit(it.src, []rune{it.cp}, []string{it.kind}, !it.valid)
			emit("a"+it.src+"a", []rune{'a', it.cp, 'a'}, []string{it.kind, "plain-ascii"}, !it.valid)
		}
	}
	return out
}

func uniq(xs []string) []string {
	var out []string
	for i, x := range xs {
		if i == 0 || x != xs[i-1] {
			out = append(out, x)
		}
	}
	return out
}

// ---------------------------------------------------------------------------
// judging and running

func judgeLiteral(d litDecl, w litWant, o litObs, vm bool) (sig, detail, class string) {
	via := engineName(vm)
	desc := func() string {
		exp := "value " + w.val
		if w.reject {
			exp = "rejection"
		}
		return fmt.Sprintf("let v: %s = %s [%s]: expected %s, got %s", d.Type, d.Lit, via, exp, o)
	}
	tclass := d.Type
	if d.Kind == "int" {
		// structural: signedness and width class rather than the name of each of 21 types
		t := num.ByName[d.Type]
		tclass = kindName(t)
		if t.Bits == 0 {
			tclass += "-unbounded"
		} else if t.Bits <= 64 {
			tclass += "-native"
		} else {
			tclass += "-big"
		}
	}
	base := fmt.Sprintf("literal|%s|%s|%s|", d.Kind, tclass, w.class)
	switch {
	case w.reject && !o.Rejected:
		// acceptance is static (parser + checker): the same for both engines
		return base + "accepted-although-rejection-due", desc(), ""
	case w.reject:
		return "", "", d.Kind + ":rejected:" + w.class + ":" + o.ErrKind
	case o.Rejected:
		// rejection is static: the same for both engines
		return base + "rejected-although-in-range", desc(), ""
	case o.RunFailed != "":
		return base + via + "|run-failed", desc(), ""
	}
	got := o.Val
	if d.Kind == "fix" {
		t := num.ByName[d.Type]
		if raw, ok := decimalValue(o.Val, t.Scale); ok {
			got = renderRaw(raw, t.Scale)
		}
	}
	if got != w.val {
		return base + via + "|wrong-value", desc(), ""
	}
	return "", "", d.Kind + ":value:" + w.class
}

type litJob struct {
	decls []litDecl
	wants []litWant
	vm    bool
}

func runLitJobs(env *mc.Env, jobs []litJob) {
	mc.ParallelFor(env, len(jobs), func(i int) {
		j := jobs[i]
		obs, herr := evalLiterals(j.decls, j.vm)
		if herr != "" {
			env.R.HarnessError("literal batch starting at %+v [%s]: %s", j.decls[0], engineName(j.vm), herr)
			return
		}
		classes := map[string]int64{}
		for k, d := range j.decls {
			w := j.wants[k]
			if w.dontCare {
				env.R.DontCare.Add(1)
				classes["dont-care:"+w.class+":"+map[bool]string{true: "rejected", false: "accepted"}[obs[k].Rejected]]++
				continue
			}
			sig, detail, class := judgeLiteral(d, w, obs[k], j.vm)
			if sig != "" {
				env.R.Violation(sig, litCase{Decl: d, VM: j.vm}, detail)
				continue
			}
			classes[class]++
			if w.reject || d.Kind != "int" || strings.ContainsAny(d.Lit, "_xob") {
				env.R.Nontrivial(d.Kind + "|" + d.Type + "|" + d.Lit)
			}
		}
		env.R.EvalN(int64(len(j.decls)))
		for k, n := range classes {
			kk := k
			first := j.decls[0]
			env.R.Class(kk, func() any { return fmt.Sprintf("%s (batch starting at %s: %s)", kk, first.Type, first.Lit) })
			env.R.ClassN(kk, n-1)
		}
	})
}

func runC40(env *mc.Env) {
	var jobs []litJob
	batch := func(decls []litDecl, wants []litWant, size int) {
		for lo := 0; lo < len(decls); lo += size {
			hi := min(lo+size, len(decls))
			for _, vm := range []bool{false, true} {
				jobs = append(jobs, litJob{decls[lo:hi], wants[lo:hi], vm})
			}
		}
	}
	ints := intDecls(env.Thorough())
	iw := make([]litWant, len(ints))
	for i, d := range ints {
		iw[i] = wantLiteral(d)
	}
	batch(ints, iw, 400)
	fixes := fixDecls()
	fw := make([]litWant, len(fixes))
	for i, d := range fixes {
		fw[i] = wantLiteral(d)
	}
	batch(fixes, fw, 400)
	sl := strLits(mc.Pick(env, 3, 4))
	sd := make([]litDecl, len(sl))
	sw := make([]litWant, len(sl))
	for i, l := range sl {
		sd[i] = l.decl
		sw[i] = litWant{val: l.want, dontCare: l.dontCare, class: l.class}
		if l.dontCare {
			// "decode every escape sequence to the intended code points": \u{D800} and \u{110000} name no
			// Unicode scalar value, so there is no intended code point a string could hold; whether such a
			// literal is rejected or replaced is not settled by the sentence: don't-care.
			sw[i].class = "non-scalar-escape"
		}
	}
	batch(sd, sw, 300)
	env.R.Set("integer_literal_declarations", len(ints))
	env.R.Set("fixed_point_literal_declarations", len(fixes))
	env.R.Set("string_and_character_literals", len(sl))
	runLitJobs(env, jobs)
	if !env.Expired() {
		env.R.BoundCompleted(fmt.Sprintf("integer digit strings of length <= %d in bases 2/8/10/16 with all underscore placements + bounds of all 21 types in all bases; fixed-point bounds and lattice x 1..scale+1 fractional digits; string/character literals of <= %d items", mc.Pick(env, 4, 5), mc.Pick(env, 3, 4)))
	}
}

func replayC40(env *mc.Env, raw json.RawMessage) (bool, string) {
	var c litCase
	if err := json.Unmarshal(raw, &c); err != nil {
		return false, err.Error()
	}
	var w litWant
	switch c.Decl.Kind {
	case "int", "fix":
		w = wantLiteral(c.Decl)
	default:
		found := false
		for _, l := range strLits(4) {
			if l.decl == c.Decl {
				w = litWant{val: l.want, dontCare: l.dontCare, class: l.class}
				found = true
				break
			}
		}
		if !found {
			return false, "unknown string literal case"
		}
	}
	if w.dontCare {
		return false, "don't-care"
	}
	obs, herr := evalLiterals([]litDecl{c.Decl}, c.VM)
	if herr != "" {
		return false, "harness: " + herr
	}
	sig, detail, class := judgeLiteral(c.Decl, w, obs[0], c.VM)
	return sig != "", sig + " " + detail + class
}

func init() {
	mc.Register(&mc.Check{
		ID: "C40",
		Rule: "typed declarations `let v: T = <literal>` batched into scripts, both engines. Integers: every digit string of length <= 4 (thorough 5) over the base's digit alphabet {0,1 | 0,1,7 | 0,1,9 | 0,1,9,a,F} in bases 2/8/10/16 with every placement of inner underscores (leading zeros included), with and without sign, for Int8/UInt8/Word8/Int16/UInt16/Word16/Int/UInt; min-1, min, min+1, max-1, max, max+1 of all 21 integer types and 10^300, 2^1000-1 in every base (3 renderings) for all 21 types. " +
			"Fixed-point: bounds +-1 unit, +-1 integer, cut/bumped fractions, and an integer lattice x {0..0, 9..9, 0..01, 50..0} with 1..scale+1 fractional digits, for all 4 types. Strings/characters: every sequence of <= 3 items (thorough 4) from {a, e-acute, \\0 \\n \\r \\t \\\" \\' \\\\, \\u{..} at 0,7F,80,7FF,800,D7FF,D800,E000,FFFF,10000,10FFFF,110000} plus upper-case and 8-digit escapes. Oracle: math/big value; rejected iff out of range / more fractional digits than the scale; UTF-8 of the NFC of the intended code points. non-trivial = rejected, or non-decimal / underscored / non-integer literal.",
		Assumptions: []string{"math/big is the reference", "an error is attributed to a literal by the source line of its position",
			"escapes naming non-scalar values (D800, 110000) are don't-care", "a minus sign in front of a literal of a signed type belongs to the literal; negative forms are not generated for unsigned types"},
		Run:    runC40,
		Replay: replayC40,
	})
}

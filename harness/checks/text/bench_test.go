package text

import (
	"math/big"
	"testing"
	"time"

	"verif/num"
)

func TestBenchRange(t *testing.T) {
	ty := num.ByName["Int8"]
	g := rangeGrid(ty, false)
	c := rangeCase{Type: "Int8", Start: "-128", End: "126", Step: "1", Cap: 260}
	m := newRangeModel(big.NewInt(-128), big.NewInt(126), big.NewInt(1))
	ns := rangeNeedles(ty, g, m)
	for _, vm := range []bool{false, true} {
		c.VM = vm
		st := time.Now()
		for i := 0; i < 200; i++ {
			observeRange(c, true, ns)
		}
		t.Log("both", vm, time.Since(st)/200)
		o := observeRange(c, true, ns)
		t.Log(o.iterDone, len(o.members), o.answers, o.harness, o.res.ErrString())
	}
}

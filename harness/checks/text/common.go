// Package text holds the checks of the "text" family: C17 (textual and byte
// encodings round-trip), C19 (strings are sequences of grapheme clusters of
// their NFC form), C21 (InclusiveRange) and C40 (literals).
package text

import (
	"fmt"
	"math/big"
	"strings"

	"github.com/onflow/cadence"

	"verif/rt"
)

// emptyLedger is never written: the checks of this family only run scripts,
// and rt.Run executes on a clone and never commits a script.
var emptyLedger = rt.NewLedger()

func runScript(src string, vm bool) *rt.Result {
	return rt.Run(emptyLedger, rt.Tx{Source: src, Script: true, UseVM: vm})
}

func engineName(vm bool) string {
	if vm {
		return "vm"
	}
	return "interpreter"
}

func bi(s string) *big.Int {
	x, ok := new(big.Int).SetString(s, 10)
	if !ok {
		panic("bad int " + s)
	}
	return x
}

// arrayValues returns the elements of an exported array value.
func arrayValues(v cadence.Value) ([]cadence.Value, bool) {
	a, ok := v.(cadence.Array)
	if !ok {
		return nil, false
	}
	return a.Values, true
}

// optionalInner unwraps an exported optional: (inner, isSome, isOptional).
func optionalInner(v cadence.Value) (cadence.Value, bool, bool) {
	o, ok := v.(cadence.Optional)
	if !ok {
		return nil, false, false
	}
	return o.Value, o.Value != nil, true
}

func cadenceString(v cadence.Value) (string, bool) {
	s, ok := v.(cadence.String)
	return string(s), ok
}

// quoteCadence renders s as a Cadence string literal using only \u{..}
// escapes for everything outside printable ASCII, so that the source text is
// plain ASCII and the lexer/parser path is the well-trodden one (C40 covers
// literal decoding itself).
func quoteCadence(s string) string {
	var sb strings.Builder
	sb.WriteByte('"')
	for _, r := range s {
		switch {
		case r == '"' || r == '\\':
			sb.WriteByte('\\')
			sb.WriteRune(r)
		case r >= 0x20 && r < 0x7f:
			sb.WriteRune(r)
		default:
			fmt.Fprintf(&sb, "\\u{%x}", r)
		}
	}
	sb.WriteByte('"')
	return sb.String()
}

func shortErr(r *rt.Result) string {
	s := r.ErrString()
	if i := strings.Index(s, "\n"); i >= 0 {
		s = s[:i]
	}
	if len(s) > 200 {
		s = s[:200]
	}
	return s
}

package text

import (
	"encoding/json"
	"fmt"
	"math/big"
	"regexp"
	"sort"
	"strconv"
	"strings"

	"github.com/onflow/cadence/interpreter"

	"verif/mc"
	"verif/num"
)

// C17: "For every numeric value, T.fromString(x.toString()) returns x, and which
// strings fromString accepts depends only on whether T is signed and whether it
// is an integer or fixed-point type, never on T's width, apart from the range
// check (nil is returned otherwise). T.fromBigEndianBytes(x.toBigEndianBytes())
// returns x and fromBigEndianBytes returns nil exactly for inputs longer than
// the type's size, and addresses, hex strings and paths round-trip through
// their string and byte constructors likewise."
//
// Parts:
//   A  fromString on every string of length <= 5 over {+ - 0 1 9 _ . space a x}
//      and on boundary renderings of every type, for all 27 types (direct calls
//      of the parsers behind T.fromString), judged per "width group"
//      differentially; the strings of length <= 2 and the boundary renderings
//      also as scripts on both engines.
//   B  toString/fromString and toBigEndianBytes/fromBigEndianBytes round trips
//      on the boundary lattice of every type (scripts, both engines).
//   C  fromBigEndianBytes on byte arrays of every length 0..size+1.
//   D  addresses, hex strings, paths.

type c17Case struct {
	Part   string   `json:"part"`            // "fromString" | "roundtrip" | "bytes" | "address" | "hex" | "path"
	Via    string   `json:"via"`             // "direct" | "interpreter" | "vm"
	Group  string   `json:"group,omitempty"` // width group (fromString)
	Type   string   `json:"type,omitempty"`
	Str    string   `json:"str,omitempty"`
	Values []string `json:"values,omitempty"` // raw values (roundtrip)
	Bytes  []int    `json:"bytes,omitempty"`
}

// ---------------------------------------------------------------------------
// width groups

type widthGroup struct {
	name  string
	types []*num.Type
}

func widthGroups() []widthGroup {
	gs := []widthGroup{{name: "signed-integer"}, {name: "unsigned-integer"}, {name: "signed-fixed"}, {name: "unsigned-fixed"}}
	for _, t := range num.Types {
		switch t.Kind {
		case num.Int:
			gs[0].types = append(gs[0].types, t)
		case num.UInt, num.Word:
			// "depends only on whether T is signed and whether it is an integer or fixed-point type":
			// Word types are unsigned integer types.
			gs[1].types = append(gs[1].types, t)
		case num.Fix:
			gs[2].types = append(gs[2].types, t)
		case num.UFix:
			gs[3].types = append(gs[3].types, t)
		}
	}
	return gs
}

const maxScale = 24

var pow10 = func() []*big.Int {
	out := make([]*big.Int, 80)
	for i := range out {
		out[i] = new(big.Int).Exp(big.NewInt(10), big.NewInt(int64(i)), nil)
	}
	return out
}()

// common scale of a group: integers 0, fixed-point 24.
func (g widthGroup) scale() int {
	if g.types[0].IsFixed() {
		return maxScale
	}
	return 0
}

// toCommon converts a raw value of t to the group's common scale.
func toCommon(t *num.Type, raw *big.Int) *big.Int {
	if !t.IsFixed() {
		return raw
	}
	return new(big.Int).Mul(raw, pow10[maxScale-t.Scale])
}

// representable: is the common-scale value v a value of t (right granularity and in range)?
func representable(t *num.Type, v *big.Int) bool {
	if t.IsFixed() {
		q, r := new(big.Int).QuoRem(v, pow10[maxScale-t.Scale], new(big.Int))
		if r.Sign() != 0 {
			return false
		}
		return t.InRange(q)
	}
	return t.InRange(v)
}

func renderCommon(g widthGroup, v *big.Int) string {
	return renderRaw(v, g.scale())
}

// renderRaw renders raw/10^scale as a decimal with exactly scale fractional digits.
func renderRaw(raw *big.Int, scale int) string {
	if scale == 0 {
		return raw.String()
	}
	a := new(big.Int).Abs(raw)
	q, r := new(big.Int).QuoRem(a, pow10[scale], new(big.Int))
	fr := r.String()
	fr = strings.Repeat("0", scale-len(fr)) + fr
	s := q.String() + "." + fr
	if raw.Sign() < 0 {
		s = "-" + s
	}
	return s
}

var plainDecimal = regexp.MustCompile(`^[+-]?[0-9]+(\.[0-9]+)?$`)
var plainInteger = regexp.MustCompile(`^[+-]?[0-9]+$`)

// decimalValue is the boring reference for plain decimal strings: the value
// of s at the given scale, ok=false if s is not a plain decimal or has more
// fractional digits than scale.
func decimalValue(s string, scale int) (*big.Int, bool) {
	if !plainDecimal.MatchString(s) {
		return nil, false
	}
	neg := s[0] == '-'
	if s[0] == '+' || s[0] == '-' {
		s = s[1:]
	}
	ip, fp := s, ""
	if i := strings.IndexByte(s, '.'); i >= 0 {
		ip, fp = s[:i], s[i+1:]
	}
	if len(fp) > scale {
		return nil, false
	}
	v, _ := new(big.Int).SetString(ip, 10)
	v.Mul(v, pow10[scale])
	if fp != "" {
		f, _ := new(big.Int).SetString(fp, 10)
		v.Add(v, f.Mul(f, pow10[scale-len(fp)]))
	}
	if neg {
		v.Neg(v)
	}
	return v, true
}

func fractionalDigits(s string) int {
	i := strings.LastIndexByte(s, '.')
	if i < 0 {
		return 0
	}
	n := 0
	for _, c := range s[i+1:] {
		if c >= '0' && c <= '9' {
			n++
		}
	}
	return n
}

var digitRun = regexp.MustCompile(`[0-9]+`)

// shape is the structural class of an input string: digit runs collapsed.
func shape(s string) string {
	sh := digitRun.ReplaceAllString(s, "D")
	sh = strings.ReplaceAll(sh, " ", "␠")
	if sh == "" {
		sh = "(empty)"
	}
	if len(sh) > 12 {
		sh = sh[:12] + "…"
	}
	return sh
}

// ---------------------------------------------------------------------------
// observing T.fromString

// parseObs is the result of T.fromString(s): nil (rejected), a raw value, or a failure.
type parseObs struct {
	raw    *big.Int // nil = fromString returned nil
	failed string   // non-empty: the call failed / printed something unparseable
}

// directParse calls the parser behind T.fromString.
func directParse(t *num.Type, s string) (o parseObs) {
	p, ok := interpreter.StringValueParsers[t.Name]
	if !ok {
		return parseObs{failed: "no parser registered"}
	}
	defer func() {
		if r := recover(); r != nil {
			o = parseObs{failed: fmt.Sprintf("panic: %v", r)}
		}
	}()
	switch v := p.Parser(nil, s).(type) {
	case interpreter.NilValue:
		return parseObs{}
	case *interpreter.SomeValue:
		inner := v.InnerValue()
		if got := fmt.Sprintf("%T", inner); !strings.HasSuffix(got, "."+t.Name+"Value") {
			return parseObs{failed: "result of Go type " + got}
		}
		return parseObs{raw: num.Raw(inner)}
	default:
		return parseObs{failed: fmt.Sprintf("result of Go type %T", v)}
	}
}

// scriptParse runs T.fromString for every string in one script and reads the log.
func scriptParse(t *num.Type, ss []string, vm bool) ([]parseObs, string) {
	var sb strings.Builder
	sb.WriteString("access(all) fun main() {\n let ss: [String] = [")
	for i, s := range ss {
		if i > 0 {
			sb.WriteString(", ")
		}
		sb.WriteString(quoteCadence(s))
	}
	fmt.Fprintf(&sb, "]\n for s in ss { log(%s.fromString(s)) }\n}", t.Name)
	res := runScript(sb.String(), vm)
	out := make([]parseObs, len(ss))
	for i := range ss {
		switch {
		case i < len(res.Logs):
			out[i] = readOptionalNumber(t, res.Logs[i])
		case i == len(res.Logs):
			out[i] = parseObs{failed: "call failed (" + res.Class + "): " + shortErr(res)}
		default:
			// the script died earlier: run the rest on its own
			rest, herr := scriptParse(t, ss[i:], vm)
			if herr != "" {
				return nil, herr
			}
			copy(out[i:], rest)
			return out, ""
		}
	}
	if res.OK() && len(res.Logs) != len(ss) {
		return nil, fmt.Sprintf("%d log lines for %d strings", len(res.Logs), len(ss))
	}
	return out, ""
}

// readOptionalNumber reads a log line printed for a T? value.
func readOptionalNumber(t *num.Type, line string) parseObs {
	if line == "nil" {
		return parseObs{}
	}
	raw, ok := decimalValue(line, t.Scale)
	if !ok {
		return parseObs{failed: "printed " + line}
	}
	return parseObs{raw: raw}
}

func (o parseObs) String() string {
	switch {
	case o.failed != "":
		return "FAILED(" + o.failed + ")"
	case o.raw == nil:
		return "nil"
	}
	return o.raw.String()
}

// ---------------------------------------------------------------------------
// judging one string against one width group

type c17Violation struct {
	sig    string
	detail string
	typ    string
}

// judgeString applies the sentence to the observations of one string for all
// types of a group. It returns violations and an outcome class.
func judgeString(g widthGroup, s string, obs []parseObs, dontCare *int64) (viol []c17Violation, class string) {
	sh := shape(s)
	show := func() string {
		var parts []string
		for i, t := range g.types {
			o := obs[i]
			str := o.String()
			if o.raw != nil && o.failed == "" {
				str = renderRaw(o.raw, t.Scale)
			}
			parts = append(parts, t.Name+"="+str)
		}
		return fmt.Sprintf("fromString(%q): %s", s, strings.Join(parts, " "))
	}
	// common value of the accepting types
	var v *big.Int
	var vFrom *num.Type
	accepting := 0
	for i, t := range g.types {
		o := obs[i]
		if o.failed != "" {
			viol = append(viol, c17Violation{typ: t.Name,
				sig:    fmt.Sprintf("fromString|%s|%s|call-failed", t.Name, sh),
				detail: fmt.Sprintf("%s.fromString(%q) did not return a %s?: %s", t.Name, s, t.Name, o.failed)})
			continue
		}
		if o.raw == nil {
			continue
		}
		accepting++
		// (1) a returned value is a value of the type
		if !t.InRange(o.raw) {
			viol = append(viol, c17Violation{typ: t.Name,
				sig:    fmt.Sprintf("fromString|%s|%s|returned-value-outside-type-range", t.Name, sh),
				detail: fmt.Sprintf("%s.fromString(%q) returned %s, which is not a %s", t.Name, s, renderRaw(o.raw, t.Scale), t.Name)})
			continue
		}
		// (2) a plain decimal string denotes its decimal value (boring reference), and
		// "apart from the range check (nil is returned otherwise)": no value for an out-of-range string
		if want, ok := decimalValue(s, t.Scale); ok && (t.IsFixed() || plainInteger.MatchString(s)) {
			switch {
			case !t.InRange(want):
				// structural class: is the string beyond the bound already by its integer part, or only by its fraction?
				by := "by-integer-part"
				if t.IsFixed() {
					bound := t.Max
					if want.Sign() < 0 {
						bound = t.Min
					}
					if new(big.Int).Quo(want, pow10[t.Scale]).Cmp(new(big.Int).Quo(bound, pow10[t.Scale])) == 0 {
						by = "by-fraction-only"
					}
				}
				viol = append(viol, c17Violation{typ: t.Name,
					sig: fmt.Sprintf("fromString|%s|%s|non-nil-for-out-of-range-value-%s", t.Name, sh, by),
					detail: fmt.Sprintf("%s.fromString(%q) returned %s; the string denotes %s, which is outside %s's range, so nil was due",
						t.Name, s, renderRaw(o.raw, t.Scale), renderRaw(want, t.Scale), t.Name)})
			case want.Cmp(o.raw) != 0:
				viol = append(viol, c17Violation{typ: t.Name,
					sig:    fmt.Sprintf("fromString|%s|%s|wrong-value-for-in-range-string", t.Name, sh),
					detail: fmt.Sprintf("%s.fromString(%q) returned %s", t.Name, s, renderRaw(o.raw, t.Scale))})
			}
		}
		c := toCommon(t, o.raw)
		if v == nil {
			v, vFrom = c, t
		} else if v.Cmp(c) != 0 && len(viol) == 0 {
			// (3) all widths that accept the string agree on what it denotes
			viol = append(viol, c17Violation{typ: g.name,
				sig:    fmt.Sprintf("fromString|%s|%s|values-differ-across-widths", g.name, sh),
				detail: show()})
		}
	}
	if accepting == 0 {
		return viol, "all-reject"
	}
	if len(viol) > 0 {
		return viol, ""
	}
	_ = vFrom
	// (4) "never on T's width, apart from the range check (nil is returned otherwise)":
	// a type may reject a string another width accepts only if the value is not one of its values.
	if g.types[0].IsFixed() && fractionalDigits(s) > 8 {
		// DESIGN §1.7: strings with more fractional digits than the smaller scale - the sentence's
		// "apart from the range check" does not settle whether scale is part of "range": don't-care.
		*dontCare++
		return nil, "dont-care-excess-fraction"
	}
	var rejectingInRange []string
	for i, t := range g.types {
		if obs[i].raw == nil && representable(t, v) {
			rejectingInRange = append(rejectingInRange, t.Name)
		}
	}
	if len(rejectingInRange) > 0 {
		viol = append(viol, c17Violation{typ: g.name,
			sig: fmt.Sprintf("fromString|%s|%s|accept-set-depends-on-width", g.name, sh),
			detail: show() + fmt.Sprintf(" — the value %s is in range of %s, which return nil",
				renderCommon(g, v), strings.Join(rejectingInRange, ","))})
		return viol, ""
	}
	if accepting == len(g.types) {
		return nil, "all-accept"
	}
	return nil, "range-split"
}

// ---------------------------------------------------------------------------
// string sets

const c17Alphabet = "+-019_. ax"

// allStrings enumerates every string of length <= n over the alphabet, in a fixed order.
func allStrings(n int) []string {
	out := []string{""}
	prev := []string{""}
	for l := 1; l <= n; l++ {
		var cur []string
		for _, p := range prev {
			for i := 0; i < len(c17Alphabet); i++ {
				cur = append(cur, p+string(c17Alphabet[i]))
			}
		}
		out = append(out, cur...)
		prev = cur
	}
	return out
}

// boundaryStrings: renderings of min-1, min, max, max+1 (and a few inner
// values) of every type, with the perturbations the quantifier names: signs,
// leading zeros, underscores, whitespace, fewer / excess fractional digits.
func boundaryStrings() []string {
	set := map[string]struct{}{}
	add := func(s string) { set[s] = struct{}{} }
	perturb := func(s string) {
		add(s)
		body := strings.TrimLeft(s, "+-")
		sign := s[:len(s)-len(body)]
		if sign == "" {
			add("+" + body)
			add("-" + body)
		}
		add(sign + "0" + body)
		add(sign + "00" + body)
		add(" " + s)
		add(s + " ")
		if len(body) > 1 {
			add(sign + body[:1] + "_" + body[1:])
		}
		if !strings.Contains(s, ".") {
			add(s + ".0")
			add(s + ".")
		}
	}
	one := big.NewInt(1)
	for _, t := range num.Types {
		var vals []*big.Int
		if t.Min != nil {
			vals = append(vals, new(big.Int).Sub(t.Min, one), t.Min, new(big.Int).Add(t.Min, one))
		}
		if t.Max != nil {
			vals = append(vals, new(big.Int).Sub(t.Max, one), t.Max, new(big.Int).Add(t.Max, one))
		}
		for _, v := range vals {
			s := renderRaw(v, t.Scale)
			perturb(s)
			if t.IsFixed() {
				// fewer fractional digits: cut the fraction, and bump its last kept digit
				dot := strings.IndexByte(s, '.')
				for _, keep := range []int{1, 2, t.Scale - 1} {
					cut := s[:dot+1+keep]
					add(cut)
					last := cut[len(cut)-1]
					if last < '9' {
						add(cut[:len(cut)-1] + string(last+1))
					}
					if last > '0' {
						add(cut[:len(cut)-1] + string(last-1))
					}
				}
				add(s[:dot])        // no fraction at all
				add(s[:dot] + ".9") // integer part of the bound, large fraction
				add(s[:dot] + ".0")
				add(s + "0") // excess (zero) fractional digit
				add(s + "1")
			}
		}
	}
	for _, s := range []string{"0.0", "-0.0", "+0.0", "0.5", ".5", "5.", "1.00000000", "1.000000000", "1.000000001",
		"1.123456789012345678901234", "1.1234567890123456789012345", "1e5", "0x10", "0b1", "1_000", "١", "１", "1\n", "\t1", "-", "+", ".", "-.5", "--1", "+-1", "1.-5", "1.+5", "1.2.3"} {
		add(s)
	}
	out := make([]string, 0, len(set))
	for s := range set {
		out = append(out, s)
	}
	sort.Strings(out)
	return out
}

// ---------------------------------------------------------------------------
// Part A

func reportStringVerdict(env *mc.Env, g widthGroup, s string, via string, viol []c17Violation) {
	for _, v := range viol {
		env.R.Violation(v.sig, c17Case{Part: "fromString", Via: via, Group: g.name, Str: s}, v.detail)
	}
}

func runC17A(env *mc.Env) {
	groups := widthGroups()
	maxLen := mc.Pick(env, 5, 6)
	all := allStrings(maxLen)
	boundary := boundaryStrings()
	env.R.Set("fromString_alphabet_strings", len(all))
	env.R.Set("fromString_boundary_strings", len(boundary))
	strs := append(append([]string{}, all...), boundary...)

	// direct calls: every string x every type
	const chunk = 2000
	nChunks := (len(strs) + chunk - 1) / chunk
	mc.ParallelFor(env, nChunks, func(ci int) {
		lo, hi := ci*chunk, (ci+1)*chunk
		if hi > len(strs) {
			hi = len(strs)
		}
		classes := map[string]int64{}
		var dc, n int64
		for _, s := range strs[lo:hi] {
			for _, g := range groups {
				obs := make([]parseObs, len(g.types))
				for i, t := range g.types {
					obs[i] = directParse(t, s)
				}
				n += int64(len(obs))
				viol, class := judgeString(g, s, obs, &dc)
				reportStringVerdict(env, g, s, "direct", viol)
				if class != "" {
					classes[g.name+":"+class]++
					if class != "all-reject" {
						env.R.Nontrivial("A|" + g.name + "|" + s)
					}
				}
			}
		}
		env.R.EvalN(n)
		env.R.DontCare.Add(dc)
		for k, c := range classes {
			kk := k
			first := strs[lo]
			env.R.Class(kk, func() any { return fmt.Sprintf("%s (block starting at %q)", kk, first) })
			env.R.ClassN(kk, c-1)
		}
	})

	// scripts on both engines: every string of length <= 2 and the boundary renderings
	sub := append(allStrings(2), boundary...)
	type job struct {
		g  widthGroup
		vm bool
		lo int
		hi int
	}
	var jobs []job
	const sChunk = 250
	for _, g := range groups {
		for _, vm := range []bool{false, true} {
			for lo := 0; lo < len(sub); lo += sChunk {
				hi := lo + sChunk
				if hi > len(sub) {
					hi = len(sub)
				}
				jobs = append(jobs, job{g, vm, lo, hi})
			}
		}
	}
	mc.ParallelFor(env, len(jobs), func(ji int) {
		j := jobs[ji]
		ss := sub[j.lo:j.hi]
		via := engineName(j.vm)
		perType := make([][]parseObs, len(j.g.types))
		for i, t := range j.g.types {
			o, herr := scriptParse(t, ss, j.vm)
			if herr != "" {
				env.R.HarnessError("fromString script %s [%s]: %s", t.Name, via, herr)
				return
			}
			perType[i] = o
		}
		for k, s := range ss {
			// the same code run a second way: T.fromString in a script must agree with the parser called
			// directly (whose answers part A judges), so nothing is judged twice under two names
			for i, t := range j.g.types {
				d := directParse(t, s)
				o := perType[i][k]
				env.R.Eval()
				if d.String() != o.String() {
					env.R.Violation(fmt.Sprintf("fromString|%s|%s|%s|script-differs-from-direct-call", t.Name, via, shape(s)),
						c17Case{Part: "fromString", Via: via, Group: j.g.name, Str: s},
						fmt.Sprintf("%s.fromString(%q): script [%s] gives %s, the parser called directly gives %s", t.Name, s, via, o, d))
				} else if o.raw != nil {
					env.R.Class("script-agrees:"+via+":value", nil)
				} else {
					env.R.Class("script-agrees:"+via+":nil", nil)
				}
			}
		}
	})
}

func replayFromString(c c17Case) (bool, string) {
	for _, g := range widthGroups() {
		if g.name != c.Group {
			continue
		}
		obs := make([]parseObs, len(g.types))
		for i, t := range g.types {
			if c.Via == "direct" {
				obs[i] = directParse(t, c.Str)
			} else {
				o, herr := scriptParse(t, []string{c.Str}, c.Via == "vm")
				if herr != "" {
					return false, "harness: " + herr
				}
				obs[i] = o[0]
			}
		}
		if c.Via != "direct" {
			for i, t := range g.types {
				if d := directParse(t, c.Str); d.String() != obs[i].String() {
					return true, fmt.Sprintf("script-differs-from-direct-call: %s: script %s, direct %s", t.Name, obs[i], d)
				}
			}
			return false, "script agrees with direct call"
		}
		var dc int64
		viol, class := judgeString(g, c.Str, obs, &dc)
		if len(viol) > 0 {
			return true, viol[0].sig + ": " + viol[0].detail
		}
		return false, "class " + class
	}
	return false, "unknown group " + c.Group
}

// ---------------------------------------------------------------------------
// Part B: round trips on the lattice

func literalOf(t *num.Type, raw *big.Int) string { return renderRaw(raw, t.Scale) }

var byteArrayLine = regexp.MustCompile(`^\[[0-9, ]*\]$`)

func parseByteLine(line string) ([]byte, bool) {
	if !byteArrayLine.MatchString(line) {
		return nil, false
	}
	inner := strings.TrimSpace(line[1 : len(line)-1])
	if inner == "" {
		return []byte{}, true
	}
	var out []byte
	for _, f := range strings.Split(inner, ",") {
		n, err := strconv.Atoi(strings.TrimSpace(f))
		if err != nil || n < 0 || n > 255 {
			return nil, false
		}
		out = append(out, byte(n))
	}
	return out, true
}

func roundTripScript(t *num.Type, vals []*big.Int) string {
	var sb strings.Builder
	fmt.Fprintf(&sb, "access(all) fun main() {\n let xs: [%s] = [", t.Name)
	for i, v := range vals {
		if i > 0 {
			sb.WriteString(", ")
		}
		sb.WriteString(literalOf(t, v))
	}
	fmt.Fprintf(&sb, "]\n for x in xs {\n  let s = x.toString()\n  log(s)\n  log(%s.fromString(s))\n  let b = x.toBigEndianBytes()\n  log(b)\n  log(%s.fromBigEndianBytes(b))\n }\n}", t.Name, t.Name)
	return sb.String()
}

// judgeRoundTrip runs the round-trip script for vals and returns violations.
func judgeRoundTrip(t *num.Type, vals []*big.Int, vm bool) (viol []c17Violation, evals int64, harness string) {
	via := engineName(vm)
	res := runScript(roundTripScript(t, vals), vm)
	if !res.OK() && len(res.Logs) == 0 && (strings.Contains(res.Kind, "CheckerError") || strings.Contains(res.Kind, "parser.")) {
		return nil, 0, "round-trip script rejected before running: " + res.ErrString()
	}
	for i, x := range vals {
		lines := res.Logs
		if len(lines) < 4*(i+1) {
			if len(vals) > 1 && i+1 < len(vals) {
				// run the remaining values on their own
				v2, e2, h2 := judgeRoundTrip(t, vals[i+1:], vm)
				viol = append(viol, v2...)
				evals += e2
				harness = h2
			}
			step := []string{"toString", "fromString", "toBigEndianBytes", "fromBigEndianBytes"}[len(lines)-4*i]
			viol = append(viol, c17Violation{typ: t.Name,
				sig:    fmt.Sprintf("roundtrip|%s|%s|%s-failed-%s", t.Name, via, step, res.Class),
				detail: fmt.Sprintf("%s value %s [%s]: %s failed: %s", t.Name, literalOf(t, x), via, step, shortErr(res))})
			return viol, evals, harness
		}
		evals += 2
		l := lines[4*i : 4*i+4]
		if o := readOptionalNumber(t, l[1]); o.failed != "" || o.raw == nil || o.raw.Cmp(x) != 0 {
			viol = append(viol, c17Violation{typ: t.Name,
				sig:    fmt.Sprintf("roundtrip|%s|%s|fromString-of-toString", t.Name, via),
				detail: fmt.Sprintf("x = %s: %s.fromString(x.toString()) [%s]: toString gave %s, fromString gave %s", literalOf(t, x), t.Name, via, l[0], l[1])})
		}
		if o := readOptionalNumber(t, l[3]); o.failed != "" || o.raw == nil || o.raw.Cmp(x) != 0 {
			viol = append(viol, c17Violation{typ: t.Name,
				sig:    fmt.Sprintf("roundtrip|%s|%s|fromBigEndianBytes-of-toBigEndianBytes", t.Name, via),
				detail: fmt.Sprintf("x = %s: %s.fromBigEndianBytes(x.toBigEndianBytes()) [%s]: toBigEndianBytes gave %s, fromBigEndianBytes gave %s", literalOf(t, x), t.Name, via, l[2], l[3])})
		}
	}
	return viol, evals, ""
}

func runC17B(env *mc.Env) {
	type job struct {
		t    *num.Type
		vals []*big.Int
		vm   bool
	}
	var jobs []job
	for _, t := range num.Types {
		l := num.Lattice(t, env.Thorough())
		for _, vm := range []bool{false, true} {
			for lo := 0; lo < len(l); lo += 64 {
				hi := lo + 64
				if hi > len(l) {
					hi = len(l)
				}
				jobs = append(jobs, job{t, l[lo:hi], vm})
			}
		}
	}
	mc.ParallelFor(env, len(jobs), func(i int) {
		j := jobs[i]
		viol, n, herr := judgeRoundTrip(j.t, j.vals, j.vm)
		if herr != "" {
			env.R.HarnessError("%s [%s]: %s", j.t.Name, engineName(j.vm), herr)
			return
		}
		env.R.EvalN(n)
		for _, v := range viol {
			env.R.Violation(v.sig, c17Case{Part: "roundtrip", Via: engineName(j.vm), Type: j.t.Name, Values: bigStrings(j.vals)}, v.detail)
		}
		if len(viol) == 0 {
			env.R.Class("roundtrip-ok:"+j.t.Name, nil)
			for _, x := range j.vals {
				env.R.Nontrivial("B|" + j.t.Name + "|" + x.String())
			}
		}
	})
}

func bigStrings(xs []*big.Int) []string {
	out := make([]string, len(xs))
	for i, x := range xs {
		out[i] = x.String()
	}
	return out
}

// ---------------------------------------------------------------------------
// Part C: fromBigEndianBytes on byte arrays of every length 0..size+1

var byteAlphabet = []byte{0x00, 0x01, 0x7f, 0x80, 0xff}

// byteArraysOfLen: the full product for n <= 3; for longer arrays every
// (first byte, fill byte, last byte) combination.
func byteArraysOfLen(n int) [][]byte {
	if n == 0 {
		return [][]byte{{}}
	}
	var out [][]byte
	if n <= 3 {
		var rec func(prefix []byte)
		rec = func(prefix []byte) {
			if len(prefix) == n {
				out = append(out, append([]byte{}, prefix...))
				return
			}
			for _, b := range byteAlphabet {
				rec(append(prefix, b))
			}
		}
		rec(nil)
		return out
	}
	for _, first := range byteAlphabet {
		for _, fill := range byteAlphabet {
			for _, last := range byteAlphabet {
				b := make([]byte, n)
				for i := range b {
					b[i] = fill
				}
				b[0], b[n-1] = first, last
				out = append(out, b)
			}
		}
	}
	return out
}

func byteLiteral(b []byte) string {
	parts := make([]string, len(b))
	for i, x := range b {
		parts[i] = strconv.Itoa(int(x))
	}
	return "[" + strings.Join(parts, ",") + "]"
}

// sizeOf is the type's size in bytes; 0 = unbounded.
func sizeOf(t *num.Type) int { return t.Bits / 8 }

func bytesScript(t *num.Type, arrays [][]byte) string {
	var sb strings.Builder
	sb.WriteString("access(all) fun main() {\n let bs: [[UInt8]] = [")
	for i, b := range arrays {
		if i > 0 {
			sb.WriteString(", ")
		}
		sb.WriteString(byteLiteral(b))
	}
	fmt.Fprintf(&sb, "]\n for b in bs { log(%s.fromBigEndianBytes(b)) }\n}", t.Name)
	return sb.String()
}

func judgeBytes(t *num.Type, arrays [][]byte, vm bool, dontCare *int64) (viol []c17Violation, classes map[string]int64, harness string) {
	via := engineName(vm)
	classes = map[string]int64{}
	res := runScript(bytesScript(t, arrays), vm)
	size := sizeOf(t)
	for i, b := range arrays {
		lenClass := "shorter-than-size"
		switch {
		case size == 0:
			lenClass = "unbounded-type"
		case len(b) == size:
			lenClass = "exactly-size"
		case len(b) > size:
			lenClass = "longer-than-size"
		}
		if i >= len(res.Logs) {
			viol = append(viol, c17Violation{typ: t.Name,
				sig:    fmt.Sprintf("fromBigEndianBytes|%s|%s|%s|call-failed-%s", t.Name, via, lenClass, res.Class),
				detail: fmt.Sprintf("%s.fromBigEndianBytes(%s) [%s] failed: %s", t.Name, byteLiteral(b), via, shortErr(res))})
			if i+1 < len(arrays) {
				v2, c2, h2 := judgeBytes(t, arrays[i+1:], vm, dontCare)
				viol = append(viol, v2...)
				for k, n := range c2 {
					classes[k] += n
				}
				harness = h2
			}
			return
		}
		o := readOptionalNumber(t, res.Logs[i])
		desc := fmt.Sprintf("%s.fromBigEndianBytes(%s) [%s] = %s", t.Name, byteLiteral(b), via, res.Logs[i])
		if o.failed != "" {
			return nil, nil, desc + ": unreadable"
		}
		// "fromBigEndianBytes returns nil exactly for inputs longer than the type's size"
		tooLong := size != 0 && len(b) > size
		if tooLong != (o.raw == nil) {
			what := "nil-for-input-within-size"
			if tooLong {
				what = "non-nil-for-input-longer-than-size"
			}
			viol = append(viol, c17Violation{typ: t.Name,
				sig:    fmt.Sprintf("fromBigEndianBytes|%s|%s|%s|%s", t.Name, via, lenClass, what),
				detail: desc + fmt.Sprintf(" (size %d bytes, input %d bytes)", size, len(b))})
			continue
		}
		if o.raw == nil {
			classes["bytes-nil-too-long"]++
			continue
		}
		if !t.InRange(o.raw) {
			viol = append(viol, c17Violation{typ: t.Name,
				sig:    fmt.Sprintf("fromBigEndianBytes|%s|%s|%s|returned-value-outside-type-range", t.Name, via, lenClass),
				detail: desc})
			continue
		}
		if size != 0 && len(b) == size {
			// every size-byte array is the big-endian (two's-complement) image of exactly one value
			want := new(big.Int).SetBytes(b)
			if t.Signed() && b[0]&0x80 != 0 {
				want.Sub(want, new(big.Int).Lsh(big.NewInt(1), uint(8*size)))
			}
			if want.Cmp(o.raw) != 0 {
				viol = append(viol, c17Violation{typ: t.Name,
					sig:    fmt.Sprintf("fromBigEndianBytes|%s|%s|%s|wrong-value", t.Name, via, lenClass),
					detail: desc + ", expected raw " + want.String()})
				continue
			}
			classes["bytes-exact-size-value"]++
			continue
		}
		// shorter inputs (and unbounded types): the sentence fixes only non-nil-ness; the value is a don't-care
		*dontCare++
		classes["bytes-short-non-nil"]++
	}
	if res.OK() && len(res.Logs) != len(arrays) {
		return nil, nil, "log line count mismatch"
	}
	return
}

func runC17C(env *mc.Env) {
	type job struct {
		t  *num.Type
		vm bool
		n  int
	}
	var jobs []job
	for _, t := range num.Types {
		maxLen := sizeOf(t) + 1
		if sizeOf(t) == 0 {
			maxLen = 34
		}
		for n := 0; n <= maxLen; n++ {
			for _, vm := range []bool{false, true} {
				jobs = append(jobs, job{t, vm, n})
			}
		}
	}
	mc.ParallelFor(env, len(jobs), func(i int) {
		j := jobs[i]
		arrays := byteArraysOfLen(j.n)
		var dc int64
		viol, classes, herr := judgeBytes(j.t, arrays, j.vm, &dc)
		if herr != "" {
			env.R.HarnessError("bytes %s len %d: %s", j.t.Name, j.n, herr)
			return
		}
		env.R.EvalN(int64(len(arrays)))
		env.R.DontCare.Add(dc)
		for _, v := range viol {
			env.R.Violation(v.sig, c17Case{Part: "bytes", Via: engineName(j.vm), Type: j.t.Name, Bytes: []int{j.n}}, v.detail)
		}
		for k, n := range classes {
			env.R.Class(k, nil)
			env.R.ClassN(k, n-1)
		}
		if len(viol) == 0 {
			env.R.Nontrivial(fmt.Sprintf("C|%s|%d", j.t.Name, j.n))
		}
	})
}

// ---------------------------------------------------------------------------
// Part D: addresses, hex strings, paths

func addressValues() []uint64 {
	set := map[uint64]struct{}{}
	nz := []uint64{0x01, 0x7f, 0x80, 0xff}
	set[0] = struct{}{}
	for i := 0; i < 8; i++ {
		for _, a := range nz {
			set[a<<(8*i)] = struct{}{}
			for j := i + 1; j < 8; j++ {
				for _, b := range nz {
					set[a<<(8*i)|b<<(8*j)] = struct{}{}
				}
			}
		}
	}
	for _, b := range nz {
		var v uint64
		for i := 0; i < 8; i++ {
			v |= b << (8 * i)
		}
		set[v] = struct{}{}
	}
	out := make([]uint64, 0, len(set))
	for v := range set {
		out = append(out, v)
	}
	sort.Slice(out, func(i, j int) bool { return out[i] < out[j] })
	return out
}

func judgeAddresses(addrs []uint64, vm bool) (viol []c17Violation, harness string) {
	via := engineName(vm)
	var sb strings.Builder
	sb.WriteString("access(all) fun main() {\n let xs: [Address] = [")
	for i, a := range addrs {
		if i > 0 {
			sb.WriteString(", ")
		}
		fmt.Fprintf(&sb, "0x%x", a)
	}
	sb.WriteString("]\n for a in xs {\n  log(Address.fromString(a.toString()))\n  log(Address.fromBytes(a.toBytes()))\n }\n}")
	res := runScript(sb.String(), vm)
	if !res.OK() || len(res.Logs) != 2*len(addrs) {
		if len(addrs) == 1 {
			step := []string{"fromString-of-toString", "fromBytes-of-toBytes"}[len(res.Logs)%2]
			return []c17Violation{{sig: fmt.Sprintf("address|%s|%s-failed-%s", via, step, res.Class),
				detail: fmt.Sprintf("address 0x%x [%s]: %s", addrs[0], via, shortErr(res))}}, ""
		}
		for _, a := range addrs {
			v, h := judgeAddresses([]uint64{a}, vm)
			viol = append(viol, v...)
			if h != "" {
				return nil, h
			}
		}
		return viol, ""
	}
	for i, a := range addrs {
		for k, what := range []string{"fromString-of-toString", "fromBytes-of-toBytes"} {
			line := res.Logs[2*i+k]
			got, err := strconv.ParseUint(strings.TrimPrefix(line, "0x"), 16, 64)
			if !strings.HasPrefix(line, "0x") || err != nil || got != a {
				viol = append(viol, c17Violation{sig: fmt.Sprintf("address|%s|%s", via, what),
					detail: fmt.Sprintf("address 0x%x [%s]: %s gave %s", a, via, what, line)})
			}
		}
	}
	return viol, ""
}

func hexByteArrays() [][]byte {
	var out [][]byte
	for n := 0; n <= 3; n++ {
		out = append(out, byteArraysOfLen(n)...)
	}
	for b := 0; b < 256; b++ {
		out = append(out, []byte{byte(b)})
	}
	out = append(out, byteArraysOfLen(9)...)
	return out
}

func judgeHex(arrays [][]byte, vm bool) (viol []c17Violation, harness string) {
	via := engineName(vm)
	var sb strings.Builder
	sb.WriteString("access(all) fun main() {\n let bs: [[UInt8]] = [")
	for i, b := range arrays {
		if i > 0 {
			sb.WriteString(", ")
		}
		sb.WriteString(byteLiteral(b))
	}
	// bytes -> hex -> bytes, and hex -> bytes -> hex
	sb.WriteString("]\n for b in bs {\n  let h = String.encodeHex(b)\n  log(h.decodeHex())\n  log(String.encodeHex(h.decodeHex()) == h)\n }\n}")
	res := runScript(sb.String(), vm)
	if !res.OK() || len(res.Logs) != 2*len(arrays) {
		if len(arrays) == 1 {
			return []c17Violation{{sig: fmt.Sprintf("hex|%s|failed-%s", via, res.Class),
				detail: fmt.Sprintf("bytes %s [%s]: encodeHex/decodeHex failed: %s", byteLiteral(arrays[0]), via, shortErr(res))}}, ""
		}
		for _, b := range arrays {
			v, h := judgeHex([][]byte{b}, vm)
			viol = append(viol, v...)
			if h != "" {
				return nil, h
			}
		}
		return viol, ""
	}
	for i, b := range arrays {
		got, ok := parseByteLine(res.Logs[2*i])
		if !ok || string(got) != string(b) {
			viol = append(viol, c17Violation{sig: fmt.Sprintf("hex|%s|decodeHex-of-encodeHex", via),
				detail: fmt.Sprintf("String.encodeHex(%s).decodeHex() [%s] = %s", byteLiteral(b), via, res.Logs[2*i])})
		}
		if res.Logs[2*i+1] != "true" {
			viol = append(viol, c17Violation{sig: fmt.Sprintf("hex|%s|encodeHex-of-decodeHex", via),
				detail: fmt.Sprintf("h = String.encodeHex(%s): String.encodeHex(h.decodeHex()) != h [%s]", byteLiteral(b), via)})
		}
	}
	return viol, ""
}

var pathIdentifiers = []string{"a", "foo", "a_b", "A1", "_", "a b", "", "é", "é", "0a", "a/b", "/a", "a-b", "storage", "x.y", "\U0001F1EB\U0001F1F7"}

func judgePaths(domain string, ids []string, vm bool, dontCare *int64) (viol []c17Violation, harness string) {
	via := engineName(vm)
	ctor := map[string]string{"storage": "StoragePath", "public": "PublicPath"}[domain]
	prefix := "/" + domain + "/"
	var sb strings.Builder
	sb.WriteString("access(all) fun main() {\n let ids: [String] = [")
	for i, id := range ids {
		if i > 0 {
			sb.WriteString(", ")
		}
		sb.WriteString(quoteCadence(id))
	}
	// identifier -> path -> string -> identifier -> path
	fmt.Fprintf(&sb, "]\n for id in ids {\n  let p = %s(identifier: id)\n  if p == nil { log(\"refused\"); continue }\n  let s = p!.toString()\n  log(s)\n"+
		"  let id2 = s.slice(from: %d, upTo: s.length)\n  let q = %s(identifier: id2)\n  log(q != nil && q! == p! && id2 == id)\n }\n}", ctor, len(prefix), ctor)
	res := runScript(sb.String(), vm)
	if !res.OK() {
		if len(ids) == 1 {
			return []c17Violation{{sig: fmt.Sprintf("path|%s|%s|failed-%s", domain, via, res.Class),
				detail: fmt.Sprintf("%s(identifier: %q) round trip [%s] failed: %s", ctor, ids[0], via, shortErr(res))}}, ""
		}
		for _, id := range ids {
			v, h := judgePaths(domain, []string{id}, vm, dontCare)
			viol = append(viol, v...)
			if h != "" {
				return nil, h
			}
		}
		return viol, ""
	}
	k := 0
	for _, id := range ids {
		if k >= len(res.Logs) {
			return nil, "path script: missing log lines"
		}
		if res.Logs[k] == `"refused"` {
			// the constructor returns an optional: which identifiers it refuses is not in the sentence
			*dontCare++
			k++
			continue
		}
		if k+1 >= len(res.Logs) {
			return nil, "path script: missing log lines"
		}
		if res.Logs[k+1] != "true" {
			viol = append(viol, c17Violation{sig: fmt.Sprintf("path|%s|%s|round-trip", domain, via),
				detail: fmt.Sprintf("%s(identifier: %q) [%s]: toString gave %s, and rebuilding the path from it gave a different path", ctor, id, via, res.Logs[k])})
		}
		k += 2
	}
	return viol, ""
}

func runC17D(env *mc.Env) {
	addrs := addressValues()
	hexes := hexByteArrays()
	env.R.Set("addresses", len(addrs))
	env.R.Set("hex_byte_arrays", len(hexes))
	var jobs []func()
	for _, vm := range []bool{false, true} {
		vm := vm
		for lo := 0; lo < len(addrs); lo += 200 {
			part := addrs[lo:min(lo+200, len(addrs))]
			jobs = append(jobs, func() {
				viol, herr := judgeAddresses(part, vm)
				if herr != "" {
					env.R.HarnessError("addresses: %s", herr)
					return
				}
				env.R.EvalN(int64(2 * len(part)))
				for _, v := range viol {
					env.R.Violation(v.sig, c17Case{Part: "address", Via: engineName(vm), Values: u64Strings(part)}, v.detail)
				}
				if len(viol) == 0 {
					env.R.Class("address-roundtrip-ok", nil)
					for _, a := range part {
						env.R.Nontrivial(fmt.Sprintf("D|addr|%x", a))
					}
				}
			})
		}
		for lo := 0; lo < len(hexes); lo += 150 {
			part := hexes[lo:min(lo+150, len(hexes))]
			jobs = append(jobs, func() {
				viol, herr := judgeHex(part, vm)
				if herr != "" {
					env.R.HarnessError("hex: %s", herr)
					return
				}
				env.R.EvalN(int64(2 * len(part)))
				for _, v := range viol {
					env.R.Violation(v.sig, c17Case{Part: "hex", Via: engineName(vm)}, v.detail)
				}
				if len(viol) == 0 {
					env.R.Class("hex-roundtrip-ok", nil)
					for _, b := range part {
						env.R.Nontrivial(fmt.Sprintf("D|hex|%x", b))
					}
				}
			})
		}
		for _, domain := range []string{"storage", "public"} {
			domain := domain
			jobs = append(jobs, func() {
				var dc int64
				viol, herr := judgePaths(domain, pathIdentifiers, vm, &dc)
				if herr != "" {
					env.R.HarnessError("paths: %s", herr)
					return
				}
				env.R.EvalN(int64(len(pathIdentifiers)))
				env.R.DontCare.Add(dc)
				for _, v := range viol {
					env.R.Violation(v.sig, c17Case{Part: "path", Via: engineName(vm), Type: domain}, v.detail)
				}
				if len(viol) == 0 {
					env.R.Class("path-roundtrip-ok", nil)
					for _, id := range pathIdentifiers {
						env.R.Nontrivial("D|path|" + domain + "|" + id)
					}
				}
			})
		}
	}
	mc.ParallelFor(env, len(jobs), func(i int) { jobs[i]() })
}

func u64Strings(xs []uint64) []string {
	out := make([]string, len(xs))
	for i, x := range xs {
		out[i] = strconv.FormatUint(x, 10)
	}
	return out
}

// ---------------------------------------------------------------------------

func runC17(env *mc.Env) {
	runC17A(env)
	runC17B(env)
	runC17C(env)
	runC17D(env)
	if !env.Expired() {
		env.R.BoundCompleted(fmt.Sprintf("fromString: all strings of length <= %d over %q + boundary renderings x 27 types; round trips on B(T); byte arrays of every length 0..size+1; addresses, hex, paths", mc.Pick(env, 5, 6), c17Alphabet))
	}
}

func replayC17(env *mc.Env, raw json.RawMessage) (bool, string) {
	var c c17Case
	if err := json.Unmarshal(raw, &c); err != nil {
		return false, err.Error()
	}
	vm := c.Via == "vm"
	var dc int64
	var viol []c17Violation
	var herr string
	switch c.Part {
	case "fromString":
		return replayFromString(c)
	case "roundtrip":
		var vals []*big.Int
		for _, s := range c.Values {
			vals = append(vals, bi(s))
		}
		viol, _, herr = judgeRoundTrip(num.ByName[c.Type], vals, vm)
	case "bytes":
		viol, _, herr = judgeBytes(num.ByName[c.Type], byteArraysOfLen(c.Bytes[0]), vm, &dc)
	case "address":
		var as []uint64
		for _, s := range c.Values {
			a, _ := strconv.ParseUint(s, 10, 64)
			as = append(as, a)
		}
		viol, herr = judgeAddresses(as, vm)
	case "hex":
		viol, herr = judgeHex(hexByteArrays(), vm)
	case "path":
		viol, herr = judgePaths(c.Type, pathIdentifiers, vm, &dc)
	default:
		return false, "unknown part " + c.Part
	}
	if herr != "" {
		return false, "harness: " + herr
	}
	if len(viol) > 0 {
		return true, viol[0].sig + ": " + viol[0].detail
	}
	return false, "no violation"
}

func init() {
	mc.Register(&mc.Check{
		ID: "C17",
		Rule: "A: every string of length <= 5 (thorough: 6) over {+ - 0 1 9 _ . space a x} and ~2000 perturbed renderings of every type's min-1/min/max/max+1 x all 27 numeric types through the parsers behind T.fromString (and the strings of length <= 2 + renderings as scripts on both engines), judged per width group (signed/unsigned x integer/fixed): returned values lie in the type, plain decimals denote their value, accepting widths agree, a width rejects only values it cannot represent; " +
			"B: toString/fromString and toBigEndianBytes/fromBigEndianBytes round trips on the boundary lattice B(T) of every type, both engines; C: fromBigEndianBytes on byte arrays of every length 0..size+1 over {00,01,7f,80,ff} (full product up to 3 bytes, first/fill/last beyond): nil iff longer than the size; D: address, hex and path round trips. " +
			"non-trivial = distinct (group, string) accepted by at least one width, distinct round-tripped value, distinct (type, length).",
		Assumptions: []string{"math/big decimal/binary conversion is the reference", "the direct parser call is the function T.fromString dispatches to (cross-checked by scripts on both engines for the short strings and boundary renderings)",
			"Word types belong to the unsigned-integer width group"},
		Run:    runC17,
		Replay: replayC17,
	})
}

package text

import (
	"encoding/json"
	"fmt"
	"math/big"
	"sort"
	"strings"

	"verif/mc"
	"verif/num"
	"verif/rt"
)

// C21: "A successfully constructed InclusiveRange<T>(start, end, step) denotes
// the finite sequence start, start+step, ... of values not beyond end.
// Iterating it yields exactly that sequence and terminates without error, even
// when end is T's minimum or maximum. contains(x) returns true exactly for the
// members of that sequence and never fails."
//
// Enumerated: every integer type x every (start, end, step) of a boundary grid
// (plus the two-argument constructor), scripts on both engines.
// Oracle: math/big arithmetic sequence.

// iteration is observed on at most iterCap members: complete for the 8-bit
// types; for wider types only a prefix can be observed anyway.
func iterCap(t *num.Type, thorough bool) int {
	switch {
	case t.Bits == 8:
		return 260 // more than any 8-bit range has members
	case thorough:
		return 300
	}
	return 24
}

type rangeCase struct {
	Type   string `json:"type"`
	Start  string `json:"start"`
	End    string `json:"end"`
	Step   string `json:"step"` // "" = two-argument constructor (default step)
	VM     bool   `json:"vm"`
	Cap    int    `json:"cap"` // members observed at most
	Op     string `json:"op"` // "iterate" | "contains"
	Needle string `json:"needle,omitempty"`
}

// rangeGrid is B'(T) of the design.
func rangeGrid(t *num.Type, thorough bool) []*big.Int {
	set := map[string]*big.Int{}
	put := func(x *big.Int) {
		if t.InRange(x) {
			set[x.String()] = x
		}
	}
	puti := func(xs ...int64) {
		for _, x := range xs {
			put(big.NewInt(x))
		}
	}
	lo, hi := t.Min, t.Max
	if lo == nil {
		lo = new(big.Int).Neg(new(big.Int).Lsh(big.NewInt(1), 64))
	}
	if hi == nil {
		hi = new(big.Int).Lsh(big.NewInt(1), 64)
	}
	near := func(base *big.Int, ds ...int64) {
		for _, d := range ds {
			put(new(big.Int).Add(base, big.NewInt(d)))
		}
	}
	if t.Bits == 8 {
		// 20-value grid, complete cube
		near(lo, 0, 1, 2, 3)
		near(hi, 0, -1, -2, -3)
		puti(-3, -2, -1, 0, 1, 2, 3, 5)
		if t.Signed() {
			puti(-65, -64, 63, 64)
		} else {
			puti(4, 7, 8, 63, 64, 100, 127, 128)
		}
		if thorough {
			near(lo, 4, 5, 6, 7)
			near(hi, -4, -5, -6, -7)
			puti(-100, -50, -10, -7, -5, 7, 10, 50, 100, 200)
		}
	} else {
		near(lo, 0, 1)
		near(hi, 0, -1)
		puti(-2, -1, 0, 1, 2, 3)
		if thorough {
			near(lo, 2, 3, 299)
			near(hi, -2, -3, -299)
			puti(-300, -7, -3, 5, 7, 300)
			h := new(big.Int).Rsh(hi, 1)
			near(h, 0, 1)
			if t.Signed() {
				near(new(big.Int).Neg(h), 0, -1)
			}
		}
	}
	out := make([]*big.Int, 0, len(set))
	for _, v := range set {
		out = append(out, v)
	}
	sort.Slice(out, func(i, j int) bool { return out[i].Cmp(out[j]) < 0 })
	return out
}

// rangeModel is the reference: the arithmetic sequence start + i*step not beyond end.
type rangeModel struct {
	start, end, step *big.Int
}

// newRangeModel returns the model of a range that was successfully
// constructed. step == nil means the default step: +1, or -1 if start > end.
func newRangeModel(start, end, step *big.Int) rangeModel {
	if step == nil {
		step = big.NewInt(1)
		if start.Cmp(end) > 0 {
			step = big.NewInt(-1)
		}
	}
	return rangeModel{start, end, step}
}

func (m rangeModel) beyond(x *big.Int) bool {
	if m.step.Sign() > 0 {
		return x.Cmp(m.end) > 0
	}
	return x.Cmp(m.end) < 0
}

// prefix returns the first (at most n) members.
func (m rangeModel) prefix(n int) []*big.Int {
	var out []*big.Int
	x := new(big.Int).Set(m.start)
	for len(out) < n && !m.beyond(x) {
		out = append(out, x)
		x = new(big.Int).Add(x, m.step)
	}
	return out
}

// count is the number of members (may be astronomically large).
func (m rangeModel) count() *big.Int {
	if m.beyond(m.start) {
		return big.NewInt(0)
	}
	d := new(big.Int).Sub(m.end, m.start)
	d.Quo(d, m.step) // both have the same sign (or d == 0): exact floor
	return d.Add(d, big.NewInt(1))
}

func (m rangeModel) last() *big.Int {
	c := m.count()
	if c.Sign() == 0 {
		return nil
	}
	c.Sub(c, big.NewInt(1))
	c.Mul(c, m.step)
	return c.Add(c, m.start)
}

func (m rangeModel) contains(x *big.Int) bool {
	if m.beyond(m.start) || m.beyond(x) {
		return false
	}
	// x must also not be "before" start
	if m.step.Sign() > 0 && x.Cmp(m.start) < 0 {
		return false
	}
	if m.step.Sign() < 0 && x.Cmp(m.start) > 0 {
		return false
	}
	d := new(big.Int).Sub(x, m.start)
	return d.Rem(d, m.step).Sign() == 0
}

// rangeScript builds one script: construct, log("c"), optionally iterate
// (one log line per member, at most c.Cap, then log("d")), then one
// log line per contains(needle) call.
func rangeScript(c rangeCase, iterate bool, needles []*big.Int) string {
	var sb strings.Builder
	sb.WriteString("access(all) fun main() {\n")
	fmt.Fprintf(&sb, " let s: %s = %s\n let e: %s = %s\n", c.Type, c.Start, c.Type, c.End)
	if c.Step != "" {
		fmt.Fprintf(&sb, " let st: %s = %s\n let r = InclusiveRange(s, e, step: st)\n", c.Type, c.Step)
	} else {
		sb.WriteString(" let r = InclusiveRange(s, e)\n")
	}
	sb.WriteString(" log(\"c\")\n")
	if iterate {
		fmt.Fprintf(&sb, " var k = 0\n for x in r {\n  log(x)\n  k = k + 1\n  if k >= %d { break }\n }\n log(\"d\")\n", c.Cap)
	}
	if len(needles) > 0 {
		fmt.Fprintf(&sb, " let ns: [%s] = [", c.Type)
		for i, n := range needles {
			if i > 0 {
				sb.WriteString(", ")
			}
			sb.WriteString(n.String())
		}
		sb.WriteString("]\n for n in ns { log(r.contains(n)) }\n")
	}
	sb.WriteString("}")
	return sb.String()
}

// rangeObs is what one run of rangeScript showed.
type rangeObs struct {
	constructed bool
	iterDone    bool     // log("d") was reached
	members     []string // members logged (complete iff iterDone)
	answers     []string // contains answers logged
	res         *rt.Result
	harness     string
}

func observeRange(c rangeCase, iterate bool, needles []*big.Int) rangeObs {
	res := runScript(rangeScript(c, iterate, needles), c.VM)
	o := rangeObs{res: res}
	logs := res.Logs
	if len(logs) == 0 {
		if res.OK() {
			o.harness = "script succeeded without reaching the first log line"
		}
		return o
	}
	if logs[0] != `"c"` {
		o.harness = "unexpected first log line " + logs[0]
		return o
	}
	o.constructed = true
	logs = logs[1:]
	if iterate {
		for len(logs) > 0 && logs[0] != `"d"` {
			o.members = append(o.members, logs[0])
			logs = logs[1:]
		}
		if len(logs) > 0 {
			o.iterDone = true
			logs = logs[1:]
		} else if res.OK() {
			o.harness = "script succeeded without reaching the end-of-iteration log line"
		}
	}
	o.answers = logs
	if len(o.answers) > len(needles) || (res.OK() && len(o.answers) != len(needles)) {
		o.harness = fmt.Sprintf("unexpected number of contains log lines: %d for %d needles", len(o.answers), len(needles))
	}
	return o
}

func kindName(t *num.Type) string {
	switch t.Kind {
	case num.Int:
		return "signed"
	case num.UInt:
		return "unsigned"
	}
	return "word"
}

type rangeVerdict struct {
	constructed bool
	sig         string // "" = fine
	detail      string
	class       string
}

// judgeIterate judges the iteration part of an observation of a constructed range.
func judgeIterate(c rangeCase, o rangeObs) rangeVerdict {
	t := num.ByName[c.Type]
	res := o.res
	var step *big.Int
	if c.Step != "" {
		step = bi(c.Step)
	}
	m := newRangeModel(bi(c.Start), bi(c.End), step)
	dir := "asc"
	if m.step.Sign() < 0 {
		dir = "desc"
	}
	want := m.prefix(c.Cap)
	// structural input class: does the element after the last member leave T's range?
	inClass := "next-in-type-range"
	if l := m.last(); l != nil && !t.InRange(new(big.Int).Add(l, m.step)) {
		inClass = "next-beyond-type-bound"
	}
	sigBase := fmt.Sprintf("InclusiveRange.iterate|%s|%s|%s|%s|", kindName(t), engineName(c.VM), dir, inClass)
	desc := fmt.Sprintf("for x in InclusiveRange<%s>(%s, %s, step: %s) [%s]", c.Type, c.Start, c.End, m.step, engineName(c.VM))
	if !o.iterDone {
		return rangeVerdict{constructed: true, sig: sigBase + "failed-" + res.Class,
			detail: fmt.Sprintf("%s: expected %d members %s, iteration failed after %d members: %s", desc, len(want), showSeq(want), len(o.members), shortErr(res))}
	}
	got := make([]*big.Int, len(o.members))
	for i, s := range o.members {
		x, ok := new(big.Int).SetString(s, 10)
		if !ok {
			return rangeVerdict{constructed: true, sig: "harness", detail: "member log line is not an integer: " + s}
		}
		got[i] = x
	}
	bad := ""
	switch {
	case len(got) > len(want):
		bad = "too-many-members"
	case len(got) < len(want):
		bad = "too-few-members"
	default:
		for i := range got {
			if got[i].Cmp(want[i]) != 0 {
				bad = "wrong-member"
				break
			}
		}
	}
	if bad != "" {
		return rangeVerdict{constructed: true, sig: sigBase + bad,
			detail: fmt.Sprintf("%s: expected %s, got %s", desc, showSeq(want), showSeq(got))}
	}
	cls := "iter-" + dir
	switch {
	case len(want) == 1:
		cls += "-single"
	case len(want) >= c.Cap:
		cls += "-capped"
	case m.last().Cmp(m.end) == 0:
		cls += "-reaches-end"
	default:
		cls += "-stops-before-end"
	}
	if inClass == "next-beyond-type-bound" {
		cls += "-at-type-bound"
	}
	return rangeVerdict{constructed: true, class: cls}
}

func showSeq(xs []*big.Int) string {
	var parts []string
	for i, x := range xs {
		if i >= 4 && i < len(xs)-3 {
			if i == 4 {
				parts = append(parts, fmt.Sprintf("...(%d)...", len(xs)-7))
			}
			continue
		}
		parts = append(parts, x.String())
	}
	return "[" + strings.Join(parts, ",") + "]"
}

type containsVerdict struct {
	needle *big.Int
	sig    string
	detail string
	class  string
}

// judgeContains judges the contains answers of first (an observation made with
// needles); after a failing call the remaining needles are run in a further script.
func judgeContains(c rangeCase, needles []*big.Int, first *rangeObs) (out []containsVerdict, harness string) {
	t := num.ByName[c.Type]
	var step *big.Int
	if c.Step != "" {
		step = bi(c.Step)
	}
	m := newRangeModel(bi(c.Start), bi(c.End), step)
	rest := needles
	for len(rest) > 0 {
		var o rangeObs
		if first != nil {
			o, first = *first, nil
		} else {
			o = observeRange(c, false, rest)
		}
		if o.harness != "" {
			return nil, o.harness
		}
		if !o.constructed {
			return nil, "range was constructed before but not in the contains script"
		}
		for i, a := range o.answers {
			out = append(out, judgeOneContains(t, c, m, rest[i], a, ""))
		}
		if o.res.OK() {
			break
		}
		// the call for rest[len(answers)] failed
		n := rest[len(o.answers)]
		out = append(out, judgeOneContains(t, c, m, n, "", o.res.Class+": "+shortErr(o.res)))
		rest = rest[len(o.answers)+1:]
	}
	return out, ""
}

func judgeOneContains(t *num.Type, c rangeCase, m rangeModel, n *big.Int, answer string, failure string) containsVerdict {
	want := m.contains(n)
	// structural class of the needle
	var pos string
	diff := new(big.Int).Sub(n, m.start)
	last := m.last()
	switch {
	case last == nil:
		pos = "empty-range"
	case n.Cmp(m.start) == 0:
		pos = "start"
	case n.Cmp(m.end) == 0 && last.Cmp(m.end) != 0:
		pos = "unreachable-end"
	case n.Cmp(m.end) == 0:
		pos = "end"
	case outside(m, n):
		pos = "outside"
	case want:
		pos = "inner-member"
	default:
		pos = "between-non-member"
	}
	if !t.InRange(diff) {
		pos += "+needle-minus-start-beyond-type-bound"
	}
	v := containsVerdict{needle: n}
	sigBase := fmt.Sprintf("InclusiveRange.contains|%s|%s|%s|", kindName(t), engineName(c.VM), pos)
	desc := fmt.Sprintf("InclusiveRange<%s>(%s, %s, step: %s).contains(%s) [%s]", c.Type, c.Start, c.End, m.step, n, engineName(c.VM))
	if failure != "" {
		v.sig = sigBase + "failed-" + strings.SplitN(failure, ":", 2)[0]
		v.detail = fmt.Sprintf("%s: expected %v, call failed: %s", desc, want, failure)
		return v
	}
	if answer != fmt.Sprint(want) {
		v.sig = sigBase + "answered-" + answer
		v.detail = fmt.Sprintf("%s: expected %v, got %s", desc, want, answer)
		return v
	}
	v.class = "contains-" + pos + "-" + answer
	return v
}

// outside: n is not within [start, end] (in the range's direction).
func outside(m rangeModel, n *big.Int) bool {
	if m.step.Sign() > 0 {
		return n.Cmp(m.start) < 0 || n.Cmp(m.end) > 0
	}
	return n.Cmp(m.start) > 0 || n.Cmp(m.end) < 0
}

// rangeNeedles: the grid, plus start/end/members +-1 for the first and last three members.
func rangeNeedles(t *num.Type, grid []*big.Int, m rangeModel) []*big.Int {
	set := map[string]*big.Int{}
	put := func(x *big.Int) {
		if t.InRange(x) {
			set[x.String()] = x
		}
	}
	for _, g := range grid {
		put(g)
	}
	around := func(x *big.Int) {
		for d := int64(-1); d <= 1; d++ {
			put(new(big.Int).Add(x, big.NewInt(d)))
		}
	}
	around(m.start)
	around(m.end)
	if l := m.last(); l != nil {
		x := new(big.Int).Set(m.start)
		y := l
		for i := 0; i < 3; i++ {
			if !m.beyond(x) {
				around(x)
			}
			if !outside(m, y) {
				around(y)
			}
			x = new(big.Int).Add(x, m.step)
			y = new(big.Int).Sub(y, m.step)
		}
	}
	out := make([]*big.Int, 0, len(set))
	for _, v := range set {
		out = append(out, v)
	}
	sort.Slice(out, func(i, j int) bool { return out[i].Cmp(out[j]) < 0 })
	return out
}

func runC21(env *mc.Env) {
	type job struct {
		t     *num.Type
		grid  []*big.Int
		start *big.Int
	}
	var jobs []job
	gridSizes := map[string]int{}
	for _, t := range num.Integers() {
		g := rangeGrid(t, env.Thorough())
		gridSizes[t.Name] = len(g)
		for _, s := range g {
			jobs = append(jobs, job{t, g, s})
		}
	}
	env.R.Set("grid_sizes", gridSizes)
	mc.ParallelFor(env, len(jobs), func(i int) {
		j := jobs[i]
		classes := map[string]int64{}
		for _, e := range j.grid {
			steps := append([]*big.Int{nil}, j.grid...)
			for _, st := range steps {
				for _, vm := range []bool{false, true} {
					c := rangeCase{Type: j.t.Name, Start: j.start.String(), End: e.String(), VM: vm, Cap: iterCap(j.t, env.Thorough())}
					if st != nil {
						c.Step = st.String()
					}
					c.Op = "iterate"
					if st != nil && st.Sign() == 0 {
						// "the finite sequence start, start+step, ..." is not defined for step 0:
						// every implementation seen refuses it; if one accepted it, that is a don't-care.
						o := observeRange(c, false, nil)
						env.R.Eval()
						if o.constructed {
							env.R.DontCare.Add(1)
							classes["zero-step-accepted"]++
						} else {
							classes["ctor-refused:"+o.res.Class]++
						}
						continue
					}
					m := newRangeModel(j.start, e, st)
					needles := rangeNeedles(j.t, j.grid, m)
					o := observeRange(c, true, needles)
					env.R.Eval()
					if o.harness != "" {
						env.R.HarnessError("%+v: %s", c, o.harness)
						continue
					}
					if !o.constructed {
						// "A successfully constructed InclusiveRange ...": the sentence says nothing about
						// ranges the constructor refuses; the refusal class is recorded, never judged.
						classes["ctor-refused:"+o.res.Class]++
						continue
					}
					env.R.Nontrivial(fmt.Sprintf("%s|%s|%s|%s", c.Type, c.Start, c.End, c.Step))
					v := judgeIterate(c, o)
					if v.sig == "harness" {
						env.R.HarnessError("%+v: %s", c, v.detail)
						continue
					}
					if v.sig != "" {
						env.R.Violation(v.sig, c, v.detail)
					} else {
						classes[v.class]++
					}
					c.Op = "contains"
					first := &o
					if !o.iterDone {
						first = nil // the script died in the loop: ask contains in a script of its own
					}
					vs, herr := judgeContains(c, needles, first)
					if herr != "" {
						env.R.HarnessError("%+v: contains script: %s", c, herr)
						continue
					}
					env.R.EvalN(int64(len(vs)))
					for _, cv := range vs {
						if cv.sig != "" {
							cc := c
							cc.Needle = cv.needle.String()
							env.R.Violation(cv.sig, cc, cv.detail)
						} else {
							classes[cv.class]++
						}
					}
				}
			}
		}
		for k, n := range classes {
			kk := k
			env.R.Class(kk, func() any { return fmt.Sprintf("%s start=%s (first of block)", j.t.Name, j.start) })
			env.R.ClassN(kk, n-1)
		}
	})
	if !env.Expired() {
		env.R.BoundCompleted("all 21 integer types x full (start,end,step) cube of the boundary grid + default step, both engines")
	}
}

func replayC21(env *mc.Env, raw json.RawMessage) (bool, string) {
	var c rangeCase
	if err := json.Unmarshal(raw, &c); err != nil {
		return false, err.Error()
	}
	t := num.ByName[c.Type]
	if t == nil {
		return false, "unknown type"
	}
	if c.Op == "iterate" {
		o := observeRange(c, true, nil)
		if o.harness != "" || !o.constructed {
			return false, "harness/not constructed: " + o.harness
		}
		v := judgeIterate(c, o)
		return v.sig != "" && v.sig != "harness", v.sig + " " + v.detail
	}
	vs, herr := judgeContains(c, []*big.Int{bi(c.Needle)}, nil)
	if herr != "" || len(vs) != 1 {
		return false, "harness: " + herr
	}
	return vs[0].sig != "", vs[0].sig + " " + vs[0].detail
}

func init() {
	mc.Register(&mc.Check{
		ID: "C21",
		Rule: "every integer type (21) x every (start, end, step) of the boundary grid B'(T) (min, min+1, -2..3, max-1, max; 2^64 stands in for the bounds of Int/UInt; a 20-value grid for the 8-bit types) plus the two-argument constructor, as scripts on both engines: " +
			"for-in is observed on up to 260 members (8-bit types: always complete) / 24 (quick) / 300 (thorough), contains(x) is called for every grid value and start/end/first-three/last-three members +-1. Oracle: math/big arithmetic sequence. non-trivial = distinct successfully constructed range.",
		Assumptions: []string{"math/big is the reference arithmetic", "constructor refusals are outside the sentence (\"a successfully constructed\") and are only counted"},
		Run:         runC21,
		Replay:      replayC21,
	})
}

package host

import (
	"bytes"
	"fmt"
	"os"
	"os/exec"
	"strconv"
	"strings"
	"syscall"
	"time"

	"verif/mc"
)

// Worker subprocesses: the check binary re-executes itself with
// `<Cxx> --tier <tier> --sub <selector>`; mc.Main hands the selector to the
// check's Run as env.Sub, and Run dispatches to the worker body, which writes
// its result to stdout and exits without going through mc.Finish.

type subResult struct {
	Stdout   []byte
	Stderr   string
	Exit     int            // exit code, -1 if killed by a signal
	Signal   syscall.Signal // non-zero if killed by a signal
	CPU      time.Duration  // user+system CPU time of the child
	StartErr error
}

type subLimits struct {
	CPUSeconds uint64 // RLIMIT_CPU soft limit (SIGXCPU -> death); 0 = none
	ASBytes    uint64 // RLIMIT_AS; 0 = none
	GoMaxProcs int
}

// spawn runs one worker and waits for it. Limits are applied by the child to
// itself first thing (applyLimits), through environment variables.
func spawn(env *mc.Env, id string, selector string, lim subLimits) subResult {
	cmd := exec.Command(os.Args[0], id, "--tier", env.Tier, "--sub", selector)
	var out, errb bytes.Buffer
	cmd.Stdout = &out
	cmd.Stderr = &errb
	cmd.Env = append(os.Environ(),
		"VERIF_SUB_CPU="+strconv.FormatUint(lim.CPUSeconds, 10),
		"VERIF_SUB_AS="+strconv.FormatUint(lim.ASBytes, 10),
		"GOTRACEBACK=single",
	)
	if lim.GoMaxProcs > 0 {
		cmd.Env = append(cmd.Env, "GOMAXPROCS="+strconv.Itoa(lim.GoMaxProcs))
	}
	err := cmd.Run()
	r := subResult{Stdout: out.Bytes(), Stderr: errb.String()}
	if cmd.ProcessState != nil {
		r.CPU = cmd.ProcessState.UserTime() + cmd.ProcessState.SystemTime()
		r.Exit = cmd.ProcessState.ExitCode()
		if ws, ok := cmd.ProcessState.Sys().(syscall.WaitStatus); ok && ws.Signaled() {
			r.Signal = ws.Signal()
			r.Exit = -1
		}
	} else {
		r.StartErr = err
	}
	return r
}

// applyLimits is called by a worker before it does anything else.
func applyLimits() {
	if s := os.Getenv("VERIF_SUB_CPU"); s != "" && s != "0" {
		n, _ := strconv.ParseUint(s, 10, 64)
		// soft limit: SIGXCPU (default action: terminate); hard limit a little later: SIGKILL
		_ = syscall.Setrlimit(syscall.RLIMIT_CPU, &syscall.Rlimit{Cur: n, Max: n + 5})
	}
	if s := os.Getenv("VERIF_SUB_AS"); s != "" && s != "0" {
		n, _ := strconv.ParseUint(s, 10, 64)
		_ = syscall.Setrlimit(syscall.RLIMIT_AS, &syscall.Rlimit{Cur: n, Max: n})
	}
}

// parseSel parses "k=v;k=v".
func parseSel(s string) map[string]string {
	m := map[string]string{}
	for _, kv := range strings.Split(s, ";") {
		if i := strings.IndexByte(kv, '='); i > 0 {
			m[kv[:i]] = kv[i+1:]
		}
	}
	return m
}

func selInt(m map[string]string, k string) int {
	n, err := strconv.Atoi(m[k])
	if err != nil {
		panic(fmt.Sprintf("worker selector: bad %s=%q", k, m[k]))
	}
	return n
}

func tail(s string, n int) string {
	if len(s) > n {
		return "…" + s[len(s)-n:]
	}
	return s
}
